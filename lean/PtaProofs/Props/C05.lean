/-
  PtaProofs.Props.C05 — layer-rule verdicts follow the documented semantics, one unit per layer (property C05).

  For EVERY well-formed architecture `a`, EVERY graph `g` representing it, EVERY layered architecture `larch` whose
  layers are name lists or regex layers (`ls` = the layers with every regex resolved to the modules it matches),
  and EVERY layer rule `r` in the oracle's domain (`layerDomain'`, relaxed after audit finding F6: non-empty layers
  listing existing modules, modules of DIFFERENT layers pairwise unrelated — inside one layer anything goes: a regex layer
  may match a package and its sub modules, a name layer may list a module, one of its sub modules, or the same module
  twice —, distinct layer names, subject and objects defined layers, objects different from the subject but possibly
  repeated; all 12 shapes and the two `any layer` aliases; any number of object layers; any number of layers of either
  kind that the rule does not mention):
  the model of `LayerRule(...).assert_applies` returns pass exactly when `layerVerdict a ls r` holds and fail
  (AssertionError) exactly when it does not; in particular it never raises `LayerMismatch` or any other error.

  Layers the rule does not mention (`layer_verdict_kept`, `unmentioned_layers_irrelevant'`): the domain is needed only of
  the layers the rule works with (`ruleLayers`: regex layers whose pattern the rule does not convert list nothing for
  this rule, whatever they match). Of the layers the rule does not mention nothing is required about existence, but
  listed modules of an unmentioned NAME layer must still be unrelated to the listed modules of every other layer:
  otherwise looking up a common descendant raises `LayerMismatch` (`unmentioned_related_layer_mismatch`).

  Outside that domain, since the repair of `LayerRuleMatcher._update_layer_mapping`: if the layer mapping the rule uses
  (regexes of the rule resolved) assigns one module identifier to two layers with different names, the rule raises
  `LayerMismatch` and never returns a verdict (`overlapping_layers_*`); on `layerDomain'` that check passes
  (`layer_map_consistent`).
-/
import Bridge.Abs
import Bridge.LayerAbs
import Bridge.LayerKept
import PtaProofs.Lemmas.LayerRegex
namespace Pta.C05
open Pta PtaSpec

/-- the relaxed domain contains the old one (all listed modules pairwise unrelated, objects listed once) -/
theorem layerDomain_imp (a : Arch) (ls : Layers) (r : LRuleSpec) (h : layerDomain a ls r = true) :
    layerDomain' a ls r = true :=
  Pta.layerDomain'_of_layerDomain a ls r h

/-- … and is contained in the domain of `layer_verdict_kept` -/
theorem layerDomain'_imp (mt : Str → Str → Bool) (nodes : List Str) (a : Arch) (hwf : a.wf = true) (ls : Layers)
    (r : LRuleSpec) (h : layerDomain' a ls r = true) (larch : LArch) (hres : resolves mt nodes larch ls = true) :
    layerDomainK a ls r = true ∧
    (∀ l' ∈ ruleLayers larch ls r, ∃ l ∈ ls, l.1 = l'.1 ∧ (l'.2 = l.2 ∨ l'.2 = [])) ∧
    (ruleLayers larch ls r).get r.subject = ls.get r.subject ∧
    (r.anything = false → ∀ on ∈ r.objects, (ruleLayers larch ls r).get on = ls.get on) :=
  ⟨Pta.layerDomainK_of_layerDomain' a hwf ls r h, Pta.kept_sub _ larch ls,
   Pta.kept_get mt nodes _ larch ls hres r.subject (Pta.ruleConv_subj larch r),
   fun hany on hon => Pta.kept_get mt nodes _ larch ls hres on (Pta.ruleConv_obj larch r hany on hon)⟩

/-- C05, main statement: name layers and regex layers, the LayerRule object after the complete builder chain -/
theorem layer_verdict (mt : Str → Str → Bool) (a : Arch) (g : PGraph Str) (hg : GraphOf a g)
    (hwf : a.wf = true) (ls : Layers) (r : LRuleSpec) (hdom : layerDomain' a ls r = true)
    (hany : r.anything = true → r.verb = .shouldNot)
    (larch : LArch) (hres : resolves mt g.nodes larch ls = true) :
    (assertAppliesLayer mt (compileLayerRule larch r) g).cls = VClass.ofBool (layerVerdict a ls r) :=
  Pta.layer_verdict_lemma mt a g hg hwf ls r hdom hany larch hres

/-- C05 with the domain required only of the layers the rule works with (`ruleLayers larch ls r`: the resolved layers,
    except that a regex layer whose pattern is not a pattern of a layer the rule mentions lists nothing). Of layers the
    rule does not mention `layerDomainK` requires no existence and no non-emptiness, only well-formed names, distinct
    layer names and unrelatedness to the modules of every OTHER layer -/
theorem layer_verdict_kept (mt : Str → Str → Bool) (a : Arch) (g : PGraph Str) (hg : GraphOf a g)
    (hwf : a.wf = true) (ls : Layers) (r : LRuleSpec)
    (hany : r.anything = true → r.verb = .shouldNot)
    (larch : LArch) (hres : resolves mt g.nodes larch ls = true)
    (hdom : layerDomainK a (ruleLayers larch ls r) r = true) :
    (assertAppliesLayer mt (compileLayerRule larch r) g).cls = VClass.ofBool (layerVerdict a ls r) :=
  Pta.layer_verdict_kept_lemma mt a g hg hwf ls r hany larch hres hdom

/-- C05 through the fluent API: `compileLayerRule larch r` is the state after the complete call chain
    `based_on(larch).layers_that().are_named(subject).<verb>().<access…>().are_named(objects)`, so the statement holds
    for the run of the chain followed by `assert_applies` -/
theorem layer_verdict_chain (mt : Str → Str → Bool) (a : Arch) (g : PGraph Str) (hg : GraphOf a g)
    (hwf : a.wf = true) (ls : Layers) (r : LRuleSpec) (hdom : layerDomain' a ls r = true)
    (hany : r.anything = true → r.verb = .shouldNot)
    (larch : LArch) (hres : resolves mt g.nodes larch ls = true) (isList : Bool) :
    (runLayerRuleOps mt (layerRuleOps larch r isList) g).1.cls = VClass.ofBool (layerVerdict a ls r) :=
  Pta.layer_verdict_chain_lemma mt a g hg hwf ls r hdom hany larch hres isList

/-- the builder chain reaches `compileLayerRule larch r` (no domain hypotheses beyond "the layers exist") -/
theorem chain_state (mt : Str → Str → Bool) (g : PGraph Str) (larch : LArch) (r : LRuleSpec) (isList : Bool)
    (hS : larch.hasLayer r.subject = true) (hSne : larch.getD r.subject ≠ [])
    (hO : r.anything = false → r.objects.all larch.hasLayer = true) :
    runLayerRuleOps mt (layerRuleOps larch r isList) g =
      (assertAppliesLayer mt (compileLayerRule larch r) g, (layerRuleOps larch r isList).length) :=
  Pta.runLayerRuleOps_chain_lemma mt g larch r isList hS hSne hO

/-- C05 for layered architectures whose layers all list modules by name (instance of `layer_verdict`;
    `compileLArch ls` resolves to `ls`, see `resolves_names`) -/
theorem layer_verdict_names (mt : Str → Str → Bool) (a : Arch) (g : PGraph Str) (hg : GraphOf a g)
    (hwf : a.wf = true) (ls : Layers) (r : LRuleSpec) (hdom : layerDomain' a ls r = true)
    (hany : r.anything = true → r.verb = .shouldNot) :
    (assertAppliesLayer mt (compileLayerRule (compileLArch ls) r) g).cls = VClass.ofBool (layerVerdict a ls r) :=
  Pta.layer_verdict_names_lemma mt a g hg hwf ls r hdom hany

theorem resolves_names (mt : Str → Str → Bool) (nodes : List Str) (ls : Layers) :
    resolves mt nodes (compileLArch ls) ls = true :=
  Pta.resolves_compileLArch mt nodes ls

/-- C05 on the graph the constructor builds -/
theorem layer_verdict_archGraph (mt : Str → Str → Bool) (a : Arch)
    (hwf : a.wf = true) (ls : Layers) (r : LRuleSpec) (hdom : layerDomain' a ls r = true)
    (hany : r.anything = true → r.verb = .shouldNot)
    (larch : LArch) (hres : resolves mt (archGraph a).nodes larch ls = true) :
    (assertAppliesLayer mt (compileLayerRule larch r) (archGraph a)).cls = VClass.ofBool (layerVerdict a ls r) :=
  Pta.layer_verdict_lemma mt a (archGraph a) (Pta.archGraph_graphOf a hwf) hwf ls r hdom hany larch hres

/-- layers the rule does not mention are irrelevant: two layered architectures that agree on the rule's subject and
    object layers give the same verdict class (both layerings in the relaxed domain) -/
theorem unmentioned_layers_irrelevant (mt : Str → Str → Bool) (a : Arch) (g : PGraph Str) (hg : GraphOf a g)
    (hwf : a.wf = true) (r : LRuleSpec) (hany : r.anything = true → r.verb = .shouldNot)
    (ls ls' : Layers) (hdom : layerDomain' a ls r = true) (hdom' : layerDomain' a ls' r = true)
    (larch larch' : LArch) (hres : resolves mt g.nodes larch ls = true) (hres' : resolves mt g.nodes larch' ls' = true)
    (hs : ls.get r.subject = ls'.get r.subject) (ho : r.anything = false → ∀ on ∈ r.objects, ls.get on = ls'.get on) :
    (assertAppliesLayer mt (compileLayerRule larch r) g).cls = (assertAppliesLayer mt (compileLayerRule larch' r) g).cls := by
  rw [Pta.layer_verdict_lemma mt a g hg hwf ls r hdom hany larch hres,
    Pta.layer_verdict_lemma mt a g hg hwf ls' r hdom' hany larch' hres', Pta.layerVerdict_congr a ls ls' r hs ho]

/-- the same with the domain required only of the layers the rule works with: the layers the rule mentions must be in
    the domain; unmentioned regex layers may be defined in any way (they list nothing for this rule, unless they repeat
    a pattern of a mentioned layer); unmentioned name layers may list modules that do not exist, or nothing, but their
    listed modules must be unrelated to the listed modules of all other layers (see
    `unmentioned_related_layer_mismatch`: otherwise `LayerMismatch`) -/
theorem unmentioned_layers_irrelevant' (mt : Str → Str → Bool) (a : Arch) (g : PGraph Str) (hg : GraphOf a g)
    (hwf : a.wf = true) (r : LRuleSpec) (hany : r.anything = true → r.verb = .shouldNot)
    (ls ls' : Layers) (larch larch' : LArch)
    (hres : resolves mt g.nodes larch ls = true) (hres' : resolves mt g.nodes larch' ls' = true)
    (hdom : layerDomainK a (ruleLayers larch ls r) r = true) (hdom' : layerDomainK a (ruleLayers larch' ls' r) r = true)
    (hs : ls.get r.subject = ls'.get r.subject) (ho : r.anything = false → ∀ on ∈ r.objects, ls.get on = ls'.get on) :
    (assertAppliesLayer mt (compileLayerRule larch r) g).cls = (assertAppliesLayer mt (compileLayerRule larch' r) g).cls := by
  rw [Pta.layer_verdict_kept_lemma mt a g hg hwf ls r hany larch hres hdom,
    Pta.layer_verdict_kept_lemma mt a g hg hwf ls' r hany larch' hres' hdom', Pta.layerVerdict_congr a ls ls' r hs ho]

/-- in particular the layers the rule does not mention can be dropped: the verdict class is the one of the layered
    architecture that defines the mentioned layers only, where it is the documented semantics -/
theorem unmentioned_layers_as_no_layer (mt : Str → Str → Bool) (a : Arch) (g : PGraph Str) (hg : GraphOf a g)
    (hwf : a.wf = true) (r : LRuleSpec) (hany : r.anything = true → r.verb = .shouldNot)
    (ls : Layers) (larch : LArch) (hres : resolves mt g.nodes larch ls = true)
    (hdom : layerDomainK a (ruleLayers larch ls r) r = true) :
    (assertAppliesLayer mt (compileLayerRule larch r) g).cls =
      VClass.ofBool (layerVerdict a (ls.filter fun l => l.1 == r.subject || (!r.anything && r.objects.contains l.1)) r) := by
  rw [Pta.layer_verdict_kept_lemma mt a g hg hwf ls r hany larch hres hdom]
  congr 1
  apply Pta.layerVerdict_congr
  · exact (Pta.get_filter_mentioned ls _ r.subject (fun l h => by simp [h])).symm
  · intro hanyB on hon
    exact (Pta.get_filter_mentioned ls _ on (fun l h => by simp [h, hanyB, hon])).symm

/-- key lemma `layerOf_correct`: on a mapping in which listed modules of DIFFERENT layers are unrelated, the layer of a
    module is the layer whose listed modules contain an ancestor of the module or the module itself — unique by
    cross-layer unrelatedness, however many listed modules of that layer are such ancestors —, or none; never
    `.error layerMismatch` -/
theorem layerOf_correct (m : Layers) (hunrel : crossUnrelated m = true)
    (hm : ∀ l ∈ m, ∀ x ∈ l.2, nameWF x = true) (n : Name) (hn : nameWF n = true) :
    LayerMap.layerOf (m.map fun l => (l.1, l.2.map render)) (render n) = .ok (layerTag m n) ∧
    (∀ l ∈ m, inLayer l.2 n = true → layerTag m n = some l.1) ∧
    (∀ t, layerTag m n = some t → ∃ l ∈ m, l.1 = t ∧ inLayer l.2 n = true) ∧
    (∀ l ∈ m, ∀ l' ∈ m, inLayer l.2 n = true → inLayer l'.2 n = true → l.1 = l'.1) :=
  ⟨Pta.layerOf_correct m (Pta.unrelMap_of_cross m hunrel) hm n hn,
   fun _ hl hin => Pta.layerTag_of_mem (Pta.unrelMap_of_cross m hunrel) hl hin,
   fun _ ht => Pta.layerTag_some ht,
   fun l hl l' hl' hin hin' => by
     have h1 := Pta.layerTag_of_mem (Pta.unrelMap_of_cross m hunrel) hl hin
     have h2 := Pta.layerTag_of_mem (Pta.unrelMap_of_cross m hunrel) hl' hin'
     rw [h1] at h2
     exact Option.some.inj h2⟩

/-- C03-style soundness of the layer report: every reported import line is an import edge of the graph (an import of
    the architecture), and the two layer tags printed with it are the successful lookups of its ends in the rule's layer
    mapping and differ -/
theorem layer_report_sound (mt : Str → Str → Bool) (a : Arch) (g : PGraph Str) (hg : GraphOf a g)
    (hwf : a.wf = true) (ls : Layers) (r : LRuleSpec) (hdom : layerDomain' a ls r = true)
    (hany : r.anything = true → r.verb = .shouldNot)
    (larch : LArch) (hres : resolves mt g.nodes larch ls = true) (items : List LItem)
    (h : assertAppliesLayer mt (compileLayerRule larch r) g = .fail items) :
    ∀ u v b tu tv, LItem.imp u v b tu tv ∈ items →
      (∃ e ∈ a.imports, u = render e.1 ∧ v = render e.2) ∧ v ∈ g.importSuccs u ∧
      (ruleLayerMap mt g larch r).layerOf u = .ok tu ∧ (ruleLayerMap mt g larch r).layerOf v = .ok tv ∧ tu ≠ tv :=
  Pta.layer_report_sound_lemma mt a g hg hwf ls r hdom hany larch hres items h

/-- the same on name layers, with the tags in the specification's vocabulary -/
theorem layer_report_sound_names (mt : Str → Str → Bool) (a : Arch) (g : PGraph Str) (hg : GraphOf a g)
    (hwf : a.wf = true) (ls : Layers) (r : LRuleSpec) (hdom : layerDomain' a ls r = true)
    (hany : r.anything = true → r.verb = .shouldNot) (items : List LItem)
    (h : assertAppliesLayer mt (compileLayerRule (compileLArch ls) r) g = .fail items) :
    ∀ u v b tu tv, LItem.imp u v b tu tv ∈ items →
      ∃ e ∈ a.imports, u = render e.1 ∧ v = render e.2 ∧ tu = layerTag ls e.1 ∧ tv = layerTag ls e.2 ∧ tu ≠ tv :=
  Pta.layer_report_sound_names_lemma mt a g hg hwf ls r hdom hany items h

/-! ### a module assigned to two layers -/

/-- on the domain of `layer_verdict` the check of the repaired `_update_layer_mapping` passes: listed modules of
    different layers are unrelated, in particular distinct (a module listed twice in ONE layer is not an error) -/
theorem layer_map_consistent (mt : Str → Str → Bool) (a : Arch) (g : PGraph Str) (hg : GraphOf a g)
    (hwf : a.wf = true) (ls : Layers) (r : LRuleSpec) (hdom : layerDomain' a ls r = true)
    (hany : r.anything = true → r.verb = .shouldNot)
    (larch : LArch) (hres : resolves mt g.nodes larch ls = true) :
    (ruleLayerMap mt g larch r).consistent = true := by
  obtain ⟨_, _, c, _⟩ := Pta.layer_reduce mt a g hg hwf ls r hany larch hres
    (Pta.ldom_of_layerDomain' mt g.nodes a hwf ls r hdom larch hres)
  exact c.cons

/-- what the check says: it fails exactly when some identifier is listed by two entries with different layer names
    (listing an identifier twice in the SAME layer is not an error) -/
theorem consistent_false_iff (m : LayerMap) :
    m.consistent = false ↔ ∃ l1 ∈ m, ∃ l2 ∈ m, ∃ id, id ∈ l1.2 ∧ id ∈ l2.2 ∧ l1.1 ≠ l2.1 :=
  Pta.consistent_false_iff m

/-- the matcher: if after resolution (`ruleMap` = `_update_layer_mapping`: the regexes occurring in the rule expanded
    over the modules of the graph) some module identifier belongs to two different layers, and regex conversion and
    graph queries succeed, the rule raises `LayerMismatch` — whatever the detector would have said -/
theorem overlapping_layers_rejected (mt : Str → Str → Bool) (g : PGraph Str) (larch : LArch) (b : Behavior) (d : Bool)
    (subjects objects subs objs : List Filter) (q : Option ExplDeps × Option OtherDeps)
    (h1 : convertFilters mt g.nodes subjects = .ok subs) (h2 : convertFilters mt g.nodes objects = .ok objs)
    (h3 : runQueries g b d subs objs = .ok q)
    (l1 l2 : Str × List Str) (hl1 : l1 ∈ ruleMap mt g larch subjects objects) (hl2 : l2 ∈ ruleMap mt g larch subjects objects)
    (id : Str) (hid1 : id ∈ l1.2) (hid2 : id ∈ l2.2) (hne : l1.1 ≠ l2.1) :
    matchLayerRule mt g larch b d subjects objects = .err .layerMismatch :=
  Pta.matchLayerRule_inconsistent mt g larch b d subjects objects subs objs q h1 h2 h3
    ((Pta.consistent_false_iff _).2 ⟨l1, hl1, l2, hl2, id, hid1, hid2, hne⟩)

/-- … and never a verdict: `assert_applies` of ANY layer rule object (finished or not, in the domain of C05 or not) whose
    layer mapping has such an identifier raises — `LayerMismatch`, or an error that comes earlier (configuration, regex
    conversion, graph queries) -/
theorem overlapping_layers_never_verdict (mt : Str → Str → Bool) (g : PGraph Str) (larch : LArch) (rule : RuleState)
    (l1 l2 : Str × List Str) (hl1 : l1 ∈ stateLayerMap mt g larch rule) (hl2 : l2 ∈ stateLayerMap mt g larch rule)
    (id : Str) (hid1 : id ∈ l1.2) (hid2 : id ∈ l2.2) (hne : l1.1 ≠ l2.1) :
    ∃ k, assertAppliesLayer mt ⟨some larch, some rule⟩ g = .err k :=
  Pta.assertAppliesLayer_err_of_inconsistent mt g larch rule
    ((Pta.consistent_false_iff _).2 ⟨l1, hl1, l2, hl2, id, hid1, hid2, hne⟩)

/-- conversely a verdict (pass or fail) is only ever returned on a mapping that passes the check -/
theorem verdict_only_if_consistent (mt : Str → Str → Bool) (g : PGraph Str) (larch : LArch) (b : Behavior) (d : Bool)
    (subjects objects : List Filter)
    (h : matchLayerRule mt g larch b d subjects objects = .pass ∨
      ∃ items, matchLayerRule mt g larch b d subjects objects = .fail items) :
    (ruleMap mt g larch subjects objects).consistent = true :=
  Pta.matchLayerRule_verdict_consistent mt g larch b d subjects objects h

/-- the same for the LayerRule object of a specification rule (`ruleLayerMap` is the mapping of `layer_report_sound`) -/
theorem overlapping_layers_rejected_rule (mt : Str → Str → Bool) (g : PGraph Str) (larch : LArch) (r : LRuleSpec)
    (hs : larch.getD r.subject ≠ []) (ho : r.anything = true ∨ r.objects.flatMap larch.getD ≠ [])
    (hany : r.anything = true → r.verb = .shouldNot)
    (hdd : r.anything = true → dedupSubjects (larch.getD r.subject) = larch.getD r.subject)
    (subs objs : List Filter) (q : Option ExplDeps × Option OtherDeps)
    (h1 : convertFilters mt g.nodes (larch.getD r.subject) = .ok subs)
    (h2 : convertFilters mt g.nodes
      (if r.anything = true then larch.getD r.subject else r.objects.flatMap larch.getD) = .ok objs)
    (h3 : runQueries g (behL r) r.importDir subs objs = .ok q)
    (l1 l2 : Str × List Str) (hl1 : l1 ∈ ruleLayerMap mt g larch r) (hl2 : l2 ∈ ruleLayerMap mt g larch r)
    (id : Str) (hid1 : id ∈ l1.2) (hid2 : id ∈ l2.2) (hne : l1.1 ≠ l2.1) :
    assertAppliesLayer mt (compileLayerRule larch r) g = .err .layerMismatch :=
  Pta.overlapping_layers_rejected_lemma mt g larch r hs ho hany hdd subs objs q h1 h2 h3
    ((Pta.consistent_false_iff _).2 ⟨l1, hl1, l2, hl2, id, hid1, hid2, hne⟩)

/-- why `hany` is a hypothesis: the `any layer` aliases exist only for `should_not`
    (`_assert_anything_only_used_with_should_not`); with another verb `assert_applies` raises ImproperlyConfigured -/
theorem any_layer_misused (mt : Str → Str → Bool) (g : PGraph Str) (larch : LArch) (r : LRuleSpec)
    (hany : r.anything = true) (hv : r.verb ≠ .shouldNot) :
    assertAppliesLayer mt (compileLayerRule larch r) g = .err .improperlyConfigured :=
  Pta.any_layer_misused_lemma mt g larch r hany hv

/-! non-vacuity: an 8-node architecture, three layers (one of them not mentioned by the rule), name layers and regex
    layers, passing and failing rules; all hypotheses and both sides evaluate -/
def nm (s : String) : Name := splitDots s.toList
def exA : Arch :=
  { nodes := ["p", "p.a", "p.a.x", "p.a.y", "p.b", "p.c", "q", "q.z"].map nm,
    imports := [(nm "p.a.x", nm "p.b"), (nm "p.a.x", nm "p.a.y"), (nm "p.b", nm "q.z"), (nm "p.c", nm "p.a")] }
def exLs : Layers := [("top".toList, [nm "p.a"]), ("mid".toList, [nm "p.b", nm "q"]), ("low".toList, [nm "p.c"])]
def exR : LRuleSpec := { verb := .shouldOnly, importDir := true, exc := false, subject := "top".toList, objects := ["mid".toList] }
def exR' : LRuleSpec := { verb := .shouldNot, importDir := false, exc := false, subject := "mid".toList, objects := ["top".toList] }
def exRany : LRuleSpec := { verb := .shouldNot, importDir := true, exc := false, subject := "mid".toList, objects := [], anything := true }
example : exA.wf = true ∧ layerDomain exA exLs exR = true ∧ layerDomain exA exLs exR' = true ∧
    layerDomain exA exLs exRany = true ∧ layerDomain' exA exLs exR = true ∧ layerDomain' exA exLs exR' = true ∧
    layerDomain' exA exLs exRany = true := by decide
set_option maxRecDepth 8000 in
example : (assertAppliesLayer (fun _ _ => false) (compileLayerRule (compileLArch exLs) exR) (archGraph exA)).cls = .pass ∧
    layerVerdict exA exLs exR = true := by decide
set_option maxRecDepth 8000 in
example : (assertAppliesLayer (fun _ _ => false) (compileLayerRule (compileLArch exLs) exR') (archGraph exA)).cls = .fail ∧
    layerVerdict exA exLs exR' = false := by decide
set_option maxRecDepth 8000 in
example : (assertAppliesLayer (fun _ _ => false) (compileLayerRule (compileLArch exLs) exRany) (archGraph exA)).cls = .pass ∧
    layerVerdict exA exLs exRany = true := by decide

example : GraphOf exA (archGraph exA) := Pta.archGraph_graphOf exA (by decide)
example : (exR.anything = true → exR.verb = .shouldNot) ∧ (exRany.anything = true → exRany.verb = .shouldNot) := by decide
/-- hypotheses of `unmentioned_layers_irrelevant`: dropping the layer the rule does not mention -/
def exLs2 : Layers := [("top".toList, [nm "p.a"]), ("mid".toList, [nm "p.b", nm "q"])]
example : layerDomain' exA exLs2 exR = true ∧ exLs.get exR.subject = exLs2.get exR.subject ∧
    (exR.anything = false → ∀ on ∈ exR.objects, exLs.get on = exLs2.get on) := by decide
/-- hypotheses of `layerOf_correct` -/
example : crossUnrelated exLs = true ∧ (∀ l ∈ exLs, ∀ x ∈ l.2, nameWF x = true) ∧
    nameWF (nm "p.a.x") = true ∧ layerTag exLs (nm "p.a.x") = some "top".toList ∧ layerTag exLs (nm "q.z") = some "mid".toList ∧
    layerTag exLs (nm "p") = none := by decide
/-- hypotheses of `chain_state` -/
example : (compileLArch exLs).hasLayer exR.subject = true ∧ (compileLArch exLs).getD exR.subject ≠ [] ∧
    (exR.anything = false → exR.objects.all (compileLArch exLs).hasLayer = true) := by decide

/-- regex layers: the matcher is "starts with" (a stand-in for the regex engine, which is a parameter) -/
def exMt : Str → Str → Bool := fun p s => startsWith p s
def exLarch : LArch :=
  [("top".toList, [.regex "p.a.".toList]), ("mid".toList, [.name "p.b".toList, .name "q".toList]),
   ("low".toList, [.regex "p.c".toList])]
def exLsR : Layers := [("top".toList, [nm "p.a.x", nm "p.a.y"]), ("mid".toList, [nm "p.b", nm "q"]), ("low".toList, [nm "p.c"])]
set_option maxRecDepth 8000 in
example : resolves exMt (archGraph exA).nodes exLarch exLsR = true ∧ layerDomain' exA exLsR exR = true ∧
    layerDomain' exA exLsR exR' = true := by decide
set_option maxRecDepth 8000 in
example : (assertAppliesLayer exMt (compileLayerRule exLarch exR) (archGraph exA)).cls = .pass ∧
    layerVerdict exA exLsR exR = true := by decide
set_option maxRecDepth 8000 in
example : (assertAppliesLayer exMt (compileLayerRule exLarch exR') (archGraph exA)).cls = .fail ∧
    layerVerdict exA exLsR exR' = false := by decide
set_option maxRecDepth 8000 in
example : (runLayerRuleOps exMt (layerRuleOps exLarch exR true) (archGraph exA)).1.cls = .pass := by decide

/-! ### the relaxed domain (audit finding F6): related modules inside one layer

    (a) a regex layer matching a package and its sub modules (`p.a`, `p.a.x`, `p.a.y`), (b) a name layer listing a module,
    one of its sub modules and the module again, (c) an object layer named twice; all hypotheses of `layer_verdict`
    hold, the old `layerDomain` does not, and both sides evaluate to the same verdict -/
def exLarchW : LArch :=
  [("top".toList, [.regex "p.a".toList]), ("mid".toList, [.name "p.b".toList, .name "q".toList]),
   ("low".toList, [.regex "p.c".toList])]
/-- the regex layers resolved: `top` lists a package and its two sub modules -/
def exLsRW : Layers :=
  [("top".toList, [nm "p.a", nm "p.a.x", nm "p.a.y"]), ("mid".toList, [nm "p.b", nm "q"]), ("low".toList, [nm "p.c"])]
/-- name layers: `top` lists `p.a`, its sub module `p.a.x`, and `p.a` again -/
def exLsW : Layers :=
  [("top".toList, [nm "p.a", nm "p.a.x", nm "p.a"]), ("mid".toList, [nm "p.b", nm "q"]), ("low".toList, [nm "p.c"])]
def exRtop : LRuleSpec := { verb := .shouldNot, importDir := true, exc := true, subject := "top".toList, objects := ["mid".toList] }
def exRtopAny : LRuleSpec := { verb := .shouldNot, importDir := true, exc := false, subject := "top".toList, objects := [], anything := true }
def exRtwice : LRuleSpec := { verb := .should, importDir := false, exc := false, subject := "mid".toList, objects := ["top".toList, "low".toList, "top".toList] }
set_option maxRecDepth 8000 in
example : resolves exMt (archGraph exA).nodes exLarchW exLsRW = true ∧
    layerDomain' exA exLsRW exR = true ∧ layerDomain' exA exLsRW exR' = true ∧ layerDomain' exA exLsRW exRtop = true ∧
    layerDomain' exA exLsRW exRtopAny = true ∧ layerDomain' exA exLsRW exRtwice = true ∧
    layerDomain exA exLsRW exR = false ∧ layerDomain exA exLsRW exRtwice = false := by decide
example : layerDomain' exA exLsW exR = true ∧ layerDomain' exA exLsW exR' = true ∧ layerDomain' exA exLsW exRtop = true ∧
    layerDomain' exA exLsW exRtopAny = true ∧ layerDomain' exA exLsW exRtwice = true ∧
    layerDomain exA exLsW exR = false ∧ layerDomain exA exLsW exRtopAny = false := by decide
example : (exRtop.anything = true → exRtop.verb = .shouldNot) ∧ (exRtopAny.anything = true → exRtopAny.verb = .shouldNot) ∧
    (exRtwice.anything = true → exRtwice.verb = .shouldNot) := by decide
/- (a) regex layer matching a package and its sub modules -/
set_option maxRecDepth 8000 in
example : (assertAppliesLayer exMt (compileLayerRule exLarchW exR) (archGraph exA)).cls = .pass ∧
    layerVerdict exA exLsRW exR = true := by decide
set_option maxRecDepth 8000 in
example : (assertAppliesLayer exMt (compileLayerRule exLarchW exR') (archGraph exA)).cls = .fail ∧
    layerVerdict exA exLsRW exR' = false := by decide
set_option maxRecDepth 8000 in
example : (assertAppliesLayer exMt (compileLayerRule exLarchW exRtop) (archGraph exA)).cls = .pass ∧
    layerVerdict exA exLsRW exRtop = true := by decide
set_option maxRecDepth 8000 in
example : (assertAppliesLayer exMt (compileLayerRule exLarchW exRtopAny) (archGraph exA)).cls = .fail ∧
    layerVerdict exA exLsRW exRtopAny = false := by decide
set_option maxRecDepth 8000 in
example : (assertAppliesLayer exMt (compileLayerRule exLarchW exRtwice) (archGraph exA)).cls = .fail ∧
    layerVerdict exA exLsRW exRtwice = false := by decide
/- (b) name layer listing a module, its sub module, and the module again; with the `any layer` alias the sub module is
    dropped from the rule's subjects by `_convert_aliases` and still belongs to the layer -/
set_option maxRecDepth 8000 in
example : (assertAppliesLayer (fun _ _ => false) (compileLayerRule (compileLArch exLsW) exR) (archGraph exA)).cls = .pass ∧
    layerVerdict exA exLsW exR = true := by decide
set_option maxRecDepth 8000 in
example : (assertAppliesLayer (fun _ _ => false) (compileLayerRule (compileLArch exLsW) exR') (archGraph exA)).cls = .fail ∧
    layerVerdict exA exLsW exR' = false := by decide
set_option maxRecDepth 8000 in
example : (assertAppliesLayer (fun _ _ => false) (compileLayerRule (compileLArch exLsW) exRtop) (archGraph exA)).cls = .pass ∧
    layerVerdict exA exLsW exRtop = true := by decide
set_option maxRecDepth 8000 in
example : (assertAppliesLayer (fun _ _ => false) (compileLayerRule (compileLArch exLsW) exRtopAny) (archGraph exA)).cls = .fail ∧
    layerVerdict exA exLsW exRtopAny = false := by decide
set_option maxRecDepth 8000 in
example : (assertAppliesLayer (fun _ _ => false) (compileLayerRule (compileLArch exLsW) exRtwice) (archGraph exA)).cls = .fail ∧
    layerVerdict exA exLsW exRtwice = false := by decide
example : dedupSubjects ((compileLArch exLsW).getD "top".toList) = [.name "p.a".toList, .name "p.a".toList] := by decide
/-- hypotheses of `layerOf_correct` on a mapping with related modules inside one layer -/
example : crossUnrelated exLsW = true ∧ pairwiseUnrelated (exLsW.flatMap (·.2)) = false ∧
    (∀ l ∈ exLsW, ∀ x ∈ l.2, nameWF x = true) ∧ layerTag exLsW (nm "p.a.x") = some "top".toList ∧
    layerTag exLsW (nm "p.a.y") = some "top".toList ∧ layerTag exLsW (nm "p") = none := by decide

/-! ### layers the rule does not mention

    An unmentioned REGEX layer may be defined in any way: `X` matches `p.a.x`, a sub module of the listed module of `top`;
    the resolved layers are outside `layerDomain'`, but the rule does not convert the pattern, the layer lists nothing
    for this rule (`ruleLayers`), and `layer_verdict_kept` / `unmentioned_layers_irrelevant'` apply. An unmentioned NAME
    layer may list a module that does not exist. -/
def exLarchU : LArch :=
  [("top".toList, [.name "p.a".toList]), ("mid".toList, [.name "p.b".toList, .name "q".toList]),
   ("X".toList, [.regex "p.a.x".toList]), ("Y".toList, [.name "r.s".toList])]
def exLsU : Layers :=
  [("top".toList, [nm "p.a"]), ("mid".toList, [nm "p.b", nm "q"]), ("X".toList, [nm "p.a.x"]), ("Y".toList, [nm "r.s"])]
set_option maxRecDepth 8000 in
example : resolves exMt (archGraph exA).nodes exLarchU exLsU = true ∧ layerDomain' exA exLsU exR = false ∧
    ruleLayers exLarchU exLsU exR =
      [("top".toList, [nm "p.a"]), ("mid".toList, [nm "p.b", nm "q"]), ("X".toList, []), ("Y".toList, [nm "r.s"])] ∧
    layerDomainK exA (ruleLayers exLarchU exLsU exR) exR = true ∧
    layerDomainK exA (ruleLayers exLarchU exLsU exR') exR' = true := by decide
/-- the second layering of `unmentioned_layers_irrelevant'`: the mentioned layers only -/
example : resolves exMt (archGraph exA).nodes (compileLArch exLs2) exLs2 = true ∧
    layerDomainK exA (ruleLayers (compileLArch exLs2) exLs2 exR) exR = true ∧
    exLsU.get exR.subject = exLs2.get exR.subject ∧
    (exR.anything = false → ∀ on ∈ exR.objects, exLsU.get on = exLs2.get on) := by decide
set_option maxRecDepth 8000 in
example : (assertAppliesLayer exMt (compileLayerRule exLarchU exR) (archGraph exA)).cls = .pass ∧
    layerVerdict exA exLsU exR = true ∧
    (assertAppliesLayer exMt (compileLayerRule (compileLArch exLs2) exR) (archGraph exA)).cls = .pass := by decide
set_option maxRecDepth 8000 in
example : (assertAppliesLayer exMt (compileLayerRule exLarchU exR') (archGraph exA)).cls = .fail ∧
    layerVerdict exA exLsU exR' = false := by decide

/-- why unrelatedness is still required of unmentioned NAME layers: `X` lists `p.a.x`, a sub module of the listed module
    `p.a` of `top`; the rule "top should not access mid" does not mention `X`, the specification (which treats the
    modules of `X` as modules of no layer, i.e. `p.a.x` as a module of `top`) says fail, but looking up the layer of
    `p.a.x.z` (below `p.a` of `top` and below `p.a.x` of `X`) raises `LayerMismatch`. The same happens when two layers
    that the rule does not mention list related modules (`X`: `p.c`, `Y`: `p.c.z`) and a module below both is looked up. -/
def exB : Arch :=
  { nodes := ["p", "p.a", "p.a.x", "p.a.x.z", "p.a.y", "p.b", "p.c", "p.c.z", "p.c.z.w"].map nm,
    imports := [(nm "p.a.x.z", nm "p.b"), (nm "p.a.y", nm "p.c.z.w")] }
def exLsB0 : Layers := [("top".toList, [nm "p.a"]), ("mid".toList, [nm "p.b"])]
def exLsB1 : Layers := [("top".toList, [nm "p.a"]), ("mid".toList, [nm "p.b"]), ("X".toList, [nm "p.a.x"])]
def exLsB2 : Layers := [("top".toList, [nm "p.a"]), ("mid".toList, [nm "p.b"]), ("X".toList, [nm "p.c"]), ("Y".toList, [nm "p.c.z"])]
def exRB : LRuleSpec := { verb := .shouldNot, importDir := true, exc := false, subject := "top".toList, objects := ["mid".toList] }
def exRB' : LRuleSpec := { verb := .shouldNot, importDir := true, exc := true, subject := "top".toList, objects := ["mid".toList] }
set_option maxRecDepth 8000 in
theorem unmentioned_related_layer_mismatch :
    exB.wf = true ∧ layerDomain' exB exLsB0 exRB = true ∧
    exLsB1.get exRB.subject = exLsB0.get exRB.subject ∧ (∀ on ∈ exRB.objects, exLsB1.get on = exLsB0.get on) ∧
    exLsB2.get exRB.subject = exLsB0.get exRB.subject ∧ (∀ on ∈ exRB.objects, exLsB2.get on = exLsB0.get on) ∧
    layerVerdict exB exLsB0 exRB = false ∧ layerVerdict exB exLsB1 exRB = false ∧
    layerVerdict exB exLsB0 exRB' = false ∧ layerVerdict exB exLsB2 exRB' = false ∧
    (assertAppliesLayer (fun _ _ => false) (compileLayerRule (compileLArch exLsB0) exRB) (archGraph exB)).cls = .fail ∧
    (assertAppliesLayer (fun _ _ => false) (compileLayerRule (compileLArch exLsB1) exRB) (archGraph exB)).cls =
      .err .layerMismatch ∧
    (assertAppliesLayer (fun _ _ => false) (compileLayerRule (compileLArch exLsB0) exRB') (archGraph exB)).cls = .fail ∧
    (assertAppliesLayer (fun _ _ => false) (compileLayerRule (compileLArch exLsB2) exRB') (archGraph exB)).cls =
      .err .layerMismatch ∧
    layerDomainK exB (ruleLayers (compileLArch exLsB1) exLsB1 exRB) exRB = false ∧
    layerDomainK exB (ruleLayers (compileLArch exLsB2) exLsB2 exRB') exRB' = false := by decide

/-! non-vacuity of `overlapping_layers_*`: module `x` is listed in layer A and matched by the regex of layer B (the
    builder accepts this definition); "A should not access B" -/
namespace Ov
def g : PGraph Str := buildGraph ["x".toList, "y".toList] [absImport "x".toList "y".toList] none
/-- a regex engine for the example: the pattern "x|y" matches x and y, every other pattern matches itself only -/
def mt : Str → Str → Bool := fun r m => if r == "x|y".toList then (m == "x".toList || m == "y".toList) else r == m
def larch : LArch := [("A".toList, [.name "x".toList]), ("B".toList, [.regex "x|y".toList])]
def r : LRuleSpec := { verb := .shouldNot, importDir := true, exc := false, subject := "A".toList, objects := ["B".toList] }
def subs : List Filter := [.name "x".toList]
def objs : List Filter := [.name "x".toList, .name "y".toList]
def lA : Str × List Str := ("A".toList, ["x".toList])
def lB : Str × List Str := ("B".toList, ["x".toList, "y".toList])
end Ov
example : runLArch [.layer "A".toList, .containingModules ["x".toList], .layer "B".toList, .matching "x|y".toList] = .ok Ov.larch := by
  rfl
set_option maxRecDepth 8000 in
example : Ov.larch.getD Ov.r.subject ≠ [] ∧ (Ov.r.anything = true ∨ Ov.r.objects.flatMap Ov.larch.getD ≠ []) ∧
    (Ov.r.anything = true → Ov.r.verb = .shouldNot) ∧
    (Ov.r.anything = true → dedupSubjects (Ov.larch.getD Ov.r.subject) = Ov.larch.getD Ov.r.subject) ∧
    convertFilters Ov.mt Ov.g.nodes (Ov.larch.getD Ov.r.subject) = .ok Ov.subs ∧
    convertFilters Ov.mt Ov.g.nodes
      (if Ov.r.anything = true then Ov.larch.getD Ov.r.subject else Ov.r.objects.flatMap Ov.larch.getD) = .ok Ov.objs ∧
    (∃ q, runQueries Ov.g (behL Ov.r) Ov.r.importDir Ov.subs Ov.objs = .ok q) ∧
    Ov.lA ∈ ruleLayerMap Ov.mt Ov.g Ov.larch Ov.r ∧ Ov.lB ∈ ruleLayerMap Ov.mt Ov.g Ov.larch Ov.r ∧
    "x".toList ∈ Ov.lA.2 ∧ "x".toList ∈ Ov.lB.2 ∧ Ov.lA.1 ≠ Ov.lB.1 :=
  ⟨by decide, by decide, by decide, by decide, by rfl, by rfl, ⟨_, rfl⟩, by decide, by decide, by decide, by decide,
    by decide⟩
set_option maxRecDepth 8000 in
example : assertAppliesLayer Ov.mt (compileLayerRule Ov.larch Ov.r) Ov.g = .err .layerMismatch := by decide
/-- hypotheses of `overlapping_layers_never_verdict` on the same rule object -/
example : Ov.lA ∈ stateLayerMap Ov.mt Ov.g Ov.larch (mkRule false false true true false [.name "x".toList] [.regex "x|y".toList]) ∧
    Ov.lB ∈ stateLayerMap Ov.mt Ov.g Ov.larch (mkRule false false true true false [.name "x".toList] [.regex "x|y".toList]) := by
  decide

end Pta.C05
