/-
  PtaProofs.Props.Tables — the proof obligation regenerated from the source on every run:
  the boolean tables translated from /repo's behavior_requirement.py and
  `_get_dependency_expectations` (Generated/Flags.lean) equal the model's tables (PtaModel/Flags.lean)
  on all 16 flag combinations. A change of either table in the Python source breaks this theorem.
-/
import PtaModel.Flags
import Generated.Flags
namespace Pta.C12

/-- all ten derived flags, model side -/
def modelRow (b : Behavior) : List Bool :=
  [b.explReq, b.otherReq, b.explForb, b.otherForb, b.inconsistent,
   b.expOtherNotPresent, b.expExplNotPresent, b.expExplAndNoOther, b.expExplNotButOthers,
   b.expAtLeastOneOther, b.expExplPresent]

/-- all ten derived flags, as translated from the Python source -/
def generatedRow (s o n x : Bool) : List Bool :=
  [Generated.explReq s o n x, Generated.otherReq s o n x, Generated.explForb s o n x,
   Generated.otherForb s o n x, Generated.inconsistent s o n x,
   Generated.expOtherNotPresent s o n x, Generated.expExplNotPresent s o n x,
   Generated.expExplAndNoOther s o n x, Generated.expExplNotButOthers s o n x,
   Generated.expAtLeastOneOther s o n x, Generated.expExplPresent s o n x]

theorem generated_flags_agree :
    ∀ s o n x : Bool, generatedRow s o n x = modelRow ⟨s, o, n, x⟩ := by
  decide

end Pta.C12
