/-
  PtaProofs.Props.Tables — the proof obligation regenerated from the source on every run:
  the boolean tables translated from /repo's behavior_requirement.py and
  `_get_dependency_expectations` (Generated/Flags.lean) equal the model's tables (PtaModel/Flags.lean)
  on all 16 flag combinations. A change of either table in the Python source breaks this theorem.
-/
import PtaModel.Flags
import PtaModel.Scan
import PtaModel.Rule
import Generated.Flags
import Generated.Config
namespace Pta.C12

/-- all ten derived flags, model side -/
def modelRow (b : Behavior) : List Bool :=
  [b.explReq, b.otherReq, b.explForb, b.otherForb, b.inconsistent,
   b.expOtherNotPresent, b.expExplNotPresent, b.expExplAndNoOther, b.expExplNotButOthers,
   b.expAtLeastOneOther, b.expExplPresent]

/-- all ten derived flags, as translated from the Python source -/
def generatedRow (s o n x : Bool) : List Bool :=
  [Generated.explReq s o n x, Generated.otherReq s o n x, Generated.explForb s o n x,
   Generated.otherForb s o n x, Generated.inconsistent s o n x,
   Generated.expOtherNotPresent s o n x, Generated.expExplNotPresent s o n x,
   Generated.expExplAndNoOther s o n x, Generated.expExplNotButOthers s o n x,
   Generated.expAtLeastOneOther s o n x, Generated.expExplPresent s o n x]

theorem generated_flags_agree :
    ∀ s o n x : Bool, generatedRow s o n x = modelRow ⟨s, o, n, x⟩ := by
  decide

end Pta.C12

namespace Pta.C13
open Pta

/-- the three shapes of an optional filter list as Python's truthiness sees them: `None`, `[]`, non-empty -/
def listShapes : List (Option (List Filter)) := [none, some [], some [.name []]]

/-- the configuration guards translated from /repo's pytestarch.py (`get_evaluable_architecture`) and rule.py
    (`_assert_anything_only_used_with_should_not`, `_assert_required_configuration_present`) on every run equal the
    model's guards, on all argument combinations -/
theorem generated_config_agree :
    (∀ ex rex eex reex xx : Bool,
      Generated.entryImproper ex rex eex reex xx =
        (entryOptionsError ⟨ex, rex, eex, reex, xx, true⟩ == some ErrKind.improperlyConfigured)) ∧
    (∀ a n : Bool, Generated.anythingMisused a n = anythingMisused { anything := a, shouldNot := n }) ∧
    (∀ s o n : Bool, ∀ d ∈ [none, some true, some false], ∀ ss ∈ listShapes, ∀ os ∈ listShapes,
      Generated.configMissing s o n d.isNone
          (match ss with | none => true | some l => l.isEmpty) (match os with | none => true | some l => l.isEmpty) =
        configMissing { should := s, shouldOnly := o, shouldNot := n, importDir := d, subjects := ss, objects := os }) := by
  decide

end Pta.C13
