/-
  PtaProofs.Props.C16 — layer definitions are well-formed (property C16): for EVERY sequence of
  LayeredArchitecture builder calls the model accepts/rejects exactly as the specification automaton says,
  rejects at the offending call, and accepted definitions list exactly what was supplied, in order.
-/
import Bridge.Abs
import PtaProofs.Lemmas.Builders
namespace Pta.C16
open Pta PtaSpec

/-- identifiers per layer of an architecture -/
def ids (a : LArch) : List (Str × List Str) := a.map fun l => (l.1, l.2.map (·.id))

/-- refinement: the builder follows the specification automaton on every history -/
theorem larch_refines (ops : List LArchOp) :
    match classifyLArch (ops.map toLCall) with
    | .accepted t => ∃ a, runLArch ops = .ok a ∧
        ids a = t.closed ++ (match t.opened with | some n => [(n, [])] | none => [])
    | .rejectedAt i => runLArch ops = .error (.improperlyConfigured, i)
    | .unspecified => True :=
  Pta.larch_refines_lemma ops

/-- invariant of every reachable architecture: layer names are unique, at most one layer is pending, and no
    module identifier is listed in two different layers -/
theorem larch_invariant (ops : List LArchOp) (a : LArch) (h : runLArch ops = .ok a) :
    (a.map (·.1)).Nodup ∧ a.pending.length ≤ 1 ∧
    ∀ l₁ ∈ a, ∀ l₂ ∈ a, ∀ f₁ ∈ l₁.2, ∀ f₂ ∈ l₂.2, f₁.isRegex = false → f₂.isRegex = false → f₁.id = f₂.id → l₁.1 = l₂.1 :=
  Pta.larch_invariant_lemma ops a h

/-- `containing_modules([])` supplies no modules, so the layer stays open: for every history `h` after which a layer
    `n` is open (the specification automaton accepts `h` in a state whose open layer is `n`), the history
    `h, containing_modules([]), layer(m)` is rejected at the `layer` call — by the specification automaton, and
    the builder model agrees with a configuration error at that very call -/
theorem empty_module_list_keeps_layer_open (h : List LArchOp) (t : LTrack) (n m : Str)
    (hacc : classifyLArch (h.map toLCall) = .accepted t) (hopen : t.opened = some n) :
    classifyLArch ((h ++ [LArchOp.containingModules [], LArchOp.layer m]).map toLCall) = .rejectedAt (h.length + 1) ∧
    runLArch (h ++ [LArchOp.containingModules [], LArchOp.layer m]) = .error (.improperlyConfigured, h.length + 1) :=
  Pta.empty_module_list_keeps_open_lemma h t n m hacc hopen

/-- the same on the specification vocabulary alone (every `LCall` history, not only images of model histories) -/
theorem spec_empty_module_list_keeps_layer_open (cs : List LCall) (t : LTrack) (n m : Str)
    (hacc : classifyLArch cs = .accepted t) (hopen : t.opened = some n) :
    classifyLArch (cs ++ [.modules [], .layer m]) = .rejectedAt (cs.length + 1) :=
  Pta.spec_empty_module_list_lemma cs t n m hacc hopen

/-- the empty list on an open layer is itself accepted and changes nothing: same automaton state, same
    architecture, the layer is still pending (so a later non-empty `containing_modules` / regex call fills it) -/
theorem empty_module_list_is_noop (h : List LArchOp) (t : LTrack) (n : Str)
    (hacc : classifyLArch (h.map toLCall) = .accepted t) (hopen : t.opened = some n) :
    classifyLArch ((h ++ [LArchOp.containingModules []]).map toLCall) = .accepted t ∧
    ∃ a, runLArch (h ++ [LArchOp.containingModules []]) = .ok a ∧ runLArch h = .ok a ∧ a.pending = [n] :=
  Pta.empty_module_list_noop_lemma h t n hacc hopen

/-- with no layer open, `containing_modules([])` is rejected at that call exactly like a non-empty list -/
theorem empty_module_list_without_layer (h rest : List LArchOp) (t : LTrack)
    (hacc : classifyLArch (h.map toLCall) = .accepted t) (hclosed : t.opened = none) :
    classifyLArch ((h ++ LArchOp.containingModules [] :: rest).map toLCall) = .rejectedAt h.length ∧
    runLArch (h ++ LArchOp.containingModules [] :: rest) = .error (.improperlyConfigured, h.length) :=
  Pta.empty_module_list_closed_lemma h rest t hacc hclosed

/-- a layer rule needs an architecture first and exactly one subject layer: violating call sequences are rejected
    at the offending call (shared with C13.layer_rule_history) -/
theorem layer_rule_guards (mt : Str → Str → Bool) (a : LArch) (ops : List LayerRuleOp) (g : PGraph Str) (i : Nat)
    (hbased : ∀ op ∈ ops, ∀ a', op = LayerRuleOp.basedOn a' → a' = a) :
    classifyLayerRule (ops.map (toLRCall a)) = .rejectedAt i → runLayerRuleOps mt ops g = (.err .improperlyConfigured, i) := by
  intro h
  have := Pta.layer_rule_history_lemma mt a ops g hbased
  rw [h] at this
  exact this

/-! non-vacuity -/
example : runLArch [.layer "a".toList, .containingModules ["mod".toList], .layer "b".toList, .containingModules ["mod".toList]]
    = .error (.improperlyConfigured, 3) := by rfl
example : ∃ a, runLArch [.layer "a".toList, .containingModules ["m".toList], .layer "b".toList, .containingModules ["mod".toList]] = .ok a := ⟨_, rfl⟩

/-- core has no `DecidableEq (Except ε α)`; derived here so that the model runs below are checked by `decide` -/
local instance instDecEqExcept {ε α : Type} [DecidableEq ε] [DecidableEq α] : DecidableEq (Except ε α)
  | .ok a, .ok b => if h : a = b then isTrue (by rw [h]) else isFalse (by intro e; cases e; exact h rfl)
  | .error a, .error b => if h : a = b then isTrue (by rw [h]) else isFalse (by intro e; cases e; exact h rfl)
  | .ok _, .error _ => isFalse (by intro e; cases e)
  | .error _, .ok _ => isFalse (by intro e; cases e)

/-! `containing_modules([])`: `layer a, containing_modules [], layer b` (the seeded tuples-for-lists defect lets this pass) -/
example : classifyLArch [.layer "a".toList, .modules [], .layer "b".toList] = .rejectedAt 2 := by decide
example : runLArch [.layer "a".toList, .containingModules [], .layer "b".toList] = .error (.improperlyConfigured, 2) := by decide
/-- the hypotheses of `empty_module_list_keeps_layer_open` hold for `h = [layer a]` (layer `a` open), and for a longer history -/
example : classifyLArch ([LArchOp.layer "a".toList].map toLCall) = .accepted ⟨[], some "a".toList⟩ := by decide
example : classifyLArch ([LArchOp.layer "a".toList, .containingModules ["x".toList], .withLayer, .layer "b".toList].map toLCall)
    = .accepted ⟨[("a".toList, ["x".toList])], some "b".toList⟩ := by decide
/-- `empty_module_list_without_layer`: hypotheses hold for the empty history and after a finished layer -/
example : classifyLArch (([] : List LArchOp).map toLCall) = .accepted ⟨[], none⟩ := by decide
example : classifyLArch [.layer "a".toList, .modules ["x".toList], .modules []] = .rejectedAt 2 := by decide
example : runLArch [.layer "a".toList, .containingModules ["x".toList], .containingModules []] = .error (.improperlyConfigured, 2) := by decide
/-- the empty list, then a non-empty one: accepted, the layer receives the later modules -/
example : classifyLArch [.layer "a".toList, .modules [], .modules ["x".toList], .layer "b".toList]
    = .accepted ⟨[("a".toList, ["x".toList])], some "b".toList⟩ := by decide
example : runLArch [.layer "a".toList, .containingModules [], .containingModules ["x".toList], .layer "b".toList]
    = .ok [("a".toList, [.name "x".toList]), ("b".toList, [])] := by decide
/-- (a) stays a don't-care: a regex textually equal to a module name given elsewhere -/
example : classifyLArch [.layer "a".toList, .modules ["x".toList], .layer "b".toList, .regex "x".toList] = .unspecified := by decide

end Pta.C16
