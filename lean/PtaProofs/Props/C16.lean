/-
  PtaProofs.Props.C16 — layer definitions are well-formed (property C16): for EVERY sequence of
  LayeredArchitecture builder calls the model accepts/rejects exactly as the specification automaton says,
  rejects at the offending call, and accepted definitions list exactly what was supplied, in order.
-/
import Bridge.Abs
import PtaProofs.Lemmas.Builders
namespace Pta.C16
open Pta PtaSpec

/-- identifiers per layer of an architecture -/
def ids (a : LArch) : List (Str × List Str) := a.map fun l => (l.1, l.2.map (·.id))

/-- refinement: the builder follows the specification automaton on every history -/
theorem larch_refines (ops : List LArchOp) :
    match classifyLArch (ops.map toLCall) with
    | .accepted t => ∃ a, runLArch ops = .ok a ∧
        ids a = t.closed ++ (match t.opened with | some n => [(n, [])] | none => [])
    | .rejectedAt i => runLArch ops = .error (.improperlyConfigured, i)
    | .unspecified => True :=
  Pta.larch_refines_lemma ops

/-- invariant of every reachable architecture: layer names are unique, at most one layer is pending, and no
    module identifier is listed in two different layers -/
theorem larch_invariant (ops : List LArchOp) (a : LArch) (h : runLArch ops = .ok a) :
    (a.map (·.1)).Nodup ∧ a.pending.length ≤ 1 ∧
    ∀ l₁ ∈ a, ∀ l₂ ∈ a, ∀ f₁ ∈ l₁.2, ∀ f₂ ∈ l₂.2, f₁.isRegex = false → f₂.isRegex = false → f₁.id = f₂.id → l₁.1 = l₂.1 :=
  Pta.larch_invariant_lemma ops a h

/-- a layer rule needs an architecture first and exactly one subject layer: violating call sequences are rejected
    at the offending call (shared with C13.layer_rule_history) -/
theorem layer_rule_guards (mt : Str → Str → Bool) (a : LArch) (ops : List LayerRuleOp) (g : PGraph Str) (i : Nat)
    (hbased : ∀ op ∈ ops, ∀ a', op = LayerRuleOp.basedOn a' → a' = a) :
    classifyLayerRule (ops.map (toLRCall a)) = .rejectedAt i → runLayerRuleOps mt ops g = (.err .improperlyConfigured, i) := by
  intro h
  have := Pta.layer_rule_history_lemma mt a ops g hbased
  rw [h] at this
  exact this

/-! non-vacuity -/
example : runLArch [.layer "a".toList, .containingModules ["mod".toList], .layer "b".toList, .containingModules ["mod".toList]]
    = .error (.improperlyConfigured, 3) := by rfl
example : ∃ a, runLArch [.layer "a".toList, .containingModules ["m".toList], .layer "b".toList, .containingModules ["mod".toList]] = .ok a := ⟨_, rfl⟩

end Pta.C16
