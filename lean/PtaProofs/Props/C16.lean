/-
  PtaProofs.Props.C16 — layer definitions are well-formed (property C16): for EVERY sequence of
  LayeredArchitecture builder calls the model accepts/rejects exactly as the specification automaton says,
  rejects at the offending call, and accepted definitions list exactly what was supplied, in order.
-/
import Bridge.Abs
import PtaProofs.Lemmas.Builders
import Bridge.BuilderCalls
import PtaProofs.Lemmas.LArchCalls
namespace Pta.C16
open Pta PtaSpec

/-- identifiers per layer of an architecture -/
def ids (a : LArch) : List (Str × List Str) := a.map fun l => (l.1, l.2.map (·.id))

/-- refinement: the builder follows the specification automaton on every history -/
theorem larch_refines (ops : List LArchOp) :
    match classifyLArch (ops.map toLCall) with
    | .accepted t => ∃ a, runLArch ops = .ok a ∧
        ids a = t.closed ++ (match t.opened with | some n => [(n, [])] | none => [])
    | .rejectedAt i => runLArch ops = .error (.improperlyConfigured, i)
    | .unspecified => True :=
  Pta.larch_refines_lemma ops

/-- invariant of every reachable architecture: layer names are unique, at most one layer is pending, and no
    module identifier is listed in two different layers -/
theorem larch_invariant (ops : List LArchOp) (a : LArch) (h : runLArch ops = .ok a) :
    (a.map (·.1)).Nodup ∧ a.pending.length ≤ 1 ∧
    ∀ l₁ ∈ a, ∀ l₂ ∈ a, ∀ f₁ ∈ l₁.2, ∀ f₂ ∈ l₂.2, f₁.isRegex = false → f₂.isRegex = false → f₁.id = f₂.id → l₁.1 = l₂.1 :=
  Pta.larch_invariant_lemma ops a h

/-- `containing_modules([])` supplies no modules, so the layer stays open: for every history `h` after which a layer
    `n` is open (the specification automaton accepts `h` in a state whose open layer is `n`), the history
    `h, containing_modules([]), layer(m)` is rejected at the `layer` call — by the specification automaton, and
    the builder model agrees with a configuration error at that very call -/
theorem empty_module_list_keeps_layer_open (h : List LArchOp) (t : LTrack) (n m : Str)
    (hacc : classifyLArch (h.map toLCall) = .accepted t) (hopen : t.opened = some n) :
    classifyLArch ((h ++ [LArchOp.containingModules [], LArchOp.layer m]).map toLCall) = .rejectedAt (h.length + 1) ∧
    runLArch (h ++ [LArchOp.containingModules [], LArchOp.layer m]) = .error (.improperlyConfigured, h.length + 1) :=
  Pta.empty_module_list_keeps_open_lemma h t n m hacc hopen

/-- the same on the specification vocabulary alone (every `LCall` history, not only images of model histories) -/
theorem spec_empty_module_list_keeps_layer_open (cs : List LCall) (t : LTrack) (n m : Str)
    (hacc : classifyLArch cs = .accepted t) (hopen : t.opened = some n) :
    classifyLArch (cs ++ [.modules [], .layer m]) = .rejectedAt (cs.length + 1) :=
  Pta.spec_empty_module_list_lemma cs t n m hacc hopen

/-- the empty list on an open layer is itself accepted and changes nothing: same automaton state, same
    architecture, the layer is still pending (so a later non-empty `containing_modules` / regex call fills it) -/
theorem empty_module_list_is_noop (h : List LArchOp) (t : LTrack) (n : Str)
    (hacc : classifyLArch (h.map toLCall) = .accepted t) (hopen : t.opened = some n) :
    classifyLArch ((h ++ [LArchOp.containingModules []]).map toLCall) = .accepted t ∧
    ∃ a, runLArch (h ++ [LArchOp.containingModules []]) = .ok a ∧ runLArch h = .ok a ∧ a.pending = [n] :=
  Pta.empty_module_list_noop_lemma h t n hacc hopen

/-- with no layer open, `containing_modules([])` is rejected at that call exactly like a non-empty list -/
theorem empty_module_list_without_layer (h rest : List LArchOp) (t : LTrack)
    (hacc : classifyLArch (h.map toLCall) = .accepted t) (hclosed : t.opened = none) :
    classifyLArch ((h ++ LArchOp.containingModules [] :: rest).map toLCall) = .rejectedAt h.length ∧
    runLArch (h ++ LArchOp.containingModules [] :: rest) = .error (.improperlyConfigured, h.length) :=
  Pta.empty_module_list_closed_lemma h rest t hacc hclosed

/-- a layer rule needs an architecture first and exactly one subject layer: violating call sequences are rejected
    at the offending call (shared with C13.layer_rule_history) -/
theorem layer_rule_guards (mt : Str → Str → Bool) (a : LArch) (ops : List LayerRuleOp) (g : PGraph Str) (i : Nat)
    (hbased : ∀ op ∈ ops, ∀ a', op = LayerRuleOp.basedOn a' → a' = a) :
    classifyLayerRule (ops.map (toLRCall a)) = .rejectedAt i → runLayerRuleOps mt ops g = (.err .improperlyConfigured, i) := by
  intro h
  have := Pta.layer_rule_history_lemma mt a ops g hbased
  rw [h] at this
  exact this

/-! non-vacuity -/
example : runLArch [.layer "a".toList, .containingModules ["mod".toList], .layer "b".toList, .containingModules ["mod".toList]]
    = .error (.improperlyConfigured, 3) := by rfl
example : ∃ a, runLArch [.layer "a".toList, .containingModules ["m".toList], .layer "b".toList, .containingModules ["mod".toList]] = .ok a := ⟨_, rfl⟩

/-- core has no `DecidableEq (Except ε α)`; derived here so that the model runs below are checked by `decide` -/
local instance instDecEqExcept {ε α : Type} [DecidableEq ε] [DecidableEq α] : DecidableEq (Except ε α)
  | .ok a, .ok b => if h : a = b then isTrue (by rw [h]) else isFalse (by intro e; cases e; exact h rfl)
  | .error a, .error b => if h : a = b then isTrue (by rw [h]) else isFalse (by intro e; cases e; exact h rfl)
  | .ok _, .error _ => isFalse (by intro e; cases e)
  | .error _, .ok _ => isFalse (by intro e; cases e)

/-! `containing_modules([])`: `layer a, containing_modules [], layer b` (the seeded tuples-for-lists defect lets this pass) -/
example : classifyLArch [.layer "a".toList, .modules [], .layer "b".toList] = .rejectedAt 2 := by decide
example : runLArch [.layer "a".toList, .containingModules [], .layer "b".toList] = .error (.improperlyConfigured, 2) := by decide
/-- the hypotheses of `empty_module_list_keeps_layer_open` hold for `h = [layer a]` (layer `a` open), and for a longer history -/
example : classifyLArch ([LArchOp.layer "a".toList].map toLCall) = .accepted ⟨[], some "a".toList⟩ := by decide
example : classifyLArch ([LArchOp.layer "a".toList, .containingModules ["x".toList], .withLayer, .layer "b".toList].map toLCall)
    = .accepted ⟨[("a".toList, ["x".toList])], some "b".toList⟩ := by decide
/-- `empty_module_list_without_layer`: hypotheses hold for the empty history and after a finished layer -/
example : classifyLArch (([] : List LArchOp).map toLCall) = .accepted ⟨[], none⟩ := by decide
example : classifyLArch [.layer "a".toList, .modules ["x".toList], .modules []] = .rejectedAt 2 := by decide
example : runLArch [.layer "a".toList, .containingModules ["x".toList], .containingModules []] = .error (.improperlyConfigured, 2) := by decide
/-- the empty list, then a non-empty one: accepted, the layer receives the later modules -/
example : classifyLArch [.layer "a".toList, .modules [], .modules ["x".toList], .layer "b".toList]
    = .accepted ⟨[("a".toList, ["x".toList])], some "b".toList⟩ := by decide
example : runLArch [.layer "a".toList, .containingModules [], .containingModules ["x".toList], .layer "b".toList]
    = .ok [("a".toList, [.name "x".toList]), ("b".toList, [])] := by decide
/-- (a) stays a don't-care: a regex textually equal to a module name given elsewhere -/
example : classifyLArch [.layer "a".toList, .modules ["x".toList], .layer "b".toList, .regex "x".toList] = .unspecified := by decide

/-! ### `containing_modules` with a `str` or a `list[str]` argument (`LArchCall`, `ModArg`, `runLArchCalls`)

  "a module name can be assigned to at most one layer no matter whether it is passed as a string or inside a list":
  the argument form is part of the model (`PtaModel/Layer.lean`: `ModArg.toList` transcribes
  `modules_list = modules if isinstance(modules, list) else [modules]`), the specification call of either form is
  `LCall.modules` with the names supplied (`Bridge/BuilderCalls.lean: callToLCall`). -/

/-- the run on a history with both argument forms is the run on the list-form history (`LArchCall.toOp`), so every
    theorem about `runLArch` above applies -/
theorem calls_eq_list_form_run (cs : List LArchCall) : runLArchCalls cs = runLArch (cs.map LArchCall.toOp) :=
  Pta.Hist.runLArchCalls_eq cs

/-- string or list: two histories that become equal when every `containing_modules("m")` is written
    `containing_modules(["m"])` (`LArchCall.listForm`) — i.e. that differ at any number of positions in the FORM of that
    argument only — have the same result: the same accepted architecture, or the same error at the same call -/
theorem string_form_eq_list_form (cs cs' : List LArchCall)
    (h : cs.map LArchCall.listForm = cs'.map LArchCall.listForm) : runLArchCalls cs = runLArchCalls cs' :=
  Pta.Hist.string_form_eq_list_form_lemma h

/-- in particular: replacing every string argument by the one-element list changes nothing -/
theorem string_form_eq_list_form_all (cs : List LArchCall) : runLArchCalls (cs.map LArchCall.listForm) = runLArchCalls cs :=
  string_form_eq_list_form _ _ (by rw [List.map_map]; exact List.map_congr_left fun c _ => Pta.Hist.listForm_idem c)

/-- … and replacing ONE string argument, anywhere in any history -/
theorem string_form_eq_list_form_one (pre post : List LArchCall) (s : Str) :
    runLArchCalls (pre ++ .containing (.str s) :: post) = runLArchCalls (pre ++ .containing (.list [s]) :: post) :=
  string_form_eq_list_form _ _ (by simp [LArchCall.listForm])

/-- refinement (`larch_refines`), for histories with both argument forms: the builder follows the specification
    automaton on every history -/
theorem larch_calls_refine (cs : List LArchCall) :
    match classifyLArch (cs.map callToLCall) with
    | .accepted t => ∃ a, runLArchCalls cs = .ok a ∧
        a.idsPerLayer = t.closed ++ (match t.opened with | some n => [(n, [])] | none => [])
    | .rejectedAt i => runLArchCalls cs = .error (.improperlyConfigured, i)
    | .unspecified => True :=
  Pta.Hist.larch_calls_refine_lemma cs

/-- invariant (`larch_invariant`), for histories with both argument forms: layer names are unique, at most one layer
    is pending, and no module identifier is listed in two different layers -/
theorem larch_calls_invariant (cs : List LArchCall) (a : LArch) (h : runLArchCalls cs = .ok a) :
    (a.map (·.1)).Nodup ∧ a.pending.length ≤ 1 ∧
    ∀ l₁ ∈ a, ∀ l₂ ∈ a, ∀ f₁ ∈ l₁.2, ∀ f₂ ∈ l₂.2, f₁.isRegex = false → f₂.isRegex = false → f₁.id = f₂.id → l₁.1 = l₂.1 :=
  Pta.Hist.larch_calls_invariant_lemma cs a h

/-- a module passed to `containing_modules` twice, in whatever forms (`y`, `x`: a string or a list containing it):
    EVERY history of the shape `pre, containing_modules(y), mid, containing_modules(x), rest` is rejected with a
    configuration error — at the second of the two calls (index `pre.length + 1 + mid.length`) when the calls before it
    were accepted, and earlier otherwise -/
theorem module_in_one_layer (pre mid rest : List LArchCall) (y x : ModArg) (m : Str)
    (hy : m ∈ y.toList) (hx : m ∈ x.toList) :
    ∃ i, i ≤ pre.length + 1 + mid.length ∧
      runLArchCalls (pre ++ .containing y :: mid ++ .containing x :: rest) = .error (.improperlyConfigured, i) ∧
      ((∃ a, runLArchCalls (pre ++ .containing y :: mid) = .ok a) → i = pre.length + 1 + mid.length) :=
  Pta.Hist.module_twice_calls pre mid rest y x m hy hx

/-- the string form: after an accepted history in which module `m` was passed as a STRING to one layer, passing `m`
    again — as a string or inside a list, to that layer or (after `layer(B)` in `mid`) to another one — is rejected AT that
    later call, whatever follows -/
theorem string_form_one_layer (pre mid rest : List LArchCall) (m : Str) (x : ModArg) (hx : m ∈ x.toList) (a : LArch)
    (hacc : runLArchCalls (pre ++ .containing (.str m) :: mid) = .ok a) :
    runLArchCalls (pre ++ .containing (.str m) :: mid ++ .containing x :: rest)
      = .error (.improperlyConfigured, pre.length + 1 + mid.length) := by
  obtain ⟨i, _, hrun, hi⟩ := module_in_one_layer pre mid rest (.str m) x m (by simp [ModArg.toList]) hx
  rw [hrun, hi ⟨a, hacc⟩]

/-- so no accepted history passes a module as a string and again later, in either form -/
theorem string_form_never_twice (pre mid rest : List LArchCall) (m : Str) (x : ModArg) (hx : m ∈ x.toList) (a : LArch) :
    runLArchCalls (pre ++ .containing (.str m) :: mid ++ .containing x :: rest) ≠ .ok a := by
  obtain ⟨i, _, hrun, _⟩ := module_in_one_layer pre mid rest (.str m) x m (by simp [ModArg.toList]) hx
  rw [hrun]
  intro h
  cases h

/-! the defect F-C16 (repaired by fix 1df0d8a), on the model of the pre-repair code `LArch.stepCharset`
    (`module_set = set(modules)`: for a `str` argument the set of its characters) -/

/-- before the repair `layer A, containing_modules("mod"), layer B, containing_modules("mod")` was ACCEPTED: two layers own
    `mod` -/
theorem charset_counterexample_accepts :
    runLArchCharset [.op (.layer "A".toList), .containing (.str "mod".toList), .op (.layer "B".toList), .containing (.str "mod".toList)]
      = .ok [("A".toList, [.name "mod".toList]), ("B".toList, [.name "mod".toList])] := by decide

/-- … and `layer A, containing_modules(["m"]), layer B, containing_modules("mod")` was REJECTED (at call 3) although no
    module is shared: the character `m` of `"mod"` is the module `m` of layer A -/
theorem charset_counterexample_rejects :
    runLArchCharset [.op (.layer "A".toList), .containing (.list ["m".toList]), .op (.layer "B".toList), .containing (.str "mod".toList)]
      = .error (.improperlyConfigured, 3) := by decide

/-- the library as it is, on the same two histories: rejected at call 3 (hypotheses of `string_form_one_layer` with
    `pre = [layer A]`, `mid = [layer B]`), and accepted -/
example : runLArchCalls [.op (.layer "A".toList), .containing (.str "mod".toList), .op (.layer "B".toList), .containing (.str "mod".toList)]
    = .error (.improperlyConfigured, 3) := by decide
example : runLArchCalls [.op (.layer "A".toList), .containing (.list ["m".toList]), .op (.layer "B".toList), .containing (.str "mod".toList)]
    = .ok [("A".toList, [.name "m".toList]), ("B".toList, [.name "mod".toList])] := by decide
/-- with list arguments only the pre-repair code and the repaired code agree (the defect needs a `str` argument) -/
example : runLArchCharset [.op (.layer "A".toList), .containing (.list ["mod".toList]), .op (.layer "B".toList), .containing (.list ["mod".toList])]
    = .error (.improperlyConfigured, 3) := by decide

/-! non-vacuity of `string_form_one_layer` / `module_in_one_layer`: an accepted prefix `layer A, "mod", layer B`, then
    `mod` inside a list -/
example : runLArchCalls ([.op (.layer "A".toList)] ++ .containing (.str "mod".toList) :: [.op (.layer "B".toList)])
    = .ok [("A".toList, [.name "mod".toList]), ("B".toList, [])] := by decide
example : "mod".toList ∈ (ModArg.list ["x".toList, "mod".toList]).toList := by decide
example : runLArchCalls ([.op (.layer "A".toList)] ++ .containing (.str "mod".toList) :: [.op (.layer "B".toList)] ++
      .containing (.list ["x".toList, "mod".toList]) :: [.op (.layer "C".toList)])
    = .error (.improperlyConfigured, 3) := by decide
/-- `string_form_eq_list_form`: histories that differ in the form only -/
example : ([.op (.layer "A".toList), .containing (.str "mod".toList)] : List LArchCall).map LArchCall.listForm
    = ([.op (.layer "A".toList), .containing (.list ["mod".toList])] : List LArchCall).map LArchCall.listForm := by decide
/-- `larch_calls_refine`: the specification automaton on a history with both forms -/
example : classifyLArch ([.op (.layer "A".toList), .containing (.str "mod".toList), .op (.layer "B".toList),
      .containing (.list ["x".toList, "y".toList])].map callToLCall)
    = .accepted ⟨[("A".toList, ["mod".toList]), ("B".toList, ["x".toList, "y".toList])], none⟩ := by decide
example : classifyLArch ([.op (.layer "A".toList), .containing (.str "mod".toList), .op (.layer "B".toList),
      .containing (.list ["x".toList, "mod".toList])].map callToLCall) = .rejectedAt 3 := by decide

end Pta.C16
