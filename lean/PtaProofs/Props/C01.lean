/-
  PtaProofs.Props.C01 — module-rule verdicts equal the documented rule semantics (property C01), and the report
  equals the specification's violating set (property C03, part 2).
  For EVERY well-formed architecture, EVERY strict rule (subjects and objects pairwise unrelated; any number of them;
  both filter kinds; all 12 shapes and the two `anything` aliases) whose names exist: the model of
  `Rule(...).assert_applies` on the graph built by the model of `NetworkxGraph` passes exactly when the declarative
  semantics of PtaSpec/RuleSem.lean hold, and fails (AssertionError) exactly when they do not.
-/
import Bridge.Abs
import PtaProofs.Lemmas.Semantics
import PtaProofs.Lemmas.SemanticsPlain
namespace Pta.C01
open Pta PtaSpec

/-- verdict = documented semantics, on any graph that represents the architecture -/
theorem verdict_spec_of_graph (mt : Str → Str → Bool) (a : Arch) (g : PGraph Str) (hg : GraphOf a g) (hwf : a.wf = true)
    (r : RuleSpec) (hstrict : r.strict = true) (hnames : r.namesIn a = true)
    (hs : r.subjects ≠ []) (ho : r.anything = true ∨ r.objects ≠ [])
    (hany : r.anything = true → r.verb = .shouldNot) :
    verdictOf mt g (compile r) = VClass.ofBool (verdict a r) :=
  Pta.verdict_spec_of_graph_lemma mt a g hg hwf r hstrict hnames hs ho hany

/-- verdict = documented semantics, on the graph the constructor builds -/
theorem verdict_spec (mt : Str → Str → Bool) (a : Arch) (hwf : a.wf = true)
    (r : RuleSpec) (hstrict : r.strict = true) (hnames : r.namesIn a = true)
    (hs : r.subjects ≠ []) (ho : r.anything = true ∨ r.objects ≠ [])
    (hany : r.anything = true → r.verb = .shouldNot) :
    verdictOf mt (archGraph a) (compile r) = VClass.ofBool (verdict a r) :=
  Pta.verdict_spec_of_graph_lemma mt a (archGraph a) (Pta.archGraph_graphOf a hwf) hwf r hstrict hnames hs ho hany

/-- C03 part 2: when the rule fails, the reported atoms are exactly the specification's violating set -/
theorem report_spec (mt : Str → Str → Bool) (a : Arch) (g : PGraph Str) (hg : GraphOf a g) (hwf : a.wf = true)
    (r : RuleSpec) (hstrict : r.strict = true) (hnames : r.namesIn a = true)
    (hs : r.subjects ≠ []) (ho : r.anything = true ∨ r.objects ≠ [])
    (hany : r.anything = true → r.verb = .shouldNot) (items : List Item)
    (h : (assertApplies mt (compile r) g).2 = .fail items) :
    ∀ x, x ∈ items.flatMap Item.atoms ↔ x ∈ (violating a r).flatMap SItem.atoms :=
  Pta.report_spec_lemma mt a g hg hwf r hstrict hnames hs ho hany items h

/-- unknown names never give a verdict (shared with C13) -/
theorem unknown_name_no_verdict (mt : Str → Str → Bool) (a : Arch) (g : PGraph Str) (hg : GraphOf a g)
    (r : RuleSpec) (hs : r.subjects ≠ []) (ho : r.anything = true ∨ r.objects ≠ [])
    (hany : r.anything = true → r.verb = .shouldNot)
    (hdd : r.anything = true → dedupSubjects (r.subjects.map compileFilter) = r.subjects.map compileFilter)
    (hmissing : ∃ f ∈ r.subjects ++ r.effObjects, f.id ∉ a.nodes) (hwfn : ∀ f ∈ r.subjects ++ r.effObjects, nameWF f.id = true)
    (hwf : a.wf = true) :
    verdictOf mt g (compile r) = .err .lookupError :=
  Pta.unknown_name_no_verdict_lemma mt a g hg r hs ho hany hdd hmissing hwfn hwf

/-! non-vacuity: a 5-node architecture, a strict rule, both sides evaluate -/
def nm (s : String) : Name := splitDots s.toList
def exA : Arch := { nodes := ["p", "p.a", "p.a.x", "p.b", "q"].map nm, imports := [(nm "p.a.x", nm "q"), (nm "p.b", nm "p.a")] }
def exR : RuleSpec := { verb := .shouldOnly, importDir := true, exc := false, subjects := [.named (nm "p.a")], objects := [.named (nm "q")] }
example : exA.wf = true ∧ exR.strict = true ∧ exR.namesIn exA = true := by decide
example : verdictOf (fun _ _ => false) (archGraph exA) (compile exR) = .pass ∧ verdict exA exR = true := by decide

/-! ### beyond strict rules: plain `should` / `should_not` rules (no `except`, not `anything`) with NAMED subjects and
    objects. No relation between the names is assumed: a subject may equal an object, be an ancestor or a descendant of
    one, and either list may contain duplicates. (With `are_sub_modules_of` filters the extension is false.) -/

/-- verdict = documented semantics for plain named rules, on any graph that represents the architecture -/
theorem verdict_spec_plain_named (mt : Str → Str → Bool) (a : Arch) (g : PGraph Str) (hg : GraphOf a g) (hwf : a.wf = true)
    (r : RuleSpec) (hverb : r.verb = .should ∨ r.verb = .shouldNot) (hexc : r.exc = false) (hany : r.anything = false)
    (hnamed : (r.subjects ++ r.objects).all (fun f => !f.isSub) = true) (hnames : r.namesIn a = true)
    (hs : r.subjects ≠ []) (ho : r.objects ≠ []) :
    verdictOf mt g (compile r) = VClass.ofBool (verdict a r) :=
  Pta.verdict_spec_plain_named_lemma mt a g hg hwf r hverb hexc hany hnamed hnames hs ho

/-- the same on the graph the constructor builds -/
theorem verdict_spec_plain_named_arch (mt : Str → Str → Bool) (a : Arch) (hwf : a.wf = true)
    (r : RuleSpec) (hverb : r.verb = .should ∨ r.verb = .shouldNot) (hexc : r.exc = false) (hany : r.anything = false)
    (hnamed : (r.subjects ++ r.objects).all (fun f => !f.isSub) = true) (hnames : r.namesIn a = true)
    (hs : r.subjects ≠ []) (ho : r.objects ≠ []) :
    verdictOf mt (archGraph a) (compile r) = VClass.ofBool (verdict a r) :=
  Pta.verdict_spec_plain_named_lemma mt a (archGraph a) (Pta.archGraph_graphOf a hwf) hwf r hverb hexc hany hnamed hnames hs ho

/-- when a plain named rule fails, the reported atoms are exactly the specification's violating set -/
theorem report_spec_plain_named (mt : Str → Str → Bool) (a : Arch) (g : PGraph Str) (hg : GraphOf a g) (hwf : a.wf = true)
    (r : RuleSpec) (hverb : r.verb = .should ∨ r.verb = .shouldNot) (hexc : r.exc = false) (hany : r.anything = false)
    (hnamed : (r.subjects ++ r.objects).all (fun f => !f.isSub) = true) (hnames : r.namesIn a = true)
    (hs : r.subjects ≠ []) (ho : r.objects ≠ []) (items : List Item)
    (h : (assertApplies mt (compile r) g).2 = .fail items) :
    ∀ x, x ∈ items.flatMap Item.atoms ↔ x ∈ (violating a r).flatMap SItem.atoms :=
  Pta.report_spec_plain_named_lemma mt a g hg hwf r hverb hexc hany hnamed hnames hs ho items h

/-! non-vacuity: related names (subject `p`, objects `p.a` and `q`), both verbs, both directions; the rules are not
    strict, meet every hypothesis, and both sides evaluate (to the same verdict) -/
def exP (v : Verb) (d : Bool) : RuleSpec :=
  { verb := v, importDir := d, exc := false, subjects := [.named (nm "p")], objects := [.named (nm "p.a"), .named (nm "q")] }
example : ∀ v ∈ [Verb.should, Verb.shouldNot], ∀ d ∈ [true, false],
    (exP v d).strict = false ∧ (exP v d).namesIn exA = true ∧ (exP v d).exc = false ∧ (exP v d).anything = false ∧
    ((exP v d).subjects ++ (exP v d).objects).all (fun f => !f.isSub) = true ∧
    (exP v d).subjects ≠ [] ∧ (exP v d).objects ≠ [] := by decide
/-- `p` imports `p.a` (via `p.b → p.a`, inside `p`) and `q` (via `p.a.x → q`): `should import` holds, `should_not` fails -/
example : verdictOf (fun _ _ => false) (archGraph exA) (compile (exP .should true)) = .pass ∧ verdict exA (exP .should true) = true ∧
    verdictOf (fun _ _ => false) (archGraph exA) (compile (exP .shouldNot true)) = .fail ∧ verdict exA (exP .shouldNot true) = false := by
  decide
/-- nothing in `p.a` or `q` imports into `p` (the importer `p.b` of `p.b → p.a` is not in `p.a`):
    `should be imported by` fails, `should_not be imported by` passes -/
example : verdictOf (fun _ _ => false) (archGraph exA) (compile (exP .should false)) = .fail ∧ verdict exA (exP .should false) = false ∧
    verdictOf (fun _ _ => false) (archGraph exA) (compile (exP .shouldNot false)) = .pass ∧ verdict exA (exP .shouldNot false) = true := by
  decide
/-- the failing reports, atom by atom -/
example : (assertApplies (fun _ _ => false) (compile (exP .shouldNot true)) (archGraph exA)).2 =
    .fail [.imp "p.b".toList "p.a".toList false, .imp "p.a.x".toList "q".toList false] := by decide
/-- subject = object and duplicates: `p should_not import p, p` fails because of the import `p.b → p.a` inside `p` -/
def exS (v : Verb) (d : Bool) : RuleSpec :=
  { verb := v, importDir := d, exc := false, subjects := [.named (nm "p"), .named (nm "p")], objects := [.named (nm "p"), .named (nm "p.a"), .named (nm "p")] }
example : ∀ v ∈ [Verb.should, Verb.shouldNot], ∀ d ∈ [true, false],
    verdictOf (fun _ _ => false) (archGraph exA) (compile (exS v d)) = VClass.ofBool (verdict exA (exS v d)) := by decide
example : verdict exA (exS .should true) = true ∧ verdict exA (exS .shouldNot true) = false ∧
    verdict exA (exS .should false) = false ∧ verdict exA (exS .shouldNot false) = false := by decide

/-- why `hnamed` is needed (known from the differential run): with an `are_sub_modules_of` filter related to a named one the
    extension is false. `p.a` imports `p`; "sub modules of p should_not import p": the specification sees the edge
    (`p.a` is a strict descendant of `p`, `p` is in `desc p`), `get_dependency_between_modules` drops it because its
    importee is the parent identifier `p` of the `are_sub_modules_of` filter. All other hypotheses hold. -/
def exB : Arch := { nodes := ["p", "p.a"].map nm, imports := [(nm "p.a", nm "p")] }
def exSub : RuleSpec := { verb := .shouldNot, importDir := true, exc := false, subjects := [.subOf (nm "p")], objects := [.named (nm "p")] }
theorem plain_subOf_counterexample :
    exB.wf = true ∧ exSub.namesIn exB = true ∧ exSub.exc = false ∧ exSub.anything = false ∧
    verdictOf (fun _ _ => false) (archGraph exB) (compile exSub) = .pass ∧ verdict exB exSub = false := by decide

end Pta.C01
