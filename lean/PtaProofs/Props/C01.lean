/-
  PtaProofs.Props.C01 — module-rule verdicts equal the documented rule semantics (property C01), and the report
  equals the specification's violating set (property C03, part 2).
  For EVERY well-formed architecture, EVERY strict rule (subjects and objects pairwise unrelated; any number of them;
  both filter kinds; all 12 shapes and the two `anything` aliases) whose names exist: the model of
  `Rule(...).assert_applies` on the graph built by the model of `NetworkxGraph` passes exactly when the declarative
  semantics of PtaSpec/RuleSem.lean hold, and fails (AssertionError) exactly when they do not.
-/
import Bridge.Abs
import PtaProofs.Lemmas.Semantics
import PtaProofs.Lemmas.SemanticsPlain
import Bridge.RuleChain
import PtaProofs.Lemmas.SemanticsNamed
namespace Pta.C01
open Pta PtaSpec

/-- verdict = documented semantics, on any graph that represents the architecture -/
theorem verdict_spec_of_graph (mt : Str → Str → Bool) (a : Arch) (g : PGraph Str) (hg : GraphOf a g) (hwf : a.wf = true)
    (r : RuleSpec) (hstrict : r.strict = true) (hnames : r.namesIn a = true)
    (hs : r.subjects ≠ []) (ho : r.anything = true ∨ r.objects ≠ [])
    (hany : r.anything = true → r.verb = .shouldNot) :
    verdictOf mt g (compile r) = VClass.ofBool (verdict a r) :=
  Pta.verdict_spec_of_graph_lemma mt a g hg hwf r hstrict hnames hs ho hany

/-- verdict = documented semantics, on the graph the constructor builds -/
theorem verdict_spec (mt : Str → Str → Bool) (a : Arch) (hwf : a.wf = true)
    (r : RuleSpec) (hstrict : r.strict = true) (hnames : r.namesIn a = true)
    (hs : r.subjects ≠ []) (ho : r.anything = true ∨ r.objects ≠ [])
    (hany : r.anything = true → r.verb = .shouldNot) :
    verdictOf mt (archGraph a) (compile r) = VClass.ofBool (verdict a r) :=
  Pta.verdict_spec_of_graph_lemma mt a (archGraph a) (Pta.archGraph_graphOf a hwf) hwf r hstrict hnames hs ho hany

/-- C03 part 2: when the rule fails, the reported atoms are exactly the specification's violating set -/
theorem report_spec (mt : Str → Str → Bool) (a : Arch) (g : PGraph Str) (hg : GraphOf a g) (hwf : a.wf = true)
    (r : RuleSpec) (hstrict : r.strict = true) (hnames : r.namesIn a = true)
    (hs : r.subjects ≠ []) (ho : r.anything = true ∨ r.objects ≠ [])
    (hany : r.anything = true → r.verb = .shouldNot) (items : List Item)
    (h : (assertApplies mt (compile r) g).2 = .fail items) :
    ∀ x, x ∈ items.flatMap Item.atoms ↔ x ∈ (violating a r).flatMap SItem.atoms :=
  Pta.report_spec_lemma mt a g hg hwf r hstrict hnames hs ho hany items h

/-- unknown names never give a verdict (shared with C13) -/
theorem unknown_name_no_verdict (mt : Str → Str → Bool) (a : Arch) (g : PGraph Str) (hg : GraphOf a g)
    (r : RuleSpec) (hs : r.subjects ≠ []) (ho : r.anything = true ∨ r.objects ≠ [])
    (hany : r.anything = true → r.verb = .shouldNot)
    (hdd : r.anything = true → dedupSubjects (r.subjects.map compileFilter) = r.subjects.map compileFilter)
    (hmissing : ∃ f ∈ r.subjects ++ r.effObjects, f.id ∉ a.nodes) (hwfn : ∀ f ∈ r.subjects ++ r.effObjects, nameWF f.id = true)
    (hwf : a.wf = true) :
    verdictOf mt g (compile r) = .err .lookupError :=
  Pta.unknown_name_no_verdict_lemma mt a g hg r hs ho hany hdd hmissing hwfn hwf

/-! non-vacuity: a 5-node architecture, a strict rule, both sides evaluate -/
def nm (s : String) : Name := splitDots s.toList
def exA : Arch := { nodes := ["p", "p.a", "p.a.x", "p.b", "q"].map nm, imports := [(nm "p.a.x", nm "q"), (nm "p.b", nm "p.a")] }
def exR : RuleSpec := { verb := .shouldOnly, importDir := true, exc := false, subjects := [.named (nm "p.a")], objects := [.named (nm "q")] }
example : exA.wf = true ∧ exR.strict = true ∧ exR.namesIn exA = true := by decide
example : verdictOf (fun _ _ => false) (archGraph exA) (compile exR) = .pass ∧ verdict exA exR = true := by decide

/-! ### beyond strict rules: plain `should` / `should_not` rules (no `except`, not `anything`) with NAMED subjects and
    objects. No relation between the names is assumed: a subject may equal an object, be an ancestor or a descendant of
    one, and either list may contain duplicates. (With `are_sub_modules_of` filters the extension is false.) -/

/-- verdict = documented semantics for plain named rules, on any graph that represents the architecture -/
theorem verdict_spec_plain_named (mt : Str → Str → Bool) (a : Arch) (g : PGraph Str) (hg : GraphOf a g) (hwf : a.wf = true)
    (r : RuleSpec) (hverb : r.verb = .should ∨ r.verb = .shouldNot) (hexc : r.exc = false) (hany : r.anything = false)
    (hnamed : (r.subjects ++ r.objects).all (fun f => !f.isSub) = true) (hnames : r.namesIn a = true)
    (hs : r.subjects ≠ []) (ho : r.objects ≠ []) :
    verdictOf mt g (compile r) = VClass.ofBool (verdict a r) :=
  Pta.verdict_spec_plain_named_lemma mt a g hg hwf r hverb hexc hany hnamed hnames hs ho

/-- the same on the graph the constructor builds -/
theorem verdict_spec_plain_named_arch (mt : Str → Str → Bool) (a : Arch) (hwf : a.wf = true)
    (r : RuleSpec) (hverb : r.verb = .should ∨ r.verb = .shouldNot) (hexc : r.exc = false) (hany : r.anything = false)
    (hnamed : (r.subjects ++ r.objects).all (fun f => !f.isSub) = true) (hnames : r.namesIn a = true)
    (hs : r.subjects ≠ []) (ho : r.objects ≠ []) :
    verdictOf mt (archGraph a) (compile r) = VClass.ofBool (verdict a r) :=
  Pta.verdict_spec_plain_named_lemma mt a (archGraph a) (Pta.archGraph_graphOf a hwf) hwf r hverb hexc hany hnamed hnames hs ho

/-- when a plain named rule fails, the reported atoms are exactly the specification's violating set -/
theorem report_spec_plain_named (mt : Str → Str → Bool) (a : Arch) (g : PGraph Str) (hg : GraphOf a g) (hwf : a.wf = true)
    (r : RuleSpec) (hverb : r.verb = .should ∨ r.verb = .shouldNot) (hexc : r.exc = false) (hany : r.anything = false)
    (hnamed : (r.subjects ++ r.objects).all (fun f => !f.isSub) = true) (hnames : r.namesIn a = true)
    (hs : r.subjects ≠ []) (ho : r.objects ≠ []) (items : List Item)
    (h : (assertApplies mt (compile r) g).2 = .fail items) :
    ∀ x, x ∈ items.flatMap Item.atoms ↔ x ∈ (violating a r).flatMap SItem.atoms :=
  Pta.report_spec_plain_named_lemma mt a g hg hwf r hverb hexc hany hnamed hnames hs ho items h

/-! non-vacuity: related names (subject `p`, objects `p.a` and `q`), both verbs, both directions; the rules are not
    strict, meet every hypothesis, and both sides evaluate (to the same verdict) -/
def exP (v : Verb) (d : Bool) : RuleSpec :=
  { verb := v, importDir := d, exc := false, subjects := [.named (nm "p")], objects := [.named (nm "p.a"), .named (nm "q")] }
example : ∀ v ∈ [Verb.should, Verb.shouldNot], ∀ d ∈ [true, false],
    (exP v d).strict = false ∧ (exP v d).namesIn exA = true ∧ (exP v d).exc = false ∧ (exP v d).anything = false ∧
    ((exP v d).subjects ++ (exP v d).objects).all (fun f => !f.isSub) = true ∧
    (exP v d).subjects ≠ [] ∧ (exP v d).objects ≠ [] := by decide
/-- `p` imports `p.a` (via `p.b → p.a`, inside `p`) and `q` (via `p.a.x → q`): `should import` holds, `should_not` fails -/
example : verdictOf (fun _ _ => false) (archGraph exA) (compile (exP .should true)) = .pass ∧ verdict exA (exP .should true) = true ∧
    verdictOf (fun _ _ => false) (archGraph exA) (compile (exP .shouldNot true)) = .fail ∧ verdict exA (exP .shouldNot true) = false := by
  decide
/-- nothing in `p.a` or `q` imports into `p` (the importer `p.b` of `p.b → p.a` is not in `p.a`):
    `should be imported by` fails, `should_not be imported by` passes -/
example : verdictOf (fun _ _ => false) (archGraph exA) (compile (exP .should false)) = .fail ∧ verdict exA (exP .should false) = false ∧
    verdictOf (fun _ _ => false) (archGraph exA) (compile (exP .shouldNot false)) = .pass ∧ verdict exA (exP .shouldNot false) = true := by
  decide
/-- the failing reports, atom by atom -/
example : (assertApplies (fun _ _ => false) (compile (exP .shouldNot true)) (archGraph exA)).2 =
    .fail [.imp "p.b".toList "p.a".toList false, .imp "p.a.x".toList "q".toList false] := by decide
/-- subject = object and duplicates: `p should_not import p, p` fails because of the import `p.b → p.a` inside `p` -/
def exS (v : Verb) (d : Bool) : RuleSpec :=
  { verb := v, importDir := d, exc := false, subjects := [.named (nm "p"), .named (nm "p")], objects := [.named (nm "p"), .named (nm "p.a"), .named (nm "p")] }
example : ∀ v ∈ [Verb.should, Verb.shouldNot], ∀ d ∈ [true, false],
    verdictOf (fun _ _ => false) (archGraph exA) (compile (exS v d)) = VClass.ofBool (verdict exA (exS v d)) := by decide
example : verdict exA (exS .should true) = true ∧ verdict exA (exS .shouldNot true) = false ∧
    verdict exA (exS .should false) = false ∧ verdict exA (exS .shouldNot false) = false := by decide

/-- why `hnamed` is needed (known from the differential run): with an `are_sub_modules_of` filter related to a named one the
    extension is false. `p.a` imports `p`; "sub modules of p should_not import p": the specification sees the edge
    (`p.a` is a strict descendant of `p`, `p` is in `desc p`), `get_dependency_between_modules` drops it because its
    importee is the parent identifier `p` of the `are_sub_modules_of` filter. All other hypotheses hold. -/
def exB : Arch := { nodes := ["p", "p.a"].map nm, imports := [(nm "p.a", nm "p")] }
def exSub : RuleSpec := { verb := .shouldNot, importDir := true, exc := false, subjects := [.subOf (nm "p")], objects := [.named (nm "p")] }
theorem plain_subOf_counterexample :
    exB.wf = true ∧ exSub.namesIn exB = true ∧ exSub.exc = false ∧ exSub.anything = false ∧
    verdictOf (fun _ _ => false) (archGraph exB) (compile exSub) = .pass ∧ verdict exB exSub = false := by decide

/-! ### beyond strict rules, all 12 shapes and the two `anything` aliases (audit F4)

    Domains (Bridge/RuleChain.lean), from small to large:
    `r.strict` ⊆ `compatible r` ⊇ `allNamedRule r`, and `compatible r` ⊆ `admissible r`.
    * `allNamedRule r`: every subject and (effective) object is an `are_named` filter; the names may be equal, nested,
      repeated, in any combination.
    * `compatible r`: the identifier of every `are_sub_modules_of` filter is unrelated to the identifier of every OTHER
      filter of the rule; `are_named` filters may be related to each other freely.
    * `admissible r = parentFree r && dedupSafe r`: the parent identifier of an `are_sub_modules_of` filter is not a
      MEMBER of any filter of the rule, and (for `anything`) every subject whose identifier lies strictly below another
      subject's identifier lies below a subject given by name. Since the repair of F-C12a `_convert_aliases` removes
      only subjects below a subject given by name, and `parentFree r` alone suffices: see `verdict_spec_parentFree`,
      `report_spec_parentFree` below (the theorems on `admissible` are kept as they were). -/

theorem strict_compatible (r : RuleSpec) (h : r.strict = true) : compatible r = true := Pta.strict_compatible r h
theorem allNamed_compatible (r : RuleSpec) (h : allNamedRule r = true) : compatible r = true :=
  Pta.allNamed_compatible r h
theorem compatible_admissible (r : RuleSpec) (h : compatible r = true) : admissible r = true :=
  Pta.compatible_admissible r h

/-- the most general form: verdict = documented semantics for every admissible rule -/
theorem verdict_spec_admissible (mt : Str → Str → Bool) (a : Arch) (g : PGraph Str) (hg : GraphOf a g) (hwf : a.wf = true)
    (r : RuleSpec) (hadm : admissible r = true) (hnames : r.namesIn a = true)
    (hs : r.subjects ≠ []) (ho : r.anything = true ∨ r.objects ≠ [])
    (hany : r.anything = true → r.verb = .shouldNot) :
    verdictOf mt g (compile r) = VClass.ofBool (verdict a r) :=
  Pta.verdict_spec_adm_lemma mt a g hg hwf r hadm hnames hs ho hany

/-- the most general form: the reported atoms are the specification's violating set, for every admissible rule.
    This includes the `anything` aliases with related subjects: the model reports on the subjects `_convert_aliases`
    retains, the specification on all subjects, and the two SETS of violating imports coincide. -/
theorem report_spec_admissible (mt : Str → Str → Bool) (a : Arch) (g : PGraph Str) (hg : GraphOf a g) (hwf : a.wf = true)
    (r : RuleSpec) (hadm : admissible r = true) (hnames : r.namesIn a = true)
    (hs : r.subjects ≠ []) (ho : r.anything = true ∨ r.objects ≠ [])
    (hany : r.anything = true → r.verb = .shouldNot) (items : List Item)
    (h : (assertApplies mt (compile r) g).2 = .fail items) :
    ∀ x, x ∈ items.flatMap Item.atoms ↔ x ∈ (violating a r).flatMap SItem.atoms :=
  Pta.report_spec_adm_lemma mt a g hg hwf r hadm hnames hs ho hany items h

/-- `r.strict` replaced by `compatible r`: every `are_sub_modules_of` identifier unrelated to every other identifier -/
theorem verdict_spec_compat (mt : Str → Str → Bool) (a : Arch) (g : PGraph Str) (hg : GraphOf a g) (hwf : a.wf = true)
    (r : RuleSpec) (hc : compatible r = true) (hnames : r.namesIn a = true)
    (hs : r.subjects ≠ []) (ho : r.anything = true ∨ r.objects ≠ [])
    (hany : r.anything = true → r.verb = .shouldNot) :
    verdictOf mt g (compile r) = VClass.ofBool (verdict a r) :=
  Pta.verdict_spec_adm_lemma mt a g hg hwf r (Pta.compatible_admissible r hc) hnames hs ho hany

theorem verdict_spec_compat_arch (mt : Str → Str → Bool) (a : Arch) (hwf : a.wf = true)
    (r : RuleSpec) (hc : compatible r = true) (hnames : r.namesIn a = true)
    (hs : r.subjects ≠ []) (ho : r.anything = true ∨ r.objects ≠ [])
    (hany : r.anything = true → r.verb = .shouldNot) :
    verdictOf mt (archGraph a) (compile r) = VClass.ofBool (verdict a r) :=
  Pta.verdict_spec_adm_lemma mt a (archGraph a) (Pta.archGraph_graphOf a hwf) hwf r
    (Pta.compatible_admissible r hc) hnames hs ho hany

theorem report_spec_compat (mt : Str → Str → Bool) (a : Arch) (g : PGraph Str) (hg : GraphOf a g) (hwf : a.wf = true)
    (r : RuleSpec) (hc : compatible r = true) (hnames : r.namesIn a = true)
    (hs : r.subjects ≠ []) (ho : r.anything = true ∨ r.objects ≠ [])
    (hany : r.anything = true → r.verb = .shouldNot) (items : List Item)
    (h : (assertApplies mt (compile r) g).2 = .fail items) :
    ∀ x, x ∈ items.flatMap Item.atoms ↔ x ∈ (violating a r).flatMap SItem.atoms :=
  Pta.report_spec_adm_lemma mt a g hg hwf r (Pta.compatible_admissible r hc) hnames hs ho hany items h

/-- all 12 shapes and the two `anything` aliases with NAMED subjects and objects, no relation between the names
    assumed (equal, nested, repeated — also across the two sides) -/
theorem verdict_spec_named (mt : Str → Str → Bool) (a : Arch) (g : PGraph Str) (hg : GraphOf a g) (hwf : a.wf = true)
    (r : RuleSpec) (hnamed : allNamedRule r = true) (hnames : r.namesIn a = true)
    (hs : r.subjects ≠ []) (ho : r.anything = true ∨ r.objects ≠ [])
    (hany : r.anything = true → r.verb = .shouldNot) :
    verdictOf mt g (compile r) = VClass.ofBool (verdict a r) :=
  Pta.verdict_spec_adm_lemma mt a g hg hwf r (Pta.allNamed_admissible r hnamed) hnames hs ho hany

theorem verdict_spec_named_arch (mt : Str → Str → Bool) (a : Arch) (hwf : a.wf = true)
    (r : RuleSpec) (hnamed : allNamedRule r = true) (hnames : r.namesIn a = true)
    (hs : r.subjects ≠ []) (ho : r.anything = true ∨ r.objects ≠ [])
    (hany : r.anything = true → r.verb = .shouldNot) :
    verdictOf mt (archGraph a) (compile r) = VClass.ofBool (verdict a r) :=
  Pta.verdict_spec_adm_lemma mt a (archGraph a) (Pta.archGraph_graphOf a hwf) hwf r
    (Pta.allNamed_admissible r hnamed) hnames hs ho hany

/-- the report of a named rule, as a set of atoms — in full also for the `anything` aliases with related subjects
    (no "`dedupSubjects` is the identity" hypothesis is needed: the duplicates only affect multiplicities) -/
theorem report_spec_named (mt : Str → Str → Bool) (a : Arch) (g : PGraph Str) (hg : GraphOf a g) (hwf : a.wf = true)
    (r : RuleSpec) (hnamed : allNamedRule r = true) (hnames : r.namesIn a = true)
    (hs : r.subjects ≠ []) (ho : r.anything = true ∨ r.objects ≠ [])
    (hany : r.anything = true → r.verb = .shouldNot) (items : List Item)
    (h : (assertApplies mt (compile r) g).2 = .fail items) :
    ∀ x, x ∈ items.flatMap Item.atoms ↔ x ∈ (violating a r).flatMap SItem.atoms :=
  Pta.report_spec_adm_lemma mt a g hg hwf r (Pta.allNamed_admissible r hnamed) hnames hs ho hany items h

/-! non-vacuity. Named, non-strict, every verb × direction × except: subjects `p.a` and its descendant `p.a.x`,
    objects `p` (an ancestor of both subjects) and `p.b` -/
def exN (v : Verb) (d x : Bool) : RuleSpec :=
  { verb := v, importDir := d, exc := x, subjects := [.named (nm "p.a"), .named (nm "p.a.x")],
    objects := [.named (nm "p"), .named (nm "p.b")] }
example : ∀ v ∈ [Verb.should, Verb.shouldOnly, Verb.shouldNot], ∀ d ∈ [true, false], ∀ x ∈ [true, false],
    (exN v d x).strict = false ∧ allNamedRule (exN v d x) = true ∧ (exN v d x).namesIn exA = true ∧
    (exN v d x).subjects ≠ [] ∧ (exN v d x).objects ≠ [] := by decide
set_option maxRecDepth 16000 in
/-- both sides evaluate, to the same class, on all 12 shapes (passes and failures both occur) -/
example : ∀ v ∈ [Verb.should, Verb.shouldOnly, Verb.shouldNot], ∀ d ∈ [true, false], ∀ x ∈ [true, false],
    verdictOf (fun _ _ => false) (archGraph exA) (compile (exN v d x)) = VClass.ofBool (verdict exA (exN v d x)) := by
  decide
example : verdict exA (exN .should true false) = false ∧ verdict exA (exN .should true true) = true ∧
    verdict exA (exN .shouldOnly true true) = true ∧ verdict exA (exN .shouldOnly false true) = false ∧
    verdict exA (exN .shouldNot false false) = false ∧ verdict exA (exN .shouldNot false true) = true := by decide
/-- `anything` with related (nested and repeated) named subjects: `_convert_aliases` removes `p.a` and the second `q`;
    the verdicts agree and so do the reported imports -/
def exAny (d : Bool) : RuleSpec :=
  { verb := .shouldNot, importDir := d, exc := false, subjects := [.named (nm "p.a"), .named (nm "q"), .named (nm "p.a.x"), .named (nm "q")],
    objects := [], anything := true }
example : ∀ d ∈ [true, false], (exAny d).strict = false ∧ allNamedRule (exAny d) = true ∧ (exAny d).namesIn exA = true ∧
    (exAny d).subjects ≠ [] ∧ (exAny d).anything = true ∧ (exAny d).verb = .shouldNot ∧ fluent (exAny d) = true ∧
    dedupSubjects ((exAny d).subjects.map compileFilter) ≠ (exAny d).subjects.map compileFilter := by decide
example : verdictOf (fun _ _ => false) (archGraph exA) (compile (exAny true)) = .pass ∧ verdict exA (exAny true) = true ∧
    verdictOf (fun _ _ => false) (archGraph exA) (compile (exAny false)) = .fail ∧ verdict exA (exAny false) = false := by
  decide
example : (assertApplies (fun _ _ => false) (compile (exAny false)) (archGraph exA)).2 =
      .fail [.imp "p.b".toList "p.a".toList true] ∧
    violating exA (exAny false) = [.imp (nm "p.b") (nm "p.a")] := by decide

/-- compatible but neither strict nor all named: `sub modules of p.a` next to the related names `p.b`, `p.b`, `q` -/
def exC (v : Verb) (d x : Bool) : RuleSpec :=
  { verb := v, importDir := d, exc := x, subjects := [.subOf (nm "p.a"), .named (nm "q"), .named (nm "q")],
    objects := [.named (nm "p.b"), .named (nm "q"), .subOf (nm "p.a")] }
example : ∀ v ∈ [Verb.should, Verb.shouldOnly, Verb.shouldNot], ∀ d ∈ [true, false], ∀ x ∈ [true, false],
    (exC v d x).strict = false ∧ allNamedRule (exC v d x) = false ∧ compatible (exC v d x) = true ∧
    (exC v d x).namesIn exA = true ∧ (exC v d x).subjects ≠ [] ∧ (exC v d x).objects ≠ [] := by decide
set_option maxRecDepth 16000 in
example : ∀ v ∈ [Verb.should, Verb.shouldOnly, Verb.shouldNot], ∀ d ∈ [true, false], ∀ x ∈ [true, false],
    verdictOf (fun _ _ => false) (archGraph exA) (compile (exC v d x)) = VClass.ofBool (verdict exA (exC v d x)) := by
  decide

/-- admissible but not compatible: `sub modules of p` together with its own descendant `p.a` (the parent identifier
    `p` is a member of neither filter) -/
def exD (v : Verb) (d x : Bool) : RuleSpec :=
  { verb := v, importDir := d, exc := x, subjects := [.subOf (nm "p")], objects := [.named (nm "p.a"), .named (nm "q")] }
example : ∀ v ∈ [Verb.should, Verb.shouldOnly, Verb.shouldNot], ∀ d ∈ [true, false], ∀ x ∈ [true, false],
    compatible (exD v d x) = false ∧ admissible (exD v d x) = true ∧ (exD v d x).namesIn exA = true ∧
    fluent (exD v d x) = true ∧ (exD v d x).subjects ≠ [] ∧ (exD v d x).objects ≠ [] := by decide
set_option maxRecDepth 16000 in
example : ∀ v ∈ [Verb.should, Verb.shouldOnly, Verb.shouldNot], ∀ d ∈ [true, false], ∀ x ∈ [true, false],
    verdictOf (fun _ _ => false) (archGraph exA) (compile (exD v d x)) = VClass.ofBool (verdict exA (exD v d x)) := by
  decide

/-- the boundary of `admissible`, first half: the rule of `plain_subOf_counterexample` is not `parentFree`
    (the parent identifier `p` of the subject is a member of the object `p`) -/
example : parentFree exSub = false ∧ dedupSafe exSub = true := by decide

/-- the former boundary of `admissible`, second half (`dedupSafe`): `p.a` imports `p`;
    "sub modules of p, p.a should_not import anything". Before the repair of F-C12a `_convert_aliases` removed the
    subject `p.a` because its identifier lies below the identifier `p` of the OTHER subject — although
    `sub modules of p` does not cover the import `p.a → p` (importee `p` is the subject's own parent), which the removed
    subject `p.a` does forbid (`p` is outside `p.a` and outside every object); the model PASSED and the specification
    did not hold. Since the repair only a subject given by name covers another subject: `p.a` is kept, the model FAILS,
    in agreement with the specification. The rule is `parentFree` and not `dedupSafe`, i.e. outside `admissible` but
    inside the domain of `verdict_spec_parentFree` below. -/
def exDd : RuleSpec :=
  { verb := .shouldNot, importDir := true, exc := false, subjects := [.subOf (nm "p"), .named (nm "p.a")], objects := [],
    anything := true }
theorem anything_subOf_dedup_repaired :
    exB.wf = true ∧ exDd.namesIn exB = true ∧ parentFree exDd = true ∧ dedupSafe exDd = false ∧
    dedupSubjects (exDd.subjects.map compileFilter) = exDd.subjects.map compileFilter ∧
    verdictOf (fun _ _ => false) (archGraph exB) (compile exDd) = .fail ∧ verdict exB exDd = false := by decide

/-- the same with a rule the fluent API CAN build (one `are_sub_modules_of([...])` call) — the regression witness of
    F-C12a: nodes `p`, `p.a`, `p.a.x`, `q`; the only import is `p.a.x → p`;
    `modules_that().are_sub_modules_of(["p", "p.a"]).should_not().import_anything()`.
    Before the repair `_convert_aliases` removed the subject `sub modules of p.a` (its identifier lies below `p`) and the
    remaining rule "sub modules of p should_not import except sub modules of p" tolerates the import (its far end `p` is
    the subject's own parent): the model PASSED, against the specification (for the subject `sub modules of p.a` the
    importee `p` is outside `p.a` and outside every object) and against the model's own verdict on the rule WITHOUT the
    alias, `… should_not().import_modules_except_modules_that().are_sub_modules_of(["p", "p.a"])` (it FAILS).
    Since the repair `sub modules of p` removes nothing: alias and spelled-out rule both FAIL, as the specification
    says. (The rule is neither `parentFree` — `p.a` is a member of `sub modules of p` — nor `dedupSafe`, so it is
    outside the domain of the oracle theorems; on this input model and specification agree nevertheless.) -/
def exE : Arch := { nodes := ["p", "p.a", "p.a.x", "q"].map nm, imports := [(nm "p.a.x", nm "p")] }
def exEany : RuleSpec :=
  { verb := .shouldNot, importDir := true, exc := false, subjects := [.subOf (nm "p"), .subOf (nm "p.a")], objects := [],
    anything := true }
def exEexc : RuleSpec :=
  { verb := .shouldNot, importDir := true, exc := true, subjects := [.subOf (nm "p"), .subOf (nm "p.a")],
    objects := [.subOf (nm "p"), .subOf (nm "p.a")] }
theorem anything_nested_subOf_repaired :
    exE.wf = true ∧ exEany.namesIn exE = true ∧ fluent exEany = true ∧ fluent exEexc = true ∧
    parentFree exEany = false ∧ dedupSafe exEany = false ∧
    verdictOf (fun _ _ => false) (archGraph exE) (compile exEany) = .fail ∧ verdict exE exEany = false ∧
    verdictOf (fun _ _ => false) (archGraph exE) (compile exEexc) = .fail ∧ verdict exE exEexc = false ∧
    (runRuleOps id (fun _ _ => false) (ruleOps exEany) (archGraph exE)).1.cls = .fail := by decide

/-! ### after the repair of F-C12a: `parentFree` alone suffices

    `_convert_aliases` now removes a subject only when its identifier lies strictly below the identifier of a subject
    GIVEN BY NAME; such a subject covers the removed one, so the `dedupSafe` half of `admissible` is not needed any more. -/

/-- verdict = documented semantics for every `parentFree` rule (⊇ `admissible`) -/
theorem verdict_spec_parentFree (mt : Str → Str → Bool) (a : Arch) (g : PGraph Str) (hg : GraphOf a g) (hwf : a.wf = true)
    (r : RuleSpec) (hpf : parentFree r = true) (hnames : r.namesIn a = true)
    (hs : r.subjects ≠ []) (ho : r.anything = true ∨ r.objects ≠ [])
    (hany : r.anything = true → r.verb = .shouldNot) :
    verdictOf mt g (compile r) = VClass.ofBool (verdict a r) :=
  Pta.verdict_spec_pf_lemma mt a g hg hwf r hpf hnames hs ho hany

/-- the reported atoms are the specification's violating set for every `parentFree` rule -/
theorem report_spec_parentFree (mt : Str → Str → Bool) (a : Arch) (g : PGraph Str) (hg : GraphOf a g) (hwf : a.wf = true)
    (r : RuleSpec) (hpf : parentFree r = true) (hnames : r.namesIn a = true)
    (hs : r.subjects ≠ []) (ho : r.anything = true ∨ r.objects ≠ [])
    (hany : r.anything = true → r.verb = .shouldNot) (items : List Item)
    (h : (assertApplies mt (compile r) g).2 = .fail items) :
    ∀ x, x ∈ items.flatMap Item.atoms ↔ x ∈ (violating a r).flatMap SItem.atoms :=
  Pta.report_spec_pf_lemma mt a g hg hwf r hpf hnames hs ho hany items h

theorem admissible_parentFree (r : RuleSpec) (h : admissible r = true) : parentFree r = true :=
  Pta.admissible_parentFree r h

/-- non-vacuity beyond `admissible`: `exDd` meets every hypothesis of `verdict_spec_parentFree` and is not `admissible` -/
example : exB.wf = true ∧ parentFree exDd = true ∧ admissible exDd = false ∧ exDd.namesIn exB = true ∧ exDd.subjects ≠ [] ∧
    exDd.anything = true ∧ exDd.verb = .shouldNot := by decide

/-! ### the fluent call chain reaches `compile r` (audit F14) -/

/-- `Rule().modules_that().are_named/are_sub_modules_of(subjects).<verb>().<import type>()[.<naming>(objects)]`
    leaves the builder in the state `compile r`, for every rule a single chain can express (`fluent r`: one naming
    call per side, so each side is homogeneous) -/
theorem rule_chain_final_state (glob : Str → Str) (r : RuleSpec) (hf : fluent r = true) :
    (ruleOps r).foldlM (RuleState.step glob) ({} : RuleState) = .ok (compile r) :=
  Pta.ruleOps_state_lemma glob r hf

/-- hence running the chain followed by `assert_applies` is `assertApplies` on `compile r`; no call of the chain
    raises (the reported index is the chain's length, i.e. `assert_applies` itself) -/
theorem rule_chain_state (glob : Str → Str) (mt : Str → Str → Bool) (g : PGraph Str) (r : RuleSpec)
    (hf : fluent r = true) :
    runRuleOps glob mt (ruleOps r) g = ((assertApplies mt (compile r) g).2, (ruleOps r).length) :=
  Pta.runRuleOps_chain_lemma glob mt g r hf

/-- the oracle theorem, end to end from the call chain -/
theorem rule_chain_verdict (glob : Str → Str) (mt : Str → Str → Bool) (a : Arch) (g : PGraph Str) (hg : GraphOf a g)
    (hwf : a.wf = true) (r : RuleSpec) (hf : fluent r = true) (hadm : admissible r = true) (hnames : r.namesIn a = true)
    (hs : r.subjects ≠ []) (ho : r.anything = true ∨ r.objects ≠ [])
    (hany : r.anything = true → r.verb = .shouldNot) :
    (runRuleOps glob mt (ruleOps r) g).1.cls = VClass.ofBool (verdict a r) := by
  rw [Pta.runRuleOps_chain_lemma glob mt g r hf]
  exact Pta.verdict_spec_adm_lemma mt a g hg hwf r hadm hnames hs ho hany

example : fluent exR = true ∧ fluent (exN .shouldOnly false true) = true ∧ fluent (exAny true) = true ∧
    fluent (exD .should true false) = true ∧ fluent (exC .should true false) = false := by decide
example : ruleOps (exD .shouldOnly false true) =
    [.modulesThat, .areSubModulesOf ["p".toList], .shouldOnly, .beImportedByExcept, .areNamed ["p.a".toList, "q".toList]] ∧
    ruleOps (exAny true) = [.modulesThat, .areNamed ["p.a".toList, "q".toList, "p.a.x".toList, "q".toList], .shouldNot, .importAnything] := by
  decide
example : runRuleOps id (fun _ _ => false) (ruleOps (exD .shouldOnly false true)) (archGraph exA) =
    ((assertApplies (fun _ _ => false) (compile (exD .shouldOnly false true)) (archGraph exA)).2, 5) := by decide

/-! ### which reading of "something else" the oracle uses (audit F3)

    For a `sub modules of X` subject the specification's `others` (PtaSpec/RuleSem.lean) tests the far end of an
    import with `!desc X far`: an import between a strict descendant of `X` and `X` ITSELF is NOT "something else".
    This is the implementation's reading (`any_dependency_to_module_other_than` skips every node of `X`'s sub tree,
    `X` included); the documentation is silent. A literal reading of "X's strict descendants" (`othersLit`: `!s.mem far`)
    would count such an import. The oracle theorems above are about `others`, NOT about `othersLit`. The two readings
    coincide unless some import connects a strict descendant of `X` with `X` itself in the rule's direction. -/

/-- no import between a strict descendant of `X` and `X` (in the rule's direction) for any `sub modules of X`
    subject: the two readings give the same "something else" imports, hence the same verdict -/
theorem others_literal_agree (a : Arch) (r : RuleSpec) (h : noImportToOwnParent a r = true) :
    (∀ s ∈ r.subjects, ∀ os, othersLit a r.importDir s os = others a r.importDir s os) ∧
    verdictLit a r = verdict a r :=
  ⟨Pta.others_literal_agree_lemma a r h, Pta.verdict_literal_agree_lemma a r h⟩

/-- in particular for rules whose subjects are all given by name -/
example : ∀ v ∈ [Verb.should, Verb.shouldOnly, Verb.shouldNot], ∀ d ∈ [true, false], ∀ x ∈ [true, false],
    noImportToOwnParent exA (exN v d x) = true ∧ noImportToOwnParent exA (exD v d x) = true := by decide

/-- where they differ: nodes `p`, `p.a`, `q`; the only import is `p.a → p`;
    "sub modules of p should_not import except q". Specification (`others`) and model: the rule holds / passes — the
    import's far end `p` is the subject's own parent. Literal reading: `p.a → p` is one violating import. -/
def exL : Arch := { nodes := ["p", "p.a", "q"].map nm, imports := [(nm "p.a", nm "p")] }
def exLr : RuleSpec := { verb := .shouldNot, importDir := true, exc := true, subjects := [.subOf (nm "p")], objects := [.named (nm "q")] }
theorem others_literal_counterexample :
    exL.wf = true ∧ exLr.strict = true ∧ exLr.namesIn exL = true ∧ noImportToOwnParent exL exLr = false ∧
    verdict exL exLr = true ∧ verdictOf (fun _ _ => false) (archGraph exL) (compile exLr) = .pass ∧
    others exL true (.subOf (nm "p")) [.named (nm "q")] = [] ∧
    othersLit exL true (.subOf (nm "p")) [.named (nm "q")] = [(nm "p.a", nm "p")] ∧
    verdictLit exL exLr = false := by decide

end Pta.C01
