/-
  PtaProofs.Props.C01 — module-rule verdicts equal the documented rule semantics (property C01), and the report
  equals the specification's violating set (property C03, part 2).
  For EVERY well-formed architecture, EVERY strict rule (subjects and objects pairwise unrelated; any number of them;
  both filter kinds; all 12 shapes and the two `anything` aliases) whose names exist: the model of
  `Rule(...).assert_applies` on the graph built by the model of `NetworkxGraph` passes exactly when the declarative
  semantics of PtaSpec/RuleSem.lean hold, and fails (AssertionError) exactly when they do not.
-/
import Bridge.Abs
import PtaProofs.Lemmas.Semantics
namespace Pta.C01
open Pta PtaSpec

/-- verdict = documented semantics, on any graph that represents the architecture -/
theorem verdict_spec_of_graph (mt : Str → Str → Bool) (a : Arch) (g : PGraph Str) (hg : GraphOf a g) (hwf : a.wf = true)
    (r : RuleSpec) (hstrict : r.strict = true) (hnames : r.namesIn a = true)
    (hs : r.subjects ≠ []) (ho : r.anything = true ∨ r.objects ≠ [])
    (hany : r.anything = true → r.verb = .shouldNot) :
    verdictOf mt g (compile r) = VClass.ofBool (verdict a r) :=
  Pta.verdict_spec_of_graph_lemma mt a g hg hwf r hstrict hnames hs ho hany

/-- verdict = documented semantics, on the graph the constructor builds -/
theorem verdict_spec (mt : Str → Str → Bool) (a : Arch) (hwf : a.wf = true)
    (r : RuleSpec) (hstrict : r.strict = true) (hnames : r.namesIn a = true)
    (hs : r.subjects ≠ []) (ho : r.anything = true ∨ r.objects ≠ [])
    (hany : r.anything = true → r.verb = .shouldNot) :
    verdictOf mt (archGraph a) (compile r) = VClass.ofBool (verdict a r) :=
  Pta.verdict_spec_of_graph_lemma mt a (archGraph a) (Pta.archGraph_graphOf a hwf) hwf r hstrict hnames hs ho hany

/-- C03 part 2: when the rule fails, the reported atoms are exactly the specification's violating set -/
theorem report_spec (mt : Str → Str → Bool) (a : Arch) (g : PGraph Str) (hg : GraphOf a g) (hwf : a.wf = true)
    (r : RuleSpec) (hstrict : r.strict = true) (hnames : r.namesIn a = true)
    (hs : r.subjects ≠ []) (ho : r.anything = true ∨ r.objects ≠ [])
    (hany : r.anything = true → r.verb = .shouldNot) (items : List Item)
    (h : (assertApplies mt (compile r) g).2 = .fail items) :
    ∀ x, x ∈ items.flatMap Item.atoms ↔ x ∈ (violating a r).flatMap SItem.atoms :=
  Pta.report_spec_lemma mt a g hg hwf r hstrict hnames hs ho hany items h

/-- unknown names never give a verdict (shared with C13) -/
theorem unknown_name_no_verdict (mt : Str → Str → Bool) (a : Arch) (g : PGraph Str) (hg : GraphOf a g)
    (r : RuleSpec) (hs : r.subjects ≠ []) (ho : r.anything = true ∨ r.objects ≠ [])
    (hany : r.anything = true → r.verb = .shouldNot)
    (hdd : r.anything = true → dedupSubjects (r.subjects.map compileFilter) = r.subjects.map compileFilter)
    (hmissing : ∃ f ∈ r.subjects ++ r.effObjects, f.id ∉ a.nodes) (hwfn : ∀ f ∈ r.subjects ++ r.effObjects, nameWF f.id = true)
    (hwf : a.wf = true) :
    verdictOf mt g (compile r) = .err .lookupError :=
  Pta.unknown_name_no_verdict_lemma mt a g hg r hs ho hany hdd hmissing hwfn hwf

/-! non-vacuity: a 5-node architecture, a strict rule, both sides evaluate -/
def nm (s : String) : Name := splitDots s.toList
def exA : Arch := { nodes := ["p", "p.a", "p.a.x", "p.b", "q"].map nm, imports := [(nm "p.a.x", nm "q"), (nm "p.b", nm "p.a")] }
def exR : RuleSpec := { verb := .shouldOnly, importDir := true, exc := false, subjects := [.named (nm "p.a")], objects := [.named (nm "q")] }
example : exA.wf = true ∧ exR.strict = true ∧ exR.namesIn exA = true := by decide
example : verdictOf (fun _ _ => false) (archGraph exA) (compile exR) = .pass ∧ verdict exA exR = true := by decide

end Pta.C01
