/-
  PtaProofs.Props.C09Layer — property C09, second sentence, for LAYER rules and DIAGRAM rules:
  "every rule whose named modules lie at or above level k has the same verdict on the flattened and on the full
  architecture".  (`PtaProofs/Props/C09.lean` proves this for strict MODULE rules, `verdict_preserved`.)

  LAYER rules.  For every well-formed architecture `a`, every layered architecture `larch` (name layers and regex
  layers; `ls` = its layers resolved on the FULL graph), every layer rule `r` in the domain of C05 (`layerDomain'`)
  and every limit `k` such that every listed module of every layer THE RULE MENTIONS has at most `k + 1` components
  (`ruleLayersAbove k ls r`, the convention of `ruleAbove` for `are_named`; implied by `layersAbove k ls`: every
  listed module of every layer; layers the rule does not mention may list modules below the limit):
    * `layer_spec_verdict_preserved`: `layerVerdict (truncArch (some k) a) ls r = layerVerdict a ls r` — imports
      inside one layer never count, so the self imports dropped by the quotient are harmless; a collapsing import
      cannot lead from the subject layer into an object layer, because layers of different names share no module.
    * `layer_domain_transfers`: if ALL layers lie at or above the limit (`layersAbove`), `layerDomain'` holds of the
      quotient architecture as well (otherwise a listed module of an unmentioned layer does not exist there; the
      model-level theorem then goes through the domain of the layers the rule works with, as `C05.layer_verdict_kept`).
    * `layer_verdict_preserved`: the model of `LayerRule.assert_applies` returns the same verdict class on
      `archGraphLim a (some k)` and on `archGraph a`, namely pass / fail according to the documented semantics on the
      FULL architecture (`layer_verdict_lim_spec`); never an error.  No hypothesis on the flattened graph is needed:
      a regex layer resolves on the flattened graph to the same modules, possibly in another order
      (`regex_resolution_order_differs`), and neither the domain nor the semantics depend on that order.
    * without the depth condition the statement fails: `layer_verdict_not_preserved_deep` (a listed module of a
      MENTIONED layer below the limit is not a node of the flattened graph; the rule raises instead of returning a
      verdict); for unmentioned layers see `unmentioned_deep_layers`.

  DIAGRAM rules.  For `diagramDomain a d` with every component of at most `k + 1` components (`diagramAbove k d`):
  `conforms_preserved`, `diagram_domain_transfers`, `diagram_verdict_preserved`, `diagram_verdict_lim_spec`,
  `diagram_file_verdict_preserved` (from the diagram FILE), and `diagram_verdict_not_preserved_deep`.

  SCANS.  `scan_layer_verdict_preserved`, `scan_diagram_verdict_preserved`: `generate_graph(level_limit = k)` against
  `generate_graph(level_limit = None)` on a directory tree (E2E style), the bound counted from `module_path`.
-/
import Bridge.Abs
import Bridge.Quotient
import Bridge.QuotientLayer
import PtaProofs.Lemmas.QuotientLayer
import PtaProofs.Props.C05
import PtaProofs.Props.C07
import PtaProofs.Props.C09
import PtaProofs.Props.E2E
namespace Pta.C09
open Pta PtaSpec

/-! ## 1. layer rules -/

/-- `layersAbove`, spelled out: every listed module of every layer has at most `k + 1` components -/
theorem layersAbove_iff (k : Nat) (ls : Layers) :
    layersAbove k ls = true ↔ ∀ l ∈ ls, ∀ x ∈ l.2, x.length ≤ k + 1 :=
  Pta.QL.layersAbove_iff k ls

/-- `ruleLayersAbove`, spelled out: the same, of the layers the rule mentions only -/
theorem ruleLayersAbove_iff (k : Nat) (ls : Layers) (r : LRuleSpec) :
    ruleLayersAbove k ls r = true ↔
      (∀ x ∈ ls.get r.subject, x.length ≤ k + 1) ∧
      (r.anything = false → ∀ on ∈ r.objects, ∀ x ∈ ls.get on, x.length ≤ k + 1) :=
  Pta.QL.ruleLayersAbove_iff k ls r

theorem ruleLayersAbove_of_layersAbove (k : Nat) (ls : Layers) (r : LRuleSpec) (h : layersAbove k ls = true) :
    ruleLayersAbove k ls r = true :=
  Pta.QL.ruleLayersAbove_of_layersAbove k ls r h

/-- on the specification side, layer rules whose MENTIONED layers lie at or above the limit do not see the truncation
    (no well-formedness of `a` is needed; of the domain only cross-layer unrelatedness and "objects ≠ subject") -/
theorem layer_spec_verdict_preserved (a : Arch) (k : Nat) (ls : Layers) (r : LRuleSpec)
    (hdom : layerDomain' a ls r = true) (habove : ruleLayersAbove k ls r = true) :
    layerVerdict (truncArch (some k) a) ls r = layerVerdict a ls r :=
  Pta.QL.layerVerdict_trunc_dom k a ls r (Pta.ldom'_of_layerDomain' a ls r hdom) habove

/-- the same with exactly what the proof uses: depth of the mentioned layers, and no listed module of the subject layer
    related to a listed module of an object layer -/
theorem layer_spec_verdict_preserved' (a : Arch) (k : Nat) (ls : Layers) (r : LRuleSpec)
    (hS : ∀ x ∈ ls.get r.subject, x.length ≤ k + 1)
    (hO : r.anything = false → ∀ on ∈ r.objects, ∀ x ∈ ls.get on, x.length ≤ k + 1)
    (hun : r.anything = false → ∀ on ∈ r.objects, ∀ x ∈ ls.get r.subject, ∀ y ∈ ls.get on, related x y = false) :
    layerVerdict (truncArch (some k) a) ls r = layerVerdict a ls r :=
  Pta.QL.layerVerdict_trunc k a ls r hS hO hun

/-- the domain of C05 transfers to the quotient architecture -/
theorem layer_domain_transfers (a : Arch) (k : Nat) (ls : Layers) (r : LRuleSpec)
    (hdom : layerDomain' a ls r = true) (habove : layersAbove k ls = true) :
    layerDomain' (truncArch (some k) a) ls r = true :=
  Pta.QL.layerDomain'_trunc k a ls r hdom habove

/-- C09, second sentence, LAYER rules: same verdict class on the flattened and on the full graph.
    `ls` is the resolution of `larch` on the FULL graph; nothing is assumed about the flattened graph. -/
theorem layer_verdict_preserved (mt : Str → Str → Bool) (a : Arch) (hwf : a.wf = true) (k : Nat)
    (ls : Layers) (r : LRuleSpec) (hdom : layerDomain' a ls r = true)
    (hany : r.anything = true → r.verb = .shouldNot) (hdepth : ruleLayersAbove k ls r = true)
    (larch : LArch) (hres : resolves mt (archGraph a).nodes larch ls = true) :
    (assertAppliesLayer mt (compileLayerRule larch r) (archGraphLim a (some k))).cls =
      (assertAppliesLayer mt (compileLayerRule larch r) (archGraph a)).cls := by
  obtain ⟨h1, h2⟩ := Pta.QL.layer_verdict_quotient_lemma' mt a hwf k (archGraph a) (archGraphLim a (some k))
    (graph_of_arch a hwf) (graph_of_quotient_arch a hwf (some k)) ls r hdom hany hdepth larch hres
  rw [h1, h2]

/-- … and both are the documented layer semantics evaluated on the FULL architecture (never an error) -/
theorem layer_verdict_lim_spec (mt : Str → Str → Bool) (a : Arch) (hwf : a.wf = true) (k : Nat)
    (ls : Layers) (r : LRuleSpec) (hdom : layerDomain' a ls r = true)
    (hany : r.anything = true → r.verb = .shouldNot) (hdepth : ruleLayersAbove k ls r = true)
    (larch : LArch) (hres : resolves mt (archGraph a).nodes larch ls = true) :
    (assertAppliesLayer mt (compileLayerRule larch r) (archGraphLim a (some k))).cls =
      VClass.ofBool (layerVerdict a ls r) :=
  (Pta.QL.layer_verdict_quotient_lemma' mt a hwf k (archGraph a) (archGraphLim a (some k))
    (graph_of_arch a hwf) (graph_of_quotient_arch a hwf (some k)) ls r hdom hany hdepth larch hres).1

/-- the same on ANY graph `g0` of the architecture and ANY graph `g` of its quotient (e.g. the two scan graphs) -/
theorem layer_verdict_preserved_of_graphs (mt : Str → Str → Bool) (a : Arch) (hwf : a.wf = true) (k : Nat)
    (g0 g : PGraph Str) (hg0 : GraphOf a g0) (hg : GraphOf (truncArch (some k) a) g)
    (ls : Layers) (r : LRuleSpec) (hdom : layerDomain' a ls r = true)
    (hany : r.anything = true → r.verb = .shouldNot) (hdepth : ruleLayersAbove k ls r = true)
    (larch : LArch) (hres : resolves mt g0.nodes larch ls = true) :
    (assertAppliesLayer mt (compileLayerRule larch r) g).cls = (assertAppliesLayer mt (compileLayerRule larch r) g0).cls ∧
    (assertAppliesLayer mt (compileLayerRule larch r) g).cls = VClass.ofBool (layerVerdict a ls r) := by
  obtain ⟨h1, h2⟩ := Pta.QL.layer_verdict_quotient_lemma' mt a hwf k g0 g hg0 hg ls r hdom hany hdepth larch hres
  exact ⟨h1.trans h2.symm, h1⟩

/-- layers that list modules by name -/
theorem layer_verdict_preserved_names (mt : Str → Str → Bool) (a : Arch) (hwf : a.wf = true) (k : Nat)
    (ls : Layers) (r : LRuleSpec) (hdom : layerDomain' a ls r = true)
    (hany : r.anything = true → r.verb = .shouldNot) (hdepth : ruleLayersAbove k ls r = true) :
    (assertAppliesLayer mt (compileLayerRule (compileLArch ls) r) (archGraphLim a (some k))).cls =
      (assertAppliesLayer mt (compileLayerRule (compileLArch ls) r) (archGraph a)).cls :=
  layer_verdict_preserved mt a hwf k ls r hdom hany hdepth (compileLArch ls) (Pta.C05.resolves_names mt _ ls)

/-- the statement with the depth condition on ALL layers (then the domain of C05 holds of the quotient as well) -/
theorem layer_verdict_preserved_all (mt : Str → Str → Bool) (a : Arch) (hwf : a.wf = true) (k : Nat)
    (ls : Layers) (r : LRuleSpec) (hdom : layerDomain' a ls r = true)
    (hany : r.anything = true → r.verb = .shouldNot) (hdepth : layersAbove k ls = true)
    (larch : LArch) (hres : resolves mt (archGraph a).nodes larch ls = true) :
    layerDomain' (truncArch (some k) a) ls r = true ∧
    (assertAppliesLayer mt (compileLayerRule larch r) (archGraphLim a (some k))).cls =
      (assertAppliesLayer mt (compileLayerRule larch r) (archGraph a)).cls :=
  ⟨layer_domain_transfers a k ls r hdom hdepth,
   layer_verdict_preserved mt a hwf k ls r hdom hany (ruleLayersAbove_of_layersAbove k ls r hdepth) larch hres⟩

/-! ### non-vacuity

`top` lists the package `p` AND its sub module `p.a`; limit 1.  `p.a.x → p.a.y` collapses to a self import of `p.a`
(dropped by the quotient), `p.a.x → p.b.z` becomes `p.a → p.b` (still inside `top`), `p.b.z → q.c.w` becomes
`p.b → q.c` (top → mid), `q.c.w → q.c` collapses (inside `mid`), `r → q` leads from `low` to a module of no layer. -/
namespace LEx
def lA : Arch :=
  { nodes := ["p.a.x", "p", "p.a", "p.a.y", "p.b", "p.b.z", "q", "q.c", "q.c.w", "r"].map nm,
    imports := [(nm "p.a.x", nm "p.a.y"), (nm "p.a.x", nm "p.b.z"), (nm "p.b.z", nm "q.c.w"), (nm "q.c.w", nm "r"),
      (nm "q.c.w", nm "q.c"), (nm "r", nm "q")] }
def lLs : Layers := [("top".toList, [nm "p", nm "p.a"]), ("mid".toList, [nm "q.c"]), ("low".toList, [nm "r"])]
def mt0 : Str → Str → Bool := fun _ _ => false

/-- all 12 shapes and the two aliases, every subject, every admissible object list over the three layers -/
def lRules : List LRuleSpec :=
  (([Verb.should, .shouldOnly, .shouldNot].flatMap fun v => [true, false].flatMap fun d => [true, false].flatMap fun e =>
    ["top", "mid", "low"].flatMap fun s =>
      ([["top"], ["mid"], ["low"], ["top", "mid"], ["mid", "low"], ["top", "low"], ["low", "low"]].filter
        fun o => !o.contains s).map fun o =>
          ({ verb := v, importDir := d, exc := e, subject := s.toList, objects := o.map String.toList } : LRuleSpec))) ++
  ([true, false].flatMap fun d => ["top", "mid", "low"].map fun s =>
    ({ verb := .shouldNot, importDir := d, exc := false, subject := s.toList, objects := [], anything := true } : LRuleSpec))

/-- a regex engine for the example: the pattern `P` matches `p` and `p.a`, nothing else matches anything -/
def mtP : Str → Str → Bool := fun p s => p == "P".toList && (s == "p".toList || s == "p.a".toList)
def lLarchRe : LArch := [("top".toList, [.regex "P".toList]), ("mid".toList, [.name "q.c".toList]), ("low".toList, [.name "r".toList])]
end LEx
open LEx

example : lRules.length = 138 := by decide +kernel
set_option maxRecDepth 100000 in
/-- every hypothesis of `layer_verdict_preserved` / `layer_spec_verdict_preserved` holds for all 138 rules at limit 1 -/
example : lA.wf = true ∧ layersAbove 1 lLs = true ∧
    ∀ r ∈ lRules, layerDomain' lA lLs r = true ∧ (r.anything = true → r.verb = .shouldNot) ∧
      ruleLayersAbove 1 lLs r = true := by decide
example (nodes : List Str) : resolves mt0 nodes (compileLArch lLs) lLs = true := Pta.C05.resolves_names mt0 nodes lLs
/-- the quotient architecture: two imports collapse to self imports and are dropped -/
example : (truncArch (some 1) lA).imports =
    [(nm "p.a", nm "p.b"), (nm "p.b", nm "q.c"), (nm "q.c", nm "r"), (nm "r", nm "q")] := by decide
set_option maxRecDepth 100000 in
/-- both sides of the specification-level statement, evaluated (55 of the 138 rules hold) -/
example : lRules.map (layerVerdict (truncArch (some 1) lA) lLs) = lRules.map (layerVerdict lA lLs) ∧
    (lRules.filter (layerVerdict lA lLs)).length = 55 := by decide
set_option maxRecDepth 100000 in
/-- both sides of the model-level statement, evaluated, and the specification -/
example :
    lRules.map (fun r => (assertAppliesLayer mt0 (compileLayerRule (compileLArch lLs) r) (archGraphLim lA (some 1))).cls) =
      lRules.map (fun r => (assertAppliesLayer mt0 (compileLayerRule (compileLArch lLs) r) (archGraph lA)).cls) ∧
    lRules.map (fun r => (assertAppliesLayer mt0 (compileLayerRule (compileLArch lLs) r) (archGraph lA)).cls) =
      lRules.map (fun r => VClass.ofBool (layerVerdict lA lLs r)) := by decide +kernel

set_option maxRecDepth 100000 in
/-- a regex layer: `top` is the pattern `P`; on the full graph (node order `p.a.x, p, p.a, …`) it resolves to `[p, p.a]`,
    on the flattened graph (node order `p.a, p, …`: `p.a.x` is flattened to `p.a` first) to `[p.a, p]`: the resolution
    on the flattened graph is NOT `lLs`, only the same layers up to the order of the listed modules.
    `layer_verdict_preserved` asks for the resolution on the full graph only. -/
theorem regex_resolution_order_differs :
    resolves mtP (archGraph lA).nodes lLarchRe lLs = true ∧
    resolves mtP (archGraphLim lA (some 1)).nodes lLarchRe lLs = false ∧
    resolves mtP (archGraphLim lA (some 1)).nodes lLarchRe
      [("top".toList, [nm "p.a", nm "p"]), ("mid".toList, [nm "q.c"]), ("low".toList, [nm "r"])] = true := by
  decide +kernel
set_option maxRecDepth 100000 in
example :
    lRules.map (fun r => (assertAppliesLayer mtP (compileLayerRule lLarchRe r) (archGraphLim lA (some 1))).cls) =
      lRules.map (fun r => (assertAppliesLayer mtP (compileLayerRule lLarchRe r) (archGraph lA)).cls) ∧
    lRules.map (fun r => (assertAppliesLayer mtP (compileLayerRule lLarchRe r) (archGraph lA)).cls) =
      lRules.map (fun r => VClass.ofBool (layerVerdict lA lLs r)) := by decide +kernel

/-- the theorem applied to an instance (all hypotheses discharged by evaluation) -/
example : (assertAppliesLayer mtP (compileLayerRule lLarchRe
      { verb := .shouldOnly, importDir := true, exc := false, subject := "top".toList, objects := ["mid".toList] })
      (archGraphLim lA (some 1))).cls = .pass :=
  (layer_verdict_lim_spec mtP lA (by decide) 1 lLs _ (by decide) (by decide) (by decide) lLarchRe
    regex_resolution_order_differs.1).trans (by decide)

/-! ### why the depth condition is a hypothesis

`deep` lists `p.a.x`, two levels below the top; with limit 1 the module is not a node of the flattened graph. Every
other hypothesis of `layer_verdict_preserved` holds; on the full graph the rule "`deep` should not access `mid`" passes,
on the flattened graph it raises (the query for `p.a.x` fails) — no verdict. -/
def lLsDeep : Layers := [("deep".toList, [nm "p.a.x"]), ("mid".toList, [nm "q.c"])]
def lRDeep : LRuleSpec :=
  { verb := .shouldNot, importDir := true, exc := false, subject := "deep".toList, objects := ["mid".toList] }

set_option maxRecDepth 100000 in
theorem layer_verdict_not_preserved_deep :
    lA.wf = true ∧ layerDomain' lA lLsDeep lRDeep = true ∧ (lRDeep.anything = true → lRDeep.verb = .shouldNot) ∧
    layersAbove 1 lLsDeep = false ∧ ruleLayersAbove 1 lLsDeep lRDeep = false ∧ layersAbove 2 lLsDeep = true ∧
    layerDomain' (truncArch (some 1) lA) lLsDeep lRDeep = false ∧
    (assertAppliesLayer mt0 (compileLayerRule (compileLArch lLsDeep) lRDeep) (archGraph lA)).cls = .pass ∧
    (assertAppliesLayer mt0 (compileLayerRule (compileLArch lLsDeep) lRDeep) (archGraphLim lA (some 1))).cls =
      .err .lookupError ∧
    (assertAppliesLayer mt0 (compileLayerRule (compileLArch lLsDeep) lRDeep) (archGraphLim lA (some 2))).cls = .pass := by
  decide +kernel

/-! ### layers the rule does not mention may lie below the limit

`X` (a name layer) lists `q.c.w`, `Y` (a regex layer, pattern `W`) matches `p.b.z` on the full graph and nothing on the
flattened one; both are two levels below the top, limit 1.  `layersAbove 1` fails and the domain of C05 does NOT hold of
the quotient architecture with these layers, but the rules that mention `low` and `hi` only satisfy `ruleLayersAbove 1`
and keep their verdict (`layer_verdict_preserved`). -/
namespace UEx
open LEx
def uA : Arch :=
  { nodes := ["p", "p.a", "p.a.x", "p.b", "p.b.z", "q", "q.c", "q.c.w", "r"].map nm,
    imports := [(nm "p.a.x", nm "p.b.z"), (nm "p.b.z", nm "q.c.w"), (nm "q.c.w", nm "r"), (nm "r", nm "p.a")] }
/-- `W` matches `p.b.z` -/
def mtW : Str → Str → Bool := fun p s => p == "W".toList && s == "p.b.z".toList
def uLarch : LArch :=
  [("hi".toList, [.name "p.a".toList]), ("low".toList, [.name "r".toList]), ("X".toList, [.name "q.c.w".toList]),
   ("Y".toList, [.regex "W".toList])]
/-- resolved on the full graph -/
def uLs : Layers :=
  [("hi".toList, [nm "p.a"]), ("low".toList, [nm "r"]), ("X".toList, [nm "q.c.w"]), ("Y".toList, [nm "p.b.z"])]
def uRules : List LRuleSpec :=
  ([Verb.should, .shouldOnly, .shouldNot].flatMap fun v => [true, false].flatMap fun d => [true, false].flatMap fun e =>
    [("hi", "low"), ("low", "hi")].map fun so =>
      ({ verb := v, importDir := d, exc := e, subject := so.1.toList, objects := [so.2.toList] } : LRuleSpec)) ++
  ([true, false].flatMap fun d => ["hi", "low"].map fun s =>
    ({ verb := .shouldNot, importDir := d, exc := false, subject := s.toList, objects := [], anything := true } : LRuleSpec))
end UEx
open UEx

set_option maxRecDepth 100000 in
theorem unmentioned_deep_layers :
    uA.wf = true ∧ resolves mtW (archGraph uA).nodes uLarch uLs = true ∧ layersAbove 1 uLs = false ∧
    (∀ r ∈ uRules, layerDomain' uA uLs r = true ∧ (r.anything = true → r.verb = .shouldNot) ∧
      ruleLayersAbove 1 uLs r = true ∧ layerDomain' (truncArch (some 1) uA) uLs r = false) ∧
    uRules.map (fun r => (assertAppliesLayer mtW (compileLayerRule uLarch r) (archGraphLim uA (some 1))).cls) =
      uRules.map (fun r => (assertAppliesLayer mtW (compileLayerRule uLarch r) (archGraph uA)).cls) ∧
    uRules.map (fun r => (assertAppliesLayer mtW (compileLayerRule uLarch r) (archGraph uA)).cls) =
      uRules.map (fun r => VClass.ofBool (layerVerdict uA uLs r)) ∧
    (uRules.filter (layerVerdict uA uLs)).length = 12 := by
  refine ⟨by decide, by decide +kernel, by decide, by decide +kernel, by decide +kernel, by decide +kernel, by decide +kernel⟩

/-! ## 2. diagram rules -/

/-- `diagramAbove`, spelled out -/
theorem diagramAbove_iff (k : Nat) (d : Diagram) :
    diagramAbove k d = true ↔ ∀ c ∈ d.components, c.length ≤ k + 1 :=
  Pta.QL.diagramAbove_iff k d

/-- on the specification side, conformance to a diagram whose components lie at or above the limit does not see the
    truncation (both modes) -/
theorem conforms_preserved (a : Arch) (k : Nat) (d : Diagram) (so : Bool) (hdom : diagramDomain a d = true)
    (hdepth : diagramAbove k d = true) :
    conforms (truncArch (some k) a) d so = conforms a d so :=
  Pta.QL.conforms_trunc k a d so (Pta.Dg.dom_of a d hdom) hdepth

/-- the domain of C07 transfers to the quotient architecture -/
theorem diagram_domain_transfers (a : Arch) (k : Nat) (d : Diagram) (hdom : diagramDomain a d = true)
    (hdepth : diagramAbove k d = true) : diagramDomain (truncArch (some k) a) d = true :=
  Pta.QL.diagramDomain_trunc k a d hdom hdepth

/-- C09, second sentence, DIAGRAM rules: the rules `DependencyToRuleConverter` generates from the diagram, applied by
    `MultipleRuleApplier`, have the same outcome class on the flattened and on the full graph -/
theorem diagram_verdict_preserved (mt : Str → Str → Bool) (a : Arch) (k : Nat) (d : Diagram) (so : Bool)
    (hdom : diagramDomain a d = true) (hdepth : diagramAbove k d = true) :
    (applyAll mt (archGraphLim a (some k)) (diagramRules so (parsedOf d))).cls =
      (applyAll mt (archGraph a) (diagramRules so (parsedOf d))).cls := by
  have hwf := (Pta.Dg.dom_of a d hdom).wf
  obtain ⟨h1, h2⟩ := Pta.QL.diagram_verdict_quotient_lemma mt a k (archGraph a) (archGraphLim a (some k))
    (graph_of_arch a hwf) (graph_of_quotient_arch a hwf (some k)) d so hdom hdepth
  rw [h1, h2]

/-- … namely pass exactly when the imports of the FULL architecture conform to the diagram, fail otherwise; never an error -/
theorem diagram_verdict_lim_spec (mt : Str → Str → Bool) (a : Arch) (k : Nat) (d : Diagram) (so : Bool)
    (hdom : diagramDomain a d = true) (hdepth : diagramAbove k d = true) :
    (applyAll mt (archGraphLim a (some k)) (diagramRules so (parsedOf d))).cls = VClass.ofBool (conforms a d so) :=
  have hwf := (Pta.Dg.dom_of a d hdom).wf
  (Pta.QL.diagram_verdict_quotient_lemma mt a k (archGraph a) (archGraphLim a (some k))
    (graph_of_arch a hwf) (graph_of_quotient_arch a hwf (some k)) d so hdom hdepth).1

/-- on ANY graph `g0` of the architecture and ANY graph `g` of its quotient -/
theorem diagram_verdict_preserved_of_graphs (mt : Str → Str → Bool) (a : Arch) (k : Nat) (g0 g : PGraph Str)
    (hg0 : GraphOf a g0) (hg : GraphOf (truncArch (some k) a) g) (d : Diagram) (so : Bool)
    (hdom : diagramDomain a d = true) (hdepth : diagramAbove k d = true) :
    (applyAll mt g (diagramRules so (parsedOf d))).cls = (applyAll mt g0 (diagramRules so (parsedOf d))).cls ∧
    (applyAll mt g (diagramRules so (parsedOf d))).cls = VClass.ofBool (conforms a d so) := by
  obtain ⟨h1, h2⟩ := Pta.QL.diagram_verdict_quotient_lemma mt a k g0 g hg0 hg d so hdom hdepth
  exact ⟨h1.trans h2.symm, h1⟩

/-- every generated rule is a strict module rule at or above the limit (the route via `verdict_preserved`): its
    identifiers are components of the diagram -/
theorem diagram_pass_iff (mt : Str → Str → Bool) (a : Arch) (k : Nat) (d : Diagram) (so : Bool)
    (hdom : diagramDomain a d = true) (hdepth : diagramAbove k d = true) :
    applyAll mt (archGraphLim a (some k)) (diagramRules so (parsedOf d)) = .pass ↔
      applyAll mt (archGraph a) (diagramRules so (parsedOf d)) = .pass := by
  have hwf := (Pta.Dg.dom_of a d hdom).wf
  rw [Pta.C07.conforms_iff_of_graph mt _ _ (graph_of_quotient_arch a hwf (some k)) d so
      (diagram_domain_transfers a k d hdom hdepth),
    Pta.C07.conforms_iff mt a d so hdom, conforms_preserved a k d so hdom hdepth]

/-- from the diagram FILE (C06 ∘ C07 ∘ C09): `DiagramRule.assert_applies` on a rendered diagram of the documented
    subset, any noise around the tags -/
theorem diagram_file_verdict_preserved (mt : Str → Str → Bool) (a : Arch) (k : Nat) (noise1 noise2 : Str)
    (d : List DLine) (hwf : diagramWF d = true) (hn : isInfix "@enduml".toList noise2 = false) (so : Bool)
    (hdom : diagramDomain a (specDiagram d) = true) (hdepth : diagramAbove k (specDiagram d) = true) :
    (diagramAssert mt (some (diagramText noise1 d noise2)) none so (archGraphLim a (some k))).cls =
      (diagramAssert mt (some (diagramText noise1 d noise2)) none so (archGraph a)).cls ∧
    (diagramAssert mt (some (diagramText noise1 d noise2)) none so (archGraphLim a (some k))).cls =
      VClass.ofBool (conforms a (specDiagram d) so) := by
  have hawf := (Pta.Dg.dom_of a _ hdom).wf
  obtain ⟨h1, h2⟩ := Pta.QL.diagram_file_quotient_lemma mt a k (archGraph a) (archGraphLim a (some k))
    (graph_of_arch a hawf) (graph_of_quotient_arch a hawf (some k)) noise1 noise2 d hwf
    (by rw [← tag_end_eq]; exact hn) (specDiagram d) (Pta.E2E.means_specDiagram d) so hdom hdepth
  exact ⟨h1.trans h2.symm, h1⟩

/-! ### non-vacuity: the diagram of C07 on an architecture with modules below the components, limit 1 -/
namespace DEx
/-- components `app.ui`, `app.core`, `app.db` (two components each); arrows ui → core → db -/
def dD : Diagram := Pta.C07.exD
/-- conforming: `app.ui.view → app.core.model.m` (becomes ui → core), `app.core.model.m → app.db.x` (core → db),
    `app.core.model.m → app.core.util` (collapses to a self import of `app.core`), `app.ui.view → app.ui` (collapses) -/
def dGood : Arch :=
  { nodes := ["app", "app.ui", "app.ui.view", "app.core", "app.core.model", "app.core.model.m", "app.core.util", "app.db",
      "app.db.x", "app.util"].map nm,
    imports := [(nm "app.ui.view", nm "app.core.model.m"), (nm "app.core.model.m", nm "app.db.x"),
      (nm "app.core.model.m", nm "app.core.util"), (nm "app.ui.view", nm "app.ui")] }
/-- not conforming: additionally `app.db.x → app.ui.view` (not drawn) and `app.ui.view → app.util` (outside ui's targets) -/
def dBad : Arch :=
  { dGood with imports := dGood.imports ++ [(nm "app.db.x", nm "app.ui.view"), (nm "app.ui.view", nm "app.util")] }
end DEx
open DEx

example : diagramDomain dGood dD = true ∧ diagramDomain dBad dD = true ∧ diagramAbove 1 dD = true ∧
    diagramAbove 0 dD = false := by decide
example : (truncArch (some 1) dGood).imports = [(nm "app.ui", nm "app.core"), (nm "app.core", nm "app.db")] := by decide
example : ∀ so, conforms (truncArch (some 1) dGood) dD so = true ∧ conforms dGood dD so = true ∧
    conforms (truncArch (some 1) dBad) dD so = false ∧ conforms dBad dD so = false := by decide
example :
    (applyAll mt0 (archGraphLim dGood (some 1)) (diagramRules true (parsedOf dD))).cls = .pass ∧
    (applyAll mt0 (archGraph dGood) (diagramRules true (parsedOf dD))).cls = .pass ∧
    (applyAll mt0 (archGraphLim dGood (some 1)) (diagramRules false (parsedOf dD))).cls = .pass ∧
    (applyAll mt0 (archGraph dGood) (diagramRules false (parsedOf dD))).cls = .pass ∧
    (applyAll mt0 (archGraphLim dBad (some 1)) (diagramRules true (parsedOf dD))).cls = .fail ∧
    (applyAll mt0 (archGraph dBad) (diagramRules true (parsedOf dD))).cls = .fail ∧
    (applyAll mt0 (archGraphLim dBad (some 1)) (diagramRules false (parsedOf dD))).cls = .fail ∧
    (applyAll mt0 (archGraph dBad) (diagramRules false (parsedOf dD))).cls = .fail := by decide +kernel
/-- the file of C07 (`exLines` means `exD`): hypotheses of `diagram_file_verdict_preserved` and both sides -/
example : diagramWF Pta.C07.exLines = true ∧ isInfix "@enduml".toList Pta.C07.exNoise2 = false ∧
    diagramDomain dGood (specDiagram Pta.C07.exLines) = true ∧ diagramAbove 1 (specDiagram Pta.C07.exLines) = true ∧
    (diagramAssert mt0 (some (diagramText Pta.C07.exNoise1 Pta.C07.exLines Pta.C07.exNoise2)) none true
      (archGraphLim dGood (some 1))).cls = .pass ∧
    (diagramAssert mt0 (some (diagramText Pta.C07.exNoise1 Pta.C07.exLines Pta.C07.exNoise2)) none true
      (archGraph dGood)).cls = .pass := by decide +kernel
/-- the theorem applied to an instance -/
example : (applyAll mt0 (archGraphLim dBad (some 1)) (diagramRules true (parsedOf dD))).cls = .fail :=
  (diagram_verdict_lim_spec mt0 dBad 1 dD true (by decide) (by decide)).trans (by decide)

/-- why the depth condition is a hypothesis: with limit 0 the components `app.ui`, … are not nodes of the flattened
    graph (everything is flattened to `app`); the domain holds on the full architecture, the check passes on the full
    graph and raises on the flattened one -/
theorem diagram_verdict_not_preserved_deep :
    diagramDomain dGood dD = true ∧ diagramAbove 0 dD = false ∧ diagramDomain (truncArch (some 0) dGood) dD = false ∧
    (applyAll mt0 (archGraph dGood) (diagramRules true (parsedOf dD))).cls = .pass ∧
    (applyAll mt0 (archGraphLim dGood (some 0)) (diagramRules true (parsedOf dD))).cls = .err .lookupError := by
  decide +kernel

/-! ## 3. scans: `generate_graph(level_limit = k)` against `generate_graph(level_limit = None)` -/

section scan
variable (mt : Str → Str → Bool) (base root : Str) (mp : List Str) (entries : List Entry) (o : ScanOptions) (k : Nat)
  (hwf : treeWFFor (isExcluded mt o.exclusions) base mp entries = true) (hmp : mpOK entries mp = true)
  (hroot : compWF root = true)
  (hxx : o.excludeExternal = true) (hlim : o.levelLimit = some k) (hext : o.externalExclusions.isEmpty = true)
  (hst : ∀ e ∈ entries, ∀ st ∈ e.stmts, stmtOK (toSStmt st) = true)
  (is : List (Name × Name))
  (his : scanImports root (toSEntries (isExcluded mt o.exclusions) base entries) mp = some is)
include hwf hmp hroot hxx hlim hext hst his

/-- END-TO-END with a level limit, LAYER rules (C04 ∘ C02 ∘ C09 ∘ C05): both scans succeed, and every layer rule in the
    domain of C05 over the scanned modules — layers resolved on the UNLIMITED scan graph — whose listed modules lie at
    most `k` levels below `module_path` (`layersAbove (k + |mp|)`) has the same verdict class on the limited and on the
    unlimited scan graph: the documented layer semantics on the full specification architecture of the tree -/
theorem scan_layer_verdict_preserved :
    ∃ g g0, generateGraph mt base root mp entries o = .ok g ∧
      generateGraph mt base root mp entries o.noLimit = .ok g0 ∧
      ∀ (mt' : Str → Str → Bool) (ls : Layers) (r : LRuleSpec) (larch : LArch),
        layerDomain' (Pta.E2E.scanArch root (toSEntries (isExcluded mt o.exclusions) base entries) mp is) ls r = true →
        (r.anything = true → r.verb = .shouldNot) →
        ruleLayersAbove (k + mp.length) ls r = true →
        resolves mt' g0.nodes larch ls = true →
        (assertAppliesLayer mt' (compileLayerRule larch r) g).cls =
          (assertAppliesLayer mt' (compileLayerRule larch r) g0).cls ∧
        (assertAppliesLayer mt' (compileLayerRule larch r) g).cls =
          VClass.ofBool (layerVerdict
            (Pta.E2E.scanArch root (toSEntries (isExcluded mt o.exclusions) base entries) mp is) ls r) := by
  obtain ⟨g, g0, hg, hg0, hawf, hG0, hq⟩ :=
    E2EMore.scan_limit_lemma mt base root mp entries o hwf hmp hroot hxx hext hst is his k hlim
  exact ⟨g, g0, hg, hg0, fun mt' ls r larch hdom hany habove hres =>
    layer_verdict_preserved_of_graphs mt' _ hawf (k + mp.length) g0 g hG0 (Pta.graphOf_truncArch _ _ g hq)
      ls r hdom hany habove larch hres⟩

/-- END-TO-END with a level limit, DIAGRAM rules (C04 ∘ C02 ∘ C09 ∘ C07): for every diagram in the domain of C07 over
    the scanned modules whose components lie at most `k` levels below `module_path`, the generated rules have the same
    outcome class on the limited and on the unlimited scan graph: pass iff the imports of the tree conform -/
theorem scan_diagram_verdict_preserved :
    ∃ g g0, generateGraph mt base root mp entries o = .ok g ∧
      generateGraph mt base root mp entries o.noLimit = .ok g0 ∧
      ∀ (mt' : Str → Str → Bool) (D : Diagram) (so : Bool),
        diagramDomain (Pta.E2E.scanArch root (toSEntries (isExcluded mt o.exclusions) base entries) mp is) D = true →
        diagramAbove (k + mp.length) D = true →
        (applyAll mt' g (diagramRules so (parsedOf D))).cls = (applyAll mt' g0 (diagramRules so (parsedOf D))).cls ∧
        (applyAll mt' g (diagramRules so (parsedOf D))).cls =
          VClass.ofBool (conforms
            (Pta.E2E.scanArch root (toSEntries (isExcluded mt o.exclusions) base entries) mp is) D so) := by
  obtain ⟨g, g0, hg, hg0, _, hG0, hq⟩ :=
    E2EMore.scan_limit_lemma mt base root mp entries o hwf hmp hroot hxx hext hst is his k hlim
  exact ⟨g, g0, hg, hg0, fun mt' D so hdom habove =>
    diagram_verdict_preserved_of_graphs mt' _ (k + mp.length) g0 g hG0 (Pta.graphOf_truncArch _ _ g hq) D so hdom habove⟩

end scan

/-- the bound, spelled out for names written `root.module_path.rest`: at most `k` levels below `module_path` -/
theorem limit_bound_name (k : Nat) (root : Comp) (mp rest : List Comp) :
    nameAbove (k + mp.length) (root :: mp ++ rest) = decide (rest.length ≤ k) := by
  simp only [nameAbove, List.length_cons, List.length_append, decide_eq_decide]
  omega

/-! ### non-vacuity of the scan theorems: the tree of `C09.ScanEx` (`module_path = r/app`, `level_limit = 1`) with the
    layers / rule of `E2E.limLs`, `E2E.limLR` and the diagram `[r.app.a] --> [r.app.b] --> [r.app.c]` -/
def scanDg : Diagram :=
  { components := [nm "r.app.a", nm "r.app.b", nm "r.app.c"],
    arrows := [(nm "r.app.a", nm "r.app.b"), (nm "r.app.b", nm "r.app.c")] }

open Pta.C09.ScanEx in
set_option maxRecDepth 100000 in
example :
    treeWFFor (isExcluded ScanEx.mt0 o1.exclusions) (S "/r") [S "app"] ents = true ∧ mpOK ents [S "app"] = true ∧
    compWF (S "r") = true ∧ o1.excludeExternal = true ∧ o1.levelLimit = some 1 ∧ o1.externalExclusions.isEmpty = true ∧
    (∀ e ∈ ents, ∀ st ∈ e.stmts, stmtOK (toSStmt st) = true) ∧
    scanImports (S "r") (toSEntries (isExcluded ScanEx.mt0 o1.exclusions) (S "/r") ents) [S "app"] = some Pta.E2E.limIs ∧
    layerDomain' (Pta.E2E.scanArch (S "r") (toSEntries (isExcluded ScanEx.mt0 o1.exclusions) (S "/r") ents) [S "app"]
      Pta.E2E.limIs) Pta.E2E.limLs Pta.E2E.limLR = true ∧
    layersAbove (1 + [S "app"].length) Pta.E2E.limLs = true ∧
    ruleLayersAbove (1 + [S "app"].length) Pta.E2E.limLs Pta.E2E.limLR = true ∧
    diagramDomain (Pta.E2E.scanArch (S "r") (toSEntries (isExcluded ScanEx.mt0 o1.exclusions) (S "/r") ents) [S "app"]
      Pta.E2E.limIs) scanDg = true ∧
    diagramAbove (1 + [S "app"].length) scanDg = true := by
  refine ⟨by decide, by decide, by decide, by decide, by decide, by decide, by decide, by decide, by decide, by decide,
    by decide, by decide, by decide⟩

open Pta.C09.ScanEx in
set_option maxRecDepth 100000 in
/-- all sides evaluated: limited scan, unlimited scan, documented semantics on the full specification architecture -/
example :
    (generateGraph ScanEx.mt0 (S "/r") (S "r") [S "app"] ents o1).toOption.map
        (fun g => ((assertAppliesLayer ScanEx.mt0 (compileLayerRule (compileLArch Pta.E2E.limLs) Pta.E2E.limLR) g).cls,
          (applyAll ScanEx.mt0 g (diagramRules true (parsedOf scanDg))).cls)) = some (.pass, .pass) ∧
    (generateGraph ScanEx.mt0 (S "/r") (S "r") [S "app"] ents o1.noLimit).toOption.map
        (fun g => ((assertAppliesLayer ScanEx.mt0 (compileLayerRule (compileLArch Pta.E2E.limLs) Pta.E2E.limLR) g).cls,
          (applyAll ScanEx.mt0 g (diagramRules true (parsedOf scanDg))).cls)) = some (.pass, .pass) ∧
    layerVerdict (Pta.E2E.scanArch (S "r") (toSEntries (isExcluded ScanEx.mt0 o1.exclusions) (S "/r") ents) [S "app"]
      Pta.E2E.limIs) Pta.E2E.limLs Pta.E2E.limLR = true ∧
    conforms (Pta.E2E.scanArch (S "r") (toSEntries (isExcluded ScanEx.mt0 o1.exclusions) (S "/r") ents) [S "app"]
      Pta.E2E.limIs) scanDg true = true := by
  refine ⟨by decide +kernel, by decide +kernel, by decide, by decide⟩

end Pta.C09
