/-
  PtaProofs.Props.C14Scan — property C14 at SCAN level: the scanned architecture is invariant, up to the renaming itself,
  under every injective renaming `ρ` of directory / file name components (`GoodRen ρ`: injective, keeps "non-empty and
  dot-free"), including renamings that make one sibling's name a string prefix of another's.

  The renamed inputs (Bridge/RenameScan.lean): every path component of every `Entry.rel` (`renFile ρ`: the stem is
  renamed, the suffix kept — `x ↦ ρ x`, `x.py ↦ (ρ x).py`), the root directory's name (`ρ root`), the components of
  `module_path` (`mp.map (renFile ρ)`), every dotted name in every import statement and AST node (`renStmt ρ`,
  `renAstNode ρ`); the path of the root directory (`base'`) is arbitrary. Exclusions: the renamed scan may use any
  patterns `ps'` / matcher `mt'` whose test agrees with the original one on the paths of the listing
  (`ExclTransported`; trivially so without patterns, `exclTransported_noPatterns`).

  Domain: trees well-formed as far as the scan can see them (`treeWFFor`), parser-producible statements, external
  modules excluded (the default), ANY level limit.

  * `scan_arch_ren`   — the specification architecture of the renamed tree is the renamed specification architecture;
  * `scan_ren`        — same outcome class (a relative import above the root stays a `LookupError`); on success the
                         graph is the image of the original graph (node set, hierarchy pairs, import pairs);
  * `scan_verdict_ren`, `scan_report_ren` — every module rule with well-formed identifiers (strict or not) has the same
                         verdict class, and the message is the original report with every module name renamed;
  * `scan_labels_ren` — plot labels;
  * `collect_ren`     — the AST walk commutes with the renaming (so the theorems apply to `Entry.withCollected`);
  * the hypotheses on `ρ` are needed: `scan_ren_needs_injective`, `scan_ren_needs_dotfree`.
-/
import Bridge.Abs
import Bridge.Rename
import Bridge.RenameScan
import PtaProofs.Lemmas.RenameScan
import PtaProofs.Lemmas.RenameScanExt
import PtaProofs.Props.C14
namespace Pta.C14
open Pta PtaSpec

/-! ### the renaming of a path component -/

/-- what `renFile ρ` does: a well-formed component (directory name) is renamed; a `.py` file name keeps its suffix
    and has its stem renamed; whether a name is a `.py` file, and what `with_suffix("")` leaves of it, is preserved;
    the renaming of components on disk is injective -/
theorem renFile_spec (ρ : Comp → Comp) (hρ : GoodRen ρ) :
    (∀ c, compWF c = true → renFile ρ c = ρ c) ∧
    (∀ c, isPyFile c = true → compWF (dropSuffix c) = true → renFile ρ c = ρ (dropSuffix c) ++ ".py".toList) ∧
    (∀ c, isPyFile (renFile ρ c) = isPyFile c) ∧
    (∀ c, dropSuffix (renFile ρ c) = renStem ρ (dropSuffix c)) ∧
    (∀ c d, renFile ρ c = renFile ρ d → c = d) :=
  ⟨Pta.RS.renFile_compWF, Pta.RS.renFile_py_lemma, Pta.RS.isPyFile_renFile hρ, Pta.RS.dropSuffix_renFile hρ,
    Pta.RS.renFile_inj hρ⟩

/-- without exclusion patterns the exclusion tests agree -/
theorem exclTransported_noPatterns (ρ : Comp → Comp) (mt mt' : Str → Str → Bool) (base base' : Str) (entries : List Entry) :
    ExclTransported ρ (isExcluded mt (.globs [])) (isExcluded mt' (.globs [])) base base' entries :=
  fun _ _ => rfl

/-- an arbitrary exclusion predicate on path strings is the test of one regex pattern under a suitable matcher -/
theorem isExcluded_pred (p : Str → Bool) : isExcluded (fun _ s => p s) (.regexes [[]]) = p := by
  funext s
  simp [isExcluded]

/-- the AST walk of `ImportConverter.convert` commutes with the renaming: the statements collected from the renamed
    AST are the renamed statements, in the same order -/
theorem collect_ren (ρ : Comp → Comp) (nodes : List AstNode) (e : Entry) :
    collectImports (nodes.map (renAstNode ρ)) = (collectImports nodes).map (renStmt ρ) ∧
    (renEntry ρ e).withCollected = renEntry ρ e.withCollected :=
  ⟨Pta.RS.collectImports_ren ρ nodes, Pta.RS.withCollected_ren ρ e⟩

section scan
variable (mt mt' : Str → Str → Bool) (base base' root : Str) (mp : List Str) (entries : List Entry) (o : ScanOptions)
  (ps' : Patterns) (ρ : Comp → Comp) (hρ : GoodRen ρ)
  (hwf : treeWFFor (isExcluded mt o.exclusions) base mp entries = true) (hmp : mpOK entries mp = true)
  (hroot : compWF root = true)
  (hst : ∀ e ∈ entries, ∀ st ∈ e.stmts, stmtOK (toSStmt st) = true)
  (hx : ExclTransported ρ (isExcluded mt o.exclusions) (isExcluded mt' ps') base base' entries)
include hρ hwf hmp hroot hst hx

/-- the hypotheses of the end-to-end theorems (Props/E2E.lean) are preserved by the renaming -/
theorem scan_hyps_ren :
    treeWFFor (isExcluded mt' (o.withExclusions ps').exclusions) base' (mp.map (renFile ρ)) (renEntries ρ entries) = true ∧
    mpOK (renEntries ρ entries) (mp.map (renFile ρ)) = true ∧ compWF (ρ root) = true ∧
    (∀ e ∈ renEntries ρ entries, ∀ st ∈ e.stmts, stmtOK (toSStmt st) = true) ∧
    mp.map (renFile ρ) = renName ρ mp :=
  ⟨Pta.RS.treeWFFor_ren hρ _ _ base base' mp entries hx hwf, by rw [Pta.RS.mpOK_ren hρ]; exact hmp, hρ.wf root hroot,
    Pta.RS.stmts_ren_ok hρ entries hst,
    Pta.RS.mp_map_renFile root mp (Pta.RS.rootmp_wf mt base root mp entries o hwf hmp hroot)⟩

/-- SPECIFICATION level: the modules of the renamed directory tree are the renamed modules, and the imports its import
    statements account for are the renamed imports (same order; "no answer" — a relative import above the root — stays
    "no answer"). I.e. `scanArch (renamed tree) = renArch ρ (scanArch tree)`. -/
theorem scan_arch_ren :
    scanModules (ρ root) (toSEntries (isExcluded mt' ps') base' (renEntries ρ entries)) (mp.map (renFile ρ)) =
      (scanModules root (toSEntries (isExcluded mt o.exclusions) base entries) mp).map (renName ρ) ∧
    scanImports (ρ root) (toSEntries (isExcluded mt' ps') base' (renEntries ρ entries)) (mp.map (renFile ρ)) =
      (scanImports root (toSEntries (isExcluded mt o.exclusions) base entries) mp).map
        (List.map fun e => (renName ρ e.1, renName ρ e.2)) :=
  ⟨Pta.RS.scanModules_tree_ren mt mt' base base' root mp entries o ps' hρ hwf hmp hroot hst hx,
    Pta.RS.scanImports_tree_ren mt mt' base base' root mp entries o ps' hρ hwf hmp hroot hst hx⟩

variable (hxx : o.excludeExternal = true) (hext : o.externalExclusions.isEmpty = true)
include hxx hext

/-- `scan_ren` (external modules excluded, ANY level limit): the scan of the renamed tree has the outcome class of the
    scan of the original tree — an error (a relative import reaching above the root: `LookupError`) stays that error;
    on success its graph has exactly the nodes, hierarchy pairs and import pairs of the image `g.map (renDotted ρ)` of
    the original graph (`GraphEquiv`), and likewise for the guarded renaming `renStr ρ` (which is injective on all
    strings and agrees with `renDotted ρ` on well-formed dotted names, `renStr_agrees`). -/
theorem scan_ren :
    match generateGraph mt base root mp entries o with
    | .ok g => ∃ g', generateGraph mt' base' (ρ root) (mp.map (renFile ρ)) (renEntries ρ entries)
          (o.withExclusions ps') = .ok g' ∧
        GraphEquiv g' (mapGraph (renDotted ρ) g) ∧ GraphEquiv g' (mapGraph (renStr ρ) g)
    | .error k => generateGraph mt' base' (ρ root) (mp.map (renFile ρ)) (renEntries ρ entries)
          (o.withExclusions ps') = .error k := by
  have h := Pta.RS.scan_ren_lemma mt mt' base base' root mp entries o ps' hρ hwf hmp hroot hst hx hxx hext
  cases hg : generateGraph mt base root mp entries o with
  | error k => rw [hg] at h; exact h
  | ok g =>
    rw [hg] at h
    obtain ⟨g', h1, h2⟩ := h
    exact ⟨g', h1, h2 _ (fun n hn => Pta.RS.renDotted_render n hn), h2 _ (Pta.RM.renStr_render ρ)⟩

/-- errors correspond in both directions: the renamed scan fails iff the original scan fails, with the same kind -/
theorem scan_error_ren (k : ErrKind) :
    generateGraph mt' base' (ρ root) (mp.map (renFile ρ)) (renEntries ρ entries) (o.withExclusions ps') = .error k ↔
      generateGraph mt base root mp entries o = .error k := by
  have h := scan_ren mt mt' base base' root mp entries o ps' ρ hρ hwf hmp hroot hst hx hxx hext
  cases hg : generateGraph mt base root mp entries o with
  | error k' =>
    rw [hg] at h
    show _ = _ ↔ _
    rw [h]
  | ok g =>
    rw [hg] at h
    obtain ⟨g', h1, -⟩ := h
    rw [h1]
    constructor <;> intro h' <;> cases h'

variable (g g' : PGraph Str) (hg : generateGraph mt base root mp entries o = .ok g)
  (hg' : generateGraph mt' base' (ρ root) (mp.map (renFile ρ)) (renEntries ρ entries) (o.withExclusions ps') = .ok g')
include hg hg'

/-- `scan_ren` for two graphs the two scans return -/
theorem scan_graph_ren : GraphEquiv g' (mapGraph (renDotted ρ) g) ∧ GraphEquiv g' (mapGraph (renStr ρ) g) :=
  ⟨Pta.RS.scan_image_lemma mt mt' base base' root mp entries o ps' hρ hwf hmp hroot hst hx hxx hext g g' hg hg' _
      (fun n hn => Pta.RS.renDotted_render n hn),
    Pta.RS.scan_image_lemma mt mt' base base' root mp entries o ps' hρ hwf hmp hroot hst hx hxx hext g g' hg hg' _
      (Pta.RM.renStr_render ρ)⟩

/-- `scan_verdict_ren`: EVERY module rule with well-formed identifiers — strict or not, `parentFree` or not, names that
    are scanned modules or not — evaluated with the renamed names on the renamed scan has the verdict class (pass /
    fail / which error) it has on the original scan; any regex matcher `mt''` (irrelevant for such rules) -/
theorem scan_verdict_ren (mt'' : Str → Str → Bool) (r : RuleSpec) (hr : ruleWF r = true) :
    verdictOf mt'' g' (compile (renRule ρ r)) = verdictOf mt'' g (compile r) :=
  Pta.RS.verdict_of_image_lemma hρ mt'' g g'
    (scan_graph_ren mt mt' base base' root mp entries o ps' ρ hρ hwf hmp hroot hst hx hxx hext g g' hg hg').2 r hr

/-- … and the message of the `AssertionError` is the rendering of the ORIGINAL report with every module name renamed
    (the lines are sorted after the renaming, as `sorted(set(lines))` does) -/
theorem scan_report_ren (mt'' : Str → Str → Bool) (r : RuleSpec) (hr : ruleWF r = true) :
    (assertAppliesText mt'' (compile (renRule ρ r)) g').2 =
      ((assertApplies mt'' (compile r) g).2.mapId (renStr ρ)).toText :=
  Pta.RS.text_of_image_lemma hρ mt'' g g'
    (scan_graph_ren mt mt' base base' root mp entries o ps' ρ hρ hwf hmp hroot hst hx hxx hext g g' hg hg').2 r hr

/-- `scan_labels_ren` (no level limit): for every alias table whose keys are distinct scanned modules, both scans label
    every node exactly once; the original labelling is the documented one (`labelWith id = label`), and the labelling
    of the renamed scan with the renamed table is the documented one with the alias texts kept and the components
    below the aliased ancestor renamed -/
theorem scan_labels_ren (hlim : o.levelLimit = none) (al : Aliases) (hk : (al.map (·.1)).Nodup)
    (hex : ∀ a ∈ al, a.1 ∈ scanModules root (toSEntries (isExcluded mt o.exclusions) base entries) mp) :
    ∃ ls ls', plotLabels g.nodes (al.map fun a => (render a.1, a.2)) = .ok ls ∧
      plotLabels g'.nodes ((renAliases ρ al).map fun a => (render a.1, a.2)) = .ok ls' ∧
      ls.map (·.1) = g.nodes ∧ ls'.map (·.1) = g'.nodes ∧
      ls.Perm ((scanModules root (toSEntries (isExcluded mt o.exclusions) base entries) mp).map
        fun n => (render n, labelWith id al n)) ∧
      ls'.Perm ((scanModules root (toSEntries (isExcluded mt o.exclusions) base entries) mp).map
        fun n => (render (renName ρ n), labelWith (renName ρ) al n)) :=
  Pta.RS.scan_labels_ren_lemma mt mt' base base' root mp entries o ps' hρ hwf hmp hroot hst hx hxx hext g g' hg hg'
    hlim al hk hex

end scan

/-! ### external modules included (`exclude_external_libraries=False`, no external exclusion patterns, no level limit)

  The names of external modules are renamed too (`import os` becomes `import (ρ os)`): `ρ` acts on every dotted name of
  every statement. A renaming that is meant to leave the external libraries alone is one with `ρ c = c` on their
  components; the theorem holds for every `GoodRen ρ`. -/

section ext
variable (mt mt' : Str → Str → Bool) (base base' root : Str) (mp : List Str) (entries : List Entry) (o : ScanOptions)
  (ps' : Patterns) (ρ : Comp → Comp) (hρ : GoodRen ρ)
  (hwf : treeWFFor (isExcluded mt o.exclusions) base mp entries = true) (hmp : mpOK entries mp = true)
  (hroot : compWF root = true)
  (hst : ∀ e ∈ entries, ∀ st ∈ e.stmts, stmtOK (toSStmt st) = true)
  (hx : ExclTransported ρ (isExcluded mt o.exclusions) (isExcluded mt' ps') base base' entries)
  (hxx : o.excludeExternal = false) (hext : o.externalExclusions.isEmpty = true) (hlim : o.levelLimit = none)
include hρ hwf hmp hroot hst hx hxx hext hlim

/-- `scan_ren` with external modules INCLUDED: same outcome class; on success the graph of the renamed tree — internal
    modules, external modules with their dotted parents, all import edges — has exactly the nodes, hierarchy pairs and
    import pairs of the image of the original graph under the (guarded, injective) string renaming `renStr ρ` -/
theorem scan_ren_ext :
    match generateGraph mt base root mp entries o with
    | .ok g => ∃ g', generateGraph mt' base' (ρ root) (mp.map (renFile ρ)) (renEntries ρ entries)
          (o.withExclusions ps') = .ok g' ∧ GraphEquiv g' (mapGraph (renStr ρ) g)
    | .error k => generateGraph mt' base' (ρ root) (mp.map (renFile ρ)) (renEntries ρ entries)
          (o.withExclusions ps') = .error k :=
  Pta.RS.scan_ren_ext_lemma mt mt' base base' root mp entries o ps' hρ hwf hmp hroot hst hx hlim hext hxx

variable (g g' : PGraph Str) (hg : generateGraph mt base root mp entries o = .ok g)
  (hg' : generateGraph mt' base' (ρ root) (mp.map (renFile ρ)) (renEntries ρ entries) (o.withExclusions ps') = .ok g')
include hg hg'

theorem scan_graph_ren_ext : GraphEquiv g' (mapGraph (renStr ρ) g) := by
  have h := scan_ren_ext mt mt' base base' root mp entries o ps' ρ hρ hwf hmp hroot hst hx hxx hext hlim
  rw [hg] at h
  obtain ⟨g'', h1, h2⟩ := h
  rw [hg'] at h1
  cases h1
  exact h2

/-- verdicts of all module rules with well-formed identifiers (they may name external modules) are invariant -/
theorem scan_verdict_ren_ext (mt'' : Str → Str → Bool) (r : RuleSpec) (hr : ruleWF r = true) :
    verdictOf mt'' g' (compile (renRule ρ r)) = verdictOf mt'' g (compile r) :=
  Pta.RS.verdict_of_image_lemma hρ mt'' g g'
    (scan_graph_ren_ext mt mt' base base' root mp entries o ps' ρ hρ hwf hmp hroot hst hx hxx hext hlim g g' hg hg') r hr

/-- … and the message is the original report with every module name renamed -/
theorem scan_report_ren_ext (mt'' : Str → Str → Bool) (r : RuleSpec) (hr : ruleWF r = true) :
    (assertAppliesText mt'' (compile (renRule ρ r)) g').2 =
      ((assertApplies mt'' (compile r) g).2.mapId (renStr ρ)).toText :=
  Pta.RS.text_of_image_lemma hρ mt'' g g'
    (scan_graph_ren_ext mt mt' base base' root mp entries o ps' ρ hρ hwf hmp hroot hst hx hxx hext hlim g g' hg hg') r hr

end ext

/-! ### non-vacuity: the adversarial renaming `advRen` (`x ↦ a`, `y ↦ ab`, everything else gets a `z` in front) on a tree
    with five `.py` files: the siblings `x/` and `y.py` become `a/` and `ab.py` (one name a string prefix of the
    other), the names `py.py`, `xpy/` and `__init__.py` occur, an excluded directory holds what the scan must not see -/

namespace ScanEx
def s (x : String) : Str := x.toList
def noRe : Str → Str → Bool := fun _ _ => false

/-- `r/x/u.py` (`from . import v`, `from .. import y`, `import r.py, os`), `r/x/v.py`, `r/y.py` (`from .x import u, zz`),
    `r/py.py` (`from r import y`), `r/xpy/__init__.py` (`import r.x.v`), `r/notes.txt`, and the excluded `r/cache/` with
    a dotted directory and a file importing above the root -/
def tree : List Entry :=
  [ { rel := [s "x"], isDir := true },
    { rel := [s "x", s "u.py"], isDir := false,
      stmts := [.impFrom none [s "v"] 1, .impFrom none [s "y"] 2, .imp [s "r.py", s "os"]] },
    { rel := [s "x", s "v.py"], isDir := false },
    { rel := [s "y.py"], isDir := false, stmts := [.impFrom (some (s "x")) [s "u", s "zz"] 1] },
    { rel := [s "py.py"], isDir := false, stmts := [.impFrom (some (s "r")) [s "y"] 0] },
    { rel := [s "xpy"], isDir := true },
    { rel := [s "xpy", s "__init__.py"], isDir := false, stmts := [.imp [s "r.x.v"]] },
    { rel := [s "notes.txt"], isDir := false },
    { rel := [s "cache"], isDir := true },
    { rel := [s "cache", s "v1.2"], isDir := true },
    { rel := [s "cache", s "x.py"], isDir := false, stmts := [.impFrom none [s "q"] 7] } ]

/-- the glob pattern `*cache` also matches the renamed directory `zcache` -/
def opts : ScanOptions := { exclusions := .globs [s "*cache"] }

/-- the renamed listing: stems renamed, suffixes kept (also of `notes.txt` and `v1.2`) -/
example : (renEntries advRen tree).map (·.rel) =
    [[s "a"], [s "a", s "zu.py"], [s "a", s "zv.py"], [s "ab.py"], [s "zpy.py"], [s "zxpy"], [s "zxpy", s "z__init__.py"],
     [s "znotes.txt"], [s "zcache"], [s "zcache", s "zv1.2"], [s "zcache", s "a.py"]] := by decide

example : ((renEntries advRen tree).map (·.stmts))[1]? =
    some [.impFrom none [s "zv"] 1, .impFrom none [s "ab"] 2, .imp [s "zr.zpy", s "zos"]] := by decide

/-- every hypothesis of `scan_ren` holds (root directory `/t/r`, renamed `/t/zr`; same patterns on both sides) -/
theorem hyps :
    treeWFFor (isExcluded noRe opts.exclusions) (s "/t/r") [] tree = true ∧ mpOK tree [] = true ∧
    compWF (s "r") = true ∧ (∀ e ∈ tree, ∀ st ∈ e.stmts, stmtOK (toSStmt st) = true) ∧
    exclTransportedB advRen (isExcluded noRe opts.exclusions) (isExcluded noRe (.globs [s "*cache"])) (s "/t/r") (s "/t/zr")
      tree = true ∧
    opts.excludeExternal = true ∧ opts.externalExclusions.isEmpty = true := by decide

set_option maxRecDepth 100000 in
/-- both scans evaluated: the graph of the renamed tree IS the image of the original graph (here even with the same
    order of nodes and edges), with `zr.a` and `zr.ab` kept apart -/
theorem graphs :
    (generateGraph noRe (s "/t/r") (s "r") [] tree opts).toOption.map (fun g => (g.nodes, g.importPairs)) =
      some ([s "r", s "r.x", s "r.x.u", s "r.x.v", s "r.y", s "r.py", s "r.xpy", s "r.xpy.__init__"],
        [(s "r.x.u", s "r.x.v"), (s "r.x.u", s "r.y"), (s "r.x.u", s "r.py"), (s "r.y", s "r.x.u"), (s "r.y", s "r.x"),
         (s "r.py", s "r.y"), (s "r.xpy.__init__", s "r.x.v")]) ∧
    (generateGraph noRe (s "/t/zr") (advRen (s "r")) ([].map (renFile advRen)) (renEntries advRen tree)
        (opts.withExclusions (.globs [s "*cache"]))).toOption.map (fun g => (g.nodes, g.importPairs)) =
      some ([s "zr", s "zr.a", s "zr.a.zu", s "zr.a.zv", s "zr.ab", s "zr.zpy", s "zr.zxpy", s "zr.zxpy.z__init__"],
        [(s "zr.a.zu", s "zr.a.zv"), (s "zr.a.zu", s "zr.ab"), (s "zr.a.zu", s "zr.zpy"), (s "zr.ab", s "zr.a.zu"),
         (s "zr.ab", s "zr.a"), (s "zr.zpy", s "zr.ab"), (s "zr.zxpy.z__init__", s "zr.a.zv")]) ∧
    (generateGraph noRe (s "/t/r") (s "r") [] tree opts).toOption.map
        (fun g => ((mapGraph (renDotted advRen) g).nodes, (mapGraph (renDotted advRen) g).edges)) =
      (generateGraph noRe (s "/t/zr") (advRen (s "r")) ([].map (renFile advRen)) (renEntries advRen tree)
        (opts.withExclusions (.globs [s "*cache"]))).toOption.map (fun g => (g.nodes, g.edges)) := by
  refine ⟨by decide, by decide, by decide⟩

/-- the theorem applied to the instance -/
example :
    match generateGraph noRe (s "/t/r") (s "r") [] tree opts with
    | .ok g => ∃ g', generateGraph noRe (s "/t/zr") (advRen (s "r")) ([].map (renFile advRen)) (renEntries advRen tree)
          (opts.withExclusions (.globs [s "*cache"])) = .ok g' ∧
        GraphEquiv g' (mapGraph (renDotted advRen) g) ∧ GraphEquiv g' (mapGraph (renStr advRen) g)
    | .error k => generateGraph noRe (s "/t/zr") (advRen (s "r")) ([].map (renFile advRen)) (renEntries advRen tree)
          (opts.withExclusions (.globs [s "*cache"])) = .error k :=
  scan_ren noRe noRe (s "/t/r") (s "/t/zr") (s "r") [] tree opts (.globs [s "*cache"]) advRen advRen_good hyps.1 hyps.2.1
    hyps.2.2.1 hyps.2.2.2.1 (Pta.RS.exclTransported_of_check _ _ _ _ _ hyps.2.2.2.2.1) hyps.2.2.2.2.2.1 hyps.2.2.2.2.2.2

/-- "sub modules of `r.x` should not import `r.y`" (violated by `r.x.u → r.y`) and "`r.y`, `r.x` should not be imported
    by anything" (related subjects, not strict); renamed: the sibling `zr.ab` of `zr.a` is NOT a sub module of `zr.a` -/
def rSub : RuleSpec :=
  { verb := .shouldNot, importDir := true, exc := false, subjects := [.subOf (nm "r.x")], objects := [.named (nm "r.y")] }
def rOnly : RuleSpec :=
  { verb := .shouldOnly, importDir := true, exc := false, subjects := [.subOf (nm "r.x")], objects := [.subOf (nm "r.x"), .named (nm "r.y"), .named (nm "r.py")] }

example : ruleWF rSub = true ∧ ruleWF rOnly = true := by decide

set_option maxRecDepth 100000 in
/-- both sides of `scan_verdict_ren` evaluated -/
example :
    (generateGraph noRe (s "/t/r") (s "r") [] tree opts).toOption.map
        (fun g => [rSub, rOnly].map fun r => verdictOf noRe g (compile r)) = some [.fail, .pass] ∧
    (generateGraph noRe (s "/t/zr") (advRen (s "r")) ([].map (renFile advRen)) (renEntries advRen tree)
        (opts.withExclusions (.globs [s "*cache"]))).toOption.map
        (fun g => [rSub, rOnly].map fun r => verdictOf noRe g (compile (renRule advRen r))) = some [.fail, .pass] := by
  refine ⟨by decide, by decide⟩

set_option maxRecDepth 100000 in
/-- the sub-directory scan `module_path = r/x` with `level_limit = 0` and an error case: scanning from `r/x` the
    statement `from .. import y` of `r/x/u.py` still resolves (to `r.y`, outside the scan), whereas a file importing
    seven levels up makes both scans raise the same error -/
example :
    treeWFFor (isExcluded noRe opts.exclusions) (s "/t/r") [s "x"] tree = true ∧ mpOK tree [s "x"] = true ∧
    (generateGraph noRe (s "/t/r") (s "r") [s "x"] tree { opts with levelLimit := some 0 }).toOption.map (·.nodes) =
      some [s "r.x", s "r"] ∧
    (generateGraph noRe (s "/t/zr") (advRen (s "r")) ([s "x"].map (renFile advRen)) (renEntries advRen tree)
        { opts with levelLimit := some 0 }).toOption.map (·.nodes) = some [s "zr.a", s "zr"] ∧
    (generateGraph noRe (s "/t/r") (s "r") [] tree { exclusions := .globs [] }).toOption.map (·.nodes) = none ∧
    (generateGraph noRe (s "/t/zr") (advRen (s "r")) [] (renEntries advRen tree) { exclusions := .globs [] }).toOption.map
      (·.nodes) = none := by
  refine ⟨by decide, by decide, by decide, by decide, by decide, by decide⟩

set_option maxRecDepth 100000 in
/-- labels: alias `X` for `r.x` -/
example :
    (generateGraph noRe (s "/t/zr") (advRen (s "r")) ([].map (renFile advRen)) (renEntries advRen tree)
        (opts.withExclusions (.globs [s "*cache"]))).toOption.bind
      (fun g => (plotLabels g.nodes ((renAliases advRen [(nm "r.x", s "X")]).map fun a => (render a.1, a.2))).toOption) =
    some [(s "zr", s "zr"), (s "zr.a", s "X"), (s "zr.a.zu", s "X.zu"), (s "zr.a.zv", s "X.zv"), (s "zr.ab", s "zr.ab"),
      (s "zr.zpy", s "zr.zpy"), (s "zr.zxpy", s "zr.zxpy"), (s "zr.zxpy.z__init__", s "zr.zxpy.z__init__")] := by decide

/-- the same tree with external modules included: `os` (renamed `zos`) becomes a node with the edge `r.x.u → os` -/
def optsExt : ScanOptions := { exclusions := .globs [s "*cache"], excludeExternal := false }

set_option maxRecDepth 100000 in
example :
    optsExt.excludeExternal = false ∧ optsExt.externalExclusions.isEmpty = true ∧ optsExt.levelLimit = none ∧
    (generateGraph noRe (s "/t/zr") (advRen (s "r")) ([].map (renFile advRen)) (renEntries advRen tree)
        (optsExt.withExclusions (.globs [s "*cache"]))).toOption.map
      (fun g => (g.nodes.contains (s "zos"), g.importPairs.contains (s "zr.a.zu", s "zos"))) = some (true, true) ∧
    (generateGraph noRe (s "/t/r") (s "r") [] tree optsExt).toOption.map
        (fun g => ((mapGraph (renStr advRen) g).nodes, (mapGraph (renStr advRen) g).edges)) =
      (generateGraph noRe (s "/t/zr") (advRen (s "r")) ([].map (renFile advRen)) (renEntries advRen tree)
        (optsExt.withExclusions (.globs [s "*cache"]))).toOption.map (fun g => (g.nodes, g.edges)) := by
  refine ⟨by decide, by decide, by decide, by decide, by decide⟩

end ScanEx

/-! ### the hypotheses on `ρ` and on the exclusion test are needed -/

namespace ScanNeeds
open ScanEx

/-- `r/x/u.py` (`import r.y`), `r/y.py` (`from .x import u`) -/
def tr : List Entry :=
  [ { rel := [s "x"], isDir := true },
    { rel := [s "x", s "u.py"], isDir := false, stmts := [.imp [s "r.y"]] },
    { rel := [s "y.py"], isDir := false, stmts := [.impFrom (some (s "x")) [s "u"] 1] } ]
def oN : ScanOptions := { exclusions := .globs [] }

/-- `y ↦ x`: keeps "non-empty, dot-free" but is not injective -/
def merge : Comp → Comp := fun c => if c = s "y" then s "x" else c
/-- `x ↦ a.py` (and `a.py ↦ x`): injective but produces a dotted component (one ending in `.py`) -/
def dotty : Comp → Comp := fun c => if c = s "x" then s "a.py" else if c = s "a.py" then s "x" else c

theorem dotty_invol (c : Comp) : dotty (dotty c) = c := by
  unfold dotty
  by_cases h1 : c = s "x"
  · subst h1; decide
  · by_cases h2 : c = s "a.py"
    · subst h2; decide
    · simp only [h1, h2, if_false]

theorem hyps : treeWFFor (isExcluded noRe oN.exclusions) (s "/t/r") [] tr = true ∧ mpOK tr [] = true ∧ compWF (s "r") = true ∧
    (∀ e ∈ tr, ∀ st ∈ e.stmts, stmtOK (toSStmt st) = true) ∧ oN.excludeExternal = true ∧
    oN.externalExclusions.isEmpty = true := by decide

set_option maxRecDepth 100000 in
/-- INJECTIVITY is needed. `merge` preserves well-formedness, every other hypothesis of `scan_ren` holds, both scans
    succeed, but the renamed tree has `x.py` next to `x/`: the image of the original graph has the import pair
    `r.x → r.x.u` (image of `r.y → r.x.u`), the graph of the renamed tree keeps that pair as a hierarchy edge only. -/
theorem scan_ren_needs_injective :
    (∀ c, compWF c = true → compWF (merge c) = true) ∧ merge (s "y") = merge (s "x") ∧
    ∀ g g', generateGraph noRe (s "/t/r") (s "r") [] tr oN = .ok g →
      generateGraph noRe (s "/t/r") (merge (s "r")) ([].map (renFile merge)) (renEntries merge tr) (oN.withExclusions (.globs [])) = .ok g' →
      ¬ GraphEquiv g' (mapGraph (renDotted merge) g) := by
  refine ⟨?_, by decide, ?_⟩
  · intro c h
    unfold merge
    split
    · decide
    · exact h
  · intro g g' hg hg' h
    have h1 : (generateGraph noRe (s "/t/r") (s "r") [] tr oN).toOption.map
        (fun g => decide (s "r.x.u" ∈ (mapGraph (renDotted merge) g).importSuccs (s "r.x"))) = some true := by decide
    have h2 : (generateGraph noRe (s "/t/r") (merge (s "r")) ([].map (renFile merge)) (renEntries merge tr)
        (oN.withExclusions (.globs []))).toOption.map (fun g => decide (s "r.x.u" ∈ g.importSuccs (s "r.x"))) = some false := by
      decide
    rw [hg] at h1
    rw [hg'] at h2
    simp only [Except.toOption, Option.map_some, Option.some.injEq, decide_eq_true_eq, decide_eq_false_iff_not] at h1 h2
    exact h2 ((h.succs _ _).2 h1)

set_option maxRecDepth 100000 in
/-- DOT-FREE images are needed (in particular `ρ` must not produce names ending in `.py`). `dotty` is injective, every
    other hypothesis holds, both scans succeed, but the directory `r/x` renamed to `r/a.py` is the module `r.a`
    (`Path.with_suffix("")`) with the package `r.a.py` below it: the node `r.a` is not in the image of the original graph. -/
theorem scan_ren_needs_dotfree :
    (∀ c d, dotty c = dotty d → c = d) ∧ compWF (dotty (s "x")) = false ∧
    ∀ g g', generateGraph noRe (s "/t/r") (s "r") [] tr oN = .ok g →
      generateGraph noRe (s "/t/r") (dotty (s "r")) ([].map (renFile dotty)) (renEntries dotty tr) (oN.withExclusions (.globs [])) = .ok g' →
      ¬ GraphEquiv g' (mapGraph (renDotted dotty) g) := by
  refine ⟨?_, by decide, ?_⟩
  · intro c d h
    rw [← dotty_invol c, ← dotty_invol d, h]
  · intro g g' hg hg' h
    have h1 : (generateGraph noRe (s "/t/r") (s "r") [] tr oN).toOption.map
        (fun g => decide (s "r.a" ∈ (mapGraph (renDotted dotty) g).nodes)) = some false := by decide
    have h2 : (generateGraph noRe (s "/t/r") (dotty (s "r")) ([].map (renFile dotty)) (renEntries dotty tr)
        (oN.withExclusions (.globs []))).toOption.map (fun g => decide (s "r.a" ∈ g.nodes)) = some true := by decide
    rw [hg] at h1
    rw [hg'] at h2
    simp only [Except.toOption, Option.map_some, Option.some.injEq, decide_eq_true_eq, decide_eq_false_iff_not] at h1 h2
    exact h1 ((h.nodes _).1 h2)

/-- `r/x/u.py`, `r/k.py`; the pattern `*x` excludes the directory `r/x` -/
def trX : List Entry :=
  [ { rel := [s "x"], isDir := true }, { rel := [s "x", s "u.py"], isDir := false }, { rel := [s "k.py"], isDir := false } ]
def oX : ScanOptions := { exclusions := .globs [s "*x"] }

set_option maxRecDepth 100000 in
/-- the exclusion test must be TRANSPORTED. With the same glob pattern `*x` on both sides and `advRen` (`x ↦ a`) the
    renamed directory `zr/a` is no longer excluded: all other hypotheses hold, `ExclTransported` fails (its Bool form
    evaluates to `false`), and the renamed scan has the module `zr.a`, which is not in the image of the original graph. -/
theorem scan_ren_needs_transport :
    treeWFFor (isExcluded noRe oX.exclusions) (s "/t/r") [] trX = true ∧ mpOK trX [] = true ∧
    exclTransportedB advRen (isExcluded noRe oX.exclusions) (isExcluded noRe (.globs [s "*x"])) (s "/t/r") (s "/t/zr") trX = false ∧
    ∀ g g', generateGraph noRe (s "/t/r") (s "r") [] trX oX = .ok g →
      generateGraph noRe (s "/t/zr") (advRen (s "r")) ([].map (renFile advRen)) (renEntries advRen trX)
        (oX.withExclusions (.globs [s "*x"])) = .ok g' →
      ¬ GraphEquiv g' (mapGraph (renDotted advRen) g) := by
  refine ⟨by decide, by decide, by decide, ?_⟩
  intro g g' hg hg' h
  have h1 : (generateGraph noRe (s "/t/r") (s "r") [] trX oX).toOption.map
      (fun g => decide (s "zr.a" ∈ (mapGraph (renDotted advRen) g).nodes)) = some false := by decide
  have h2 : (generateGraph noRe (s "/t/zr") (advRen (s "r")) ([].map (renFile advRen)) (renEntries advRen trX)
      (oX.withExclusions (.globs [s "*x"]))).toOption.map (fun g => decide (s "zr.a" ∈ g.nodes)) = some true := by decide
  rw [hg] at h1
  rw [hg'] at h2
  simp only [Except.toOption, Option.map_some, Option.some.injEq, decide_eq_true_eq, decide_eq_false_iff_not] at h1 h2
  exact h1 ((h.nodes _).1 h2)

/-- `r/a.py` (`import r.a.b`) next to the directory `r/a/` with `r/a/b.py`; `r/c.py` — the tree of
    `Pta.E2E.collision_needs_treeWF` -/
def trC : List Entry :=
  [ { rel := [s "a.py"], isDir := false, stmts := [.imp [s "r.a.b"]] },
    { rel := [s "a"], isDir := true },
    { rel := [s "a", s "b.py"], isDir := false },
    { rel := [s "c.py"], isDir := false } ]

set_option maxRecDepth 100000 in
/-- the tree hypothesis `treeWFFor` comes from the ROUTE (the specification of a scan is only related to the model for
    such trees); it is not known to be needed for the renaming statement itself: on the collision tree it fails, and
    the graph of the renamed tree is nevertheless the image of the original graph -/
example :
    treeWFFor (isExcluded noRe oN.exclusions) (s "/t/r") [] trC = false ∧
    (generateGraph noRe (s "/t/r") (s "r") [] trC oN).toOption.map
        (fun g => ((mapGraph (renDotted advRen) g).nodes, (mapGraph (renDotted advRen) g).edges)) =
      (generateGraph noRe (s "/t/zr") (advRen (s "r")) [] (renEntries advRen trC) oN).toOption.map
        (fun g => (g.nodes, g.edges)) := by
  refine ⟨by decide, by decide⟩

end ScanNeeds

end Pta.C14
