/-
  PtaProofs.Props.C02 — every import statement of a scanned file becomes an import edge, and only those
  (property C02).

  Statement level: `ImportConverter._convert` (`convertStmt`) names exactly the modules the specification's `targets`
  names, for absolute, `from`, and relative forms, and raises exactly when a relative import reaches above the root.
  Graph level (`generateGraph`, default options): the import pairs of the scan graph are exactly the specification's
  `scanImports` edges — with ONE exception both directions of which are proved: a pair from a module to its own
  direct child module (a file `x.py` next to a directory `x`, importing `x.y`) is not an import edge of the graph,
  the hierarchy edge wins (`parent_child_not_import`, `collision_counterexample`). Imports of the importing file's
  own ancestor packages ARE import edges, in the model as in the specification.

  In the first sections the AST walk is a parameter (each file comes with all its import statements); the directory
  walk is taken from `ScanHyps` (property C04), whose decidable form is `scanCheck`.

  Section "the AST walk" (audit finding F1): the walk of `ImportConverter.convert` is modelled (`collectImports`, a
  stack loop over a file's flat node list) and proved to reach EVERY import node of the tree exactly once, whatever
  the depth, the classes of the enclosing nodes and the names of the fields they sit in (`collect_all_imports`); the
  pre-fix walk that follows only the field `body` does not (`walk_body_only_counterexample`). The graph-level theorem
  is restated for files that come with their trees (`scan_imports_exact_tree_ast`).

  Last section (`…_tree`): `ScanHyps` is discharged by the C04 walk theorems from the Bool-valued tree predicate
  `treeWFFor` (Bridge/ScanTree.lean), so the graph-level statements hold for every well-formed directory tree; since
  `treeWFFor` forbids a relevant `x.py` next to a directory `x`, the exception disappears there.
-/
import Bridge.ScanAbs
import Bridge.ScanTree
import PtaProofs.Lemmas.ScanStmt
import PtaProofs.Lemmas.ScanImports
import PtaProofs.Lemmas.ScanCompose
import Bridge.ScanAst
import PtaProofs.Lemmas.AstWalk
import PtaProofs.Lemmas.AstScan
namespace Pta.C02
open Pta PtaSpec

/-! ### statement level -/

/-- One statement `st` of the module `imp`: the conversion succeeds exactly when the specification names targets,
    and then the records' importees are the rendered targets, in order; every record has the importing module as
    importer and the parent modules of its (resolved) importee. `internal` is any list with the members `mods`. -/
theorem convertStmt_spec (imp : Name) (himp : nameWF imp = true) (mods : List Name)
    (hmods : ∀ m ∈ mods, nameWF m = true) (internal : List Str)
    (hint : ∀ s, s ∈ internal ↔ ∃ n ∈ mods, s = render n) (absPrefix : Option Name)
    (hpre : ∀ p, absPrefix = some p → nameWF p = true) (st : ImportStmt) (hst : stmtOK (toSStmt st) = true) :
    match targets mods absPrefix imp (toSStmt st) with
    | some ts => ∃ recs, convertStmt (render imp) (renderPrefix absPrefix) internal st = .ok recs ∧
        recs.map (·.importee) = ts.map render ∧
        (∀ r ∈ recs, r.importer = render imp ∧ r.importeeParents = parentModules r.importee) ∧
        ∀ t ∈ ts, nameWF t = true
    | none => convertStmt (render imp) (renderPrefix absPrefix) internal st = .error .lookupError :=
  ScanStmt.convertStmt_spec_lemma hmods hint absPrefix hpre imp himp st hst

/-- the same with `internal = mods.map render`, as the task states it -/
theorem convertStmt_spec_map (imp : Name) (himp : nameWF imp = true) (mods : List Name)
    (hmods : ∀ m ∈ mods, nameWF m = true) (absPrefix : Option Name)
    (hpre : ∀ p, absPrefix = some p → nameWF p = true) (st : ImportStmt) (hst : stmtOK (toSStmt st) = true) :
    match targets mods absPrefix imp (toSStmt st) with
    | some ts => ∃ recs, convertStmt (render imp) (renderPrefix absPrefix) (mods.map render) st = .ok recs ∧
        recs.map (·.importee) = ts.map render ∧
        (∀ r ∈ recs, r.importer = render imp ∧ r.importeeParents = parentModules r.importee) ∧
        ∀ t ∈ ts, nameWF t = true
    | none => convertStmt (render imp) (renderPrefix absPrefix) (mods.map render) st = .error .lookupError :=
  ScanStmt.convertStmt_spec_lemma hmods (ScanStmt.Ctx.of_map mods hmods).mem absPrefix hpre imp himp st hst

/-- the conversion raises exactly when the specification has no targets (a relative import above the root) -/
theorem convertStmt_error_iff (imp : Name) (himp : nameWF imp = true) (mods : List Name)
    (hmods : ∀ m ∈ mods, nameWF m = true) (internal : List Str)
    (hint : ∀ s, s ∈ internal ↔ ∃ n ∈ mods, s = render n) (absPrefix : Option Name)
    (hpre : ∀ p, absPrefix = some p → nameWF p = true) (st : ImportStmt) (hst : stmtOK (toSStmt st) = true) :
    (∃ k, convertStmt (render imp) (renderPrefix absPrefix) internal st = .error k) ↔
      targets mods absPrefix imp (toSStmt st) = none :=
  ScanStmt.convertStmt_error_iff_lemma hmods hint absPrefix hpre imp himp st hst

/-- `RelativeImport._calculate_importee` (`hierarchy[-level]` on the importer's proper prefixes) against the
    specification's `importer.take (importer.length - level)` with guard `level ≥ importer.length`: they agree
    for every level ≥ 1 -/
theorem relativeImportee_spec (imp : Name) (himp : nameWF imp = true) (name : Str) (l : Nat) :
    relativeImportee (render imp) name (l + 1) =
      if l + 1 ≥ imp.length then .error .lookupError
      else .ok (render (imp.take (imp.length - (l + 1))) ++ '.' :: name) :=
  ScanStmt.relativeImportee_spec imp himp name l

/-- non-vacuity: `from ..q import k, z` in `r.a.m`, where `r.q.k` is a scanned module and `r.q.z` is not -/
example :
    nameWF ["r".toList, "a".toList, "m".toList] = true ∧
    stmtOK (toSStmt (.impFrom (some "q".toList) ["k".toList, "z".toList] 2)) = true ∧
    targets [["r".toList], ["r".toList, "q".toList], ["r".toList, "q".toList, "k".toList]] none
      ["r".toList, "a".toList, "m".toList] (toSStmt (.impFrom (some "q".toList) ["k".toList, "z".toList] 2)) =
      some [["r".toList, "q".toList, "k".toList], ["r".toList, "q".toList]] ∧
    (convertStmt "r.a.m".toList [] ["r".toList, "r.q".toList, "r.q.k".toList]
      (.impFrom (some "q".toList) ["k".toList, "z".toList] 2)).toOption.map (·.map (·.importee)) =
      some ["r.q.k".toList, "r.q".toList] := by decide

/-- non-vacuity, absolute form with a prefix: `import b.c` below `module_path = r/a` names `r.b.c` when scanned -/
example :
    stmtOK (toSStmt (.imp ["b.c".toList, "os".toList])) = true ∧
    targets [["r".toList, "b".toList, "c".toList]] (some ["r".toList]) ["r".toList, "a".toList, "m".toList]
      (toSStmt (.imp ["b.c".toList, "os".toList])) = some [["r".toList, "b".toList, "c".toList], ["os".toList]] := by
  decide

/-- The hypothesis "a relative `from` import lists at least one name" (`stmtOK`) is needed: on an EMPTY alias list
    the model's `mapM` raises nothing while the specification reports the level error. Python's grammar excludes
    the input (`from ... import` without names is a syntax error), so this is an artefact of treating the AST as a
    parameter, not a defect of the library. -/
theorem empty_alias_list_counterexample :
    targets [] none ["r".toList] (.impFrom none [] 5) = none ∧
    (convertStmt (render ["r".toList]) (renderPrefix none) [] (toStmt (.impFrom none [] 5))).toOption = some [] := by decide

/-! ### graph level -/

/-- The import pairs of the scan graph are exactly the rendered edges of the specification, except the edges from a
    module to its own direct child; and the scan raises (LookupError / IndexError) exactly when the specification
    has no answer. -/
theorem scan_imports_exact (mt : Str → Str → Bool) (base root : Str) (mp : List Str) (entries : List Entry)
    (o : ScanOptions) (H : ScanHyps mt base root mp entries o) :
    match scanImports root (sentriesOf mt base entries o) mp with
    | none => generateGraph mt base root mp entries o = .error .lookupError
    | some is => ∃ g, generateGraph mt base root mp entries o = .ok g ∧
        ∀ u v, (u, v) ∈ g.importPairs ↔ ∃ e ∈ is, u = render e.1 ∧ v = render e.2 ∧ e.1 ≠ e.2.dropLast :=
  ScanImports.scan_imports_lemma H

/-- On a tree without a file `x.py` next to a directory `x` (no surviving file's module is a strict ancestor of a
    surviving entry's module) the exception is empty: import pairs = specification edges. -/
theorem scan_imports_exact_nocollision (mt : Str → Str → Bool) (base root : Str) (mp : List Str)
    (entries : List Entry) (o : ScanOptions) (H : ScanHyps mt base root mp entries o)
    (hnc : ScanImports.noFileParent root (sentriesOf mt base entries o) mp = true) :
    match scanImports root (sentriesOf mt base entries o) mp with
    | none => generateGraph mt base root mp entries o = .error .lookupError
    | some is => ∃ g, generateGraph mt base root mp entries o = .ok g ∧
        ∀ u v, (u, v) ∈ g.importPairs ↔ ∃ e ∈ is, u = render e.1 ∧ v = render e.2 :=
  ScanImports.scan_imports_nocollision_lemma H hnc

/-- `scanImports = none ↔ generateGraph = .error _` -/
theorem scan_error_iff (mt : Str → Str → Bool) (base root : Str) (mp : List Str) (entries : List Entry)
    (o : ScanOptions) (H : ScanHyps mt base root mp entries o) :
    scanImports root (sentriesOf mt base entries o) mp = none ↔
      ∃ k, generateGraph mt base root mp entries o = .error k := by
  have h := ScanImports.scan_imports_lemma H
  cases hs : scanImports root (sentriesOf mt base entries o) mp with
  | none => rw [hs] at h; simp [h]
  | some is =>
    rw [hs] at h
    obtain ⟨g, hg, -⟩ := h
    simp [hg]

/-- What the model does with an import of one's own direct child: the pair (module, child module) is a hierarchy
    edge of the scan graph and never an import edge, whatever the import statements say. -/
theorem parent_child_not_import (mt : Str → Str → Bool) (base root : Str) (mp : List Str) (entries : List Entry)
    (o : ScanOptions) (H : ScanHyps mt base root mp entries o) (g : PGraph Str)
    (hg : generateGraph mt base root mp entries o = .ok g) (c : Name)
    (hc : c ∈ scanModules root (sentriesOf mt base entries o) mp) (hl : 2 ≤ c.length) :
    (render c.dropLast, render c) ∉ g.importPairs ∧ (render c.dropLast, render c) ∈ g.hierPairs :=
  ScanImports.parent_child_not_import_lemma H g hg c hc hl

/-- the hypotheses in decidable form -/
theorem scanHyps_of_check (mt : Str → Str → Bool) (base root : Str) (mp : List Str) (entries : List Entry)
    (o : ScanOptions) (h : scanCheck mt base root mp entries o = true) : ScanHyps mt base root mp entries o :=
  ScanImports.scanHyps_of_check h

/-! ### concrete trees -/

/-- `r/`, `r/a/`, `r/a/m.py` (`from . import k`, `from .. import a`, `import r.b, os`), `r/a/k.py`,
    `r/b.py` (`from .a import k, zz`) -/
def exTree : List Entry :=
  [ { rel := [], isDir := true },
    { rel := ["a".toList], isDir := true },
    { rel := ["a".toList, "m.py".toList], isDir := false,
      stmts := [.impFrom none ["k".toList] 1, .impFrom none ["a".toList] 2, .imp ["r.b".toList, "os".toList]] },
    { rel := ["a".toList, "k.py".toList], isDir := false },
    { rel := ["b.py".toList], isDir := false, stmts := [.impFrom (some "a".toList) ["k".toList, "zz".toList] 1] } ]

def exOpts : ScanOptions := { exclusions := .globs [] }

/-- non-vacuity of `scan_imports_exact` / `scan_imports_exact_nocollision`: the tree meets every hypothesis -/
example : scanCheck (fun _ _ => false) "/x/r".toList "r".toList [] exTree exOpts = true := by decide
example : ScanImports.noFileParent "r".toList (sentriesOf (fun _ _ => false) "/x/r".toList exTree exOpts) [] = true := by
  decide

/-- … and the specification's edges there, including the import of the importer's own ancestor package `r.a` -/
example : scanImports "r".toList (sentriesOf (fun _ _ => false) "/x/r".toList exTree exOpts) [] =
    some [ (["r".toList, "a".toList, "m".toList], ["r".toList, "a".toList, "k".toList]),
           (["r".toList, "a".toList, "m".toList], ["r".toList, "a".toList]),
           (["r".toList, "a".toList, "m".toList], ["r".toList, "b".toList]),
           (["r".toList, "b".toList], ["r".toList, "a".toList, "k".toList]),
           (["r".toList, "b".toList], ["r".toList, "a".toList]) ] := by decide

/-- a relative import above the root: both sides fail (and the hypotheses hold) -/
def exDeep : List Entry :=
  [ { rel := [], isDir := true },
    { rel := ["b.py".toList], isDir := false, stmts := [.impFrom none ["x".toList] 2] } ]

example : scanCheck (fun _ _ => false) "/x/r".toList "r".toList [] exDeep exOpts = true ∧
    scanImports "r".toList (sentriesOf (fun _ _ => false) "/x/r".toList exDeep exOpts) [] = none := by decide

/-- scanning the sub-directory `r/a` of a tree (`module_path = r/a`): `import a.k` is resolved against the parent of
    `module_path` (`r.a.k`), `import r.a.k` directly; `r/b.py` is outside the scan -/
def exSub : List Entry :=
  [ { rel := [], isDir := true },
    { rel := ["a".toList], isDir := true },
    { rel := ["a".toList, "m.py".toList], isDir := false,
      stmts := [.imp ["a.k".toList], .impFrom (some "r.a".toList) ["k".toList] 0, .imp ["r.b".toList]] },
    { rel := ["a".toList, "k.py".toList], isDir := false },
    { rel := ["b.py".toList], isDir := false } ]

example : scanCheck (fun _ _ => false) "/x/r".toList "r".toList ["a".toList] exSub exOpts = true ∧
    ScanImports.noFileParent "r".toList (sentriesOf (fun _ _ => false) "/x/r".toList exSub exOpts) ["a".toList] = true ∧
    scanImports "r".toList (sentriesOf (fun _ _ => false) "/x/r".toList exSub exOpts) ["a".toList] =
      some [ (["r".toList, "a".toList, "m".toList], ["r".toList, "a".toList, "k".toList]),
             (["r".toList, "a".toList, "m".toList], ["r".toList, "a".toList, "k".toList]) ] ∧
    (generateGraph (fun _ _ => false) "/x/r".toList "r".toList ["a".toList] exSub exOpts).toOption.map (·.importPairs) =
      some [("r.a.m".toList, "r.a.k".toList)] := by decide

/-- `r/a.py` (`import r.a.b`) next to the directory `r/a/` with `r/a/b.py` -/
def exCollision : List Entry :=
  [ { rel := [], isDir := true },
    { rel := ["a.py".toList], isDir := false, stmts := [.imp ["r.a.b".toList]] },
    { rel := ["a".toList], isDir := true },
    { rel := ["a".toList, "b.py".toList], isDir := false } ]

/-- The exception of `scan_imports_exact` is real: the file `r/a.py` imports `r.a.b`; the specification lists the
    edge `r.a → r.a.b`, the model's graph has no import pair at all (the pair is the hierarchy edge of `r.a.b`:
    `_create_edge` overwrites it with `inherits=False`, then the importee's chain writes `inherits=True` back).
    All hypotheses of `scan_imports_exact` hold for this tree. -/
theorem collision_counterexample :
    scanCheck (fun _ _ => false) "/x/r".toList "r".toList [] exCollision exOpts = true ∧
    scanImports "r".toList (sentriesOf (fun _ _ => false) "/x/r".toList exCollision exOpts) [] =
      some [(["r".toList, "a".toList], ["r".toList, "a".toList, "b".toList])] ∧
    (generateGraph (fun _ _ => false) "/x/r".toList "r".toList [] exCollision exOpts).toOption.map (·.importPairs) =
      some [] ∧
    ScanImports.noFileParent "r".toList (sentriesOf (fun _ _ => false) "/x/r".toList exCollision exOpts) [] = false := by
  decide

/-! ### graph level on directory trees: the walk hypotheses discharged by C04

  Listing convention: `entries` lists the paths below the root directory (no entry for the root itself, as in C04);
  the specification sees `toSEntries … entries`, i.e. the root directory and the entries. `ScanHyps` holds for the
  listing `rootEntry :: entries` (the harness sends the root as an entry with `rel = []`), and the model ignores a
  listed root (`C04.listed_root_ignored`), so the conclusions are about `generateGraph … entries`. -/

section tree
variable (mt : Str → Str → Bool) (base root : Str) (mp : List Str) (entries : List Entry) (o : ScanOptions)
  (hwf : treeWFFor (isExcluded mt o.exclusions) base mp entries = true) (hmp : mpOK entries mp = true)
  (hroot : compWF root = true)
  (hxx : o.excludeExternal = true) (hlim : o.levelLimit = none) (hext : o.externalExclusions.isEmpty = true)
  (hst : ∀ e ∈ entries, ∀ st ∈ e.stmts, stmtOK (toSStmt st) = true)
include hwf hmp hroot hxx hlim hext hst

/-- everything C02 takes from the directory walk follows from C04: a well-formed tree (as far as the scan can see
    it), `module_path` the root or a listed directory, a well-formed root name (the components of `module_path` are
    then well-formed too, being names of relevant directories), the default options, and parser-producible statements -/
theorem scanHyps_of_tree : ScanHyps mt base root mp (rootEntry :: entries) o :=
  ScanCompose.scanHyps_of_tree hwf hmp hroot hxx hlim hext hst

omit hmp hroot hxx hlim hext hst in
/-- on such a tree no surviving file's module is a strict ancestor of a surviving entry's module -/
theorem noFileParent_tree :
    ScanImports.noFileParent root (toSEntries (isExcluded mt o.exclusions) base entries) mp = true := by
  simp only [treeWFFor, Bool.and_eq_true] at hwf
  exact ScanCompose.noFileParent_of_tree (ScanWalk.shape_of entries hwf.1) (ScanNames.names_of _ base mp entries hwf.2) root

/-- C02, graph level, on directory trees: the scan raises (LookupError / IndexError) exactly when the
    specification has no answer (a relative import reaching above the root); otherwise the import pairs of the scan
    graph are exactly the rendered edges of the specification's `scanImports` — no exception. -/
theorem scan_imports_exact_tree :
    match scanImports root (toSEntries (isExcluded mt o.exclusions) base entries) mp with
    | none => generateGraph mt base root mp entries o = .error .lookupError
    | some is => ∃ g, generateGraph mt base root mp entries o = .ok g ∧
        ∀ u v, (u, v) ∈ g.importPairs ↔ ∃ e ∈ is, u = render e.1 ∧ v = render e.2 :=
  ScanCompose.scan_imports_tree_lemma hwf hmp hroot hxx hlim hext hst

/-- the same under its other name: on a tree the no-collision hypothesis of `scan_imports_exact_nocollision` is a
    consequence (`noFileParent_tree`) -/
theorem scan_imports_exact_tree_nocollision :
    match scanImports root (toSEntries (isExcluded mt o.exclusions) base entries) mp with
    | none => generateGraph mt base root mp entries o = .error .lookupError
    | some is => ∃ g, generateGraph mt base root mp entries o = .ok g ∧
        ∀ u v, (u, v) ∈ g.importPairs ↔ ∃ e ∈ is, u = render e.1 ∧ v = render e.2 :=
  ScanCompose.scan_imports_tree_lemma hwf hmp hroot hxx hlim hext hst

/-- `scanImports = none ↔ generateGraph = .error _`, on directory trees -/
theorem scan_error_iff_tree :
    scanImports root (toSEntries (isExcluded mt o.exclusions) base entries) mp = none ↔
      ∃ k, generateGraph mt base root mp entries o = .error k := by
  have h := ScanCompose.scan_imports_tree_lemma (root := root) hwf hmp hroot hxx hlim hext hst
  cases hs : scanImports root (toSEntries (isExcluded mt o.exclusions) base entries) mp with
  | none => rw [hs] at h; simp [h]
  | some is =>
    rw [hs] at h
    obtain ⟨g, hg, -⟩ := h
    simp [hg]

end tree

/-- `r/a/` with `m.py` (`from . import k`, `from .. import a`, `import r.b, os`) and `k.py`, `r/b.py`
    (`from .a import k, zz`), and an excluded directory `r/cache/` holding a dotted directory, a file importing above
    the root and an `x.py` next to `x/` (nothing of which the scan sees) -/
def exWalk : List Entry :=
  [ { rel := ["a".toList], isDir := true },
    { rel := ["a".toList, "m.py".toList], isDir := false,
      stmts := [.impFrom none ["k".toList] 1, .impFrom none ["a".toList] 2, .imp ["r.b".toList, "os".toList]] },
    { rel := ["a".toList, "k.py".toList], isDir := false },
    { rel := ["b.py".toList], isDir := false, stmts := [.impFrom (some "a".toList) ["k".toList, "zz".toList] 1] },
    { rel := ["cache".toList], isDir := true },
    { rel := ["cache".toList, "v1.2".toList], isDir := true },
    { rel := ["cache".toList, "x".toList], isDir := true },
    { rel := ["cache".toList, "x.py".toList], isDir := false, stmts := [.impFrom none ["y".toList] 7] } ]

def exWalkOpts : ScanOptions := { exclusions := .globs ["*cache".toList] }

/-- non-vacuity of the `…_tree` theorems: the tree meets every hypothesis (and is not globally well-formed) -/
example :
    treeWFFor (isExcluded (fun _ _ => false) exWalkOpts.exclusions) "/x/r".toList [] exWalk = true ∧
    treeWF exWalk = false ∧ mpOK exWalk [] = true ∧ compWF "r".toList = true ∧
    exWalkOpts.excludeExternal = true ∧ exWalkOpts.levelLimit = none ∧ exWalkOpts.externalExclusions.isEmpty = true ∧
    (∀ e ∈ exWalk, ∀ st ∈ e.stmts, stmtOK (toSStmt st) = true) := by decide

set_option maxRecDepth 20000 in
/-- … and there the specification's edges and the import pairs of the model's graph -/
example :
    scanImports "r".toList (toSEntries (isExcluded (fun _ _ => false) exWalkOpts.exclusions) "/x/r".toList exWalk) [] =
      some [ (["r".toList, "a".toList, "m".toList], ["r".toList, "a".toList, "k".toList]),
             (["r".toList, "a".toList, "m".toList], ["r".toList, "a".toList]),
             (["r".toList, "a".toList, "m".toList], ["r".toList, "b".toList]),
             (["r".toList, "b".toList], ["r".toList, "a".toList, "k".toList]),
             (["r".toList, "b".toList], ["r".toList, "a".toList]) ] ∧
    (generateGraph (fun _ _ => false) "/x/r".toList "r".toList [] exWalk exWalkOpts).toOption.map (·.importPairs) =
      some [ ("r.a.m".toList, "r.a.k".toList), ("r.a.m".toList, "r.a".toList), ("r.a.m".toList, "r.b".toList),
             ("r.b".toList, "r.a.k".toList), ("r.b".toList, "r.a".toList) ] := by decide

/-- the sub-directory scan of `r/a` of the same tree (`module_path = a`) meets the hypotheses as well -/
example :
    treeWFFor (isExcluded (fun _ _ => false) exWalkOpts.exclusions) "/x/r".toList ["a".toList] exWalk = true ∧
    mpOK exWalk ["a".toList] = true := by decide

/-! ### the AST walk (audit finding F1)

  "… whether at module level or nested at any depth inside functions, classes or any branch of any compound statement
  (if/else, try/except/else/finally, loops and their else, with, match cases)". A file's AST is a flat node list
  (`AstNode`: path from the module node, kind, name of the parent's field it sits in); `collectImports` is the stack
  loop of `ImportConverter.convert`; the specification's `allImports` is simply every import node of the tree. -/

/-- The walk collects every import statement of the tree, and nothing else, each exactly once: the collected
    statements are a permutation of the statements of ALL import nodes — for any depth, any node classes, ANY field
    names (no statement position is skipped). `astOK`: paths unique, every node's parent listed, no import node
    below an import node. -/
theorem collect_all_imports (nodes : List AstNode) (hwf : astOK nodes = true) :
    ((collectImports nodes).map toSStmt).Perm (allImports (nodes.map toSNode)) :=
  AstWalk.collect_all_imports_lemma hwf

/-- the same, as membership -/
theorem collect_all_imports_mem (nodes : List AstNode) (hwf : astOK nodes = true) (st : SStmt) :
    st ∈ (collectImports nodes).map toSStmt ↔ st ∈ allImports (nodes.map toSNode) :=
  (collect_all_imports nodes hwf).mem_iff

/-- the same in the model's vocabulary: a permutation of the import nodes' statements, in list order -/
theorem collect_all_imports_model (nodes : List AstNode) (hwf : astOK nodes = true) :
    (collectImports nodes).Perm (nodes.filterMap AstNode.stmt?) :=
  AstWalk.collectImports_perm (AstWalk.astWF_of_astOK hwf)

/-- every single import node is found, wherever it sits -/
theorem import_node_collected (nodes : List AstNode) (hwf : astOK nodes = true) (n : AstNode) (hn : n ∈ nodes)
    (st : ImportStmt) (hst : n.stmt? = some st) : st ∈ collectImports nodes :=
  (collect_all_imports_model nodes hwf).mem_iff.mpr (List.mem_filterMap.mpr ⟨n, hn, hst⟩)

/-- the file
    ```
    import os                                  # Module.body
    if c: import r.b                           # If.body
    else: from . import k                      # If.orelse
    try: pass
    except E: from .. import a                 # Try.handlers -> ExceptHandler.body
    else: import r.a.k                         # Try.orelse
    finally: import json                       # Try.finalbody
    for i in x: pass
    else: import r.c                           # For.orelse
    match v:
        case 1: from r.a import k, zz          # Match.cases -> match_case.body
    class C:
        def f(self):
            with w: import r.d                 # ClassDef.body -> FunctionDef.body -> With.body
    ```
    (statement positions only, as the harness sends it) -/
def exAst : List AstNode :=
  [ { path := [], kind := .other "Module".toList },
    { path := [0], kind := .imp ["os".toList], field := "body".toList },
    { path := [1], kind := .other "If".toList, field := "body".toList },
    { path := [1, 0], kind := .imp ["r.b".toList], field := "body".toList },
    { path := [1, 1], kind := .impFrom none ["k".toList] 1, field := "orelse".toList },
    { path := [2], kind := .other "Try".toList, field := "body".toList },
    { path := [2, 0], kind := .other "Pass".toList, field := "body".toList },
    { path := [2, 1], kind := .other "ExceptHandler".toList, field := "handlers".toList },
    { path := [2, 1, 0], kind := .impFrom none ["a".toList] 2, field := "body".toList },
    { path := [2, 2], kind := .imp ["r.a.k".toList], field := "orelse".toList },
    { path := [2, 3], kind := .imp ["json".toList], field := "finalbody".toList },
    { path := [3], kind := .other "For".toList, field := "body".toList },
    { path := [3, 0], kind := .other "Pass".toList, field := "body".toList },
    { path := [3, 1], kind := .imp ["r.c".toList], field := "orelse".toList },
    { path := [4], kind := .other "Match".toList, field := "body".toList },
    { path := [4, 0], kind := .other "match_case".toList, field := "cases".toList },
    { path := [4, 0, 0], kind := .impFrom (some "r.a".toList) ["k".toList, "zz".toList] 0, field := "body".toList },
    { path := [5], kind := .other "ClassDef".toList, field := "body".toList },
    { path := [5, 0], kind := .other "FunctionDef".toList, field := "body".toList },
    { path := [5, 0, 0], kind := .other "With".toList, field := "body".toList },
    { path := [5, 0, 0, 0], kind := .imp ["r.d".toList], field := "body".toList } ]

/-- non-vacuity of `collect_all_imports`, and the walk evaluated: all nine imports are found — in `body`, `orelse`,
    `handlers` → `body`, `finalbody`, a loop's `orelse`, `cases` → `body`, class → function → `with` — in the order of
    the Python walk (depth-first, last child first); the pre-fix walk finds three of them -/
example :
    astOK exAst = true ∧
    collectImports exAst =
      [ .imp ["r.d".toList], .impFrom (some "r.a".toList) ["k".toList, "zz".toList] 0, .imp ["r.c".toList],
        .imp ["json".toList], .imp ["r.a.k".toList], .impFrom none ["a".toList] 2, .impFrom none ["k".toList] 1,
        .imp ["r.b".toList], .imp ["os".toList] ] ∧
    exAst.filterMap AstNode.stmt? =
      [ .imp ["os".toList], .imp ["r.b".toList], .impFrom none ["k".toList] 1, .impFrom none ["a".toList] 2,
        .imp ["r.a.k".toList], .imp ["json".toList], .imp ["r.c".toList],
        .impFrom (some "r.a".toList) ["k".toList, "zz".toList] 0, .imp ["r.d".toList] ] ∧
    collectBodyOnly exAst = [ .imp ["r.d".toList], .imp ["r.b".toList], .imp ["os".toList] ] := by decide

/-- `if c: import a` / `else: import b` -/
def exOrelse : List AstNode :=
  [ { path := [], kind := .other "Module".toList },
    { path := [0], kind := .other "If".toList, field := "body".toList },
    { path := [0, 0], kind := .imp ["a".toList], field := "body".toList },
    { path := [0, 1], kind := .imp ["b".toList], field := "orelse".toList } ]

/-- What `collect_all_imports` rules out (defect F-C02a, fixed by 203ca2f): the walk that descends only through the
    field `body` misses the import in the `else` branch of a well-formed tree; the walk of the library finds it. -/
theorem walk_body_only_counterexample :
    astOK exOrelse = true ∧
    ImportStmt.imp ["b".toList] ∈ exOrelse.filterMap AstNode.stmt? ∧
    ImportStmt.imp ["b".toList] ∉ collectBodyOnly exOrelse ∧
    ImportStmt.imp ["b".toList] ∈ collectImports exOrelse ∧
    ¬ (collectBodyOnly exOrelse).Perm (exOrelse.filterMap AstNode.stmt?) := by
  refine ⟨by decide, by decide, by decide, by decide, fun h => ?_⟩
  have := h.length_eq
  revert this
  decide

/-- The fuel `collectImports` fixes (`nodes.length + 1` iterations) suffices on every tree: the `while` loop has
    terminated by then, further iterations change nothing. -/
theorem collect_fuel_suffices (nodes : List AstNode) (hwf : astOK nodes = true) (k : Nat) :
    walkLoop (fun _ => true) nodes (nodes.length + 1 + k) (astRoots nodes) [] = collectImports nodes :=
  AstWalk.collectImports_fuel (AstWalk.astWF_of_astOK hwf) k

/-- The hypothesis "no import node below an import node" is about the encoding, not about Python: the walk does not
    look below an import node (its children in the real AST are `alias` nodes, never statements), so a list that
    hangs an import below an import is not a statement tree, and the two sides differ on it. Listing the `alias`
    nodes (the complete AST rather than the statement positions) is fine. -/
theorem import_below_import_counterexample :
    astOK [ { path := [], kind := .imp ["a".toList] }, { path := [0], kind := .imp ["b".toList] } ] = false ∧
    collectImports [ { path := [], kind := .imp ["a".toList] }, { path := [0], kind := .imp ["b".toList] } ] =
      [ .imp ["a".toList] ] ∧
    astOK [ { path := [], kind := .other "Module".toList },
            { path := [0], kind := .imp ["a".toList], field := "body".toList },
            { path := [0, 0], kind := .other "alias".toList, field := "names".toList } ] = true := by decide

/-! #### graph level, files with their trees -/

section tree_ast
variable (mt : Str → Str → Bool) (base root : Str) (mp : List Str) (entries : List Entry) (o : ScanOptions)
  (hwf : treeWFFor (isExcluded mt o.exclusions) base mp entries = true) (hmp : mpOK entries mp = true)
  (hroot : compWF root = true)
  (hxx : o.excludeExternal = true) (hlim : o.levelLimit = none) (hext : o.externalExclusions.isEmpty = true)
  (htree : ∀ e ∈ entries, astOK e.tree = true)
  (hst : ∀ e ∈ entries, ∀ st ∈ allImports (e.tree.map toSNode), stmtOK st = true)
include hwf hmp hroot hxx hlim hext htree hst

/-- C02, graph level, with the walk inside. Every file entry carries its AST (`Entry.tree`); the MODEL's statements
    are what `collectImports` — the walk of `ImportConverter.convert` — collects (`Entry.withCollected`); the
    SPECIFICATION's statements are all import nodes of the tree (`toSEntriesAst`, no walk). The scan raises
    exactly when the specification has no answer, and otherwise the import pairs of the graph are exactly the
    specification's edges: every import statement, at any depth in any branch, yields its edge, and only those. -/
theorem scan_imports_exact_tree_ast :
    match scanImports root (toSEntriesAst (isExcluded mt o.exclusions) base entries) mp with
    | none => generateGraph mt base root mp (entries.map Entry.withCollected) o = .error .lookupError
    | some is => ∃ g, generateGraph mt base root mp (entries.map Entry.withCollected) o = .ok g ∧
        ∀ u v, (u, v) ∈ g.importPairs ↔ ∃ e ∈ is, u = render e.1 ∧ v = render e.2 :=
  AstScan.scan_imports_tree_ast_lemma hwf hmp hroot hxx hlim hext htree hst

/-- the weaker reading — `scan_imports_exact_tree` instantiated at the entries with collected statements (the
    specification sees the statements the walk collected) -/
theorem scan_imports_exact_tree_collected :
    match scanImports root (toSEntries (isExcluded mt o.exclusions) base (entries.map Entry.withCollected)) mp with
    | none => generateGraph mt base root mp (entries.map Entry.withCollected) o = .error .lookupError
    | some is => ∃ g, generateGraph mt base root mp (entries.map Entry.withCollected) o = .ok g ∧
        ∀ u v, (u, v) ∈ g.importPairs ↔ ∃ e ∈ is, u = render e.1 ∧ v = render e.2 :=
  scan_imports_exact_tree mt base root mp (entries.map Entry.withCollected) o
    (by rw [AstWalk.treeWFFor_withCollected]; exact hwf) (by rw [AstWalk.mpOK_withCollected]; exact hmp)
    hroot hxx hlim hext (by
      intro e' he' st hs
      obtain ⟨e, he, rfl⟩ := List.mem_map.mp he'
      exact hst e he _ ((collect_all_imports_mem e.tree (htree e he) _).mp (List.mem_map_of_mem hs)))

end tree_ast

/-- `r/a/` with `m.py` (the file `exAst`) and `k.py`; `r/b.py`, `r/c.py`, `r/d.py` (no imports: a tree with the module
    node only) -/
def exAstWalk : List Entry :=
  [ { rel := ["a".toList], isDir := true },
    { rel := ["a".toList, "m.py".toList], isDir := false, tree := exAst },
    { rel := ["a".toList, "k.py".toList], isDir := false, tree := [{ path := [], kind := .other "Module".toList }] },
    { rel := ["b.py".toList], isDir := false, tree := [{ path := [], kind := .other "Module".toList }] },
    { rel := ["c.py".toList], isDir := false, tree := [{ path := [], kind := .other "Module".toList }] },
    { rel := ["d.py".toList], isDir := false, tree := [{ path := [], kind := .other "Module".toList }] } ]

/-- non-vacuity of `scan_imports_exact_tree_ast`: the tree meets every hypothesis -/
example :
    treeWFFor (isExcluded (fun _ _ => false) exOpts.exclusions) "/x/r".toList [] exAstWalk = true ∧
    mpOK exAstWalk [] = true ∧ compWF "r".toList = true ∧
    exOpts.excludeExternal = true ∧ exOpts.levelLimit = none ∧ exOpts.externalExclusions.isEmpty = true ∧
    (∀ e ∈ exAstWalk, astOK e.tree = true) ∧
    (∀ e ∈ exAstWalk, ∀ st ∈ allImports (e.tree.map toSNode), stmtOK st = true) := by decide

set_option maxRecDepth 20000 in
/-- … and there the specification's edges (from the trees) and the import pairs of the model's graph (from the
    walk): the imports in `else`, `except`, `finally`, `for … else`, `case` and class → def → `with` are all edges -/
example :
    scanImports "r".toList (toSEntriesAst (isExcluded (fun _ _ => false) exOpts.exclusions) "/x/r".toList exAstWalk) [] =
      some [ (["r".toList, "a".toList, "m".toList], ["r".toList, "b".toList]),
             (["r".toList, "a".toList, "m".toList], ["r".toList, "a".toList, "k".toList]),
             (["r".toList, "a".toList, "m".toList], ["r".toList, "a".toList]),
             (["r".toList, "a".toList, "m".toList], ["r".toList, "a".toList, "k".toList]),
             (["r".toList, "a".toList, "m".toList], ["r".toList, "c".toList]),
             (["r".toList, "a".toList, "m".toList], ["r".toList, "a".toList, "k".toList]),
             (["r".toList, "a".toList, "m".toList], ["r".toList, "a".toList]),
             (["r".toList, "a".toList, "m".toList], ["r".toList, "d".toList]) ] ∧
    (generateGraph (fun _ _ => false) "/x/r".toList "r".toList [] (exAstWalk.map Entry.withCollected) exOpts).toOption.map
        (·.importPairs) =
      some [ ("r.a.m".toList, "r.d".toList), ("r.a.m".toList, "r.a.k".toList), ("r.a.m".toList, "r.a".toList),
             ("r.a.m".toList, "r.c".toList), ("r.a.m".toList, "r.b".toList) ] := by decide

end Pta.C02
