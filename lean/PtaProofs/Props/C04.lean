/-
  PtaProofs.Props.C04 — modules and hierarchy mirror the scanned directory tree, named from root_path (property C04).
  The file system is a parameter: a flat list `entries` of paths below the root directory. Bridge/ScanAbs.lean has
  the Bool-valued well-formedness of such a tree — `treeShape` (paths duplicate-free and non-empty, every parent
  listed as a directory), `treeWF` (shape, and everywhere: directory names and `.py` stems non-empty and dot-free, no
  `x.py` next to a directory `x`) and the weaker `treeWFFor excl base mp` the theorems assume (the naming conditions
  only for the entries the scan from `mp` can see: `mp`, the directories above it, and what lies below `mp` outside
  excluded directories) — and `toSEntries`, the abstraction to the specification's vocabulary
  (PtaSpec/ScanSem.lean: `survives`, `entryName`, `scanModules`).
  Sub-directory scans: modules (`subscan_modules`), imports (`subscan_imports_spec`, `subscan_graph`) and the two
  spellings of absolute imports (`parent_relative_spec`, `parent_relative_graph`, `parent_relative_equiv`), with the
  vocabulary of Bridge/SubScan.lean (`portable`, `plain`, `parentRelative`) and the witnesses `subscan_ambiguity`,
  `plain_needed` for the two side conditions. The module-object entry point (`scanForModuleObjects`) is the path entry
  point (`getEvaluableArchitecture`) on the two `dirname`s: last section.
-/
import Bridge.Abs
import Bridge.ScanTree
import PtaProofs.Lemmas.ScanSpec
import PtaProofs.Lemmas.ScanGraph
import Bridge.SubScan
import PtaProofs.Lemmas.SubScan
import PtaProofs.Lemmas.EntryPoint
namespace Pta.C04
open Pta PtaSpec

section walk
variable (mt : Str → Str → Bool) (base root : Str) (mp : List Str) (entries : List Entry) (o : ScanOptions)

/-- the exclusion test the walk applies to path strings -/
abbrev exclOf (mt : Str → Str → Bool) (o : ScanOptions) : Str → Bool := isExcluded mt o.exclusions

/-- C04, modules of the walk: with the fuel `scanParsed` uses (`maxDepth entries + 2`, proved sufficient), the
    registered modules are exactly the names of the surviving entries — the root directory or a listed
    directory / `.py` file at or below `module_path`, none of whose ancestors from `module_path` down (itself
    included) is excluded — each named by the dotted path starting with the root directory's name. -/
theorem walk_modules_exact (hshape : treeShape entries = true) (hmp : mpOK entries mp = true) (x : Str) :
    x ∈ (scanParsed mt base root mp entries o).allModules ↔
      ∃ e ∈ rootEntry :: entries,
        survives (toSEntries (exclOf mt o) base entries) mp (toSEntry (exclOf mt o) base e) = true ∧
        x = render (entryName root (toSEntry (exclOf mt o) base e)) :=
  ScanSpec.scan_modules_lemma base mt root mp entries o hshape hmp x

/-- the specification's `survives` on the abstracted tree is the model-side predicate `Survives` of Bridge/Abs.lean:
    at or below `module_path`, a directory or a `.py` file, and no path from `module_path` down to the entry is excluded -/
theorem survives_spec (excl : Str → Bool) (hshape : treeShape entries = true) (e : Entry) (he : e ∈ rootEntry :: entries) :
    survives (toSEntries excl base entries) mp (toSEntry excl base e) = true ↔ Survives excl base mp e :=
  ScanSpec.survives_iff excl base (ScanWalk.shape_of entries hshape) mp e he

/-- the Bool-valued shape predicate implies the `TreeWF` of Bridge/Abs.lean -/
theorem treeShape_sound (hshape : treeShape entries = true) : TreeWF entries :=
  ScanWalk.treeWF_of_shape entries hshape

/-- `Parser._get_module_name` is the rendered specification name, for every path -/
theorem moduleName_entryName (excl : Str → Bool) (e : Entry) :
    moduleName root e.rel = render (entryName root (toSEntry excl base e)) :=
  ScanNames.moduleName_eq root e

/-- C04, parsed files: exactly the surviving `.py` files, each with its statements -/
theorem walk_files_exact (hshape : treeShape entries = true) (hmp : mpOK entries mp = true)
    (y : Str × List ImportStmt) :
    y ∈ (scanParsed mt base root mp entries o).files ↔
      ∃ e ∈ entries, e.isDir = false ∧
        survives (toSEntries (exclOf mt o) base entries) mp (toSEntry (exclOf mt o) base e) = true ∧
        y = (render (entryName root (toSEntry (exclOf mt o) base e)), e.stmts) :=
  ScanSpec.scan_files_lemma base mt root mp entries o hshape hmp y

/-- the simple global predicate implies the one the theorems assume, for every exclusion test and `module_path` -/
theorem treeWFFor_of_treeWF (excl : Str → Bool) (hwf : treeWF entries = true) : treeWFFor excl base mp entries = true :=
  ScanNames.treeWFFor_of_treeWF excl base mp entries hwf

/-- every module is registered once -/
theorem walk_modules_nodup (hwf : treeWFFor (exclOf mt o) base mp entries = true) (hmp : mpOK entries mp = true) (hroot : compWF root = true) :
    (scanParsed mt base root mp entries o).allModules.Nodup :=
  ScanSpec.scan_modules_nodup_lemma base mt root mp entries o hwf hmp hroot

/-- the parsed files are a sub-list of the modules (so they are duplicate-free as well) -/
theorem walk_files_sublist :
    ((scanParsed mt base root mp entries o).files.map (·.1)).Sublist (scanParsed mt base root mp entries o).allModules :=
  ScanSpec.scan_files_sublist_lemma base mt root mp entries o

/-- the names of surviving entries are well-formed module names -/
theorem walk_names_wf (hwf : treeWFFor (exclOf mt o) base mp entries = true) (hroot : compWF root = true) (e : Entry)
    (he : e ∈ rootEntry :: entries)
    (hs : survives (toSEntries (exclOf mt o) base entries) mp (toSEntry (exclOf mt o) base e) = true) :
    nameWF (entryName root (toSEntry (exclOf mt o) base e)) = true :=
  ScanSpec.scan_modules_wf_lemma base mt root mp entries o hwf hroot e he hs

/-- the theorems take `entries` without the root directory and add it as `rootEntry`; a tree listing that also
    contains the root (empty relative path, as the harness sends it) is scanned identically by the model -/
theorem listed_root_ignored (r : Entry) (hr : r.rel = []) :
    scanParsed mt base root mp (r :: entries) o = scanParsed mt base root mp entries o ∧
    generateGraph mt base root mp (r :: entries) o = generateGraph mt base root mp entries o :=
  ⟨ScanWalk.scanParsed_root base mt root mp r hr entries o, ScanWalk.generateGraph_root base mt root mp r hr entries o⟩

end walk

section graph
variable (mt : Str → Str → Bool) (base root : Str) (mp : List Str) (entries : List Entry) (o : ScanOptions)
  (hwf : treeWFFor (exclOf mt o) base mp entries = true) (hmp : mpOK entries mp = true) (hroot : compWF root = true)
  (hxx : o.excludeExternal = true) (hlim : o.levelLimit = none) (g : PGraph Str)
  (h : generateGraph mt base root mp entries o = .ok g)
include hwf hmp hroot hxx hlim h

/-- C04, nodes: with external modules excluded and no level limit (the defaults; any exclusion patterns), the nodes
    of the scan graph are exactly the rendered `scanModules` of the specification — one module per surviving
    directory / `.py` file at or below `module_path`, plus every ancestor package up to the root. -/
theorem graph_modules_exact (s : Str) :
    s ∈ g.nodes ↔ ∃ n ∈ scanModules root (toSEntries (exclOf mt o) base entries) mp, s = render n :=
  ScanGraph.scan_nodes_lemma mt base root mp entries o hwf hmp hroot hxx hlim g h s

/-- C04, nodes, read out: a node is the name of a surviving entry (one per non-excluded directory / `.py` file at
    or below `module_path`), or — unless `module_path` itself is excluded, in which case nothing survives — one of
    the ancestor packages of `module_path` up to the root (`root`, `root.c₁`, …, the first `k ≤ |mp|` components
    of `root.mp`) -/
theorem graph_modules_explicit (s : Str) :
    s ∈ g.nodes ↔
      (∃ e ∈ rootEntry :: entries,
        survives (toSEntries (exclOf mt o) base entries) mp (toSEntry (exclOf mt o) base e) = true ∧
        s = render (entryName root (toSEntry (exclOf mt o) base e))) ∨
      (exclOf mt o (pathStr base mp) = false ∧ ∃ k, 0 < k ∧ k ≤ mp.length ∧ s = render ((root :: mp).take k)) :=
  ScanGraph.scan_nodes_explicit_lemma mt base root mp entries o hwf hmp hroot hxx hlim g h s

/-- C04, hierarchy: the hierarchy edges are exactly (parent, child) for every module with a parent -/
theorem hierarchy_exact (s x : Str) :
    x ∈ g.hierChildren s ↔
      ∃ c ∈ scanModules root (toSEntries (exclOf mt o) base entries) mp,
        2 ≤ c.length ∧ s = render c.dropLast ∧ x = render c :=
  ScanGraph.scan_hier_lemma mt base root mp entries o hwf hmp hroot hxx hlim g h s x

/-- C04, sub modules: `get_all_submodules_of` on a scanned module succeeds and returns exactly the modules whose
    dotted name extends it (the module itself included) -/
theorem submodules_exact (n : Name) (hn : n ∈ scanModules root (toSEntries (exclOf mt o) base entries) mp) :
    ∃ l, submodulesOf g (render n) = .ok l ∧
      ∀ x, x ∈ l ↔ ∃ m ∈ scanModules root (toSEntries (exclOf mt o) base entries) mp, x = render m ∧ n <+: m :=
  ScanGraph.scan_submodules_lemma mt base root mp entries o hwf hmp hroot hxx hlim g h n hn

/-- C04, well-formedness (discharges the standing hypothesis of C01/C03/C09/… for scanned architectures): the
    architecture read off the scan graph is well-formed — nodes duplicate-free, well-formed names, closed under
    ancestors; imports between distinct nodes, never from a module to one of its own descendants — and the scan
    graph is a graph of it. -/
theorem scan_wf : (graphArch g).wf = true ∧ GraphOf (graphArch g) g :=
  ScanGraph.scan_wf_lemma mt base root mp entries o hwf hmp hroot hxx hlim g h

/-- its nodes are the specification's modules -/
theorem scan_arch_nodes (n : Name) :
    n ∈ (graphArch g).nodes ↔ n ∈ scanModules root (toSEntries (exclOf mt o) base entries) mp :=
  ScanGraph.scan_arch_nodes_lemma mt base root mp entries o hwf hmp hroot hxx hlim g h n

/-- the same, with the specification's list itself as node list -/
theorem scan_graph_of_spec :
    ∃ a : Arch, a.nodes = scanModules root (toSEntries (exclOf mt o) base entries) mp ∧ a.wf = true ∧ GraphOf a g ∧
      g.nodes.Nodup :=
  ScanGraph.scan_graph_lemma mt base root mp entries o hwf hmp hroot hxx hlim g h

end graph

section subscan
variable (mt : Str → Str → Bool) (base root : Str) (mp : List Str) (entries : List Entry) (o : ScanOptions)

/-- C04, sub-directory scans (modules): when no directory strictly between the root and `module_path` is excluded,
    scanning `module_path` registers exactly those modules of the whole-root scan that are internal to
    `module_path` (`is_internal_module` with `_get_internal_module_prefix`), i.e. the restriction to that sub-tree -/
theorem subscan_modules (hwf0 : treeWFFor (exclOf mt o) base [] entries = true)
    (hwf : treeWFFor (exclOf mt o) base mp entries = true) (hmp : mpOK entries mp = true) (hroot : compWF root = true)
    (hclear : ∀ k, k < mp.length → exclOf mt o (pathStr base (mp.take k)) = false) (x : Str) :
    x ∈ (scanParsed mt base root mp entries o).allModules ↔
      x ∈ (scanParsed mt base root [] entries o).allModules ∧ isInternal x (internalPrefix root mp) = true :=
  ScanSpec.subscan_modules_lemma base mt root mp entries o hwf0 hwf hmp hroot hclear x

/-- `_adjust_with_root_prefix`: a name written relative to `module_path`'s parent directory resolves to the
    fully qualified module when that is a scanned internal module … -/
theorem parent_relative_resolves (name : Str) (internal : List Str)
    (hq : internal.contains (absolutePrefix root mp ++ '.' :: name) = true) :
    adjustWithRootPrefix name (absolutePrefix root mp) internal = absolutePrefix root mp ++ '.' :: name := by
  unfold adjustWithRootPrefix
  simp only []
  rw [if_pos hq]

/-- … and every other name (in particular a fully qualified one) is left as written -/
theorem other_names_unchanged (name : Str) (internal : List Str)
    (hq : internal.contains (absolutePrefix root mp ++ '.' :: name) = false) :
    adjustWithRootPrefix name (absolutePrefix root mp) internal = name := by
  unfold adjustWithRootPrefix
  simp only []
  rw [if_neg (by rw [hq]; exact Bool.false_ne_true)]

end subscan

/-! ### sub-directory scans: imports

  "Scanning a sub-directory as module_path gives the same modules and imports as scanning the whole root restricted to
  that sub-tree (absolute imports written either fully qualified from the root directory's name or relative to
  module_path's parent directory both resolve)."

  The scan of `module_path` tries every absolute name `n` first as `prefix.n` (`_adjust_with_root_prefix`, `prefix` =
  dotted path of `module_path`'s parent), the scan of the whole root has no prefix. The two agree on the statements
  that are `portable` (Bridge/SubScan.lean): no absolute name the conversion looks up is, read relative to
  `module_path`'s parent, a module of the sub-scan. Without it the statement is false (`subscan_ambiguity`: a
  directory `proj/proj`). Relative imports need no hypothesis. What "restricted to that sub-tree" means for imports:
  both ends at or below `module_path`'s dotted name — the ancestor packages of `module_path` are nodes of the sub-scan
  graph but never ends of its import edges (`_get_internal_module_prefix` filters them), whereas the whole-root scan
  has edges to them.

  The module-object entry point (`get_evaluable_architecture_for_module_objects`, which takes `dirname(__file__)` of
  the two module objects and delegates to the path entry point) is outside the model: nothing is stated about it.
-/

section subscanImports
variable (mt : Str → Str → Bool) (base root : Str) (mp : List Str) (entries : List Entry) (o : ScanOptions)
  (hwf0 : treeWFFor (exclOf mt o) base [] entries = true)
  (hwf : treeWFFor (exclOf mt o) base mp entries = true) (hmp : mpOK entries mp = true) (hroot : compWF root = true)
  (hclear : ∀ k, k < mp.length → exclOf mt o (pathStr base (mp.take k)) = false)
  (hport : portable root (toSEntries (exclOf mt o) base entries) mp = true)
include hwf0 hwf hmp hroot hclear hport

/-- C04, sub-directory scans, specification level: when the whole-root scan has an answer, so has the scan of
    `module_path`, and its edges are exactly the whole-root edges with both ends at or below `module_path`'s dotted
    name. (A relative import reaching above the root fails both scans if its file lies below `module_path`; a failing
    file elsewhere fails the whole-root scan only — `subscan_imports_none`.) -/
theorem subscan_imports_spec (is0 : List (Name × Name))
    (h0 : scanImports root (toSEntries (exclOf mt o) base entries) [] = some is0) :
    ∃ is, scanImports root (toSEntries (exclOf mt o) base entries) mp = some is ∧
      ∀ u v, (u, v) ∈ is ↔ (u, v) ∈ is0 ∧ (root :: mp) <+: u ∧ (root :: mp) <+: v := by
  obtain ⟨is, his, h⟩ := SubScan.scanImports_subscan_lemma (root := root) hwf0 hmp hclear hwf hroot hport is0 h0
  exact ⟨is, his, fun u v => h (u, v)⟩

/-- … and a sub-scan without an answer means a whole-root scan without an answer -/
theorem subscan_imports_none (h : scanImports root (toSEntries (exclOf mt o) base entries) mp = none) :
    scanImports root (toSEntries (exclOf mt o) base entries) [] = none := by
  cases h0 : scanImports root (toSEntries (exclOf mt o) base entries) [] with
  | none => rfl
  | some is0 =>
    obtain ⟨is, his, -⟩ := SubScan.scanImports_subscan_lemma (root := root) hwf0 hmp hclear hwf hroot hport is0 h0
    rw [h] at his; cases his

variable (hxx : o.excludeExternal = true) (hlim : o.levelLimit = none) (hext : o.externalExclusions.isEmpty = true)
  (hst : ∀ e ∈ entries, ∀ st ∈ e.stmts, stmtOK (toSStmt st) = true)
include hxx hlim hext hst

/-- C04, sub-directory scans, graph level (default options, any exclusion patterns): when the scan of the whole root
    succeeds, so does the scan of `module_path`;
    * its nodes are the whole-root nodes internal to `module_path` (`is_internal_module`) plus — unless `module_path`
      itself is excluded — the ancestor packages `root`, `root.c₁`, … of `module_path`;
    * its import pairs are the whole-root import pairs with both ends internal to `module_path`. -/
theorem subscan_graph (g0 : PGraph Str) (h0 : generateGraph mt base root [] entries o = .ok g0) :
    ∃ g, generateGraph mt base root mp entries o = .ok g ∧
      (∀ s, s ∈ g.nodes ↔
        (s ∈ g0.nodes ∧ isInternal s (internalPrefix root mp) = true) ∨
        (exclOf mt o (pathStr base mp) = false ∧ ∃ k, 0 < k ∧ k ≤ mp.length ∧ s = render ((root :: mp).take k))) ∧
      (∀ u v, (u, v) ∈ g.importPairs ↔
        (u, v) ∈ g0.importPairs ∧ isInternal u (internalPrefix root mp) = true ∧
          isInternal v (internalPrefix root mp) = true) :=
  SubScan.subscan_graph_lemma hwf0 hwf hmp hroot hxx hlim hext hst hclear hport g0 h0

end subscanImports

/-! ### both spellings of an absolute import

  `parentRelative root mp entries` (Bridge/SubScan.lean) is THE SAME tree with every absolute import of the files at
  or below `mp` re-spelled relative to `mp`'s parent directory: the prefix `root.<mp's parent>` stripped from every
  name that properly extends it (`import proj.a.x` ↦ `import a.x`, `from proj.a.s import u` ↦ `from a.s import u`
  for `mp = a`). `plain` excludes the ambiguity the other way round (the stripped name is itself a module below
  `module_path` while the name as written is not — again only with repeated directory names, `plain_needed`). -/

section spellings
variable (mt : Str → Str → Bool) (base root : Str) (mp : List Str) (entries : List Entry) (o : ScanOptions)

/-- `_adjust_with_root_prefix`, specification level: the spelling relative to `module_path`'s parent resolves to the
    fully qualified module when that is a module of the sub-scan -/
theorem parent_relative_resolves_spec (inside : List Name) (pre r : Name) (h : inside.contains (pre ++ r) = true) :
    targets.qualify inside (some pre) r = pre ++ r := by
  rw [SubScan.qualify_some, if_pos h]

/-- … in particular the stripped spelling of a module `n` of the sub-scan resolves back to `n` -/
theorem strip_resolves (inside : List Name) (pre n : Name) (h : inside.contains n = true)
    (hp : pre <+: n) (hl : pre.length < n.length) :
    targets.qualify inside (some pre) (stripName (some pre) n) = n :=
  SubScan.qualify_strip_module inside pre n h hp hl

variable (hst : ∀ e ∈ entries, ∀ st ∈ e.stmts, stmtOK (toSStmt st) = true)
  (hport : portable root (toSEntries (exclOf mt o) base entries) mp = true)
  (hplain : plain root (toSEntries (exclOf mt o) base entries) mp = true)
include hst hport hplain

/-- C04, both spellings, specification level: the scan of `module_path` has an answer for the re-spelled tree iff it
    has one for the tree as written, and then the same edges -/
theorem parent_relative_spec :
    (scanImports root (toSEntries (exclOf mt o) base (parentRelative root mp entries)) mp = none ↔
      scanImports root (toSEntries (exclOf mt o) base entries) mp = none) ∧
    ∀ is is', scanImports root (toSEntries (exclOf mt o) base entries) mp = some is →
      scanImports root (toSEntries (exclOf mt o) base (parentRelative root mp entries)) mp = some is' →
      ∀ u v, (u, v) ∈ is' ↔ (u, v) ∈ is := by
  obtain ⟨h1, h2⟩ := SubScan.scanImports_respell_lemma (root := root) hst hport hplain
  exact ⟨h1, fun is is' his his' u v => h2 is is' his his' (u, v)⟩

variable (hwf : treeWFFor (exclOf mt o) base mp entries = true) (hmp : mpOK entries mp = true)
  (hroot : compWF root = true)
  (hxx : o.excludeExternal = true) (hlim : o.levelLimit = none) (hext : o.externalExclusions.isEmpty = true)
include hwf hmp hroot hxx hlim hext

/-- C04, both spellings, graph level: the scans of `module_path` of the two trees raise together (LookupError /
    IndexError for a relative import above the root), and otherwise their graphs have the same nodes and the same
    import pairs -/
theorem parent_relative_graph :
    (generateGraph mt base root mp (parentRelative root mp entries) o = .error .lookupError ↔
      generateGraph mt base root mp entries o = .error .lookupError) ∧
    ∀ g, generateGraph mt base root mp entries o = .ok g →
      ∃ g', generateGraph mt base root mp (parentRelative root mp entries) o = .ok g' ∧
        (∀ s, s ∈ g'.nodes ↔ s ∈ g.nodes) ∧ ∀ u v, (u, v) ∈ g'.importPairs ↔ (u, v) ∈ g.importPairs :=
  SubScan.respell_graph_lemma hwf hmp hroot hxx hlim hext hst hport hplain

/-- C04, "both resolve": the scan of `module_path` of the tree spelled relative to `module_path`'s parent against the
    scan of the whole root of the tree spelled fully qualified — the restriction of the latter to the sub-tree, as
    in `subscan_graph` -/
theorem parent_relative_equiv (hwf0 : treeWFFor (exclOf mt o) base [] entries = true)
    (hclear : ∀ k, k < mp.length → exclOf mt o (pathStr base (mp.take k)) = false)
    (g0 : PGraph Str) (h0 : generateGraph mt base root [] entries o = .ok g0) :
    ∃ g', generateGraph mt base root mp (parentRelative root mp entries) o = .ok g' ∧
      (∀ s, s ∈ g'.nodes ↔
        (s ∈ g0.nodes ∧ isInternal s (internalPrefix root mp) = true) ∨
        (exclOf mt o (pathStr base mp) = false ∧ ∃ k, 0 < k ∧ k ≤ mp.length ∧ s = render ((root :: mp).take k))) ∧
      (∀ u v, (u, v) ∈ g'.importPairs ↔
        (u, v) ∈ g0.importPairs ∧ isInternal u (internalPrefix root mp) = true ∧
          isInternal v (internalPrefix root mp) = true) :=
  SubScan.parent_relative_lemma hwf0 hwf hmp hroot hxx hlim hext hst hclear hport hplain g0 h0

end spellings

/-! non-vacuity: a tree with a package, a sub-package, a non-`.py` file and an excluded directory -/
def p (l : List String) : List Str := l.map String.toList
def exEntries : List Entry :=
  [ { rel := p ["a"], isDir := true }, { rel := p ["a", "__init__.py"], isDir := false },
    { rel := p ["a", "x.py"], isDir := false, stmts := [.imp ["proj.b.y".toList], .impFrom (some "b".toList) ["y".toList] 0] },
    { rel := p ["a", "s"], isDir := true }, { rel := p ["a", "s", "t.py"], isDir := false, stmts := [.impFrom none ["x".toList] 2] },
    { rel := p ["b"], isDir := true }, { rel := p ["b", "y.py"], isDir := false }, { rel := p ["b", "notes.txt"], isDir := false },
    { rel := p ["cache"], isDir := true }, { rel := p ["cache", "z.py"], isDir := false } ]
def exOpts : ScanOptions := { exclusions := .globs ["*cache".toList] }
def noRe : Str → Str → Bool := fun _ _ => false

example : treeWF exEntries = true ∧ mpOK exEntries [] = true ∧ mpOK exEntries (p ["a"]) = true ∧
    compWF "proj".toList = true := by decide
/-- the hypothesis the theorems use tolerates anything inside excluded directories and outside `module_path`'s line:
    a dotted directory below the excluded `cache`, an `x.py` next to `x/` outside `a` -/
def exJunk : List Entry :=
  exEntries ++ [ { rel := p ["cache", "v1.2"], isDir := true }, { rel := p ["b", "y"], isDir := true } ]
example : treeWF exJunk = false ∧ treeWFFor (exclOf noRe exOpts) "/r/proj".toList (p ["a"]) exJunk = true ∧
    treeWFFor (exclOf noRe exOpts) "/r/proj".toList [] exEntries = true ∧
    treeWFFor (exclOf noRe exOpts) "/r/proj".toList (p ["a"]) exEntries = true := by decide
example : (scanParsed noRe "/r/proj".toList "proj".toList [] exEntries exOpts).allModules =
    ["proj", "proj.a", "proj.a.__init__", "proj.a.x", "proj.a.s", "proj.a.s.t", "proj.b", "proj.b.y"].map String.toList := by
  decide

set_option maxRecDepth 20000 in
/-- the graph of the example tree: 8 nodes, 7 hierarchy edges, 2 import edges (`proj.a.x → proj.b.y`,
    `proj.a.s.t → proj.a.x`) -/
example : (match generateGraph noRe "/r/proj".toList "proj".toList [] exEntries exOpts with
    | .ok g => g.nodes.length == 8 && g.hierPairs.length == 7 &&
        g.importPairs == [("proj.a.x".toList, "proj.b.y".toList), ("proj.a.s.t".toList, "proj.a.x".toList)]
    | .error _ => false) = true := by decide
/-- the specification's module list of the same tree (whole-root scan and the sub-scan of `a`, which adds the
    ancestor package `proj`) -/
example : scanModules "proj".toList (toSEntries (exclOf noRe exOpts) "/r/proj".toList exEntries) [] =
    [["proj"], ["proj", "a"], ["proj", "a", "__init__"], ["proj", "a", "x"], ["proj", "a", "s"], ["proj", "a", "s", "t"],
     ["proj", "b"], ["proj", "b", "y"]].map (·.map String.toList) := by decide
example : scanModules "proj".toList (toSEntries (exclOf noRe exOpts) "/r/proj".toList exEntries) (p ["a"]) =
    [["proj", "a"], ["proj", "a", "__init__"], ["proj", "a", "x"], ["proj", "a", "s"], ["proj", "a", "s", "t"],
     ["proj"]].map (·.map String.toList) := by decide
example : exOpts.excludeExternal = true ∧ exOpts.levelLimit = none := by decide
/-- the sub-scan of `a` and its hypothesis -/
example : ∀ k, k < (p ["a"]).length → exclOf noRe exOpts (pathStr "/r/proj".toList ((p ["a"]).take k)) = false := by decide
example : (scanParsed noRe "/r/proj".toList "proj".toList (p ["a"]) exEntries exOpts).allModules =
    ["proj.a", "proj.a.__init__", "proj.a.x", "proj.a.s", "proj.a.s.t"].map String.toList := by decide

/-! ### sub-directory scans, imports: a three-level tree, `module_path = a`

  `proj/a/{__init__,x}.py`, `proj/a/s/{t,u}.py`, `proj/b/y.py`, an excluded `proj/cache/`. The files below `a` import
  fully qualified (`import proj.a.s.t, proj.b.y, os`, `from proj.a.s import u, zz`, `import proj, proj.a`,
  `from proj.a import x`) and relatively (`from .. import x`, `from ...b import y`, `from . import t`). -/

def exSub : List Entry :=
  [ { rel := p ["a"], isDir := true }, { rel := p ["a", "__init__.py"], isDir := false },
    { rel := p ["a", "x.py"], isDir := false,
      stmts := [.imp ["proj.a.s.t".toList, "proj.b.y".toList, "os".toList],
                .impFrom (some "proj.a.s".toList) ["u".toList, "zz".toList] 0,
                .imp ["proj".toList, "proj.a".toList]] },
    { rel := p ["a", "s"], isDir := true },
    { rel := p ["a", "s", "t.py"], isDir := false,
      stmts := [.impFrom none ["x".toList] 2, .impFrom (some "b".toList) ["y".toList] 3,
                .impFrom (some "proj.a".toList) ["x".toList] 0] },
    { rel := p ["a", "s", "u.py"], isDir := false, stmts := [.impFrom none ["t".toList] 1] },
    { rel := p ["b"], isDir := true }, { rel := p ["b", "y.py"], isDir := false, stmts := [.imp ["proj.a.x".toList]] },
    { rel := p ["cache"], isDir := true }, { rel := p ["cache", "z.py"], isDir := false } ]

/-- dotted pairs as component-list pairs / as raw-string pairs -/
def q (l : List (String × String)) : List (Name × Name) := l.map fun e => (splitDots e.1.toList, splitDots e.2.toList)
def qs (l : List (String × String)) : List (Str × Str) := l.map fun e => (e.1.toList, e.2.toList)

set_option maxRecDepth 20000 in
/-- the tree meets every hypothesis of `subscan_imports_spec`, `subscan_graph`, `parent_relative_spec`,
    `parent_relative_graph` and `parent_relative_equiv` -/
example : treeWFFor (exclOf noRe exOpts) "/r/proj".toList [] exSub = true ∧
    treeWFFor (exclOf noRe exOpts) "/r/proj".toList (p ["a"]) exSub = true ∧ mpOK exSub (p ["a"]) = true ∧
    compWF "proj".toList = true ∧
    (∀ k, k < (p ["a"]).length → exclOf noRe exOpts (pathStr "/r/proj".toList ((p ["a"]).take k)) = false) ∧
    portable "proj".toList (toSEntries (exclOf noRe exOpts) "/r/proj".toList exSub) (p ["a"]) = true ∧
    plain "proj".toList (toSEntries (exclOf noRe exOpts) "/r/proj".toList exSub) (p ["a"]) = true ∧
    exOpts.excludeExternal = true ∧ exOpts.levelLimit = none ∧ exOpts.externalExclusions.isEmpty = true ∧
    (∀ e ∈ exSub, ∀ st ∈ e.stmts, stmtOK (toSStmt st) = true) := by decide

/-- the re-spelled tree: `import a.s.t, b.y, os`, `from a.s import u, zz`, `import proj, a`, `from a import x`; the
    relative imports and the file outside `a` unchanged -/
example : (parentRelative "proj".toList (p ["a"]) exSub).map (·.stmts) =
    [ [], [], [.imp ["a.s.t".toList, "b.y".toList, "os".toList], .impFrom (some "a.s".toList) ["u".toList, "zz".toList] 0,
               .imp ["proj".toList, "a".toList]],
      [], [.impFrom none ["x".toList] 2, .impFrom (some "b".toList) ["y".toList] 3, .impFrom (some "a".toList) ["x".toList] 0],
      [.impFrom none ["t".toList] 1], [], [.imp ["proj.a.x".toList]], [], [] ] := by decide

set_option maxRecDepth 20000 in
/-- the specification's edges of the whole-root scan: 11, of which 7 have both ends at or below `proj.a` … -/
example : scanImports "proj".toList (toSEntries (exclOf noRe exOpts) "/r/proj".toList exSub) [] =
    some (q [("proj.a.x", "proj.a.s.t"), ("proj.a.x", "proj.b.y"), ("proj.a.x", "proj.a.s.u"), ("proj.a.x", "proj.a.s"),
      ("proj.a.x", "proj"), ("proj.a.x", "proj.a"), ("proj.a.s.t", "proj.a.x"), ("proj.a.s.t", "proj.b.y"),
      ("proj.a.s.t", "proj.a.x"), ("proj.a.s.u", "proj.a.s.t"), ("proj.b.y", "proj.a.x")]) := by decide
set_option maxRecDepth 20000 in
/-- … which are the edges of the scan of `a` … -/
example : scanImports "proj".toList (toSEntries (exclOf noRe exOpts) "/r/proj".toList exSub) (p ["a"]) =
    some (q [("proj.a.x", "proj.a.s.t"), ("proj.a.x", "proj.a.s.u"), ("proj.a.x", "proj.a.s"), ("proj.a.x", "proj.a"),
      ("proj.a.s.t", "proj.a.x"), ("proj.a.s.t", "proj.a.x"), ("proj.a.s.u", "proj.a.s.t")]) := by decide
set_option maxRecDepth 20000 in
/-- … and of the scan of `a` of the re-spelled tree -/
example : scanImports "proj".toList
      (toSEntries (exclOf noRe exOpts) "/r/proj".toList (parentRelative "proj".toList (p ["a"]) exSub)) (p ["a"]) =
    some (q [("proj.a.x", "proj.a.s.t"), ("proj.a.x", "proj.a.s.u"), ("proj.a.x", "proj.a.s"), ("proj.a.x", "proj.a"),
      ("proj.a.s.t", "proj.a.x"), ("proj.a.s.t", "proj.a.x"), ("proj.a.s.u", "proj.a.s.t")]) := by decide

set_option maxRecDepth 40000 in
/-- the model's graphs: the whole root (9 nodes, 10 import pairs), … -/
example : (generateGraph noRe "/r/proj".toList "proj".toList [] exSub exOpts).toOption.map (fun g => (g.nodes, g.importPairs)) =
    some (["proj", "proj.a", "proj.a.__init__", "proj.a.x", "proj.a.s", "proj.a.s.t", "proj.a.s.u", "proj.b", "proj.b.y"].map
        String.toList,
      qs [("proj.a.x", "proj.a.s.t"), ("proj.a.x", "proj.b.y"), ("proj.a.x", "proj.a.s.u"), ("proj.a.x", "proj.a.s"),
        ("proj.a.x", "proj"), ("proj.a.x", "proj.a"), ("proj.a.s.t", "proj.a.x"), ("proj.a.s.t", "proj.b.y"),
        ("proj.a.s.u", "proj.a.s.t"), ("proj.b.y", "proj.a.x")]) := by decide
set_option maxRecDepth 40000 in
/-- … `module_path = a` (the 6 nodes internal to `proj.a` and the ancestor `proj`; the 6 pairs inside `proj.a`), … -/
example : (generateGraph noRe "/r/proj".toList "proj".toList (p ["a"]) exSub exOpts).toOption.map
      (fun g => (g.nodes, g.importPairs)) =
    some (["proj.a", "proj", "proj.a.__init__", "proj.a.x", "proj.a.s", "proj.a.s.t", "proj.a.s.u"].map String.toList,
      qs [("proj.a.x", "proj.a.s.t"), ("proj.a.x", "proj.a.s.u"), ("proj.a.x", "proj.a.s"), ("proj.a.x", "proj.a"),
        ("proj.a.s.t", "proj.a.x"), ("proj.a.s.u", "proj.a.s.t")]) := by decide
set_option maxRecDepth 40000 in
/-- … and `module_path = a` of the re-spelled tree: the same graph -/
example : (generateGraph noRe "/r/proj".toList "proj".toList (p ["a"]) (parentRelative "proj".toList (p ["a"]) exSub)
      exOpts).toOption.map (fun g => (g.nodes, g.importPairs)) =
    some (["proj.a", "proj", "proj.a.__init__", "proj.a.x", "proj.a.s", "proj.a.s.t", "proj.a.s.u"].map String.toList,
      qs [("proj.a.x", "proj.a.s.t"), ("proj.a.x", "proj.a.s.u"), ("proj.a.x", "proj.a.s"), ("proj.a.x", "proj.a"),
        ("proj.a.s.t", "proj.a.x"), ("proj.a.s.u", "proj.a.s.t")]) := by decide

/-! ### the ambiguity: a directory `proj` inside the root directory `proj` -/

def noEx : ScanOptions := { exclusions := .globs [] }

/-- `proj/x.py`, `proj/proj/x.py`, and `proj/proj/y.py` with `import proj.x` -/
def exAmb : List Entry :=
  [ { rel := p ["proj"], isDir := true }, { rel := p ["proj", "x.py"], isDir := false },
    { rel := p ["proj", "y.py"], isDir := false, stmts := [.imp ["proj.x".toList]] },
    { rel := p ["x.py"], isDir := false } ]

set_option maxRecDepth 20000 in
/-- `portable` is needed. In a globally well-formed tree, `import proj.x` in `proj/proj/y.py` names the top-level
    `proj.x` in the scan of the whole root and — read relative to `module_path`'s parent, which
    `_adjust_with_root_prefix` tries first — `proj.proj.x` in the scan of `module_path = proj/proj`: the sub-scan has
    an import edge the whole-root scan does not have, in the specification and in the model's graphs. All other
    hypotheses of `subscan_imports_spec` / `subscan_graph` hold. -/
theorem subscan_ambiguity :
    treeWF exAmb = true ∧ mpOK exAmb (p ["proj"]) = true ∧ compWF "proj".toList = true ∧
    (∀ e ∈ exAmb, ∀ st ∈ e.stmts, stmtOK (toSStmt st) = true) ∧
    (∀ k, k < (p ["proj"]).length → exclOf noRe noEx (pathStr "/r/proj".toList ((p ["proj"]).take k)) = false) ∧
    portable "proj".toList (toSEntries (exclOf noRe noEx) "/r/proj".toList exAmb) (p ["proj"]) = false ∧
    scanImports "proj".toList (toSEntries (exclOf noRe noEx) "/r/proj".toList exAmb) [] =
      some (q [("proj.proj.y", "proj.x")]) ∧
    scanImports "proj".toList (toSEntries (exclOf noRe noEx) "/r/proj".toList exAmb) (p ["proj"]) =
      some (q [("proj.proj.y", "proj.proj.x")]) ∧
    (generateGraph noRe "/r/proj".toList "proj".toList [] exAmb noEx).toOption.map (·.importPairs) =
      some (qs [("proj.proj.y", "proj.x")]) ∧
    (generateGraph noRe "/r/proj".toList "proj".toList (p ["proj"]) exAmb noEx).toOption.map (·.importPairs) =
      some (qs [("proj.proj.y", "proj.proj.x")]) := by
  refine ⟨by decide, by decide, by decide, by decide, by decide, by decide, by decide, by decide, by decide, by decide⟩

/-- `proj/proj/z.py`, and `proj/proj/y.py` with `import proj.proj.proj.z` (no such module) -/
def exAmb2 : List Entry :=
  [ { rel := p ["proj"], isDir := true }, { rel := p ["proj", "z.py"], isDir := false },
    { rel := p ["proj", "y.py"], isDir := false, stmts := [.imp ["proj.proj.proj.z".toList]] } ]

set_option maxRecDepth 20000 in
/-- `plain` is needed for `parent_relative_spec`: `import proj.proj.proj.z` names no module; stripped of the prefix
    `proj` it reads `import proj.proj.z`, which is a module of the sub-scan as it stands. The tree is portable. -/
theorem plain_needed :
    treeWF exAmb2 = true ∧ mpOK exAmb2 (p ["proj"]) = true ∧
    (∀ e ∈ exAmb2, ∀ st ∈ e.stmts, stmtOK (toSStmt st) = true) ∧
    portable "proj".toList (toSEntries (exclOf noRe noEx) "/r/proj".toList exAmb2) (p ["proj"]) = true ∧
    plain "proj".toList (toSEntries (exclOf noRe noEx) "/r/proj".toList exAmb2) (p ["proj"]) = false ∧
    scanImports "proj".toList (toSEntries (exclOf noRe noEx) "/r/proj".toList exAmb2) (p ["proj"]) = some [] ∧
    scanImports "proj".toList
        (toSEntries (exclOf noRe noEx) "/r/proj".toList (parentRelative "proj".toList (p ["proj"]) exAmb2)) (p ["proj"]) =
      some (q [("proj.proj.y", "proj.proj.z")]) := by
  refine ⟨by decide, by decide, by decide, by decide, by decide, by decide, by decide⟩

/-! ### the two entry points: `get_evaluable_architecture` and `get_evaluable_architecture_for_module_objects`

  PtaModel/Scan.lean: `dirname` (`posixpath.dirname`), `parsePath` / `PPath.str` / `PPath.name` / `PPath.relativeTo` (the part of
  `pathlib` the entry point uses), `entryPaths`, `EntryArgs` (the six options), `getEvaluableArchitecture` (the path entry
  point) and `scanForModuleObjects` (a module object is its `__file__`). The file system is the parameter `fs`:
  `str(root_as_path)` ↦ the entries below that directory. -/
section entry
variable (mt : Str → Str → Bool) (fs : Str → List Entry)

/-- `os.path.dirname(d + "/" + f)` is `d`, for a non-empty `d` that does not end in `/` and a last component `f`
    without `/` (an empty `f` included) -/
theorem dirname_spec (d f : Str) (hd : d ≠ []) (hlast : d.getLast? ≠ some '/') (hf : '/' ∉ f) :
    dirname (d ++ '/' :: f) = d :=
  Pta.Entry.dirname_spec_lemma d f hd hlast hf

/-- the two cases `dirname_spec` leaves out: no `/` at all gives the empty string (and `Path("")` is the current
    directory), a file directly below the file-system root gives `/` -/
theorem dirname_no_slash (f : Str) (hf : '/' ∉ f) : dirname f = [] := Pta.Entry.dirname_no_slash f hf
theorem dirname_root_file (f : Str) (hf : '/' ∉ f) : dirname ('/' :: f) = ['/'] := Pta.Entry.dirname_root_file f hf

/-- the path entry point is `generate_graph` on what `entryPaths` derives from the two path strings — the root path
    string, the root directory's name and the components of `module_path.relative_to(root_path)` — whenever the options
    pass the checks of `entryOptionsError` (since the repair c0bb7ac `a.scanOptions` is always `some _`: `exclusions=()`
    without `regex_exclusions` means that nothing is excluded, `Pta.C08.no_type_error`). So every theorem
    about `generateGraph` / `scanParsed` (this file, C02, C08, C09, C10) is a theorem about the entry point. -/
theorem path_entry_eq_generateGraph (rootPath modulePath : Str) (a : EntryArgs) (base root : Str) (mp : List Str)
    (o : ScanOptions) (hopt : entryOptionsError (a.flags true) = none)
    (hpaths : entryPaths rootPath modulePath = .ok (base, root, mp)) (ho : a.scanOptions = some o) :
    getEvaluableArchitecture mt fs rootPath modulePath a =
      (generateGraph mt base root mp (fs base) o).mapError EntryErr.kind :=
  Pta.Entry.getEvaluableArchitecture_eq mt fs rootPath modulePath a base root mp o hopt hpaths ho

/-- what `entryPaths` returns is what the walk needs: `base` is `str(root_as_path)`, `root` its last component, and
    `str(module_as_path)` — the path string the walk starts from and tests exclusions against — is `pathStr base mp`, the
    string `scanParsed` uses. Needs a root path with at least one component: for the file-system root `/` (or `//`, or the
    current directory `""`) `pathStr` would write `//a` (`./a`) where `pathlib` writes `/a` (`a`), see the example below. -/
theorem entry_module_path_str (rootPath modulePath base root : Str) (mp : List Str)
    (h : entryPaths rootPath modulePath = .ok (base, root, mp)) (hparts : (parsePath rootPath).parts ≠ []) :
    (parsePath modulePath).str = pathStr base mp ∧ base = (parsePath rootPath).str ∧ root = (parsePath rootPath).name :=
  Pta.Entry.entryPaths_module_str rootPath modulePath base root mp h hparts

/-- the error table of C13 (`Pta.C13.options`, `entryOptionsError`) is about this entry point: with the flag
    `modulePathInsideRoot` read as "`module_path.relative_to(root_path)` succeeds", every listed combination raises the
    listed error -/
theorem path_entry_option_error (rootPath modulePath : Str) (a : EntryArgs) (k : ErrKind)
    (h : entryOptionsError (a.flags (entryPaths rootPath modulePath).toBool) = some k) :
    getEvaluableArchitecture mt fs rootPath modulePath a = .error (.kind k) :=
  Pta.Entry.getEvaluableArchitecture_option_error mt fs rootPath modulePath a k h

/-- **module objects that are packages.** `root_module.__file__ = rdir/__init__.py`, `module.__file__ = mdir/__init__.py`:
    the module-object entry point returns literally what the path entry point returns for `(rdir, mdir)` with the same
    six options — graph or error. Every theorem about the path entry point transfers. -/
theorem module_object_entry_eq_path_entry (rdir mdir : Str) (a : EntryArgs)
    (hr : rdir ≠ []) (hr' : rdir.getLast? ≠ some '/') (hm : mdir ≠ []) (hm' : mdir.getLast? ≠ some '/') :
    scanForModuleObjects mt fs ⟨rdir ++ "/__init__.py".toList⟩ ⟨mdir ++ "/__init__.py".toList⟩ a =
      getEvaluableArchitecture mt fs rdir mdir a :=
  Pta.Entry.scanForModuleObjects_eq mt fs rdir mdir "__init__.py".toList "__init__.py".toList a hr hr' hm hm'
    (by decide) (by decide)

/-- **a module object that is a plain file** `dir/x.py` (any file name `x` without `/`): the scanned directory is `dir`, the
    PARENT PACKAGE of the module — the module-object entry point cannot scan a single file; it returns what the path
    entry point returns for `dir`. (The same holds for the root module.) -/
theorem module_object_plain_module (rdir dir rfile x : Str) (a : EntryArgs)
    (hr : rdir ≠ []) (hr' : rdir.getLast? ≠ some '/') (hd : dir ≠ []) (hd' : dir.getLast? ≠ some '/')
    (hrf : '/' ∉ rfile) (hx : '/' ∉ x) :
    dirname (dir ++ '/' :: x) = dir ∧
    scanForModuleObjects mt fs ⟨rdir ++ '/' :: rfile⟩ ⟨dir ++ '/' :: x⟩ a = getEvaluableArchitecture mt fs rdir dir a :=
  ⟨dirname_spec dir x hd hd' hx, Pta.Entry.scanForModuleObjects_eq mt fs rdir dir rfile x a hr hr' hd hd' hrf hx⟩

/-- so two module objects in the same directory — the package `dir/__init__.py` and a plain module `dir/x.py` — give the
    same result -/
theorem module_object_plain_eq_package (rdir dir x : Str) (a : EntryArgs)
    (hr : rdir ≠ []) (hr' : rdir.getLast? ≠ some '/') (hd : dir ≠ []) (hd' : dir.getLast? ≠ some '/') (hx : '/' ∉ x) :
    scanForModuleObjects mt fs ⟨rdir ++ "/__init__.py".toList⟩ ⟨dir ++ '/' :: x⟩ a =
      scanForModuleObjects mt fs ⟨rdir ++ "/__init__.py".toList⟩ ⟨dir ++ "/__init__.py".toList⟩ a := by
  have h1 : scanForModuleObjects mt fs ⟨rdir ++ "/__init__.py".toList⟩ ⟨dir ++ '/' :: x⟩ a =
      getEvaluableArchitecture mt fs rdir dir a :=
    (module_object_plain_module mt fs rdir dir "__init__.py".toList x a hr hr' hd hd' (by decide) hx).2
  exact h1.trans (module_object_entry_eq_path_entry mt fs rdir dir a hr hr' hd hd').symm

/-- transfer, spelled out once (`graph_modules_exact`): for package module objects, default-style options (external
    modules excluded, no level limit) and a well-formed tree below the root directory, the nodes of the graph the
    module-object entry point returns are exactly the rendered `scanModules` of the specification -/
theorem module_object_modules_exact (rdir mdir : Str) (a : EntryArgs)
    (hr : rdir ≠ []) (hr' : rdir.getLast? ≠ some '/') (hm : mdir ≠ []) (hm' : mdir.getLast? ≠ some '/')
    (base root : Str) (mp : List Str) (o : ScanOptions) (hopt : entryOptionsError (a.flags true) = none)
    (hpaths : entryPaths rdir mdir = .ok (base, root, mp)) (ho : a.scanOptions = some o)
    (hwf : treeWFFor (exclOf mt o) base mp (fs base) = true) (hmp : mpOK (fs base) mp = true) (hroot : compWF root = true)
    (hxx : o.excludeExternal = true) (hlim : o.levelLimit = none) (g : PGraph Str)
    (h : scanForModuleObjects mt fs ⟨rdir ++ "/__init__.py".toList⟩ ⟨mdir ++ "/__init__.py".toList⟩ a = .ok g) (s : Str) :
    s ∈ g.nodes ↔ ∃ n ∈ scanModules root (toSEntries (exclOf mt o) base (fs base)) mp, s = render n := by
  rw [module_object_entry_eq_path_entry mt fs rdir mdir a hr hr' hm hm',
    path_entry_eq_generateGraph mt fs rdir mdir a base root mp o hopt hpaths ho] at h
  have hg : generateGraph mt base root mp (fs base) o = .ok g := by
    cases hgg : generateGraph mt base root mp (fs base) o with
    | error k => rw [hgg] at h; cases h
    | ok g' => rw [hgg] at h; cases h; rfl
  exact graph_modules_exact mt base root mp (fs base) o hwf hmp hroot hxx hlim g hg s

end entry

/-! non-vacuity: the example tree `exEntries` below `/r/proj`; root module `proj` (`/r/proj/__init__.py`), module `proj.a`
    as a package object (`/r/proj/a/__init__.py`) and `proj.a.x` as a plain module object (`/r/proj/a/x.py`) -/
section entryExamples

/-- core has no `DecidableEq (Except ε α)` -/
local instance instDecEqExcept {ε α : Type} [DecidableEq ε] [DecidableEq α] : DecidableEq (Except ε α)
  | .ok a, .ok b => if h : a = b then isTrue (by rw [h]) else isFalse (by intro e; cases e; exact h rfl)
  | .error a, .error b => if h : a = b then isTrue (by rw [h]) else isFalse (by intro e; cases e; exact h rfl)
  | .ok _, .error _ => isFalse (by intro e; cases e)
  | .error _, .ok _ => isFalse (by intro e; cases e)

def errorOf {α : Type} : Except EntryErr α → Option EntryErr
  | .error e => some e
  | .ok _ => none
def exFs : Str → List Entry := fun base => if base = "/r/proj".toList then exEntries else []
def exArgs : EntryArgs := { exclusions := ["*cache".toList] }

example : dirname "/r/proj/a/__init__.py".toList = "/r/proj/a".toList ∧ dirname "/r/proj/a/x.py".toList = "/r/proj/a".toList ∧
    dirname "x.py".toList = [] ∧ dirname "/x.py".toList = "/".toList ∧ dirname "/r//proj///x.py".toList = "/r//proj".toList := by
  decide
/-- hypotheses of `module_object_entry_eq_path_entry` / `dirname_spec` -/
example : "/r/proj".toList ≠ [] ∧ "/r/proj".toList.getLast? ≠ some '/' ∧ "/r/proj/a".toList ≠ [] ∧
    "/r/proj/a".toList.getLast? ≠ some '/' ∧ '/' ∉ "x.py".toList := by decide
/-- hypotheses of `path_entry_eq_generateGraph` / `module_object_modules_exact` -/
example : entryPaths "/r/proj".toList "/r/proj/a".toList = .ok ("/r/proj".toList, "proj".toList, p ["a"]) := by decide
example : entryPaths "/r/proj/".toList "/r//proj/./a/".toList = .ok ("/r/proj".toList, "proj".toList, p ["a"]) := by decide
example : entryPaths "/r/proj/a".toList "/r/proj".toList = .error .lookupError := by decide
example : (parsePath "/r/proj".toList).parts ≠ [] := by decide
/-- the side condition of `entry_module_path_str` is needed: root directory `/` -/
example : entryPaths "/".toList "/a".toList = .ok ("/".toList, [], p ["a"]) ∧ (parsePath "/a".toList).str = "/a".toList ∧
    pathStr "/".toList (p ["a"]) = "//a".toList := by decide
example : entryOptionsError (exArgs.flags true) = none := by decide
example : (exArgs.scanOptions.map fun o => (o.excludeExternal, o.levelLimit)) = some (true, none) := by decide
/-- since the repair c0bb7ac (F-C08a) `exclusions=()` alone is a configuration: nothing is excluded -/
example : (({ exclusions := [] } : EntryArgs).scanOptions.map (·.exclusions)) = some (.regexes []) := rfl
set_option maxRecDepth 40000 in
/-- the module-object entry point on the example: the sub-scan of `a` (6 nodes, 1 import inside `proj.a`) -/
example : (scanForModuleObjects noRe exFs ⟨"/r/proj/__init__.py".toList⟩ ⟨"/r/proj/a/x.py".toList⟩ exArgs).toOption.map
      (fun g => (g.nodes, g.importPairs)) =
    some (["proj.a", "proj", "proj.a.__init__", "proj.a.x", "proj.a.s", "proj.a.s.t"].map String.toList,
      [("proj.a.s.t".toList, "proj.a.x".toList)]) := by decide
/-- option errors through the module-object entry point: both exclusion tuples; module outside the root -/
example : errorOf (scanForModuleObjects noRe exFs ⟨"/r/proj/__init__.py".toList⟩ ⟨"/r/proj/a/__init__.py".toList⟩
    { regexExclusions := some ["x".toList] }) = some (.kind .improperlyConfigured) := by decide
example : errorOf (scanForModuleObjects noRe exFs ⟨"/r/proj/a/__init__.py".toList⟩ ⟨"/r/proj/__init__.py".toList⟩ exArgs)
    = some (.kind .lookupError) := by decide
/-- `exclusions=()` without `regex_exclusions`: no error any more (it was `.typeError` before the repair c0bb7ac) -/
example : errorOf (scanForModuleObjects noRe exFs ⟨"/r/proj/__init__.py".toList⟩ ⟨"/r/proj/a/__init__.py".toList⟩
    { exclusions := [] }) = none := by decide

end entryExamples

end Pta.C04
