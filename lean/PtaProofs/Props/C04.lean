/-
  PtaProofs.Props.C04 — modules and hierarchy mirror the scanned directory tree, named from root_path (property C04).
  The file system is a parameter: a flat list `entries` of paths below the root directory. Bridge/ScanAbs.lean has
  the Bool-valued well-formedness of such a tree — `treeShape` (paths duplicate-free and non-empty, every parent
  listed as a directory), `treeWF` (shape, and everywhere: directory names and `.py` stems non-empty and dot-free, no
  `x.py` next to a directory `x`) and the weaker `treeWFFor excl base mp` the theorems assume (the naming conditions
  only for the entries the scan from `mp` can see: `mp`, the directories above it, and what lies below `mp` outside
  excluded directories) — and `toSEntries`, the abstraction to the specification's vocabulary
  (PtaSpec/ScanSem.lean: `survives`, `entryName`, `scanModules`).
-/
import Bridge.Abs
import Bridge.ScanTree
import PtaProofs.Lemmas.ScanSpec
import PtaProofs.Lemmas.ScanGraph
namespace Pta.C04
open Pta PtaSpec

section walk
variable (mt : Str → Str → Bool) (base root : Str) (mp : List Str) (entries : List Entry) (o : ScanOptions)

/-- the exclusion test the walk applies to path strings -/
abbrev exclOf (mt : Str → Str → Bool) (o : ScanOptions) : Str → Bool := isExcluded mt o.exclusions

/-- C04, modules of the walk: with the fuel `scanParsed` uses (`maxDepth entries + 2`, proved sufficient), the
    registered modules are exactly the names of the surviving entries — the root directory or a listed
    directory / `.py` file at or below `module_path`, none of whose ancestors from `module_path` down (itself
    included) is excluded — each named by the dotted path starting with the root directory's name. -/
theorem walk_modules_exact (hshape : treeShape entries = true) (hmp : mpOK entries mp = true) (x : Str) :
    x ∈ (scanParsed mt base root mp entries o).allModules ↔
      ∃ e ∈ rootEntry :: entries,
        survives (toSEntries (exclOf mt o) base entries) mp (toSEntry (exclOf mt o) base e) = true ∧
        x = render (entryName root (toSEntry (exclOf mt o) base e)) :=
  ScanSpec.scan_modules_lemma base mt root mp entries o hshape hmp x

/-- the specification's `survives` on the abstracted tree is the model-side predicate `Survives` of Bridge/Abs.lean:
    at or below `module_path`, a directory or a `.py` file, and no path from `module_path` down to the entry is excluded -/
theorem survives_spec (excl : Str → Bool) (hshape : treeShape entries = true) (e : Entry) (he : e ∈ rootEntry :: entries) :
    survives (toSEntries excl base entries) mp (toSEntry excl base e) = true ↔ Survives excl base mp e :=
  ScanSpec.survives_iff excl base (ScanWalk.shape_of entries hshape) mp e he

/-- the Bool-valued shape predicate implies the `TreeWF` of Bridge/Abs.lean -/
theorem treeShape_sound (hshape : treeShape entries = true) : TreeWF entries :=
  ScanWalk.treeWF_of_shape entries hshape

/-- `Parser._get_module_name` is the rendered specification name, for every path -/
theorem moduleName_entryName (excl : Str → Bool) (e : Entry) :
    moduleName root e.rel = render (entryName root (toSEntry excl base e)) :=
  ScanNames.moduleName_eq root e

/-- C04, parsed files: exactly the surviving `.py` files, each with its statements -/
theorem walk_files_exact (hshape : treeShape entries = true) (hmp : mpOK entries mp = true)
    (y : Str × List ImportStmt) :
    y ∈ (scanParsed mt base root mp entries o).files ↔
      ∃ e ∈ entries, e.isDir = false ∧
        survives (toSEntries (exclOf mt o) base entries) mp (toSEntry (exclOf mt o) base e) = true ∧
        y = (render (entryName root (toSEntry (exclOf mt o) base e)), e.stmts) :=
  ScanSpec.scan_files_lemma base mt root mp entries o hshape hmp y

/-- the simple global predicate implies the one the theorems assume, for every exclusion test and `module_path` -/
theorem treeWFFor_of_treeWF (excl : Str → Bool) (hwf : treeWF entries = true) : treeWFFor excl base mp entries = true :=
  ScanNames.treeWFFor_of_treeWF excl base mp entries hwf

/-- every module is registered once -/
theorem walk_modules_nodup (hwf : treeWFFor (exclOf mt o) base mp entries = true) (hmp : mpOK entries mp = true) (hroot : compWF root = true) :
    (scanParsed mt base root mp entries o).allModules.Nodup :=
  ScanSpec.scan_modules_nodup_lemma base mt root mp entries o hwf hmp hroot

/-- the parsed files are a sub-list of the modules (so they are duplicate-free as well) -/
theorem walk_files_sublist :
    ((scanParsed mt base root mp entries o).files.map (·.1)).Sublist (scanParsed mt base root mp entries o).allModules :=
  ScanSpec.scan_files_sublist_lemma base mt root mp entries o

/-- the names of surviving entries are well-formed module names -/
theorem walk_names_wf (hwf : treeWFFor (exclOf mt o) base mp entries = true) (hroot : compWF root = true) (e : Entry)
    (he : e ∈ rootEntry :: entries)
    (hs : survives (toSEntries (exclOf mt o) base entries) mp (toSEntry (exclOf mt o) base e) = true) :
    nameWF (entryName root (toSEntry (exclOf mt o) base e)) = true :=
  ScanSpec.scan_modules_wf_lemma base mt root mp entries o hwf hroot e he hs

/-- the theorems take `entries` without the root directory and add it as `rootEntry`; a tree listing that also
    contains the root (empty relative path, as the harness sends it) is scanned identically by the model -/
theorem listed_root_ignored (r : Entry) (hr : r.rel = []) :
    scanParsed mt base root mp (r :: entries) o = scanParsed mt base root mp entries o ∧
    generateGraph mt base root mp (r :: entries) o = generateGraph mt base root mp entries o :=
  ⟨ScanWalk.scanParsed_root base mt root mp r hr entries o, ScanWalk.generateGraph_root base mt root mp r hr entries o⟩

end walk

section graph
variable (mt : Str → Str → Bool) (base root : Str) (mp : List Str) (entries : List Entry) (o : ScanOptions)
  (hwf : treeWFFor (exclOf mt o) base mp entries = true) (hmp : mpOK entries mp = true) (hroot : compWF root = true)
  (hxx : o.excludeExternal = true) (hlim : o.levelLimit = none) (g : PGraph Str)
  (h : generateGraph mt base root mp entries o = .ok g)
include hwf hmp hroot hxx hlim h

/-- C04, nodes: with external modules excluded and no level limit (the defaults; any exclusion patterns), the nodes
    of the scan graph are exactly the rendered `scanModules` of the specification — one module per surviving
    directory / `.py` file at or below `module_path`, plus every ancestor package up to the root. -/
theorem graph_modules_exact (s : Str) :
    s ∈ g.nodes ↔ ∃ n ∈ scanModules root (toSEntries (exclOf mt o) base entries) mp, s = render n :=
  ScanGraph.scan_nodes_lemma mt base root mp entries o hwf hmp hroot hxx hlim g h s

/-- C04, nodes, read out: a node is the name of a surviving entry (one per non-excluded directory / `.py` file at
    or below `module_path`), or — unless `module_path` itself is excluded, in which case nothing survives — one of
    the ancestor packages of `module_path` up to the root (`root`, `root.c₁`, …, the first `k ≤ |mp|` components
    of `root.mp`) -/
theorem graph_modules_explicit (s : Str) :
    s ∈ g.nodes ↔
      (∃ e ∈ rootEntry :: entries,
        survives (toSEntries (exclOf mt o) base entries) mp (toSEntry (exclOf mt o) base e) = true ∧
        s = render (entryName root (toSEntry (exclOf mt o) base e))) ∨
      (exclOf mt o (pathStr base mp) = false ∧ ∃ k, 0 < k ∧ k ≤ mp.length ∧ s = render ((root :: mp).take k)) :=
  ScanGraph.scan_nodes_explicit_lemma mt base root mp entries o hwf hmp hroot hxx hlim g h s

/-- C04, hierarchy: the hierarchy edges are exactly (parent, child) for every module with a parent -/
theorem hierarchy_exact (s x : Str) :
    x ∈ g.hierChildren s ↔
      ∃ c ∈ scanModules root (toSEntries (exclOf mt o) base entries) mp,
        2 ≤ c.length ∧ s = render c.dropLast ∧ x = render c :=
  ScanGraph.scan_hier_lemma mt base root mp entries o hwf hmp hroot hxx hlim g h s x

/-- C04, sub modules: `get_all_submodules_of` on a scanned module succeeds and returns exactly the modules whose
    dotted name extends it (the module itself included) -/
theorem submodules_exact (n : Name) (hn : n ∈ scanModules root (toSEntries (exclOf mt o) base entries) mp) :
    ∃ l, submodulesOf g (render n) = .ok l ∧
      ∀ x, x ∈ l ↔ ∃ m ∈ scanModules root (toSEntries (exclOf mt o) base entries) mp, x = render m ∧ n <+: m :=
  ScanGraph.scan_submodules_lemma mt base root mp entries o hwf hmp hroot hxx hlim g h n hn

/-- C04, well-formedness (discharges the standing hypothesis of C01/C03/C09/… for scanned architectures): the
    architecture read off the scan graph is well-formed — nodes duplicate-free, well-formed names, closed under
    ancestors; imports between distinct nodes, never from a module to one of its own descendants — and the scan
    graph is a graph of it. -/
theorem scan_wf : (graphArch g).wf = true ∧ GraphOf (graphArch g) g :=
  ScanGraph.scan_wf_lemma mt base root mp entries o hwf hmp hroot hxx hlim g h

/-- its nodes are the specification's modules -/
theorem scan_arch_nodes (n : Name) :
    n ∈ (graphArch g).nodes ↔ n ∈ scanModules root (toSEntries (exclOf mt o) base entries) mp :=
  ScanGraph.scan_arch_nodes_lemma mt base root mp entries o hwf hmp hroot hxx hlim g h n

/-- the same, with the specification's list itself as node list -/
theorem scan_graph_of_spec :
    ∃ a : Arch, a.nodes = scanModules root (toSEntries (exclOf mt o) base entries) mp ∧ a.wf = true ∧ GraphOf a g ∧
      g.nodes.Nodup :=
  ScanGraph.scan_graph_lemma mt base root mp entries o hwf hmp hroot hxx hlim g h

end graph

section subscan
variable (mt : Str → Str → Bool) (base root : Str) (mp : List Str) (entries : List Entry) (o : ScanOptions)

/-- C04, sub-directory scans (modules): when no directory strictly between the root and `module_path` is excluded,
    scanning `module_path` registers exactly those modules of the whole-root scan that are internal to
    `module_path` (`is_internal_module` with `_get_internal_module_prefix`), i.e. the restriction to that sub-tree -/
theorem subscan_modules (hwf0 : treeWFFor (exclOf mt o) base [] entries = true)
    (hwf : treeWFFor (exclOf mt o) base mp entries = true) (hmp : mpOK entries mp = true) (hroot : compWF root = true)
    (hclear : ∀ k, k < mp.length → exclOf mt o (pathStr base (mp.take k)) = false) (x : Str) :
    x ∈ (scanParsed mt base root mp entries o).allModules ↔
      x ∈ (scanParsed mt base root [] entries o).allModules ∧ isInternal x (internalPrefix root mp) = true :=
  ScanSpec.subscan_modules_lemma base mt root mp entries o hwf0 hwf hmp hroot hclear x

/-- `_adjust_with_root_prefix`: a name written relative to `module_path`'s parent directory resolves to the
    fully qualified module when that is a scanned internal module … -/
theorem parent_relative_resolves (name : Str) (internal : List Str)
    (hq : internal.contains (absolutePrefix root mp ++ '.' :: name) = true) :
    adjustWithRootPrefix name (absolutePrefix root mp) internal = absolutePrefix root mp ++ '.' :: name := by
  unfold adjustWithRootPrefix
  simp only []
  rw [if_pos hq]

/-- … and every other name (in particular a fully qualified one) is left as written -/
theorem other_names_unchanged (name : Str) (internal : List Str)
    (hq : internal.contains (absolutePrefix root mp ++ '.' :: name) = false) :
    adjustWithRootPrefix name (absolutePrefix root mp) internal = name := by
  unfold adjustWithRootPrefix
  simp only []
  rw [if_neg (by rw [hq]; exact Bool.false_ne_true)]

end subscan

/-! non-vacuity: a tree with a package, a sub-package, a non-`.py` file and an excluded directory -/
def p (l : List String) : List Str := l.map String.toList
def exEntries : List Entry :=
  [ { rel := p ["a"], isDir := true }, { rel := p ["a", "__init__.py"], isDir := false },
    { rel := p ["a", "x.py"], isDir := false, stmts := [.imp ["proj.b.y".toList], .impFrom (some "b".toList) ["y".toList] 0] },
    { rel := p ["a", "s"], isDir := true }, { rel := p ["a", "s", "t.py"], isDir := false, stmts := [.impFrom none ["x".toList] 2] },
    { rel := p ["b"], isDir := true }, { rel := p ["b", "y.py"], isDir := false }, { rel := p ["b", "notes.txt"], isDir := false },
    { rel := p ["cache"], isDir := true }, { rel := p ["cache", "z.py"], isDir := false } ]
def exOpts : ScanOptions := { exclusions := .globs ["*cache".toList] }
def noRe : Str → Str → Bool := fun _ _ => false

example : treeWF exEntries = true ∧ mpOK exEntries [] = true ∧ mpOK exEntries (p ["a"]) = true ∧
    compWF "proj".toList = true := by decide
/-- the hypothesis the theorems use tolerates anything inside excluded directories and outside `module_path`'s line:
    a dotted directory below the excluded `cache`, an `x.py` next to `x/` outside `a` -/
def exJunk : List Entry :=
  exEntries ++ [ { rel := p ["cache", "v1.2"], isDir := true }, { rel := p ["b", "y"], isDir := true } ]
example : treeWF exJunk = false ∧ treeWFFor (exclOf noRe exOpts) "/r/proj".toList (p ["a"]) exJunk = true ∧
    treeWFFor (exclOf noRe exOpts) "/r/proj".toList [] exEntries = true ∧
    treeWFFor (exclOf noRe exOpts) "/r/proj".toList (p ["a"]) exEntries = true := by decide
example : (scanParsed noRe "/r/proj".toList "proj".toList [] exEntries exOpts).allModules =
    ["proj", "proj.a", "proj.a.__init__", "proj.a.x", "proj.a.s", "proj.a.s.t", "proj.b", "proj.b.y"].map String.toList := by
  decide

set_option maxRecDepth 20000 in
/-- the graph of the example tree: 8 nodes, 7 hierarchy edges, 2 import edges (`proj.a.x → proj.b.y`,
    `proj.a.s.t → proj.a.x`) -/
example : (match generateGraph noRe "/r/proj".toList "proj".toList [] exEntries exOpts with
    | .ok g => g.nodes.length == 8 && g.hierPairs.length == 7 &&
        g.importPairs == [("proj.a.x".toList, "proj.b.y".toList), ("proj.a.s.t".toList, "proj.a.x".toList)]
    | .error _ => false) = true := by decide
/-- the specification's module list of the same tree (whole-root scan and the sub-scan of `a`, which adds the
    ancestor package `proj`) -/
example : scanModules "proj".toList (toSEntries (exclOf noRe exOpts) "/r/proj".toList exEntries) [] =
    [["proj"], ["proj", "a"], ["proj", "a", "__init__"], ["proj", "a", "x"], ["proj", "a", "s"], ["proj", "a", "s", "t"],
     ["proj", "b"], ["proj", "b", "y"]].map (·.map String.toList) := by decide
example : scanModules "proj".toList (toSEntries (exclOf noRe exOpts) "/r/proj".toList exEntries) (p ["a"]) =
    [["proj", "a"], ["proj", "a", "__init__"], ["proj", "a", "x"], ["proj", "a", "s"], ["proj", "a", "s", "t"],
     ["proj"]].map (·.map String.toList) := by decide
example : exOpts.excludeExternal = true ∧ exOpts.levelLimit = none := by decide
/-- the sub-scan of `a` and its hypothesis -/
example : ∀ k, k < (p ["a"]).length → exclOf noRe exOpts (pathStr "/r/proj".toList ((p ["a"]).take k)) = false := by decide
example : (scanParsed noRe "/r/proj".toList "proj".toList (p ["a"]) exEntries exOpts).allModules =
    ["proj.a", "proj.a.__init__", "proj.a.x", "proj.a.s", "proj.a.s.t"].map String.toList := by decide

end Pta.C04
