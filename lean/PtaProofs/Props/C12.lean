/-
  PtaProofs.Props.C12 — rule algebra (property C12), stated for `PtaModel.assertApplies` on EVERY graph
  (no well-formedness, related identifiers included), every regex interpretation `mt`.
  Property theorems only; helper lemmas live in PtaProofs/Lemmas.
-/
import Bridge.Abs
import PtaProofs.Lemmas.RuleAlgebra
import PtaProofs.Lemmas.AnythingDedup
import PtaProofs.Lemmas.RuleErrors
import PtaProofs.Lemmas.AliasBatch
import PtaProofs.Lemmas.ScanMono
namespace Pta.C12
open Pta

/-- duality: `A should (not) import B` and `B should (not) be imported by A` have the same verdict.
    Three-valued: this is an equation between verdict CLASSES (`VClass` = pass | fail | err k), so it says at once:
    one passes iff the other passes, one fails iff the other fails, and one raises error `k` iff the other raises the
    same `k` (no hypothesis; ill-configured rules, unknown names and regexes without a match included). -/
theorem duality (mt : Str → Str → Bool) (g : PGraph Str) (A B : List Filter) (neg : Bool) :
    verdictOf mt g (mkRule (!neg) false neg true false A B) = verdictOf mt g (mkRule (!neg) false neg false false B A) :=
  Pta.duality_lemma mt g A B neg

/-- negation (one subject module, one object module; plain and `except` forms, both directions):
    `should` passes exactly when `should not` fails. "One subject" means one module filter: a regular
    expression stands for several subjects (see `negation_counterexample_regex`). -/
theorem negation (mt : Str → Str → Bool) (g : PGraph Str) (s o : Filter) (dir exc : Bool)
    (hs : s.isRegex = false) (ho : o.isRegex = false) :
    verdictOf mt g (mkRule true false false dir exc [s] [o]) = .pass ↔
    verdictOf mt g (mkRule false false true dir exc [s] [o]) = .fail :=
  Pta.negation_lemma_of_not_regex mt g s o dir exc hs ho

/-- one direction holds for every filter kind: a passing `should` makes `should not` fail -/
theorem negation_mp (mt : Str → Str → Bool) (g : PGraph Str) (s o : Filter) (dir exc : Bool) :
    verdictOf mt g (mkRule true false false dir exc [s] [o]) = .pass →
    verdictOf mt g (mkRule false false true dir exc [s] [o]) = .fail :=
  Pta.negation_lemma_mp mt g s o dir exc

/-- why the hypothesis is needed: a regex subject matching two modules, one of which imports the object -/
theorem negation_counterexample_regex :
    let g : PGraph Str := ⟨["m1".toList, "m2".toList, "q".toList], [⟨"m1".toList, "q".toList, false⟩]⟩
    let mt : Str → Str → Bool := fun _ m => m == "m1".toList || m == "m2".toList
    ¬ (verdictOf mt g (mkRule true false false true false [.regex "m.".toList] [.name "q".toList]) = .pass ↔
       verdictOf mt g (mkRule false false true true false [.regex "m.".toList] [.name "q".toList]) = .fail) :=
  Pta.negation_lemma_counterexample

/-- decomposition: `should only` passes exactly when `should` and `should not … except` pass -/
theorem decomposition (mt : Str → Str → Bool) (g : PGraph Str) (A B : List Filter) (dir : Bool) :
    verdictOf mt g (mkRule false true false dir false A B) = .pass ↔
    (verdictOf mt g (mkRule true false false dir false A B) = .pass ∧
     verdictOf mt g (mkRule false false true dir true A B) = .pass) :=
  Pta.decomposition_lemma mt g A B dir

/-- decomposition of `should only … except` into `should … except` and `should not` -/
theorem decomposition_except (mt : Str → Str → Bool) (g : PGraph Str) (A B : List Filter) (dir : Bool) :
    verdictOf mt g (mkRule false true false dir true A B) = .pass ↔
    (verdictOf mt g (mkRule true false false dir true A B) = .pass ∧
     verdictOf mt g (mkRule false false true dir false A B) = .pass) :=
  Pta.decomposition_except_lemma mt g A B dir

/-- the `anything` alias: `S should not import anything` is `S should not import modules except S`
    (for subject batches the parent/sub-module de-duplication leaves unchanged, e.g. a single subject, or — since the
    repair of F-C12a — a batch of `sub modules of` filters: `alias_anything_parents`) -/
theorem alias_anything (mt : Str → Str → Bool) (g : PGraph Str) (S : List Filter) (dir : Bool)
    (hS : dedupSubjects S = S) :
    assertApplies mt { cfg := { subjects := some S, shouldNot := true, importDir := some dir, anything := true }, next := some false } g
      = assertApplies mt (mkRule false false true dir true S S) g := by
  exact Pta.anything_alias_of_dedup_eq mt g S dir hS

/-- the `anything` alias for EVERY batch of names (no de-duplication hypothesis; the names need not exist), as verdict
    class: `S should not import anything` has the verdict of `S should not import modules except S`, on every graph whose
    hierarchy edges cover the dotted nesting of its nodes (`HierClosed`: every graph `buildGraph` constructs, see
    `Pta.C11.hierClosed_buildGraph`).  A name that does not exist makes both sides raise a lookup error (since the repair
    of F-C13b; before it the alias silently dropped an absent dotted extension of another subject, see
    `Pta.C11.anything_dedup_absent_name_witness`). -/
theorem alias_anything_verdict (mt : Str → Str → Bool) (g : PGraph Str) (hc : HierClosed g) (S : List Filter) (dir : Bool)
    (hS : namesOnly S = true) :
    verdictOf mt g { cfg := { subjects := some S, shouldNot := true, importDir := some dir, anything := true }, next := some false }
      = verdictOf mt g (mkRule false false true dir true S S) :=
  Pta.alias_anything_verdict_lemma mt g hc S dir hS

/-- the `anything` alias for every batch of `sub modules of` filters (`are_sub_modules_of([...])`), related or not:
    `_convert_aliases` removes nothing (`sub modules of p` does not contain `p`, so it covers no other subject — repair of
    F-C12a), hence alias and spelled-out `except` rule have the SAME outcome (verdict, report, errors, rule object
    afterwards) on every graph. Before the repair this failed for related identifiers, see
    `alias_parents_regression_witness`. -/
theorem alias_anything_parents (mt : Str → Str → Bool) (g : PGraph Str) (S : List Filter) (dir : Bool)
    (hS : S.all Filter.isParent = true) :
    dedupSubjects S = S ∧
    assertApplies mt { cfg := { subjects := some S, shouldNot := true, importDir := some dir, anything := true }, next := some false } g
      = assertApplies mt (mkRule false false true dir true S S) g :=
  ⟨Pta.dedupSubjects_parents S hS, alias_anything mt g S dir (Pta.dedupSubjects_parents S hS)⟩

/-- the verdict-class alias law for EVERY batch one naming call of the fluent API builds — `are_named([...])`,
    `are_sub_modules_of([...])`, `have_name_matching(...)` — related identifiers and absent names included, on every
    `HierClosed` graph (every graph `buildGraph` constructs): `S should not import / be imported by anything` has the
    verdict class of `S should not import / be imported by modules except S`. -/
theorem alias_anything_verdict_api (mt : Str → Str → Bool) (g : PGraph Str) (hc : HierClosed g) (S : List Filter) (dir : Bool)
    (hS : namesOnly S = true ∨ S.all Filter.isParent = true ∨ (∃ p, S = [.regex p])) :
    verdictOf mt g { cfg := { subjects := some S, shouldNot := true, importDir := some dir, anything := true }, next := some false }
      = verdictOf mt g (mkRule false false true dir true S S) :=
  Pta.alias_anything_verdict_api_lemma mt g hc S dir hS

/-- slightly more general: names only, or ANY batch the de-duplication leaves unchanged (characterised by
    `dedupSubjects_eq_self_iff`: no subject that is not a `sub modules of` filter lies strictly above another subject;
    e.g. the mixed batch `[sub modules of p, p.a]`, see the example below). This is as far as the law goes for mixed
    batches: see `alias_mixed_counterexample`. -/
theorem alias_anything_verdict_names_or_fixed (mt : Str → Str → Bool) (g : PGraph Str) (hc : HierClosed g) (S : List Filter)
    (dir : Bool) (hS : namesOnly S = true ∨ dedupSubjects S = S) :
    verdictOf mt g { cfg := { subjects := some S, shouldNot := true, importDir := some dir, anything := true }, next := some false }
      = verdictOf mt g (mkRule false false true dir true S S) :=
  Pta.alias_anything_verdict_names_or_fixed mt g hc S dir hS

theorem dedupSubjects_eq_self_iff (S : List Filter) :
    dedupSubjects S = S ↔ ∀ o ∈ S, ∀ f ∈ S, o.isParent = false → isStrictSub o.id f.id = false :=
  Pta.dedupSubjects_eq_self_iff S

/-- what `_convert_aliases` does for every subject list (outcome AND rewritten rule object): the alias is the `except`
    rule on the de-duplicated subjects which remembers the subjects it removed (`dropped`; before the repair of F-C13b
    they were forgotten, i.e. the right-hand side was `mkRule false false true dir true (dedupSubjects S) (dedupSubjects S)`) -/
theorem alias_anything_dedup (mt : Str → Str → Bool) (g : PGraph Str) (S : List Filter) (dir : Bool) :
    assertApplies mt { cfg := { subjects := some S, shouldNot := true, importDir := some dir, anything := true }, next := some false } g
      = assertApplies mt
          { cfg := { subjects := some (dedupSubjects S), objects := some (dedupSubjects S), shouldNot := true,
                     exceptPresent := true, importDir := some dir, dropped := droppedSubjects S }, next := some false } g :=
  Pta.anything_alias_eq mt g S dir

/-- … and its outcome in terms of the plain `except` rule: a removed subject that is not a module (and not a regex) is a
    lookup error; otherwise the outcome of `except` rule on the de-duplicated subjects -/
theorem alias_anything_dedup_verdict (mt : Str → Str → Bool) (g : PGraph Str) (S : List Filter) (dir : Bool) :
    (assertApplies mt { cfg := { subjects := some S, shouldNot := true, importDir := some dir, anything := true }, next := some false } g).2
      = if (droppedSubjects S).any (fun f => !f.isRegex && !g.hasNode f.id) = true then .err .lookupError
        else (assertApplies mt (mkRule false false true dir true (dedupSubjects S) (dedupSubjects S)) g).2 :=
  Pta.anything_alias_verdict mt g S dir

/-- in particular, when every (non-regex) subject is a module of the architecture, the alias has the outcome of the
    `except` rule on the de-duplicated subjects -/
theorem alias_anything_dedup_of_nodes (mt : Str → Str → Bool) (g : PGraph Str) (S : List Filter) (dir : Bool)
    (hn : ∀ f ∈ S, f.isRegex = false → g.hasNode f.id = true) :
    (assertApplies mt { cfg := { subjects := some S, shouldNot := true, importDir := some dir, anything := true }, next := some false } g).2
      = (assertApplies mt (mkRule false false true dir true (dedupSubjects S) (dedupSubjects S)) g).2 :=
  Pta.anything_alias_dedup_of_nodes mt g S dir hn

/-- monotonicity: a passing `should` rule (with or without `except`) stays passing. ANY pair `u v`: the former
    hypothesis `g.hasEdge u v = false` ("the pair carries no edge yet") was not used by the proof and has been dropped
    (`addImportEdge g u v` appends the import edge `u → v` to the edge list and adds no module) -/
theorem monotone_should (mt : Str → Str → Bool) (g : PGraph Str) (u v : Str) (A B : List Filter) (dir exc : Bool) :
    verdictOf mt g (mkRule true false false dir exc A B) = .pass →
    verdictOf mt (addImportEdge g u v) (mkRule true false false dir exc A B) = .pass :=
  Pta.ScanMono.should_add_one mt g u v A B dir exc

/-- monotonicity: a failing `should not` rule (with or without `except`) stays failing -/
theorem monotone_should_not (mt : Str → Str → Bool) (g : PGraph Str) (u v : Str) (A B : List Filter) (dir exc : Bool) :
    verdictOf mt g (mkRule false false true dir exc A B) = .fail →
    verdictOf mt (addImportEdge g u v) (mkRule false false true dir exc A B) = .fail :=
  Pta.ScanMono.should_not_add_one mt g u v A B dir exc

/-! non-vacuity: a concrete graph on which the premises are met non-trivially -/
def exG : PGraph Str := buildGraph ["p".toList, "p.a".toList, "p.b".toList, "q".toList] [absImport "p.a".toList "q".toList] none

example : verdictOf (fun _ _ => false) exG (mkRule true false false true false [.name "p".toList] [.name "q".toList]) = .pass := by decide
example : verdictOf (fun _ _ => false) exG (mkRule false false true true false [.name "p".toList] [.name "q".toList]) = .fail := by decide
/-- (not a hypothesis any more; kept as a fact about the example: the added pair `p.b → q` is new) -/
example : exG.hasEdge "p.b".toList "q".toList = false := by decide

/-! non-vacuity of `alias_anything_verdict`: a batch the de-duplication shrinks -/
def exG2 : PGraph Str :=
  buildGraph ["p".toList, "p.a".toList, "p.a.x".toList, "q".toList] [absImport "p.a.x".toList "q".toList] none
def exS2 : List Filter := [.name "p.a".toList, .name "p.a.x".toList, .name "p".toList]
example : HierClosed exG2 := Pta.buildGraph_hierClosed _ _ _ (by simp only [ExtBuild.NodeOf]; decide)
example : namesOnly exS2 = true := by decide
example : ∀ f ∈ exS2, exG2.hasNode f.id = true := by decide
example : dedupSubjects exS2 = [.name "p".toList] := by decide
example : verdictOf (fun _ _ => false) exG2 (mkRule false false true true true exS2 exS2) = .fail := by decide
/-- … and a batch with an absent name that the de-duplication drops: both sides raise the lookup error -/
def exS3 : List Filter := [.name "p.a".toList, .name "p.a.zz".toList]
example : namesOnly exS3 = true := by decide
example : dedupSubjects exS3 = [.name "p.a".toList] := by decide
example : exG2.hasNode "p.a.zz".toList = false := by decide
example : verdictOf (fun _ _ => false) exG2 (mkRule false false true true true exS3 exS3) = .err .lookupError := by decide
example : verdictOf (fun _ _ => false) exG2
    { cfg := { subjects := some exS3, shouldNot := true, importDir := some true, anything := true }, next := some false } =
    .err .lookupError := by decide

/-! ### the regression witness of F-C12a and the boundary of the alias law -/

/-- nodes `p`, `p.a`, `p.a.x` (hierarchy edges `p → p.a → p.a.x`), one import `p.a.x → p` -/
def exGW : PGraph Str :=
  buildGraph ["p".toList, "p.a".toList, "p.a.x".toList] [absImport "p.a.x".toList "p".toList] none
/-- `are_sub_modules_of(["p", "p.a"])` -/
def exSW : List Filter := [.parent "p".toList, .parent "p.a".toList]

/-- the regression witness of F-C12a: `modules_that().are_sub_modules_of(["p","p.a"]).should_not().import_anything()`
    and the spelled-out `….should_not().import_modules_except_modules_that().are_sub_modules_of(["p","p.a"])` both FAIL
    (the import `p.a.x → p` leaves `sub modules of p.a`, and `p` is in none of the objects), with the same report.
    BEFORE the repair the left-hand side was `.pass`: `_convert_aliases` removed `sub modules of p.a` in favour of
    `sub modules of p`, whose search treats its own parent `p` as inside. -/
theorem alias_parents_regression_witness :
    exSW.all Filter.isParent = true ∧ dedupSubjects exSW = exSW ∧
    verdictOf (fun _ _ => false) exGW
      { cfg := { subjects := some exSW, shouldNot := true, importDir := some true, anything := true }, next := some false } = .fail ∧
    verdictOf (fun _ _ => false) exGW (mkRule false false true true true exSW exSW) = .fail ∧
    (assertApplies (fun _ _ => false)
      { cfg := { subjects := some exSW, shouldNot := true, importDir := some true, anything := true }, next := some false } exGW).2 =
    (assertApplies (fun _ _ => false) (mkRule false false true true true exSW exSW) exGW).2 := by decide

example : HierClosed exGW := Pta.buildGraph_hierClosed _ _ _ (by simp only [ExtBuild.NodeOf]; decide)
/-- what the alias was before the repair: the `except` rule on `[sub modules of p]` alone (what the old de-duplication
    kept), which PASSES on `exGW` -/
example : verdictOf (fun _ _ => false) exGW
    (mkRule false false true true true [.parent "p".toList] [.parent "p".toList]) = .pass := by decide

/-- the mixed batch `[sub modules of p, p.a]` (not expressible with one naming call, but a value of the model): the
    repaired de-duplication leaves it unchanged, so the alias law holds for it (both sides fail on `exGW`); before the
    repair `p.a` was removed and the alias passed -/
example : dedupSubjects [.parent "p".toList, .name "p.a".toList] = [.parent "p".toList, .name "p.a".toList] ∧
    verdictOf (fun _ _ => false) exGW
      { cfg := { subjects := some [.parent "p".toList, .name "p.a".toList], shouldNot := true, importDir := some true,
                 anything := true }, next := some false } = .fail ∧
    verdictOf (fun _ _ => false) exGW
      (mkRule false false true true true [.parent "p".toList, .name "p.a".toList] [.parent "p".toList, .name "p.a".toList]) = .fail := by
  decide

/-- the three API batch shapes of `alias_anything_verdict_api`, each non-trivially -/
example : namesOnly exS2 = true ∧ exSW.all Filter.isParent = true ∧ (∃ p, [Filter.regex "p.*".toList] = [.regex p]) :=
  ⟨by decide, by decide, ⟨_, rfl⟩⟩

/-- the law does NOT extend to arbitrary regex-free batches mixing `are_named` and `are_sub_modules_of` filters (no
    single naming call of the fluent API builds these; the failure is independent of the repair of F-C12a). Two
    witnesses on `HierClosed` graphs, all names existing, the alias PASSES and the spelled-out rule FAILS:
    * `[p, sub modules of p.a, p.a.x]` with the import `p.a.x → p.a`: the name `p` covers and removes both others; in
      the spelled-out rule the parent identifier `p.a` of an object is not an allowed importee for the subject `p.a.x`;
    * `[p, p.a, sub modules of p]` with the import `p.a → p`: `p.a` is removed (covered by the name `p`); in the
      spelled-out rule `p` is the parent identifier of an object, hence not an allowed importee for the subject `p.a`. -/
theorem alias_mixed_counterexample :
    let g1 : PGraph Str := buildGraph ["p".toList, "p.a".toList, "p.a.x".toList] [absImport "p.a.x".toList "p.a".toList] none
    let S1 : List Filter := [.name "p".toList, .parent "p.a".toList, .name "p.a.x".toList]
    let g2 : PGraph Str := buildGraph ["p".toList, "p.a".toList] [absImport "p.a".toList "p".toList] none
    let S2 : List Filter := [.name "p".toList, .name "p.a".toList, .parent "p".toList]
    (S1.all (fun f => !f.isRegex) = true ∧ (∀ f ∈ S1, g1.hasNode f.id = true) ∧
      verdictOf (fun _ _ => false) g1
        { cfg := { subjects := some S1, shouldNot := true, importDir := some true, anything := true }, next := some false } = .pass ∧
      verdictOf (fun _ _ => false) g1 (mkRule false false true true true S1 S1) = .fail) ∧
    (S2.all (fun f => !f.isRegex) = true ∧ (∀ f ∈ S2, g2.hasNode f.id = true) ∧
      verdictOf (fun _ _ => false) g2
        { cfg := { subjects := some S2, shouldNot := true, importDir := some true, anything := true }, next := some false } = .pass ∧
      verdictOf (fun _ _ => false) g2 (mkRule false false true true true S2 S2) = .fail) := by decide

example : HierClosed (buildGraph ["p".toList, "p.a".toList, "p.a.x".toList] [absImport "p.a.x".toList "p.a".toList] none) :=
  Pta.buildGraph_hierClosed _ _ _ (by simp only [ExtBuild.NodeOf]; decide)
example : HierClosed (buildGraph ["p".toList, "p.a".toList] [absImport "p.a".toList "p".toList] none) :=
  Pta.buildGraph_hierClosed _ _ _ (by simp only [ExtBuild.NodeOf]; decide)


/-! ## three-valued forms (audit finding F13)

`verdictOf` has three kinds of values: `.pass`, `.fail`, `.err k`. The laws above are stated for `.pass` / `.fail`; the
theorems below add the error side, so that "passes exactly when both pass" is complemented by "raises exactly when one
of them raises — and then all of them raise, the same error". -/

/-- when a finished rule raises, and what, does not depend on verb, `except` or direction: two rules `mkRule …` on the
    same subjects and objects, each with a verb and a consistent behaviour, raise the same errors. (The three query
    families raise `lookupError` on the same inputs: a converted subject or object that is not a module.) -/
theorem error_independent_of_verb (mt : Str → Str → Bool) (g : PGraph Str) (A B : List Filter) (s o n d e s' o' n' d' e' : Bool)
    (hverb : (s || o || n) = true) (hc : (⟨s, o, n, e⟩ : Behavior).inconsistent = false)
    (hverb' : (s' || o' || n') = true) (hc' : (⟨s', o', n', e'⟩ : Behavior).inconsistent = false) (k : ErrKind) :
    verdictOf mt g (mkRule s o n d e A B) = .err k ↔ verdictOf mt g (mkRule s' o' n' d' e' A B) = .err k :=
  Pta.rule_error_lemma mt g A B s o n d e s' o' n' d' e' hverb hc hverb' hc' k

/-- error side of `decomposition`: `should only` raises `k` exactly when `should` raises `k`, and exactly when
    `should not … except` raises `k` (so the three rules raise together) -/
theorem decomposition_err_both (mt : Str → Str → Bool) (g : PGraph Str) (A B : List Filter) (dir : Bool) (k : ErrKind) :
    (verdictOf mt g (mkRule false true false dir false A B) = .err k ↔
      verdictOf mt g (mkRule true false false dir false A B) = .err k) ∧
    (verdictOf mt g (mkRule false true false dir false A B) = .err k ↔
      verdictOf mt g (mkRule false false true dir true A B) = .err k) :=
  Pta.decomposition_err_lemma mt g A B dir k

/-- … in particular: `should only` raises exactly when one of the two raises -/
theorem decomposition_err (mt : Str → Str → Bool) (g : PGraph Str) (A B : List Filter) (dir : Bool) (k : ErrKind) :
    verdictOf mt g (mkRule false true false dir false A B) = .err k ↔
    (verdictOf mt g (mkRule true false false dir false A B) = .err k ∨
     verdictOf mt g (mkRule false false true dir true A B) = .err k) := by
  obtain ⟨h1, h2⟩ := decomposition_err_both mt g A B dir k
  exact ⟨fun h => .inl (h1.1 h), fun h => h.elim h1.2 h2.2⟩

/-- the whole truth table of `decomposition` in one equation: the class of `should only` is the three-valued
    conjunction (`VClass.both`: an error if either raises, else fail if either fails, else pass) of the classes of
    `should` and `should not … except` -/
theorem decomposition_eq (mt : Str → Str → Bool) (g : PGraph Str) (A B : List Filter) (dir : Bool) :
    verdictOf mt g (mkRule false true false dir false A B) =
      VClass.both (verdictOf mt g (mkRule true false false dir false A B)) (verdictOf mt g (mkRule false false true dir true A B)) :=
  Pta.decomposition_eq_lemma mt g A B dir

/-- hence the fail side: `should only` fails exactly when one of the two fails -/
theorem decomposition_fail (mt : Str → Str → Bool) (g : PGraph Str) (A B : List Filter) (dir : Bool) :
    verdictOf mt g (mkRule false true false dir false A B) = .fail ↔
    (verdictOf mt g (mkRule true false false dir false A B) = .fail ∨
     verdictOf mt g (mkRule false false true dir true A B) = .fail) := by
  have he := decomposition_err_both mt g A B dir
  rw [decomposition_eq]
  generalize verdictOf mt g (mkRule false true false dir false A B) = x at he
  generalize verdictOf mt g (mkRule true false false dir false A B) = a at he ⊢
  generalize verdictOf mt g (mkRule false false true dir true A B) = b at he ⊢
  cases a <;> cases b <;> simp [VClass.both]
  all_goals (rename_i k; have := he k; simp_all)

/-- the same three statements for `should only … except` = `should … except` ⊓ `should not` -/
theorem decomposition_except_err_both (mt : Str → Str → Bool) (g : PGraph Str) (A B : List Filter) (dir : Bool) (k : ErrKind) :
    (verdictOf mt g (mkRule false true false dir true A B) = .err k ↔
      verdictOf mt g (mkRule true false false dir true A B) = .err k) ∧
    (verdictOf mt g (mkRule false true false dir true A B) = .err k ↔
      verdictOf mt g (mkRule false false true dir false A B) = .err k) :=
  Pta.decomposition_except_err_lemma mt g A B dir k

theorem decomposition_except_err (mt : Str → Str → Bool) (g : PGraph Str) (A B : List Filter) (dir : Bool) (k : ErrKind) :
    verdictOf mt g (mkRule false true false dir true A B) = .err k ↔
    (verdictOf mt g (mkRule true false false dir true A B) = .err k ∨
     verdictOf mt g (mkRule false false true dir false A B) = .err k) := by
  obtain ⟨h1, h2⟩ := decomposition_except_err_both mt g A B dir k
  exact ⟨fun h => .inl (h1.1 h), fun h => h.elim h1.2 h2.2⟩

theorem decomposition_except_eq (mt : Str → Str → Bool) (g : PGraph Str) (A B : List Filter) (dir : Bool) :
    verdictOf mt g (mkRule false true false dir true A B) =
      VClass.both (verdictOf mt g (mkRule true false false dir true A B)) (verdictOf mt g (mkRule false false true dir false A B)) :=
  Pta.decomposition_except_eq_lemma mt g A B dir

/-- error side of `negation` — for ALL subject / object lists, regexes included: `should not` raises `k` exactly when
    `should` raises `k` (plain and `except` forms, both directions) -/
theorem negation_err (mt : Str → Str → Bool) (g : PGraph Str) (A B : List Filter) (dir exc : Bool) (k : ErrKind) :
    verdictOf mt g (mkRule false false true dir exc A B) = .err k ↔ verdictOf mt g (mkRule true false false dir exc A B) = .err k :=
  Pta.negation_err_lemma mt g A B dir exc k

/-- the whole truth table of `negation` (one subject module, one object module): the class of `should not` is the
    three-valued negation (`VClass.neg`: pass ↔ fail, errors kept) of the class of `should` -/
theorem negation_eq (mt : Str → Str → Bool) (g : PGraph Str) (s o : Filter) (dir exc : Bool)
    (hs : s.isRegex = false) (ho : o.isRegex = false) :
    verdictOf mt g (mkRule false false true dir exc [s] [o]) = VClass.neg (verdictOf mt g (mkRule true false false dir exc [s] [o])) :=
  Pta.negation_eq_lemma mt g s o dir exc hs ho

/-- hence the other half of `negation`: `should` fails exactly when `should not` passes -/
theorem negation_fail (mt : Str → Str → Bool) (g : PGraph Str) (s o : Filter) (dir exc : Bool)
    (hs : s.isRegex = false) (ho : o.isRegex = false) :
    verdictOf mt g (mkRule true false false dir exc [s] [o]) = .fail ↔
    verdictOf mt g (mkRule false false true dir exc [s] [o]) = .pass := by
  rw [negation_eq mt g s o dir exc hs ho]
  cases verdictOf mt g (mkRule true false false dir exc [s] [o]) <;> simp [VClass.neg]

/-- error side of the two monotonicity laws: adding an import edge does not change which error a rule raises (it adds
    no module), so the only change it can cause is `fail → pass` for `should` and `pass → fail` for `should not` -/
theorem monotone_err (mt : Str → Str → Bool) (g : PGraph Str) (u v : Str) (A B : List Filter) (neg dir exc : Bool) (k : ErrKind) :
    verdictOf mt (addImportEdge g u v) (mkRule (!neg) false neg dir exc A B) = .err k ↔
    verdictOf mt g (mkRule (!neg) false neg dir exc A B) = .err k :=
  Pta.monotone_err_lemma mt g u v A B (!neg) false neg dir exc (by cases neg <;> rfl) (by cases neg <;> cases exc <;> rfl) k

/-- the hypotheses of `error_independent_of_verb` hold for all six rule shapes of this file -/
example : ∀ e : Bool, (⟨true, false, false, e⟩ : Behavior).inconsistent = false ∧ (⟨false, true, false, e⟩ : Behavior).inconsistent = false ∧
    (⟨false, false, true, e⟩ : Behavior).inconsistent = false := by decide

/-! non-vacuity of the error side: an unknown object name makes all three rules raise the lookup error, a regex without
    a match the `impossibleMatch` error; and an instance where `should only` fails because exactly one side fails -/
example : verdictOf (fun _ _ => false) exG (mkRule false true false true false [.name "p".toList] [.name "zz".toList]) = .err .lookupError ∧
    verdictOf (fun _ _ => false) exG (mkRule true false false true false [.name "p".toList] [.name "zz".toList]) = .err .lookupError ∧
    verdictOf (fun _ _ => false) exG (mkRule false false true true true [.name "p".toList] [.name "zz".toList]) = .err .lookupError := by
  decide
example : verdictOf (fun _ _ => false) exG (mkRule false true false true false [.regex "x.*".toList] [.name "q".toList]) = .err .impossibleMatch ∧
    verdictOf (fun _ _ => false) exG (mkRule true false false true false [.regex "x.*".toList] [.name "q".toList]) = .err .impossibleMatch := by
  decide
def exG3 : PGraph Str :=
  buildGraph ["p".toList, "p.a".toList, "p.b".toList, "q".toList, "r".toList]
    [absImport "p.a".toList "q".toList, absImport "p.b".toList "r".toList] none
example : verdictOf (fun _ _ => false) exG3 (mkRule false true false true false [.name "p".toList] [.name "q".toList]) = .fail ∧
    verdictOf (fun _ _ => false) exG3 (mkRule true false false true false [.name "p".toList] [.name "q".toList]) = .pass ∧
    verdictOf (fun _ _ => false) exG3 (mkRule false false true true true [.name "p".toList] [.name "q".toList]) = .fail := by
  decide
example : verdictOf (fun _ _ => false) exG (mkRule false true false true false [.name "p".toList] [.name "q".toList]) = .pass ∧
    verdictOf (fun _ _ => false) exG (mkRule true false false true false [.name "p".toList] [.name "q".toList]) = .pass ∧
    verdictOf (fun _ _ => false) exG (mkRule false false true true true [.name "p".toList] [.name "q".toList]) = .pass := by
  decide
example : verdictOf (fun _ _ => false) exG (mkRule true false false true false [.name "p.b".toList] [.name "q".toList]) = .fail ∧
    verdictOf (fun _ _ => false) exG (mkRule false false true true false [.name "p.b".toList] [.name "q".toList]) = .pass := by
  decide

end Pta.C12
