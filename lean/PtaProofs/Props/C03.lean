/-
  PtaProofs.Props.C03 — violation reports (property C03). Part 1 (this file, every graph and every rule, related
  names and regexes included): each reported `X imports Y` / `X is imported by Y` line is a real import edge of the
  graph, and one of its ends lies in the sub tree of a rule subject — no import unrelated to the rule's subject is
  ever reported. Part 2 (set equality with the specification's violating set on the strict domain) is
  `Pta.C01.report_spec` in Props/C01.lean.
  Part 3 (message TEXT, second half of this file): the literal lines of the message (`PtaModel/Message.lean`, transcribed
  from message_generator.py) are the report items rendered by the four line shapes of `Bridge/Message.lean`, sorted and
  without duplicates (`line_of_item`, `assert_text_eq`); a parser inverts the renderer on names without `"`
  (`parse_render`); and the item-level theorems carry over to literal lines (`text_lines_are_imports`, `text_lines_shape`).
-/
import Bridge.Abs
import Bridge.Message
import PtaProofs.Lemmas.SearchChar
import PtaProofs.Lemmas.MessageText
import PtaProofs.Lemmas.MessageTextLayer
namespace Pta.C03
open Pta

/-- every reported import is an import edge of the graph (importer → importee) -/
theorem reported_imports_are_imports (mt : Str → Str → Bool) (g : PGraph Str) (r : RuleState) (items : List Item)
    (h : (assertApplies mt r g).2 = .fail items) :
    ∀ u v d, Item.imp u v d ∈ items → v ∈ g.importSuccs u :=
  Pta.reported_imports_are_imports_lemma mt g r items h

/-- every reported import has an end inside the sub tree of one of the rule's (expanded) subjects -/
theorem reported_imports_touch_subject (mt : Str → Str → Bool) (g : PGraph Str) (r : RuleState) (items : List Item)
    (h : (assertApplies mt r g).2 = .fail items) (ss subs : List Filter)
    (hss : (convertAliases r.cfg).subjects = some ss) (hconv : convertFilters mt g.nodes ss = .ok subs) :
    ∀ u v d, Item.imp u v d ∈ items → ∃ s ∈ subs, Reach g s.id u ∨ Reach g s.id v :=
  Pta.reported_imports_touch_subject_lemma mt g r items h ss subs hss hconv

/-- every `does not import` line names a rule subject and objects of the rule -/
theorem missing_lines_name_subjects (mt : Str → Str → Bool) (g : PGraph Str) (r : RuleState) (items : List Item)
    (h : (assertApplies mt r g).2 = .fail items) (ss subs os objs : List Filter)
    (hss : (convertAliases r.cfg).subjects = some ss) (hconv : convertFilters mt g.nodes ss = .ok subs)
    (hos : (convertAliases r.cfg).objects = some os) (hconvo : convertFilters mt g.nodes os = .ok objs) :
    ∀ any s objsM d, Item.miss any s objsM d ∈ items → s ∈ subs.map Filter.toMod ∧ ∀ o ∈ objsM, o ∈ objs.map Filter.toMod :=
  Pta.missing_lines_name_subjects_lemma mt g r items h ss subs os objs hss hconv hos hconvo

/-! ## Part 3: the message text -/

/-- `line_of_item`: the lines of the message (`create_rule_violation_messages`, a sorted list without duplicates) are
    exactly the renderings of the report items; the two determine each other as sets -/
theorem line_of_item (importRule : Bool) (v : Violations) :
    messageLines importRule v = renderItems (reportItems importRule v) ∧
    ∀ line, line ∈ messageLines importRule v ↔ ∃ x ∈ reportItems importRule v, renderItem x = line :=
  ⟨Pta.messageLines_eq_lemma importRule v, fun line => by
    rw [Pta.messageLines_eq_lemma]; exact Pta.mem_renderItems _ line⟩

/-- `assert_applies` with the message text is `assert_applies` with the report items, the items rendered
    (same rule state, same outcome class, same error) -/
theorem assert_text_eq (mt : Str → Str → Bool) (r : RuleState) (g : PGraph Str) :
    assertAppliesText mt r g = ((assertApplies mt r g).1, (assertApplies mt r g).2.toText) :=
  Pta.assertAppliesText_eq_lemma mt r g

/-- the same for a whole call chain (what the driver prints as `M=` and `T=`) -/
theorem run_text_eq (glob : Str → Str) (mt : Str → Str → Bool) (ops : List RuleOp) (g : PGraph Str) :
    runRuleOpsText glob mt ops g = ((runRuleOps glob mt ops g).1.toText, (runRuleOps glob mt ops g).2) :=
  Pta.runRuleOpsText_eq_lemma glob mt ops g

/-- `parse_render`: the parser inverts the renderer on every item whose names contain no `"` and, for a
    `does not import` item, that has at least one object (`Item.parsable`) -/
theorem parse_render (x : Item) (h : x.parsable = true) : parseLine (renderLine x) = some x :=
  Pta.parseLine_renderLine_lemma x h

/-- for a report item: its message line parses to the item, the objects in the order the line lists them -/
theorem parse_render_item (x : Item) (h : x.canon.parsable = true) : parseLine (renderItem x) = some x.canon :=
  Pta.parseLine_renderLine_lemma x.canon h

/-- `text_lines_are_imports`: every line `"X" imports "Y".` and every line `"X" is imported by "Y".` of the message
    (X, Y without `"`) names an import edge of the graph, one end of which lies in the sub tree of a rule subject -/
theorem text_lines_are_imports (mt : Str → Str → Bool) (g : PGraph Str) (r : RuleState) (lines : List Str)
    (h : (assertAppliesText mt r g).2 = .fail lines) (ss subs : List Filter)
    (hss : (convertAliases r.cfg).subjects = some ss) (hconv : convertFilters mt g.nodes ss = .ok subs)
    (X Y : Str) (hX : noQuote X = true) (hY : noQuote Y = true) :
    (quoted X ++ " imports ".toList ++ quoted Y ++ ".".toList ∈ lines →
      Y ∈ g.importSuccs X ∧ ∃ s ∈ subs, Reach g s.id X ∨ Reach g s.id Y) ∧
    (quoted X ++ " is imported by ".toList ++ quoted Y ++ ".".toList ∈ lines →
      X ∈ g.importSuccs Y ∧ ∃ s ∈ subs, Reach g s.id Y ∨ Reach g s.id X) := by
  obtain ⟨items, hi, rfl⟩ := Pta.assertAppliesText_fail_lemma mt r g lines h
  have hne := Pta.assertApplies_fail_objs_ne_nil mt g r items hi
  constructor
  · intro hl
    have hm : Item.imp X Y false ∈ items := by
      apply Pta.imp_line_mem_lemma items hne X Y false hX hY
      simpa [renderLine, List.append_assoc] using hl
    exact ⟨reported_imports_are_imports mt g r items hi _ _ _ hm,
      reported_imports_touch_subject mt g r items hi ss subs hss hconv _ _ _ hm⟩
  · intro hl
    have hm : Item.imp Y X true ∈ items := by
      apply Pta.imp_line_mem_lemma items hne Y X true hY hX
      simpa [renderLine, List.append_assoc] using hl
    exact ⟨reported_imports_are_imports mt g r items hi _ _ _ hm,
      reported_imports_touch_subject mt g r items hi ss subs hss hconv _ _ _ hm⟩

/-- `text_lines_shape`: EVERY line of the message has one of the four shapes and says something true — it is
    `"u" imports "v".` / `"v" is imported by "u".` for an import edge u → v of the graph with an end in a subject's sub tree,
    or a `does not import` / `is not imported by` line that names one rule subject and a non-empty list of rule objects -/
theorem text_lines_shape (mt : Str → Str → Bool) (g : PGraph Str) (r : RuleState) (lines : List Str)
    (h : (assertAppliesText mt r g).2 = .fail lines) (ss subs os objs : List Filter)
    (hss : (convertAliases r.cfg).subjects = some ss) (hconv : convertFilters mt g.nodes ss = .ok subs)
    (hos : (convertAliases r.cfg).objects = some os) (hconvo : convertFilters mt g.nodes os = .ok objs) :
    ∀ line ∈ lines,
      (∃ u v d, line = renderLine (.imp u v d) ∧ v ∈ g.importSuccs u ∧ ∃ s ∈ subs, Reach g s.id u ∨ Reach g s.id v) ∨
      (∃ any s objsM d, line = renderLine (.miss any s objsM d) ∧ s ∈ subs.map Filter.toMod ∧ objsM ≠ [] ∧
        ∀ o ∈ objsM, o ∈ objs.map Filter.toMod) := by
  obtain ⟨items, hi, rfl⟩ := Pta.assertAppliesText_fail_lemma mt r g lines h
  have hne := Pta.assertApplies_fail_objs_ne_nil mt g r items hi
  intro line hl
  obtain ⟨x, hx, rfl⟩ := (Pta.mem_renderItems items line).1 hl
  cases x with
  | imp u v d =>
    exact .inl ⟨u, v, d, rfl, reported_imports_are_imports mt g r items hi _ _ _ hx,
      reported_imports_touch_subject mt g r items hi ss subs hss hconv _ _ _ hx⟩
  | miss any s objsM d =>
    obtain ⟨h1, h2⟩ := missing_lines_name_subjects mt g r items hi ss subs os objs hss hconv hos hconvo _ _ _ _ hx
    refine .inr ⟨any, s, sortObjs objsM, d, rfl, h1, Pta.sortObjs_ne_nil _ (hne _ hx _ _ _ _ rfl), ?_⟩
    intro o ho
    exact h2 o ((Pta.Dg.sortBy_perm _ objsM).mem_iff.1 ho)

/-! non-vacuity: a graph, a `should only import` rule with two subjects, the literal message, its parse -/
def S (s : String) : Str := s.toList
def exG : PGraph Str :=
  buildGraph [S "p", S "p.a", S "p.a.x", S "p.b", S "p.c", S "q", S "q.r"]
    [absImport (S "p.a.x") (S "q"), absImport (S "p.c") (S "p.b"), absImport (S "p.c") (S "q.r")] none
def exRule : RuleState :=
  { cfg := { subjects := some [.name (S "p.a"), .name (S "p.c")], objects := some [.name (S "q.r"), .name (S "p.b")],
             shouldOnly := true, importDir := some true } }
set_option maxRecDepth 8000 in
example : (assertAppliesText (fun _ _ => false) exRule exG).2 = .fail
    [S "\"p.a\" does not import \"p.b\", \"q.r\".", S "\"p.a.x\" imports \"q\"."] := by decide
example : messageText [S "\"p.a\" does not import \"p.b\", \"q.r\".", S "\"p.a.x\" imports \"q\"."] =
    S "\"p.a\" does not import \"p.b\", \"q.r\".\n\"p.a.x\" imports \"q\"." := by decide
set_option maxRecDepth 8000 in
example : (convertAliases exRule.cfg).subjects = some [.name (S "p.a"), .name (S "p.c")] ∧
    convertFilters (fun _ _ => false) exG.nodes [.name (S "p.a"), .name (S "p.c")] = .ok [.name (S "p.a"), .name (S "p.c")] ∧
    (convertAliases exRule.cfg).objects = some [.name (S "q.r"), .name (S "p.b")] ∧
    convertFilters (fun _ _ => false) exG.nodes [.name (S "q.r"), .name (S "p.b")] = .ok [.name (S "q.r"), .name (S "p.b")] :=
  ⟨rfl, rfl, rfl, rfl⟩
example : noQuote (S "p.a.x") = true ∧ noQuote (S "q") = true ∧
    quoted (S "p.a.x") ++ " imports ".toList ++ quoted (S "q") ++ ".".toList ∈
      [S "\"p.a\" does not import \"p.b\", \"q.r\".", S "\"p.a.x\" imports \"q\"."] := by decide
example : parseLine (S "\"p.a\" does not import \"p.b\", \"q.r\".") =
    some (.miss false ⟨false, S "p.a"⟩ [⟨false, S "p.b"⟩, ⟨false, S "q.r"⟩] false) := by decide
example : (Item.miss true ⟨true, S "p.a"⟩ [⟨true, S "q"⟩, ⟨false, S "p b"⟩] true).parsable = true ∧
    renderLine (.miss true ⟨true, S "p.a"⟩ [⟨true, S "q"⟩, ⟨false, S "p b"⟩] true) =
      S "Sub modules of \"p.a\" are not imported by any module that is not a sub module of \"q\", \"p b\"." := by decide
/-- the hypothesis of `text_lines_are_imports` (X, Y free of `"`) cannot be dropped: with a module whose name is
    ` imports ` a `does not import` line also has the shape `"X" imports "Y".` for an X that is no module at all -/
example : renderLine (.miss false ⟨false, S "a"⟩ [⟨false, S " imports "⟩, ⟨false, S "y"⟩] false) =
    quoted (S "a\" does not import ") ++ " imports ".toList ++ quoted (S ", \"y") ++ ".".toList := by decide

/-! ## Part 3, layer rules -/

/-- `line_of_item` for layer rules: the text generator raises `LayerMismatch` exactly when the item generator does,
    and otherwise the message lines are the renderings of the layer report items, sorted and without duplicates -/
theorem layer_line_of_item (m : LayerMap) (importRule : Bool) (v : Violations) :
    messageLinesL m importRule v = (reportItemsL m importRule v).map renderLItems :=
  Pta.messageLinesL_eq_lemma m importRule v

/-- `LayerRule.assert_applies` with the message text is the item-valued one, the items rendered -/
theorem layer_assert_text_eq (mt : Str → Str → Bool) (s : LayerRuleState) (g : PGraph Str) :
    assertAppliesLayerText mt s g = (assertAppliesLayer mt s g).toText :=
  Pta.assertAppliesLayerText_eq_lemma mt s g

/-- the same for a whole call chain (what the driver prints as `M=` and `T=` of a `layer` request) -/
theorem layer_run_text_eq (mt : Str → Str → Bool) (ops : List LayerRuleOp) (g : PGraph Str) :
    runLayerRuleOpsText mt ops g = ((runLayerRuleOps mt ops g).1.toText, (runLayerRuleOps mt ops g).2) :=
  Pta.runLayerRuleOpsText_eq_lemma mt ops g

/-! non-vacuity: three layers, `layers that are named "A" should only access layers that are named "C"` -/
def exLG : PGraph Str :=
  buildGraph [S "p", S "p.a", S "p.a.x", S "q", S "s", S "r"]
    [absImport (S "p.a.x") (S "q"), absImport (S "p.a") (S "s")] none
def exLRule : LayerRuleState :=
  { arch := some [(S "A", [.name (S "p.a")]), (S "B", [.name (S "q")]), (S "C", [.name (S "r")])],
    rule := some { cfg := { subjects := some [.name (S "p.a")], objects := some [.name (S "r")],
                            shouldOnly := true, importDir := some true } } }
set_option maxRecDepth 8000 in
example : assertAppliesLayerText (fun _ _ => false) exLRule exLG = .fail
    [S "\"p.a\" (layer \"A\") imports \"s\" (no layer).", S "\"p.a.x\" (layer \"A\") imports \"q\" (layer \"B\").",
     S "Layer \"A\" does not import layer \"C\"."] := by decide
example : renderLItem (.miss true (some (S "A!")) [some (S "A!"), some (S "A"), some (S "a b")] true) =
    S "Layer \"A!\" is not imported by any layer that is not layer \"A\", layer \"A!\", layer \"a b\"." := by decide

end Pta.C03
