/-
  PtaProofs.Props.C03 — violation reports (property C03). Part 1 (this file, every graph and every rule, related
  names and regexes included): each reported `X imports Y` / `X is imported by Y` line is a real import edge of the
  graph, and one of its ends lies in the sub tree of a rule subject — no import unrelated to the rule's subject is
  ever reported. Part 2 (set equality with the specification's violating set on the strict domain) is
  `Pta.C01.report_spec` in Props/C01.lean.
  Part 3 (message TEXT, second half of this file): the literal lines of the message (`PtaModel/Message.lean`, transcribed
  from message_generator.py) are the report items rendered by the four line shapes of `Bridge/Message.lean`, sorted and
  without duplicates (`line_of_item`, `assert_text_eq`); a parser inverts the renderer on names without `"`
  (`parse_render`); and the item-level theorems carry over to literal lines (`text_lines_are_imports`, `text_lines_shape`).
-/
import Bridge.Abs
import Bridge.Message
import PtaProofs.Lemmas.SearchChar
import PtaProofs.Lemmas.MessageText
import PtaProofs.Lemmas.MessageTextLayer
import Bridge.ReportQueries
import PtaProofs.Lemmas.MissingLines
namespace Pta.C03
open Pta

/-- every reported import is an import edge of the graph (importer → importee) -/
theorem reported_imports_are_imports (mt : Str → Str → Bool) (g : PGraph Str) (r : RuleState) (items : List Item)
    (h : (assertApplies mt r g).2 = .fail items) :
    ∀ u v d, Item.imp u v d ∈ items → v ∈ g.importSuccs u :=
  Pta.reported_imports_are_imports_lemma mt g r items h

/-- every reported import has an end inside the sub tree of one of the rule's (expanded) subjects -/
theorem reported_imports_touch_subject (mt : Str → Str → Bool) (g : PGraph Str) (r : RuleState) (items : List Item)
    (h : (assertApplies mt r g).2 = .fail items) (ss subs : List Filter)
    (hss : (convertAliases r.cfg).subjects = some ss) (hconv : convertFilters mt g.nodes ss = .ok subs) :
    ∀ u v d, Item.imp u v d ∈ items → ∃ s ∈ subs, Reach g s.id u ∨ Reach g s.id v :=
  Pta.reported_imports_touch_subject_lemma mt g r items h ss subs hss hconv

/-- every `does not import` line names a rule subject and objects of the rule -/
theorem missing_lines_name_subjects (mt : Str → Str → Bool) (g : PGraph Str) (r : RuleState) (items : List Item)
    (h : (assertApplies mt r g).2 = .fail items) (ss subs os objs : List Filter)
    (hss : (convertAliases r.cfg).subjects = some ss) (hconv : convertFilters mt g.nodes ss = .ok subs)
    (hos : (convertAliases r.cfg).objects = some os) (hconvo : convertFilters mt g.nodes os = .ok objs) :
    ∀ any s objsM d, Item.miss any s objsM d ∈ items → s ∈ subs.map Filter.toMod ∧ ∀ o ∈ objsM, o ∈ objs.map Filter.toMod :=
  Pta.missing_lines_name_subjects_lemma mt g r items h ss subs os objs hss hconv hos hconvo

/-! ## Part 1b (audit finding F10): the `does not import` / `is not imported by` lines are exactly the missing imports

Every graph, every rule (related names, parent filters, regexes, the `anything` aliases included).  `dir`, `subs`, `objs` are
the rule's direction and its subject / object filters after alias conversion and regex expansion; `pairQuery g dir s o` is
the query the library asks for the pair (subject `s`, object `o`) and `otherQuery g dir s objs` the query it asks for the
subject `s` of an `except` rule (Bridge/ReportQueries.lean); `Mod.toFilter` reads a reported module back as a filter. -/

/-- `missing_lines_are_missing`: a `does not import` line (plain form) appears only for a `should` / `should_only` rule
    without `except`; it names ONE rule subject, and its object list is non-empty, free of duplicates and consists of EXACTLY
    the rule objects `o` for which the pair (subject, `o`) is realised by no import (the query result is empty) -/
theorem missing_lines_are_missing (mt : Str → Str → Bool) (g : PGraph Str) (r : RuleState) (items : List Item)
    (h : (assertApplies mt r g).2 = .fail items) (dir : Bool) (ss subs os objs : List Filter)
    (hd : (convertAliases r.cfg).importDir = some dir)
    (hss : (convertAliases r.cfg).subjects = some ss) (hconv : convertFilters mt g.nodes ss = .ok subs)
    (hos : (convertAliases r.cfg).objects = some os) (hconvo : convertFilters mt g.nodes os = .ok objs) :
    ∀ s objsM d, Item.miss false s objsM d ∈ items →
      (((convertAliases r.cfg).behavior.should || (convertAliases r.cfg).behavior.shouldOnly) &&
        !(convertAliases r.cfg).behavior.exc) = true ∧ d = !dir ∧
      s.toFilter ∈ subs ∧ objsM ≠ [] ∧ objsM.Nodup ∧
      ∀ o, o ∈ objsM ↔ (o.toFilter ∈ objs ∧ pairQuery g dir s.toFilter o.toFilter = .ok []) :=
  Pta.missing_lines_are_missing_lemma mt g r items h dir ss subs os objs hd hss hconv hos hconvo

/-- the `any module that is not …` form appears only for a `should` / `should_only` rule WITH `except`; it names one rule
    subject whose "other" query found no import at all, and lists ALL rule objects (in rule order, without duplicates) -/
theorem missing_any_lines_are_missing (mt : Str → Str → Bool) (g : PGraph Str) (r : RuleState) (items : List Item)
    (h : (assertApplies mt r g).2 = .fail items) (dir : Bool) (ss subs os objs : List Filter)
    (hd : (convertAliases r.cfg).importDir = some dir)
    (hss : (convertAliases r.cfg).subjects = some ss) (hconv : convertFilters mt g.nodes ss = .ok subs)
    (hos : (convertAliases r.cfg).objects = some os) (hconvo : convertFilters mt g.nodes os = .ok objs) :
    ∀ s objsM d, Item.miss true s objsM d ∈ items →
      (((convertAliases r.cfg).behavior.should || (convertAliases r.cfg).behavior.shouldOnly) &&
        (convertAliases r.cfg).behavior.exc) = true ∧ d = !dir ∧
      s.toFilter ∈ subs ∧ objsM = dedup (objs.map Filter.toMod) ∧ otherQuery g dir s.toFilter objs = .ok [] :=
  Pta.missing_any_lines_are_missing_lemma mt g r items h dir ss subs os objs hd hss hconv hos hconvo

/-- `one_missing_line_per_subject`: two `does not import` lines of the same form for the same subject are the same line
    (same objects, same wording) … -/
theorem one_missing_line_per_subject (mt : Str → Str → Bool) (g : PGraph Str) (r : RuleState) (items : List Item)
    (h : (assertApplies mt r g).2 = .fail items) :
    ∀ any s os₁ d₁ os₂ d₂, Item.miss any s os₁ d₁ ∈ items → Item.miss any s os₂ d₂ ∈ items → os₁ = os₂ ∧ d₁ = d₂ :=
  Pta.missing_line_unique_lemma mt g r items h

/-- … and the report holds at most ONE such item per (form, subject) for a rule with a single verb.  A rule object that
    carries both `should()` and `should_only()` (accepted by the library: not contradictory) produces the identical item
    twice — see `missing_line_twice_witness`; the message text is de-duplicated (`line_of_item`), so the text has one line -/
theorem missing_line_count (mt : Str → Str → Bool) (g : PGraph Str) (r : RuleState) (items : List Item)
    (h : (assertApplies mt r g).2 = .fail items) (any : Bool) (s : Mod) :
    items.countP (Item.isMissFor any s) ≤
      if ((convertAliases r.cfg).behavior.should && (convertAliases r.cfg).behavior.shouldOnly) = true then 2 else 1 :=
  Pta.missing_line_count_lemma mt g r items h any s

/-- `missing_lines_complete`: for a `should` / `should_only` rule without `except`, every pair (rule subject, rule object)
    that no import realises is reported, on the line of that subject -/
theorem missing_lines_complete (mt : Str → Str → Bool) (g : PGraph Str) (r : RuleState) (items : List Item)
    (h : (assertApplies mt r g).2 = .fail items) (dir : Bool) (ss subs os objs : List Filter)
    (hd : (convertAliases r.cfg).importDir = some dir)
    (hss : (convertAliases r.cfg).subjects = some ss) (hconv : convertFilters mt g.nodes ss = .ok subs)
    (hos : (convertAliases r.cfg).objects = some os) (hconvo : convertFilters mt g.nodes os = .ok objs)
    (hverb : (((convertAliases r.cfg).behavior.should || (convertAliases r.cfg).behavior.shouldOnly) &&
        !(convertAliases r.cfg).behavior.exc) = true) :
    ∀ s ∈ subs, ∀ o ∈ objs, pairQuery g dir s o = .ok [] →
      ∃ objsM, Item.miss false s.toMod objsM (!dir) ∈ items ∧ o.toMod ∈ objsM :=
  Pta.missing_lines_complete_lemma mt g r items h dir ss subs os objs hd hss hconv hos hconvo hverb

/-- … and for a `should` / `should_only` rule with `except`, every rule subject without any other import is reported -/
theorem missing_any_lines_complete (mt : Str → Str → Bool) (g : PGraph Str) (r : RuleState) (items : List Item)
    (h : (assertApplies mt r g).2 = .fail items) (dir : Bool) (ss subs os objs : List Filter)
    (hd : (convertAliases r.cfg).importDir = some dir)
    (hss : (convertAliases r.cfg).subjects = some ss) (hconv : convertFilters mt g.nodes ss = .ok subs)
    (hos : (convertAliases r.cfg).objects = some os) (hconvo : convertFilters mt g.nodes os = .ok objs)
    (hverb : (((convertAliases r.cfg).behavior.should || (convertAliases r.cfg).behavior.shouldOnly) &&
        (convertAliases r.cfg).behavior.exc) = true) :
    ∀ s ∈ subs, otherQuery g dir s objs = .ok [] →
      Item.miss true s.toMod (dedup (objs.map Filter.toMod)) (!dir) ∈ items :=
  Pta.missing_any_lines_complete_lemma mt g r items h dir ss subs os objs hd hss hconv hos hconvo hverb

/-- what "the query for the pair is empty" means on the graph: both modules exist and NO import runs from the sub tree of
    the importer into the sub tree of the importee (`dir = true`: the subject imports; the parent identifiers of
    `are_sub_modules_of` filters themselves are not counted) -/
theorem pair_query_empty_iff (g : PGraph Str) (dir : Bool) (s o : Filter) :
    pairQuery g dir s o = .ok [] ↔
      g.hasNode s.id = true ∧ g.hasNode o.id = true ∧
      ∀ u v, Reach g s.id u → Reach g o.id v → u ∉ parentIds [s, o] → v ∉ parentIds [s, o] →
        ¬ (if dir = true then v ∈ g.importSuccs u else u ∈ g.importSuccs v) :=
  Pta.pairQuery_nil_iff_lemma g dir s o

/-- what "the other query is empty" means: every import leaving (`dir = true`) the sub tree of the subject ends inside
    that sub tree or inside the sub tree of a rule object -/
theorem other_query_empty_from (g : PGraph Str) (s : Filter) (objs : List Filter)
    (h : otherQuery g true s objs = .ok []) :
    ∀ u v, Reach g s.id u → (s.isParent = true → u ≠ s.id) → v ∈ g.importSuccs u →
      Reach g s.id v ∨ ((∃ o ∈ objs, o ≠ s ∧ Reach g o.id v) ∧ v ∉ parentIds objs) :=
  Pta.otherQuery_from_nil_lemma g s objs h

/-- … and every import entering it (`dir = false`) starts inside it or inside the sub tree of a rule object -/
theorem other_query_empty_to (g : PGraph Str) (s : Filter) (objs : List Filter)
    (h : otherQuery g false s objs = .ok []) :
    ∀ p n, Reach g s.id n → (s.isParent = true → n ≠ s.id) → n ∈ g.importSuccs p →
      (Reach g s.id p ∧ (s.isParent = true → p ≠ s.id)) ∨
        ((∃ o ∈ objs, o ≠ s ∧ Reach g o.id p) ∧ p ∉ parentIds objs) :=
  Pta.otherQuery_to_nil_lemma g s objs h

/-! non-vacuity: `p.a`, `p.c` should only import `q.r`, `p.b` — `p.c` imports both, `p.a` neither (and `p.a.x` imports `q`) -/
def mG : PGraph Str :=
  buildGraph ["p".toList, "p.a".toList, "p.a.x".toList, "p.b".toList, "p.c".toList, "q".toList, "q.r".toList]
    [absImport "p.a.x".toList "q".toList, absImport "p.c".toList "p.b".toList, absImport "p.c".toList "q.r".toList] none
def mSubs : List Filter := [.name "p.a".toList, .name "p.c".toList]
def mObjs : List Filter := [.name "q.r".toList, .name "p.b".toList]
def mRule (should only exc : Bool) : RuleState :=
  { cfg := { subjects := some mSubs, objects := some mObjs, should := should, shouldOnly := only, exceptPresent := exc,
             importDir := some true } }
def mNone : Str → Str → Bool := fun _ _ => false

set_option maxRecDepth 8000 in
example : (assertApplies mNone (mRule false true false) mG).2 = .fail
    [.imp "p.a.x".toList "q".toList false,
     .miss false ⟨false, "p.a".toList⟩ [⟨false, "q.r".toList⟩, ⟨false, "p.b".toList⟩] false] := by decide
set_option maxRecDepth 8000 in
example : (convertAliases (mRule false true false).cfg).importDir = some true ∧
    (convertAliases (mRule false true false).cfg).subjects = some mSubs ∧ convertFilters mNone mG.nodes mSubs = .ok mSubs ∧
    (convertAliases (mRule false true false).cfg).objects = some mObjs ∧ convertFilters mNone mG.nodes mObjs = .ok mObjs :=
  ⟨rfl, rfl, rfl, rfl, rfl⟩
set_option maxRecDepth 8000 in
example : pairQuery mG true (.name "p.a".toList) (.name "q.r".toList) = .ok [] ∧
    pairQuery mG true (.name "p.c".toList) (.name "q.r".toList) = .ok [("p.c".toList, "q.r".toList)] := ⟨rfl, rfl⟩
-- the `except` form: `p.c` imports nothing but the objects `q.r` and `p.b`
set_option maxRecDepth 8000 in
example : (assertApplies mNone (mRule true false true) mG).2 = .fail
    [.miss true ⟨false, "p.c".toList⟩ [⟨false, "q.r".toList⟩, ⟨false, "p.b".toList⟩] false] := by decide
set_option maxRecDepth 8000 in
example : otherQuery mG true (.name "p.c".toList) mObjs = .ok [] := rfl
-- the verb hypotheses of `missing_lines_complete` (rule `should only`) and `missing_any_lines_complete` (rule `should … except`)
example : (((convertAliases (mRule false true false).cfg).behavior.should || (convertAliases (mRule false true false).cfg).behavior.shouldOnly) &&
    !(convertAliases (mRule false true false).cfg).behavior.exc) = true := rfl
example : (((convertAliases (mRule true false true).cfg).behavior.should || (convertAliases (mRule true false true).cfg).behavior.shouldOnly) &&
    (convertAliases (mRule true false true).cfg).behavior.exc) = true ∧
    (convertAliases (mRule true false true).cfg).importDir = some true ∧
    (convertAliases (mRule true false true).cfg).subjects = some mSubs ∧
    (convertAliases (mRule true false true).cfg).objects = some mObjs := ⟨rfl, rfl, rfl, rfl⟩
set_option maxRecDepth 8000 in
/-- a rule object carrying both `should()` and `should_only()` lists the identical `does not import` item twice -/
theorem missing_line_twice_witness :
    (assertApplies mNone (mRule true true false) mG).2 = .fail
      [.miss false ⟨false, "p.a".toList⟩ [⟨false, "q.r".toList⟩, ⟨false, "p.b".toList⟩] false,
       .imp "p.a.x".toList "q".toList false,
       .miss false ⟨false, "p.a".toList⟩ [⟨false, "q.r".toList⟩, ⟨false, "p.b".toList⟩] false] := by decide

/-! ## Part 3: the message text -/

/-- `line_of_item`: the lines of the message (`create_rule_violation_messages`, a sorted list without duplicates) are
    exactly the renderings of the report items; the two determine each other as sets -/
theorem line_of_item (importRule : Bool) (v : Violations) :
    messageLines importRule v = renderItems (reportItems importRule v) ∧
    ∀ line, line ∈ messageLines importRule v ↔ ∃ x ∈ reportItems importRule v, renderItem x = line :=
  ⟨Pta.messageLines_eq_lemma importRule v, fun line => by
    rw [Pta.messageLines_eq_lemma]; exact Pta.mem_renderItems _ line⟩

/-- `assert_applies` with the message text is `assert_applies` with the report items, the items rendered
    (same rule state, same outcome class, same error) -/
theorem assert_text_eq (mt : Str → Str → Bool) (r : RuleState) (g : PGraph Str) :
    assertAppliesText mt r g = ((assertApplies mt r g).1, (assertApplies mt r g).2.toText) :=
  Pta.assertAppliesText_eq_lemma mt r g

/-- the same for a whole call chain (what the driver prints as `M=` and `T=`) -/
theorem run_text_eq (glob : Str → Str) (mt : Str → Str → Bool) (ops : List RuleOp) (g : PGraph Str) :
    runRuleOpsText glob mt ops g = ((runRuleOps glob mt ops g).1.toText, (runRuleOps glob mt ops g).2) :=
  Pta.runRuleOpsText_eq_lemma glob mt ops g

/-- `parse_render`: the parser inverts the renderer on every item whose names contain no `"` and, for a
    `does not import` item, that has at least one object (`Item.parsable`) -/
theorem parse_render (x : Item) (h : x.parsable = true) : parseLine (renderLine x) = some x :=
  Pta.parseLine_renderLine_lemma x h

/-- for a report item: its message line parses to the item, the objects in the order the line lists them -/
theorem parse_render_item (x : Item) (h : x.canon.parsable = true) : parseLine (renderItem x) = some x.canon :=
  Pta.parseLine_renderLine_lemma x.canon h

/-- `text_lines_are_imports`: every line `"X" imports "Y".` and every line `"X" is imported by "Y".` of the message
    (X, Y without `"`) names an import edge of the graph, one end of which lies in the sub tree of a rule subject -/
theorem text_lines_are_imports (mt : Str → Str → Bool) (g : PGraph Str) (r : RuleState) (lines : List Str)
    (h : (assertAppliesText mt r g).2 = .fail lines) (ss subs : List Filter)
    (hss : (convertAliases r.cfg).subjects = some ss) (hconv : convertFilters mt g.nodes ss = .ok subs)
    (X Y : Str) (hX : noQuote X = true) (hY : noQuote Y = true) :
    (quoted X ++ " imports ".toList ++ quoted Y ++ ".".toList ∈ lines →
      Y ∈ g.importSuccs X ∧ ∃ s ∈ subs, Reach g s.id X ∨ Reach g s.id Y) ∧
    (quoted X ++ " is imported by ".toList ++ quoted Y ++ ".".toList ∈ lines →
      X ∈ g.importSuccs Y ∧ ∃ s ∈ subs, Reach g s.id Y ∨ Reach g s.id X) := by
  obtain ⟨items, hi, rfl⟩ := Pta.assertAppliesText_fail_lemma mt r g lines h
  have hne := Pta.assertApplies_fail_objs_ne_nil mt g r items hi
  constructor
  · intro hl
    have hm : Item.imp X Y false ∈ items := by
      apply Pta.imp_line_mem_lemma items hne X Y false hX hY
      simpa [renderLine, List.append_assoc] using hl
    exact ⟨reported_imports_are_imports mt g r items hi _ _ _ hm,
      reported_imports_touch_subject mt g r items hi ss subs hss hconv _ _ _ hm⟩
  · intro hl
    have hm : Item.imp Y X true ∈ items := by
      apply Pta.imp_line_mem_lemma items hne Y X true hY hX
      simpa [renderLine, List.append_assoc] using hl
    exact ⟨reported_imports_are_imports mt g r items hi _ _ _ hm,
      reported_imports_touch_subject mt g r items hi ss subs hss hconv _ _ _ hm⟩

/-- `text_lines_shape`: EVERY line of the message has one of the four shapes and says something true — it is
    `"u" imports "v".` / `"v" is imported by "u".` for an import edge u → v of the graph with an end in a subject's sub tree,
    or a `does not import` / `is not imported by` line that names one rule subject and a non-empty list of rule objects -/
theorem text_lines_shape (mt : Str → Str → Bool) (g : PGraph Str) (r : RuleState) (lines : List Str)
    (h : (assertAppliesText mt r g).2 = .fail lines) (ss subs os objs : List Filter)
    (hss : (convertAliases r.cfg).subjects = some ss) (hconv : convertFilters mt g.nodes ss = .ok subs)
    (hos : (convertAliases r.cfg).objects = some os) (hconvo : convertFilters mt g.nodes os = .ok objs) :
    ∀ line ∈ lines,
      (∃ u v d, line = renderLine (.imp u v d) ∧ v ∈ g.importSuccs u ∧ ∃ s ∈ subs, Reach g s.id u ∨ Reach g s.id v) ∨
      (∃ any s objsM d, line = renderLine (.miss any s objsM d) ∧ s ∈ subs.map Filter.toMod ∧ objsM ≠ [] ∧
        ∀ o ∈ objsM, o ∈ objs.map Filter.toMod) := by
  obtain ⟨items, hi, rfl⟩ := Pta.assertAppliesText_fail_lemma mt r g lines h
  have hne := Pta.assertApplies_fail_objs_ne_nil mt g r items hi
  intro line hl
  obtain ⟨x, hx, rfl⟩ := (Pta.mem_renderItems items line).1 hl
  cases x with
  | imp u v d =>
    exact .inl ⟨u, v, d, rfl, reported_imports_are_imports mt g r items hi _ _ _ hx,
      reported_imports_touch_subject mt g r items hi ss subs hss hconv _ _ _ hx⟩
  | miss any s objsM d =>
    obtain ⟨h1, h2⟩ := missing_lines_name_subjects mt g r items hi ss subs os objs hss hconv hos hconvo _ _ _ _ hx
    refine .inr ⟨any, s, sortObjs objsM, d, rfl, h1, Pta.sortObjs_ne_nil _ (hne _ hx _ _ _ _ rfl), ?_⟩
    intro o ho
    exact h2 o ((Pta.Dg.sortBy_perm _ objsM).mem_iff.1 ho)

/-! non-vacuity: a graph, a `should only import` rule with two subjects, the literal message, its parse -/
def S (s : String) : Str := s.toList
def exG : PGraph Str :=
  buildGraph [S "p", S "p.a", S "p.a.x", S "p.b", S "p.c", S "q", S "q.r"]
    [absImport (S "p.a.x") (S "q"), absImport (S "p.c") (S "p.b"), absImport (S "p.c") (S "q.r")] none
def exRule : RuleState :=
  { cfg := { subjects := some [.name (S "p.a"), .name (S "p.c")], objects := some [.name (S "q.r"), .name (S "p.b")],
             shouldOnly := true, importDir := some true } }
set_option maxRecDepth 8000 in
example : (assertAppliesText (fun _ _ => false) exRule exG).2 = .fail
    [S "\"p.a\" does not import \"p.b\", \"q.r\".", S "\"p.a.x\" imports \"q\"."] := by decide
example : messageText [S "\"p.a\" does not import \"p.b\", \"q.r\".", S "\"p.a.x\" imports \"q\"."] =
    S "\"p.a\" does not import \"p.b\", \"q.r\".\n\"p.a.x\" imports \"q\"." := by decide
set_option maxRecDepth 8000 in
example : (convertAliases exRule.cfg).subjects = some [.name (S "p.a"), .name (S "p.c")] ∧
    convertFilters (fun _ _ => false) exG.nodes [.name (S "p.a"), .name (S "p.c")] = .ok [.name (S "p.a"), .name (S "p.c")] ∧
    (convertAliases exRule.cfg).objects = some [.name (S "q.r"), .name (S "p.b")] ∧
    convertFilters (fun _ _ => false) exG.nodes [.name (S "q.r"), .name (S "p.b")] = .ok [.name (S "q.r"), .name (S "p.b")] :=
  ⟨rfl, rfl, rfl, rfl⟩
example : noQuote (S "p.a.x") = true ∧ noQuote (S "q") = true ∧
    quoted (S "p.a.x") ++ " imports ".toList ++ quoted (S "q") ++ ".".toList ∈
      [S "\"p.a\" does not import \"p.b\", \"q.r\".", S "\"p.a.x\" imports \"q\"."] := by decide
example : parseLine (S "\"p.a\" does not import \"p.b\", \"q.r\".") =
    some (.miss false ⟨false, S "p.a"⟩ [⟨false, S "p.b"⟩, ⟨false, S "q.r"⟩] false) := by decide
example : (Item.miss true ⟨true, S "p.a"⟩ [⟨true, S "q"⟩, ⟨false, S "p b"⟩] true).parsable = true ∧
    renderLine (.miss true ⟨true, S "p.a"⟩ [⟨true, S "q"⟩, ⟨false, S "p b"⟩] true) =
      S "Sub modules of \"p.a\" are not imported by any module that is not a sub module of \"q\", \"p b\"." := by decide
/-- the hypothesis of `text_lines_are_imports` (X, Y free of `"`) cannot be dropped: with a module whose name is
    ` imports ` a `does not import` line also has the shape `"X" imports "Y".` for an X that is no module at all -/
example : renderLine (.miss false ⟨false, S "a"⟩ [⟨false, S " imports "⟩, ⟨false, S "y"⟩] false) =
    quoted (S "a\" does not import ") ++ " imports ".toList ++ quoted (S ", \"y") ++ ".".toList := by decide

/-! ## Part 3, layer rules -/

/-- `line_of_item` for layer rules: the text generator raises `LayerMismatch` exactly when the item generator does,
    and otherwise the message lines are the renderings of the layer report items, sorted and without duplicates -/
theorem layer_line_of_item (m : LayerMap) (importRule : Bool) (v : Violations) :
    messageLinesL m importRule v = (reportItemsL m importRule v).map renderLItems :=
  Pta.messageLinesL_eq_lemma m importRule v

/-- `LayerRule.assert_applies` with the message text is the item-valued one, the items rendered -/
theorem layer_assert_text_eq (mt : Str → Str → Bool) (s : LayerRuleState) (g : PGraph Str) :
    assertAppliesLayerText mt s g = (assertAppliesLayer mt s g).toText :=
  Pta.assertAppliesLayerText_eq_lemma mt s g

/-- the same for a whole call chain (what the driver prints as `M=` and `T=` of a `layer` request) -/
theorem layer_run_text_eq (mt : Str → Str → Bool) (ops : List LayerRuleOp) (g : PGraph Str) :
    runLayerRuleOpsText mt ops g = ((runLayerRuleOps mt ops g).1.toText, (runLayerRuleOps mt ops g).2) :=
  Pta.runLayerRuleOpsText_eq_lemma mt ops g

/-! non-vacuity: three layers, `layers that are named "A" should only access layers that are named "C"` -/
def exLG : PGraph Str :=
  buildGraph [S "p", S "p.a", S "p.a.x", S "q", S "s", S "r"]
    [absImport (S "p.a.x") (S "q"), absImport (S "p.a") (S "s")] none
def exLRule : LayerRuleState :=
  { arch := some [(S "A", [.name (S "p.a")]), (S "B", [.name (S "q")]), (S "C", [.name (S "r")])],
    rule := some { cfg := { subjects := some [.name (S "p.a")], objects := some [.name (S "r")],
                            shouldOnly := true, importDir := some true } } }
set_option maxRecDepth 8000 in
example : assertAppliesLayerText (fun _ _ => false) exLRule exLG = .fail
    [S "\"p.a\" (layer \"A\") imports \"s\" (no layer).", S "\"p.a.x\" (layer \"A\") imports \"q\" (layer \"B\").",
     S "Layer \"A\" does not import layer \"C\"."] := by decide
example : renderLItem (.miss true (some (S "A!")) [some (S "A!"), some (S "A"), some (S "a b")] true) =
    S "Layer \"A!\" is not imported by any layer that is not layer \"A\", layer \"A!\", layer \"a b\"." := by decide

end Pta.C03
