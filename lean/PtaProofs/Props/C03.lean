/-
  PtaProofs.Props.C03 — violation reports (property C03). Part 1 (this file, every graph and every rule, related
  names and regexes included): each reported `X imports Y` / `X is imported by Y` line is a real import edge of the
  graph, and one of its ends lies in the sub tree of a rule subject — no import unrelated to the rule's subject is
  ever reported. Part 2 (set equality with the specification's violating set on the strict domain) is
  `Pta.C01.report_spec` in Props/C01.lean.
-/
import Bridge.Abs
import PtaProofs.Lemmas.SearchChar
namespace Pta.C03
open Pta

/-- every reported import is an import edge of the graph (importer → importee) -/
theorem reported_imports_are_imports (mt : Str → Str → Bool) (g : PGraph Str) (r : RuleState) (items : List Item)
    (h : (assertApplies mt r g).2 = .fail items) :
    ∀ u v d, Item.imp u v d ∈ items → v ∈ g.importSuccs u :=
  Pta.reported_imports_are_imports_lemma mt g r items h

/-- every reported import has an end inside the sub tree of one of the rule's (expanded) subjects -/
theorem reported_imports_touch_subject (mt : Str → Str → Bool) (g : PGraph Str) (r : RuleState) (items : List Item)
    (h : (assertApplies mt r g).2 = .fail items) (ss subs : List Filter)
    (hss : (convertAliases r.cfg).subjects = some ss) (hconv : convertFilters mt g.nodes ss = .ok subs) :
    ∀ u v d, Item.imp u v d ∈ items → ∃ s ∈ subs, Reach g s.id u ∨ Reach g s.id v :=
  Pta.reported_imports_touch_subject_lemma mt g r items h ss subs hss hconv

/-- every `does not import` line names a rule subject and objects of the rule -/
theorem missing_lines_name_subjects (mt : Str → Str → Bool) (g : PGraph Str) (r : RuleState) (items : List Item)
    (h : (assertApplies mt r g).2 = .fail items) (ss subs os objs : List Filter)
    (hss : (convertAliases r.cfg).subjects = some ss) (hconv : convertFilters mt g.nodes ss = .ok subs)
    (hos : (convertAliases r.cfg).objects = some os) (hconvo : convertFilters mt g.nodes os = .ok objs) :
    ∀ any s objsM d, Item.miss any s objsM d ∈ items → s ∈ subs.map Filter.toMod ∧ ∀ o ∈ objsM, o ∈ objs.map Filter.toMod :=
  Pta.missing_lines_name_subjects_lemma mt g r items h ss subs os objs hss hconv hos hconvo

end Pta.C03
