/-
  PtaProofs.Props.E2E — END-TO-END theorem for module rules on SCANNED architectures: C04 (walk / graph), C02 (import
  edges) and C01 (verdict = documented semantics) composed.

  For a directory tree `entries` (well-formed as far as the scan from `module_path` can see it), the default options
  (external modules excluded, no level limit, no external exclusions; ANY exclusion patterns) and parser-producible
  import statements: if the specification's `scanImports` has an answer `is`, then the model of
  `get_evaluable_architecture(root, module_path)` succeeds with a graph `g`, and for EVERY strict rule `r` whose names
  are scanned modules the verdict of the model of `Rule(...).assert_applies(g)` is the documented semantics
  (`PtaSpec.verdict`) evaluated on the SPECIFICATION architecture of the tree,

      scanArch = ⟨ scanModules root sentries mp ,  is ⟩ ,

  i.e. on the modules of the directory tree (PtaSpec/ScanSem.lean, property C04) and the imports the import
  statements account for (property C02); the failure report has exactly the atoms of `PtaSpec.violating` there.
  If `scanImports` has no answer (a relative import reaching above the root) the scan raises and no rule is evaluated.

  `Arch.wf scanArch` — the standing hypothesis of C01 — is a CONSEQUENCE here (`scan_arch_wf`), including its clause
  "an importer is not a strict ancestor of its importee": importers are `.py` files, and on a `treeWFFor` tree a
  file's module has no descendants. Without `treeWFFor` (a file `x.py` next to a directory `x`) that clause fails
  and so does the end-to-end statement (`collision_needs_treeWF`).
-/
import Bridge.Abs
import Bridge.ScanAbs
import Bridge.ScanTree
import PtaProofs.Lemmas.Semantics
import PtaProofs.Lemmas.E2ERule
namespace Pta.E2E
open Pta PtaSpec

/-- the specification architecture of a scan: modules of the directory tree, imports of the import statements -/
abbrev scanArch (root : Comp) (sentries : List SEntry) (mp : List Comp) (is : List (Name × Name)) : Arch :=
  ⟨scanModules root sentries mp, is⟩

/-! ### the rule semantics do not depend on the representation of the architecture -/

/-- `verdict` depends on the imports only as a set (order, duplicates irrelevant) and not on the node list -/
theorem verdict_congr_imports (a b : Arch) (h : ∀ e, e ∈ a.imports ↔ e ∈ b.imports) (r : RuleSpec) :
    verdict a r = verdict b r :=
  E2ERule.verdict_congr_imports a b h r

/-- `violating` likewise (same items, hence same report atoms) -/
theorem violating_congr_imports (a b : Arch) (h : ∀ e, e ∈ a.imports ↔ e ∈ b.imports) (r : RuleSpec) :
    (∀ y, y ∈ violating a r ↔ y ∈ violating b r) ∧
    ∀ x, x ∈ (violating a r).flatMap SItem.atoms ↔ x ∈ (violating b r).flatMap SItem.atoms :=
  ⟨E2ERule.violating_congr_imports a b h r, E2ERule.violating_atoms_congr a b h r⟩

section tree
variable (mt : Str → Str → Bool) (base root : Str) (mp : List Str) (entries : List Entry) (o : ScanOptions)
  (hwf : treeWFFor (isExcluded mt o.exclusions) base mp entries = true) (hmp : mpOK entries mp = true)
  (hroot : compWF root = true)
  (hxx : o.excludeExternal = true) (hlim : o.levelLimit = none) (hext : o.externalExclusions.isEmpty = true)
  (hst : ∀ e ∈ entries, ∀ st ∈ e.stmts, stmtOK (toSStmt st) = true)
  (is : List (Name × Name))
  (his : scanImports root (toSEntries (isExcluded mt o.exclusions) base entries) mp = some is)
include hwf hmp hroot hxx hlim hext hst his

/-- C04 ∘ C02: the scan succeeds and its graph is a graph of the (well-formed) specification architecture -/
theorem scan_graph_of_scanArch :
    ∃ g, generateGraph mt base root mp entries o = .ok g ∧
      (scanArch root (toSEntries (isExcluded mt o.exclusions) base entries) mp is).wf = true ∧
      GraphOf (scanArch root (toSEntries (isExcluded mt o.exclusions) base entries) mp is) g :=
  E2ERule.scan_spec_arch_lemma mt base root mp entries o hwf hmp hroot hxx hlim hext hst is his

/-- the standing hypothesis of C01 is discharged for scanned trees: modules duplicate-free, well-formed, closed under
    ancestors; every import joins two distinct scanned modules and never goes from a module to its own descendant -/
theorem scan_arch_wf :
    (scanArch root (toSEntries (isExcluded mt o.exclusions) base entries) mp is).wf = true := by
  obtain ⟨_, -, h, -⟩ := E2ERule.scan_spec_arch_lemma mt base root mp entries o hwf hmp hroot hxx hlim hext hst is his
  exact h

/-- END-TO-END, verdict: `Rule(...).assert_applies(get_evaluable_architecture(root, module_path))` passes exactly
    when the documented semantics hold on the modules of the directory tree and the imports its import statements
    account for, and raises AssertionError exactly when they do not — for every strict rule (all 12 shapes and the
    `anything` aliases, any number of subjects / objects, both filter kinds) whose names are scanned modules, and every
    regex matcher `mt'` (irrelevant for such rules). -/
theorem scan_rule_verdict :
    ∃ g, generateGraph mt base root mp entries o = .ok g ∧
      ∀ (mt' : Str → Str → Bool) (r : RuleSpec), r.strict = true →
        r.namesIn (scanArch root (toSEntries (isExcluded mt o.exclusions) base entries) mp is) = true →
        r.subjects ≠ [] → (r.anything = true ∨ r.objects ≠ []) → (r.anything = true → r.verb = .shouldNot) →
        verdictOf mt' g (compile r) =
          VClass.ofBool (verdict (scanArch root (toSEntries (isExcluded mt o.exclusions) base entries) mp is) r) := by
  obtain ⟨g, hgen, hawf, hg⟩ :=
    E2ERule.scan_spec_arch_lemma mt base root mp entries o hwf hmp hroot hxx hlim hext hst is his
  exact ⟨g, hgen, fun mt' r hstrict hnames hs ho hany =>
    Pta.verdict_spec_of_graph_lemma mt' _ g hg hawf r hstrict hnames hs ho hany⟩

/-- END-TO-END, report: when the rule fails, the atoms of the reported violations are exactly the atoms of the
    specification's violating set on the specification architecture of the tree -/
theorem scan_rule_report :
    ∃ g, generateGraph mt base root mp entries o = .ok g ∧
      ∀ (mt' : Str → Str → Bool) (r : RuleSpec), r.strict = true →
        r.namesIn (scanArch root (toSEntries (isExcluded mt o.exclusions) base entries) mp is) = true →
        r.subjects ≠ [] → (r.anything = true ∨ r.objects ≠ []) → (r.anything = true → r.verb = .shouldNot) →
        ∀ items, (assertApplies mt' (compile r) g).2 = .fail items →
          ∀ x, x ∈ items.flatMap Item.atoms ↔
            x ∈ (violating (scanArch root (toSEntries (isExcluded mt o.exclusions) base entries) mp is) r).flatMap
              SItem.atoms := by
  obtain ⟨g, hgen, hawf, hg⟩ :=
    E2ERule.scan_spec_arch_lemma mt base root mp entries o hwf hmp hroot hxx hlim hext hst is his
  exact ⟨g, hgen, fun mt' r hstrict hnames hs ho hany items h =>
    Pta.report_spec_lemma mt' _ g hg hawf r hstrict hnames hs ho hany items h⟩

/-- the same for ANY presentation of the import set (e.g. de-duplicated, or the architecture read off the graph):
    only the set of imports matters -/
theorem scan_rule_verdict_set (a : Arch) (ha : ∀ e, e ∈ a.imports ↔ e ∈ is) :
    ∃ g, generateGraph mt base root mp entries o = .ok g ∧
      ∀ (mt' : Str → Str → Bool) (r : RuleSpec), r.strict = true →
        r.namesIn (scanArch root (toSEntries (isExcluded mt o.exclusions) base entries) mp is) = true →
        r.subjects ≠ [] → (r.anything = true ∨ r.objects ≠ []) → (r.anything = true → r.verb = .shouldNot) →
        verdictOf mt' g (compile r) = VClass.ofBool (verdict a r) := by
  obtain ⟨g, hgen, hawf, hg⟩ :=
    E2ERule.scan_spec_arch_lemma mt base root mp entries o hwf hmp hroot hxx hlim hext hst is his
  refine ⟨g, hgen, fun mt' r hstrict hnames hs ho hany => ?_⟩
  rw [E2ERule.verdict_congr_imports a
    (scanArch root (toSEntries (isExcluded mt o.exclusions) base entries) mp is) ha r]
  exact Pta.verdict_spec_of_graph_lemma mt' _ g hg hawf r hstrict hnames hs ho hany

end tree

/-- END-TO-END, both cases in one statement: the scan raises (LookupError / IndexError) exactly when the
    specification has no import list (a relative import reaching above the root); otherwise it yields a graph on
    which every strict rule over scanned modules has the documented verdict -/
theorem scan_rule_total (mt : Str → Str → Bool) (base root : Str) (mp : List Str) (entries : List Entry) (o : ScanOptions)
    (hwf : treeWFFor (isExcluded mt o.exclusions) base mp entries = true) (hmp : mpOK entries mp = true)
    (hroot : compWF root = true)
    (hxx : o.excludeExternal = true) (hlim : o.levelLimit = none) (hext : o.externalExclusions.isEmpty = true)
    (hst : ∀ e ∈ entries, ∀ st ∈ e.stmts, stmtOK (toSStmt st) = true) :
    match scanImports root (toSEntries (isExcluded mt o.exclusions) base entries) mp with
    | none => generateGraph mt base root mp entries o = .error .lookupError
    | some is => ∃ g, generateGraph mt base root mp entries o = .ok g ∧
        ∀ (mt' : Str → Str → Bool) (r : RuleSpec), r.strict = true →
          r.namesIn (scanArch root (toSEntries (isExcluded mt o.exclusions) base entries) mp is) = true →
          r.subjects ≠ [] → (r.anything = true ∨ r.objects ≠ []) → (r.anything = true → r.verb = .shouldNot) →
          verdictOf mt' g (compile r) =
            VClass.ofBool (verdict (scanArch root (toSEntries (isExcluded mt o.exclusions) base entries) mp is) r) := by
  cases his : scanImports root (toSEntries (isExcluded mt o.exclusions) base entries) mp with
  | none =>
    have h := ScanCompose.scan_imports_tree_lemma (root := root) hwf hmp hroot hxx hlim hext hst
    rw [his] at h
    exact h
  | some is => exact scan_rule_verdict mt base root mp entries o hwf hmp hroot hxx hlim hext hst is his

/-! ### non-vacuity: a concrete tree, strict rules, all hypotheses met, both sides evaluated -/

def s (x : String) : Str := x.toList
def nm (x : String) : Name := splitDots x.toList
def noRe : Str → Str → Bool := fun _ _ => false

/-- `r/a/` with `m.py` (`from . import k`, `from .. import a`, `import r.b, os`) and `k.py`; `r/b.py`
    (`from .a import k, zz`); an excluded directory `r/cache/` holding things the scan must not see (a dotted
    directory, an `x.py` next to `x/`, a file importing above the root) — the tree of Props/C02.lean -/
def exTree : List Entry :=
  [ { rel := [s "a"], isDir := true },
    { rel := [s "a", s "m.py"], isDir := false,
      stmts := [.impFrom none [s "k"] 1, .impFrom none [s "a"] 2, .imp [s "r.b", s "os"]] },
    { rel := [s "a", s "k.py"], isDir := false },
    { rel := [s "b.py"], isDir := false, stmts := [.impFrom (some (s "a")) [s "k", s "zz"] 1] },
    { rel := [s "cache"], isDir := true },
    { rel := [s "cache", s "v1.2"], isDir := true },
    { rel := [s "cache", s "x"], isDir := true },
    { rel := [s "cache", s "x.py"], isDir := false, stmts := [.impFrom none [s "y"] 7] } ]

def exOpts : ScanOptions := { exclusions := .globs [s "*cache"] }

/-- the specification's imports of the tree (with the import of the importer's own ancestor package `r.a`) -/
def exIs : List (Name × Name) :=
  [ (nm "r.a.m", nm "r.a.k"), (nm "r.a.m", nm "r.a"), (nm "r.a.m", nm "r.b"), (nm "r.b", nm "r.a.k"), (nm "r.b", nm "r.a") ]

/-- `r.b` should only import `r.a` — holds -/
def exPass : RuleSpec :=
  { verb := .shouldOnly, importDir := true, exc := false, subjects := [.named (nm "r.b")], objects := [.named (nm "r.a")] }
/-- sub modules of `r.a` should not import `r.b` — violated by `r.a.m → r.b` -/
def exFail : RuleSpec :=
  { verb := .shouldNot, importDir := true, exc := false, subjects := [.subOf (nm "r.a")], objects := [.named (nm "r.b")] }
/-- `r.a.k` and `r.b` should not be imported by anything (else) — violated -/
def exAny : RuleSpec :=
  { verb := .shouldNot, importDir := false, exc := false, subjects := [.named (nm "r.a.k"), .named (nm "r.b")],
    objects := [], anything := true }

/-- every hypothesis of the end-to-end theorems holds for the tree … -/
example :
    treeWFFor (isExcluded noRe exOpts.exclusions) (s "/x/r") [] exTree = true ∧ treeWF exTree = false ∧
    mpOK exTree [] = true ∧ compWF (s "r") = true ∧
    exOpts.excludeExternal = true ∧ exOpts.levelLimit = none ∧ exOpts.externalExclusions.isEmpty = true ∧
    (∀ e ∈ exTree, ∀ st ∈ e.stmts, stmtOK (toSStmt st) = true) := by decide

/-- … `scanImports` has an answer, and the specification's modules are as expected … -/
example :
    scanImports (s "r") (toSEntries (isExcluded noRe exOpts.exclusions) (s "/x/r") exTree) [] = some exIs ∧
    scanModules (s "r") (toSEntries (isExcluded noRe exOpts.exclusions) (s "/x/r") exTree) [] =
      [nm "r", nm "r.a", nm "r.a.m", nm "r.a.k", nm "r.b"] := by decide

/-- … and the rules meet the hypotheses on rules -/
example :
    ∀ r ∈ [exPass, exFail, exAny],
      r.strict = true ∧
      r.namesIn (scanArch (s "r") (toSEntries (isExcluded noRe exOpts.exclusions) (s "/x/r") exTree) [] exIs) = true ∧
      r.subjects ≠ [] ∧ (r.anything = true ∨ r.objects ≠ []) ∧ (r.anything = true → r.verb = .shouldNot) := by decide

set_option maxRecDepth 40000 in
/-- both sides evaluated: the model (scan, then `assert_applies`) and the specification agree, with a passing and
    two failing rules -/
example :
    (generateGraph noRe (s "/x/r") (s "r") [] exTree exOpts).toOption.map
        (fun g => [exPass, exFail, exAny].map fun r => verdictOf noRe g (compile r)) =
      some [.pass, .fail, .fail] ∧
    [exPass, exFail, exAny].map
        (verdict (scanArch (s "r") (toSEntries (isExcluded noRe exOpts.exclusions) (s "/x/r") exTree) [] exIs)) =
      [true, false, false] := by decide

/-- the sub-directory scan `module_path = r/a` of the same tree: hypotheses, specification, one rule, both sides
    (`r.b` is outside the scan; `r` is present as ancestor package) -/
def exSubRule : RuleSpec :=
  { verb := .should, importDir := true, exc := false, subjects := [.named (nm "r.a.m")], objects := [.named (nm "r.a.k")] }

set_option maxRecDepth 40000 in
example :
    treeWFFor (isExcluded noRe exOpts.exclusions) (s "/x/r") [s "a"] exTree = true ∧ mpOK exTree [s "a"] = true ∧
    scanImports (s "r") (toSEntries (isExcluded noRe exOpts.exclusions) (s "/x/r") exTree) [s "a"] =
      some [(nm "r.a.m", nm "r.a.k"), (nm "r.a.m", nm "r.a")] ∧
    exSubRule.strict = true ∧
    exSubRule.namesIn (scanArch (s "r") (toSEntries (isExcluded noRe exOpts.exclusions) (s "/x/r") exTree) [s "a"]
      [(nm "r.a.m", nm "r.a.k"), (nm "r.a.m", nm "r.a")]) = true ∧
    (generateGraph noRe (s "/x/r") (s "r") [s "a"] exTree exOpts).toOption.map
        (fun g => verdictOf noRe g (compile exSubRule)) = some .pass ∧
    verdict (scanArch (s "r") (toSEntries (isExcluded noRe exOpts.exclusions) (s "/x/r") exTree) [s "a"]
      [(nm "r.a.m", nm "r.a.k"), (nm "r.a.m", nm "r.a")]) exSubRule = true := by decide

/-! ### the tree hypothesis is needed: `x.py` next to a directory `x` -/

/-- `r/a.py` (`import r.a.b`) next to the directory `r/a/` with `r/a/b.py`; `r/c.py` -/
def exCollision : List Entry :=
  [ { rel := [s "a.py"], isDir := false, stmts := [.imp [s "r.a.b"]] },
    { rel := [s "a"], isDir := true },
    { rel := [s "a", s "b.py"], isDir := false },
    { rel := [s "c.py"], isDir := false } ]

/-- no exclusion patterns, otherwise the defaults -/
def exNoExcl : ScanOptions := { exclusions := .globs [] }

/-- `r.a.b` should not be imported by anything except `r.c` -/
def exCollisionRule : RuleSpec :=
  { verb := .shouldNot, importDir := false, exc := true, subjects := [.named (nm "r.a.b")], objects := [.named (nm "r.c")] }

set_option maxRecDepth 40000 in
/-- Without `treeWFFor` the end-to-end statement is false. The tree has a file `a.py` next to a directory `a`; all
    other hypotheses hold. The specification lists the import `r.a → r.a.b` (the file's statement), so the
    specification architecture violates the clause "an importer is not a strict ancestor of its importee" of
    `Arch.wf`, and the strict rule "`r.a.b` should not be imported by anything except `r.c`" is violated according
    to the documented semantics; the model's graph keeps the pair `(r.a, r.a.b)` as a hierarchy edge only (see
    `C02.collision_counterexample`), so the model's verdict is `pass`. -/
theorem collision_needs_treeWF :
    treeWFFor (isExcluded noRe exNoExcl.exclusions) (s "/x/r") [] exCollision = false ∧
    treeShape exCollision = true ∧ mpOK exCollision [] = true ∧
    compWF (s "r") = true ∧ exNoExcl.excludeExternal = true ∧ exNoExcl.levelLimit = none ∧
    exNoExcl.externalExclusions.isEmpty = true ∧
    (∀ e ∈ exCollision, ∀ st ∈ e.stmts, stmtOK (toSStmt st) = true) ∧
    scanImports (s "r") (toSEntries (isExcluded noRe exNoExcl.exclusions) (s "/x/r") exCollision) [] =
      some [(nm "r.a", nm "r.a.b")] ∧
    (scanArch (s "r") (toSEntries (isExcluded noRe exNoExcl.exclusions) (s "/x/r") exCollision) []
      [(nm "r.a", nm "r.a.b")]).wf = false ∧
    exCollisionRule.strict = true ∧
    exCollisionRule.namesIn (scanArch (s "r")
      (toSEntries (isExcluded noRe exNoExcl.exclusions) (s "/x/r") exCollision) [] [(nm "r.a", nm "r.a.b")]) = true ∧
    verdict (scanArch (s "r") (toSEntries (isExcluded noRe exNoExcl.exclusions) (s "/x/r") exCollision) []
      [(nm "r.a", nm "r.a.b")]) exCollisionRule = false ∧
    (generateGraph noRe (s "/x/r") (s "r") [] exCollision exNoExcl).toOption.map
        (fun g => verdictOf noRe g (compile exCollisionRule)) = some .pass := by decide

end Pta.E2E
