/-
  PtaProofs.Props.E2E — END-TO-END theorem for module rules on SCANNED architectures: C04 (walk / graph), C02 (import
  edges) and C01 (verdict = documented semantics) composed.

  For a directory tree `entries` (well-formed as far as the scan from `module_path` can see it), the default options
  (external modules excluded, no level limit, no external exclusions; ANY exclusion patterns) and parser-producible
  import statements: if the specification's `scanImports` has an answer `is`, then the model of
  `get_evaluable_architecture(root, module_path)` succeeds with a graph `g`, and for EVERY strict rule `r` whose names
  are scanned modules the verdict of the model of `Rule(...).assert_applies(g)` is the documented semantics
  (`PtaSpec.verdict`) evaluated on the SPECIFICATION architecture of the tree,

      scanArch = ⟨ scanModules root sentries mp ,  is ⟩ ,

  i.e. on the modules of the directory tree (PtaSpec/ScanSem.lean, property C04) and the imports the import
  statements account for (property C02); the failure report has exactly the atoms of `PtaSpec.violating` there.
  If `scanImports` has no answer (a relative import reaching above the root) the scan raises and no rule is evaluated.

  `Arch.wf scanArch` — the standing hypothesis of C01 — is a CONSEQUENCE here (`scan_arch_wf`), including its clause
  "an importer is not a strict ancestor of its importee": importers are `.py` files, and on a `treeWFFor` tree a
  file's module has no descendants. Without `treeWFFor` (a file `x.py` next to a directory `x`) that clause fails
  and so does the end-to-end statement (`collision_needs_treeWF`).

  Further compositions on the same scan graph (second half of the file):
  * `scan_layer_verdict` (∘ C05): LayerRule verdicts = documented layer semantics on `scanArch`;
  * `scan_diagram_conforms`, `scan_diagram_file_conforms`, `scan_diagram_file_base_conforms` (∘ C07, C06 ∘ C07):
    DiagramRule passes iff the imports of the tree conform to the drawing;
  * `scan_nodes_perm`, `scan_labels`, `scan_labels_pointwise`, `scan_labels_unknown_alias` (∘ C17): plot labels;
  * `scan_quotient_of_scanArch`, `scan_rule_verdict_limit`, `scan_rule_verdict_limit_of`, `scan_layer_verdict_limit`
    (∘ C09): with `level_limit = k` the scan graph is the quotient of `scanArch` under truncation to `k` levels below
    `module_path`, and strict rules at or above the limit have the verdict of the unlimited scan = the documented
    semantics on the full `scanArch`.
-/
import Bridge.Abs
import Bridge.ScanAbs
import Bridge.ScanTree
import PtaProofs.Lemmas.Semantics
import PtaProofs.Lemmas.E2ERule
import PtaProofs.Lemmas.E2EMore
import PtaProofs.Props.C05
import PtaProofs.Props.C07
import PtaProofs.Props.C09
import PtaProofs.Props.C17
namespace Pta.E2E
open Pta PtaSpec

/-- the specification architecture of a scan: modules of the directory tree, imports of the import statements -/
abbrev scanArch (root : Comp) (sentries : List SEntry) (mp : List Comp) (is : List (Name × Name)) : Arch :=
  ⟨scanModules root sentries mp, is⟩

/-! ### the rule semantics do not depend on the representation of the architecture -/

/-- `verdict` depends on the imports only as a set (order, duplicates irrelevant) and not on the node list -/
theorem verdict_congr_imports (a b : Arch) (h : ∀ e, e ∈ a.imports ↔ e ∈ b.imports) (r : RuleSpec) :
    verdict a r = verdict b r :=
  E2ERule.verdict_congr_imports a b h r

/-- `violating` likewise (same items, hence same report atoms) -/
theorem violating_congr_imports (a b : Arch) (h : ∀ e, e ∈ a.imports ↔ e ∈ b.imports) (r : RuleSpec) :
    (∀ y, y ∈ violating a r ↔ y ∈ violating b r) ∧
    ∀ x, x ∈ (violating a r).flatMap SItem.atoms ↔ x ∈ (violating b r).flatMap SItem.atoms :=
  ⟨E2ERule.violating_congr_imports a b h r, E2ERule.violating_atoms_congr a b h r⟩

section tree
variable (mt : Str → Str → Bool) (base root : Str) (mp : List Str) (entries : List Entry) (o : ScanOptions)
  (hwf : treeWFFor (isExcluded mt o.exclusions) base mp entries = true) (hmp : mpOK entries mp = true)
  (hroot : compWF root = true)
  (hxx : o.excludeExternal = true) (hlim : o.levelLimit = none) (hext : o.externalExclusions.isEmpty = true)
  (hst : ∀ e ∈ entries, ∀ st ∈ e.stmts, stmtOK (toSStmt st) = true)
  (is : List (Name × Name))
  (his : scanImports root (toSEntries (isExcluded mt o.exclusions) base entries) mp = some is)
include hwf hmp hroot hxx hlim hext hst his

/-- C04 ∘ C02: the scan succeeds and its graph is a graph of the (well-formed) specification architecture -/
theorem scan_graph_of_scanArch :
    ∃ g, generateGraph mt base root mp entries o = .ok g ∧
      (scanArch root (toSEntries (isExcluded mt o.exclusions) base entries) mp is).wf = true ∧
      GraphOf (scanArch root (toSEntries (isExcluded mt o.exclusions) base entries) mp is) g :=
  E2ERule.scan_spec_arch_lemma mt base root mp entries o hwf hmp hroot hxx hlim hext hst is his

/-- the standing hypothesis of C01 is discharged for scanned trees: modules duplicate-free, well-formed, closed under
    ancestors; every import joins two distinct scanned modules and never goes from a module to its own descendant -/
theorem scan_arch_wf :
    (scanArch root (toSEntries (isExcluded mt o.exclusions) base entries) mp is).wf = true := by
  obtain ⟨_, -, h, -⟩ := E2ERule.scan_spec_arch_lemma mt base root mp entries o hwf hmp hroot hxx hlim hext hst is his
  exact h

/-- END-TO-END, verdict: `Rule(...).assert_applies(get_evaluable_architecture(root, module_path))` passes exactly
    when the documented semantics hold on the modules of the directory tree and the imports its import statements
    account for, and raises AssertionError exactly when they do not — for every strict rule (all 12 shapes and the
    `anything` aliases, any number of subjects / objects, both filter kinds) whose names are scanned modules, and every
    regex matcher `mt'` (irrelevant for such rules). -/
theorem scan_rule_verdict :
    ∃ g, generateGraph mt base root mp entries o = .ok g ∧
      ∀ (mt' : Str → Str → Bool) (r : RuleSpec), r.strict = true →
        r.namesIn (scanArch root (toSEntries (isExcluded mt o.exclusions) base entries) mp is) = true →
        r.subjects ≠ [] → (r.anything = true ∨ r.objects ≠ []) → (r.anything = true → r.verb = .shouldNot) →
        verdictOf mt' g (compile r) =
          VClass.ofBool (verdict (scanArch root (toSEntries (isExcluded mt o.exclusions) base entries) mp is) r) := by
  obtain ⟨g, hgen, hawf, hg⟩ :=
    E2ERule.scan_spec_arch_lemma mt base root mp entries o hwf hmp hroot hxx hlim hext hst is his
  exact ⟨g, hgen, fun mt' r hstrict hnames hs ho hany =>
    Pta.verdict_spec_of_graph_lemma mt' _ g hg hawf r hstrict hnames hs ho hany⟩

/-- END-TO-END, report: when the rule fails, the atoms of the reported violations are exactly the atoms of the
    specification's violating set on the specification architecture of the tree -/
theorem scan_rule_report :
    ∃ g, generateGraph mt base root mp entries o = .ok g ∧
      ∀ (mt' : Str → Str → Bool) (r : RuleSpec), r.strict = true →
        r.namesIn (scanArch root (toSEntries (isExcluded mt o.exclusions) base entries) mp is) = true →
        r.subjects ≠ [] → (r.anything = true ∨ r.objects ≠ []) → (r.anything = true → r.verb = .shouldNot) →
        ∀ items, (assertApplies mt' (compile r) g).2 = .fail items →
          ∀ x, x ∈ items.flatMap Item.atoms ↔
            x ∈ (violating (scanArch root (toSEntries (isExcluded mt o.exclusions) base entries) mp is) r).flatMap
              SItem.atoms := by
  obtain ⟨g, hgen, hawf, hg⟩ :=
    E2ERule.scan_spec_arch_lemma mt base root mp entries o hwf hmp hroot hxx hlim hext hst is his
  exact ⟨g, hgen, fun mt' r hstrict hnames hs ho hany items h =>
    Pta.report_spec_lemma mt' _ g hg hawf r hstrict hnames hs ho hany items h⟩

/-- the same for ANY presentation of the import set (e.g. de-duplicated, or the architecture read off the graph):
    only the set of imports matters -/
theorem scan_rule_verdict_set (a : Arch) (ha : ∀ e, e ∈ a.imports ↔ e ∈ is) :
    ∃ g, generateGraph mt base root mp entries o = .ok g ∧
      ∀ (mt' : Str → Str → Bool) (r : RuleSpec), r.strict = true →
        r.namesIn (scanArch root (toSEntries (isExcluded mt o.exclusions) base entries) mp is) = true →
        r.subjects ≠ [] → (r.anything = true ∨ r.objects ≠ []) → (r.anything = true → r.verb = .shouldNot) →
        verdictOf mt' g (compile r) = VClass.ofBool (verdict a r) := by
  obtain ⟨g, hgen, hawf, hg⟩ :=
    E2ERule.scan_spec_arch_lemma mt base root mp entries o hwf hmp hroot hxx hlim hext hst is his
  refine ⟨g, hgen, fun mt' r hstrict hnames hs ho hany => ?_⟩
  rw [E2ERule.verdict_congr_imports a
    (scanArch root (toSEntries (isExcluded mt o.exclusions) base entries) mp is) ha r]
  exact Pta.verdict_spec_of_graph_lemma mt' _ g hg hawf r hstrict hnames hs ho hany

end tree

/-- END-TO-END, both cases in one statement: the scan raises (LookupError / IndexError) exactly when the
    specification has no import list (a relative import reaching above the root); otherwise it yields a graph on
    which every strict rule over scanned modules has the documented verdict -/
theorem scan_rule_total (mt : Str → Str → Bool) (base root : Str) (mp : List Str) (entries : List Entry) (o : ScanOptions)
    (hwf : treeWFFor (isExcluded mt o.exclusions) base mp entries = true) (hmp : mpOK entries mp = true)
    (hroot : compWF root = true)
    (hxx : o.excludeExternal = true) (hlim : o.levelLimit = none) (hext : o.externalExclusions.isEmpty = true)
    (hst : ∀ e ∈ entries, ∀ st ∈ e.stmts, stmtOK (toSStmt st) = true) :
    match scanImports root (toSEntries (isExcluded mt o.exclusions) base entries) mp with
    | none => generateGraph mt base root mp entries o = .error .lookupError
    | some is => ∃ g, generateGraph mt base root mp entries o = .ok g ∧
        ∀ (mt' : Str → Str → Bool) (r : RuleSpec), r.strict = true →
          r.namesIn (scanArch root (toSEntries (isExcluded mt o.exclusions) base entries) mp is) = true →
          r.subjects ≠ [] → (r.anything = true ∨ r.objects ≠ []) → (r.anything = true → r.verb = .shouldNot) →
          verdictOf mt' g (compile r) =
            VClass.ofBool (verdict (scanArch root (toSEntries (isExcluded mt o.exclusions) base entries) mp is) r) := by
  cases his : scanImports root (toSEntries (isExcluded mt o.exclusions) base entries) mp with
  | none =>
    have h := ScanCompose.scan_imports_tree_lemma (root := root) hwf hmp hroot hxx hlim hext hst
    rw [his] at h
    exact h
  | some is => exact scan_rule_verdict mt base root mp entries o hwf hmp hroot hxx hlim hext hst is his

/-! ### non-vacuity: a concrete tree, strict rules, all hypotheses met, both sides evaluated -/

def s (x : String) : Str := x.toList
def nm (x : String) : Name := splitDots x.toList
def noRe : Str → Str → Bool := fun _ _ => false

/-- `r/a/` with `m.py` (`from . import k`, `from .. import a`, `import r.b, os`) and `k.py`; `r/b.py`
    (`from .a import k, zz`); an excluded directory `r/cache/` holding things the scan must not see (a dotted
    directory, an `x.py` next to `x/`, a file importing above the root) — the tree of Props/C02.lean -/
def exTree : List Entry :=
  [ { rel := [s "a"], isDir := true },
    { rel := [s "a", s "m.py"], isDir := false,
      stmts := [.impFrom none [s "k"] 1, .impFrom none [s "a"] 2, .imp [s "r.b", s "os"]] },
    { rel := [s "a", s "k.py"], isDir := false },
    { rel := [s "b.py"], isDir := false, stmts := [.impFrom (some (s "a")) [s "k", s "zz"] 1] },
    { rel := [s "cache"], isDir := true },
    { rel := [s "cache", s "v1.2"], isDir := true },
    { rel := [s "cache", s "x"], isDir := true },
    { rel := [s "cache", s "x.py"], isDir := false, stmts := [.impFrom none [s "y"] 7] } ]

def exOpts : ScanOptions := { exclusions := .globs [s "*cache"] }

/-- the specification's imports of the tree (with the import of the importer's own ancestor package `r.a`) -/
def exIs : List (Name × Name) :=
  [ (nm "r.a.m", nm "r.a.k"), (nm "r.a.m", nm "r.a"), (nm "r.a.m", nm "r.b"), (nm "r.b", nm "r.a.k"), (nm "r.b", nm "r.a") ]

/-- `r.b` should only import `r.a` — holds -/
def exPass : RuleSpec :=
  { verb := .shouldOnly, importDir := true, exc := false, subjects := [.named (nm "r.b")], objects := [.named (nm "r.a")] }
/-- sub modules of `r.a` should not import `r.b` — violated by `r.a.m → r.b` -/
def exFail : RuleSpec :=
  { verb := .shouldNot, importDir := true, exc := false, subjects := [.subOf (nm "r.a")], objects := [.named (nm "r.b")] }
/-- `r.a.k` and `r.b` should not be imported by anything (else) — violated -/
def exAny : RuleSpec :=
  { verb := .shouldNot, importDir := false, exc := false, subjects := [.named (nm "r.a.k"), .named (nm "r.b")],
    objects := [], anything := true }

/-- every hypothesis of the end-to-end theorems holds for the tree … -/
example :
    treeWFFor (isExcluded noRe exOpts.exclusions) (s "/x/r") [] exTree = true ∧ treeWF exTree = false ∧
    mpOK exTree [] = true ∧ compWF (s "r") = true ∧
    exOpts.excludeExternal = true ∧ exOpts.levelLimit = none ∧ exOpts.externalExclusions.isEmpty = true ∧
    (∀ e ∈ exTree, ∀ st ∈ e.stmts, stmtOK (toSStmt st) = true) := by decide

/-- … `scanImports` has an answer, and the specification's modules are as expected … -/
example :
    scanImports (s "r") (toSEntries (isExcluded noRe exOpts.exclusions) (s "/x/r") exTree) [] = some exIs ∧
    scanModules (s "r") (toSEntries (isExcluded noRe exOpts.exclusions) (s "/x/r") exTree) [] =
      [nm "r", nm "r.a", nm "r.a.m", nm "r.a.k", nm "r.b"] := by decide

/-- … and the rules meet the hypotheses on rules -/
example :
    ∀ r ∈ [exPass, exFail, exAny],
      r.strict = true ∧
      r.namesIn (scanArch (s "r") (toSEntries (isExcluded noRe exOpts.exclusions) (s "/x/r") exTree) [] exIs) = true ∧
      r.subjects ≠ [] ∧ (r.anything = true ∨ r.objects ≠ []) ∧ (r.anything = true → r.verb = .shouldNot) := by decide

set_option maxRecDepth 40000 in
/-- both sides evaluated: the model (scan, then `assert_applies`) and the specification agree, with a passing and
    two failing rules -/
example :
    (generateGraph noRe (s "/x/r") (s "r") [] exTree exOpts).toOption.map
        (fun g => [exPass, exFail, exAny].map fun r => verdictOf noRe g (compile r)) =
      some [.pass, .fail, .fail] ∧
    [exPass, exFail, exAny].map
        (verdict (scanArch (s "r") (toSEntries (isExcluded noRe exOpts.exclusions) (s "/x/r") exTree) [] exIs)) =
      [true, false, false] := by decide

/-- the sub-directory scan `module_path = r/a` of the same tree: hypotheses, specification, one rule, both sides
    (`r.b` is outside the scan; `r` is present as ancestor package) -/
def exSubRule : RuleSpec :=
  { verb := .should, importDir := true, exc := false, subjects := [.named (nm "r.a.m")], objects := [.named (nm "r.a.k")] }

set_option maxRecDepth 40000 in
example :
    treeWFFor (isExcluded noRe exOpts.exclusions) (s "/x/r") [s "a"] exTree = true ∧ mpOK exTree [s "a"] = true ∧
    scanImports (s "r") (toSEntries (isExcluded noRe exOpts.exclusions) (s "/x/r") exTree) [s "a"] =
      some [(nm "r.a.m", nm "r.a.k"), (nm "r.a.m", nm "r.a")] ∧
    exSubRule.strict = true ∧
    exSubRule.namesIn (scanArch (s "r") (toSEntries (isExcluded noRe exOpts.exclusions) (s "/x/r") exTree) [s "a"]
      [(nm "r.a.m", nm "r.a.k"), (nm "r.a.m", nm "r.a")]) = true ∧
    (generateGraph noRe (s "/x/r") (s "r") [s "a"] exTree exOpts).toOption.map
        (fun g => verdictOf noRe g (compile exSubRule)) = some .pass ∧
    verdict (scanArch (s "r") (toSEntries (isExcluded noRe exOpts.exclusions) (s "/x/r") exTree) [s "a"]
      [(nm "r.a.m", nm "r.a.k"), (nm "r.a.m", nm "r.a")]) exSubRule = true := by decide

/-! ### the tree hypothesis is needed: `x.py` next to a directory `x` -/

/-- `r/a.py` (`import r.a.b`) next to the directory `r/a/` with `r/a/b.py`; `r/c.py` -/
def exCollision : List Entry :=
  [ { rel := [s "a.py"], isDir := false, stmts := [.imp [s "r.a.b"]] },
    { rel := [s "a"], isDir := true },
    { rel := [s "a", s "b.py"], isDir := false },
    { rel := [s "c.py"], isDir := false } ]

/-- no exclusion patterns, otherwise the defaults -/
def exNoExcl : ScanOptions := { exclusions := .globs [] }

/-- `r.a.b` should not be imported by anything except `r.c` -/
def exCollisionRule : RuleSpec :=
  { verb := .shouldNot, importDir := false, exc := true, subjects := [.named (nm "r.a.b")], objects := [.named (nm "r.c")] }

set_option maxRecDepth 40000 in
/-- Without `treeWFFor` the end-to-end statement is false. The tree has a file `a.py` next to a directory `a`; all
    other hypotheses hold. The specification lists the import `r.a → r.a.b` (the file's statement), so the
    specification architecture violates the clause "an importer is not a strict ancestor of its importee" of
    `Arch.wf`, and the strict rule "`r.a.b` should not be imported by anything except `r.c`" is violated according
    to the documented semantics; the model's graph keeps the pair `(r.a, r.a.b)` as a hierarchy edge only (see
    `C02.collision_counterexample`), so the model's verdict is `pass`. -/
theorem collision_needs_treeWF :
    treeWFFor (isExcluded noRe exNoExcl.exclusions) (s "/x/r") [] exCollision = false ∧
    treeShape exCollision = true ∧ mpOK exCollision [] = true ∧
    compWF (s "r") = true ∧ exNoExcl.excludeExternal = true ∧ exNoExcl.levelLimit = none ∧
    exNoExcl.externalExclusions.isEmpty = true ∧
    (∀ e ∈ exCollision, ∀ st ∈ e.stmts, stmtOK (toSStmt st) = true) ∧
    scanImports (s "r") (toSEntries (isExcluded noRe exNoExcl.exclusions) (s "/x/r") exCollision) [] =
      some [(nm "r.a", nm "r.a.b")] ∧
    (scanArch (s "r") (toSEntries (isExcluded noRe exNoExcl.exclusions) (s "/x/r") exCollision) []
      [(nm "r.a", nm "r.a.b")]).wf = false ∧
    exCollisionRule.strict = true ∧
    exCollisionRule.namesIn (scanArch (s "r")
      (toSEntries (isExcluded noRe exNoExcl.exclusions) (s "/x/r") exCollision) [] [(nm "r.a", nm "r.a.b")]) = true ∧
    verdict (scanArch (s "r") (toSEntries (isExcluded noRe exNoExcl.exclusions) (s "/x/r") exCollision) []
      [(nm "r.a", nm "r.a.b")]) exCollisionRule = false ∧
    (generateGraph noRe (s "/x/r") (s "r") [] exCollision exNoExcl).toOption.map
        (fun g => verdictOf noRe g (compile exCollisionRule)) = some .pass := by decide

/-! ## more end-to-end theorems on scanned architectures: layer rules (C05), diagram rules (C07), plot labels (C17)
    and the level limit (C09), each composed with the scan (C04 ∘ C02) -/

section tree2
variable (mt : Str → Str → Bool) (base root : Str) (mp : List Str) (entries : List Entry) (o : ScanOptions)
  (hwf : treeWFFor (isExcluded mt o.exclusions) base mp entries = true) (hmp : mpOK entries mp = true)
  (hroot : compWF root = true)
  (hxx : o.excludeExternal = true) (hlim : o.levelLimit = none) (hext : o.externalExclusions.isEmpty = true)
  (hst : ∀ e ∈ entries, ∀ st ∈ e.stmts, stmtOK (toSStmt st) = true)
  (is : List (Name × Name))
  (his : scanImports root (toSEntries (isExcluded mt o.exclusions) base entries) mp = some is)
include hwf hmp hroot hxx hlim hext hst his

/-- END-TO-END, layer rules (C04 ∘ C02 ∘ C05): on the scan graph, `LayerRule(...).assert_applies` passes exactly when
    the documented layer semantics hold on the modules of the directory tree and the imports its import statements
    account for, and fails (AssertionError; never `LayerMismatch` or another error) exactly when they do not — for every
    layered architecture `larch` (name layers and regex layers; `ls` = its layers with every regex resolved over the
    modules of the scan graph), every regex matcher `mt'` and every layer rule in the domain of C05. -/
theorem scan_layer_verdict :
    ∃ g, generateGraph mt base root mp entries o = .ok g ∧
      ∀ (mt' : Str → Str → Bool) (ls : Layers) (r : LRuleSpec) (larch : LArch),
        layerDomain' (scanArch root (toSEntries (isExcluded mt o.exclusions) base entries) mp is) ls r = true →
        (r.anything = true → r.verb = .shouldNot) →
        resolves mt' g.nodes larch ls = true →
        (assertAppliesLayer mt' (compileLayerRule larch r) g).cls =
          VClass.ofBool (layerVerdict (scanArch root (toSEntries (isExcluded mt o.exclusions) base entries) mp is) ls r) := by
  obtain ⟨g, hgen, hawf, hg⟩ := scan_graph_of_scanArch mt base root mp entries o hwf hmp hroot hxx hlim hext hst is his
  exact ⟨g, hgen, fun mt' ls r larch hdom hany hres => Pta.C05.layer_verdict mt' _ g hg hawf ls r hdom hany larch hres⟩

/-- … in particular for layers that list modules by name (`compileLArch ls` resolves to `ls` on every graph) -/
theorem scan_layer_verdict_names :
    ∃ g, generateGraph mt base root mp entries o = .ok g ∧
      ∀ (mt' : Str → Str → Bool) (ls : Layers) (r : LRuleSpec),
        layerDomain' (scanArch root (toSEntries (isExcluded mt o.exclusions) base entries) mp is) ls r = true →
        (r.anything = true → r.verb = .shouldNot) →
        (assertAppliesLayer mt' (compileLayerRule (compileLArch ls) r) g).cls =
          VClass.ofBool (layerVerdict (scanArch root (toSEntries (isExcluded mt o.exclusions) base entries) mp is) ls r) := by
  obtain ⟨g, hgen, hawf, hg⟩ := scan_graph_of_scanArch mt base root mp entries o hwf hmp hroot hxx hlim hext hst is his
  exact ⟨g, hgen, fun mt' ls r hdom hany => Pta.C05.layer_verdict_names mt' _ g hg hawf ls r hdom hany⟩

/-- END-TO-END, diagram rules (C04 ∘ C02 ∘ C07): the rules `DependencyToRuleConverter` generates from a diagram `D`,
    applied by `MultipleRuleApplier` to the scan graph, pass exactly when the imports of the tree conform to `D`
    (both modes), for every diagram in the domain of C07 over the scanned modules. -/
theorem scan_diagram_conforms :
    ∃ g, generateGraph mt base root mp entries o = .ok g ∧
      ∀ (mt' : Str → Str → Bool) (D : Diagram) (so : Bool),
        diagramDomain (scanArch root (toSEntries (isExcluded mt o.exclusions) base entries) mp is) D = true →
        (applyAll mt' g (diagramRules so (parsedOf D)) = .pass ↔
          conforms (scanArch root (toSEntries (isExcluded mt o.exclusions) base entries) mp is) D so = true) := by
  obtain ⟨g, hgen, -, hg⟩ := scan_graph_of_scanArch mt base root mp entries o hwf hmp hroot hxx hlim hext hst is his
  exact ⟨g, hgen, fun mt' D so hdom => Pta.C07.conforms_iff_of_graph mt' _ g hg D so hdom⟩

/-- END-TO-END from the diagram FILE (C06 ∘ C07 on the scan graph): for every diagram `d` of the documented subset,
    rendered with any noise around the tags, `DiagramRule.assert_applies` on the scan graph passes exactly when the
    imports of the tree conform to the drawing, and it never raises. (`Pta.C07.diagram_file_conforms_iff` is stated for
    the constructor's graph `archGraph a`; the lemma behind it, `Pta.E2E.file_conforms_lemma`, holds on every
    `GraphOf a g`, which is what is used here.) -/
theorem scan_diagram_file_conforms :
    ∃ g, generateGraph mt base root mp entries o = .ok g ∧
      ∀ (mt' : Str → Str → Bool) (noise1 noise2 : Str) (d : List DLine), diagramWF d = true →
        isInfix "@enduml".toList noise2 = false → ∀ (so : Bool),
        diagramDomain (scanArch root (toSEntries (isExcluded mt o.exclusions) base entries) mp is) (specDiagram d) = true →
        (diagramAssert mt' (some (diagramText noise1 d noise2)) none so g = .pass ↔
          conforms (scanArch root (toSEntries (isExcluded mt o.exclusions) base entries) mp is) (specDiagram d) so = true) ∧
        (∀ k, diagramAssert mt' (some (diagramText noise1 d noise2)) none so g ≠ .err k) := by
  obtain ⟨g, hgen, -, hg⟩ := scan_graph_of_scanArch mt base root mp entries o hwf hmp hroot hxx hlim hext hst is his
  refine ⟨g, hgen, fun mt' noise1 noise2 d hdw hn so hdom => ?_⟩
  obtain ⟨h1, h2, -⟩ := Pta.E2E.file_conforms_lemma mt' _ g hg noise1 noise2 d hdw (by rw [← tag_end_eq]; exact hn)
    (specDiagram d) (Pta.E2E.means_specDiagram d) so hdom
  exact ⟨h1, h2⟩

/-- the same with `with_base_module(q)`: the file is checked as if every component were written `q.name` -/
theorem scan_diagram_file_base_conforms :
    ∃ g, generateGraph mt base root mp entries o = .ok g ∧
      ∀ (mt' : Str → Str → Bool) (noise1 noise2 : Str) (d : List DLine), diagramWF d = true →
        isInfix "@enduml".toList noise2 = false → ∀ (q : Name), q ≠ [] → ∀ (so : Bool),
        diagramDomain (scanArch root (toSEntries (isExcluded mt o.exclusions) base entries) mp is)
          (prefixDiagram q (specDiagram d)) = true →
        (diagramAssert mt' (some (diagramText noise1 d noise2)) (some (render q)) so g = .pass ↔
          conforms (scanArch root (toSEntries (isExcluded mt o.exclusions) base entries) mp is)
            (prefixDiagram q (specDiagram d)) so = true) ∧
        (∀ k, diagramAssert mt' (some (diagramText noise1 d noise2)) (some (render q)) so g ≠ .err k) := by
  obtain ⟨g, hgen, -, hg⟩ := scan_graph_of_scanArch mt base root mp entries o hwf hmp hroot hxx hlim hext hst is his
  refine ⟨g, hgen, fun mt' noise1 noise2 d hdw hn q hq so hdom => ?_⟩
  obtain ⟨h1, h2, -⟩ := Pta.E2E.file_conforms_base_lemma mt' _ g hg noise1 noise2 d hdw (by rw [← tag_end_eq]; exact hn)
    (specDiagram d) (Pta.E2E.means_specDiagram d) q hq so hdom
  exact ⟨h1, h2⟩

end tree2

section labels
variable (mt : Str → Str → Bool) (base root : Str) (mp : List Str) (entries : List Entry) (o : ScanOptions)
  (hwf : treeWFFor (isExcluded mt o.exclusions) base mp entries = true) (hmp : mpOK entries mp = true)
  (hroot : compWF root = true)
  (hxx : o.excludeExternal = true) (hlim : o.levelLimit = none) (g : PGraph Str)
  (h : generateGraph mt base root mp entries o = .ok g)
include hwf hmp hroot hxx hlim h

/-- the node list of a scan graph is a permutation of the rendered modules of the directory tree (no assumption on the
    import statements: whenever the scan succeeds) -/
theorem scan_nodes_perm :
    g.nodes.Perm ((scanModules root (toSEntries (isExcluded mt o.exclusions) base entries) mp).map render) := by
  obtain ⟨hp, hback, -⟩ := E2EMore.nodes_perm_lemma mt base root mp entries o hwf hmp hroot hxx hlim g h
  rw [← hback]
  exact hp.map render

/-- END-TO-END, plot labels (C04 ∘ C17): for every alias map whose keys are distinct scanned modules,
    `_create_plot_labels_with_alias` on the scan graph succeeds, labels every node exactly once (in the graph's node
    order), and — as a set / up to that order — the labelling is the documented one on the modules of the directory
    tree: every module is labelled by its nearest aliased ancestor-or-self's alias plus the remaining components. -/
theorem scan_labels (al : Aliases) (hk : (al.map (·.1)).Nodup)
    (hex : ∀ a ∈ al, a.1 ∈ scanModules root (toSEntries (isExcluded mt o.exclusions) base entries) mp) :
    ∃ ls, plotLabels g.nodes (al.map fun a => (render a.1, a.2)) = .ok ls ∧
      ls.map (·.1) = g.nodes ∧
      ls.Perm ((scanModules root (toSEntries (isExcluded mt o.exclusions) base entries) mp).map
        fun n => (render n, PtaSpec.label al n)) :=
  E2EMore.labels_perm_lemma mt base root mp entries o hwf hmp hroot hxx hlim g h al hk hex

/-- read pointwise: the label of each scanned module `n` is `label al n`, and nothing else is labelled -/
theorem scan_labels_pointwise (al : Aliases) (hk : (al.map (·.1)).Nodup)
    (hex : ∀ a ∈ al, a.1 ∈ scanModules root (toSEntries (isExcluded mt o.exclusions) base entries) mp) :
    ∃ ls, plotLabels g.nodes (al.map fun a => (render a.1, a.2)) = .ok ls ∧
      ∀ p, p ∈ ls ↔ ∃ n ∈ scanModules root (toSEntries (isExcluded mt o.exclusions) base entries) mp,
        p = (render n, PtaSpec.label al n) := by
  obtain ⟨ls, h1, -, h3⟩ := scan_labels mt base root mp entries o hwf hmp hroot hxx hlim g h al hk hex
  refine ⟨ls, h1, fun p => ?_⟩
  rw [h3.mem_iff, List.mem_map]
  constructor
  · rintro ⟨n, hn, rfl⟩; exact ⟨n, hn, rfl⟩
  · rintro ⟨n, hn, rfl⟩; exact ⟨n, hn, rfl⟩

/-- an alias for something that is not a scanned module is rejected, naming it (C17 on the scan graph) -/
theorem scan_labels_unknown_alias (aliases : List (Str × Str))
    (hbad : ∃ a ∈ aliases, ∀ n ∈ scanModules root (toSEntries (isExcluded mt o.exclusions) base entries) mp, a.1 ≠ render n) :
    ∃ who, plotLabels g.nodes aliases = .error (.lookupError, who) ∧ who ∈ aliases.map (·.1) ∧
      ∀ n ∈ scanModules root (toSEntries (isExcluded mt o.exclusions) base entries) mp, who ≠ render n := by
  have hp := scan_nodes_perm mt base root mp entries o hwf hmp hroot hxx hlim g h
  obtain ⟨a, ha, hno⟩ := hbad
  obtain ⟨who, h1, h2, h3⟩ := Pta.C17.unknown_alias g.nodes aliases
    ⟨a, ha, fun hin => by
      obtain ⟨n, hn, e⟩ := List.mem_map.1 (hp.mem_iff.1 hin)
      exact hno n hn e.symm⟩
  exact ⟨who, h1, h3, fun n hn e => h2 (hp.mem_iff.2 (List.mem_map.2 ⟨n, hn, e.symm⟩))⟩

end labels

/-! ### the level limit (C09) on scanned architectures -/

section limit
variable (mt : Str → Str → Bool) (base root : Str) (mp : List Str) (entries : List Entry) (o : ScanOptions) (k : Nat)
  (hwf : treeWFFor (isExcluded mt o.exclusions) base mp entries = true) (hmp : mpOK entries mp = true)
  (hroot : compWF root = true)
  (hxx : o.excludeExternal = true) (hlim : o.levelLimit = some k) (hext : o.externalExclusions.isEmpty = true)
  (hst : ∀ e ∈ entries, ∀ st ∈ e.stmts, stmtOK (toSStmt st) = true)
  (is : List (Name × Name))
  (his : scanImports root (toSEntries (isExcluded mt o.exclusions) base entries) mp = some is)
include hwf hmp hroot hxx hlim hext hst his

/-- C04 ∘ C02 ∘ C09, graph: with `level_limit = k` (other options default) the scan succeeds exactly as without the
    limit, and its graph is the QUOTIENT of the specification architecture of the tree under truncation of every
    module name to `k` levels below `module_path` (`shiftedLimit o mp = some (k + |mp|)`, counted from the root):
    nodes = truncated modules, a hierarchy edge between a truncated name and its parent, an import edge `a → b`
    exactly when some module truncating to `a` imports some module truncating to `b` and `a ≠ b`.  The collision
    clause of the scan-level theorem (`isHierPair`) is vacuous here: on a `treeWFFor` tree files are leaves, so the
    specification architecture is well-formed and no import leads from a module into its own subtree.
    Equivalently: the limited scan graph is a graph of the well-formed architecture `truncArch … scanArch`. -/
theorem scan_quotient_of_scanArch :
    ∃ g g0, generateGraph mt base root mp entries o = .ok g ∧
      generateGraph mt base root mp entries o.noLimit = .ok g0 ∧
      shiftedLimit o mp = some (k + mp.length) ∧
      (scanArch root (toSEntries (isExcluded mt o.exclusions) base entries) mp is).wf = true ∧
      GraphOf (scanArch root (toSEntries (isExcluded mt o.exclusions) base entries) mp is) g0 ∧
      QuotientOf (scanArch root (toSEntries (isExcluded mt o.exclusions) base entries) mp is) (shiftedLimit o mp) g ∧
      (truncArch (shiftedLimit o mp) (scanArch root (toSEntries (isExcluded mt o.exclusions) base entries) mp is)).wf = true ∧
      GraphOf (truncArch (shiftedLimit o mp) (scanArch root (toSEntries (isExcluded mt o.exclusions) base entries) mp is)) g := by
  obtain ⟨g, g0, hg, hg0, hawf, hG0, hq⟩ :=
    E2EMore.scan_limit_lemma mt base root mp entries o hwf hmp hroot hxx hext hst is his k hlim
  have hs := Pta.ScanLimit.shiftedLimit_some o mp k hlim
  rw [hs]
  exact ⟨g, g0, hg, hg0, rfl, hawf, hG0, hq, Pta.truncArch_wf _ _ hawf, Pta.graphOf_truncArch _ _ g hq⟩

/-- END-TO-END with a level limit (C04 ∘ C02 ∘ C09 ∘ C01): with `level_limit = k` the scan succeeds, and every strict
    rule over scanned modules whose identifiers lie at or above the limit counted from `module_path` —
    `ruleAbove (k + |mp|) r`: a module named by `are_named` has at most `k + |mp| + 1` components, i.e. lies at most
    `k` levels below `root.mp`; the parent of `are_sub_modules_of` has at most `k + |mp|` components, i.e. lies at most
    `k - 1` levels below (`limit_bound_named`, `limit_bound_subOf`) — has the SAME verdict on the limited graph and on
    the graph scanned without the limit, and both are the documented semantics on the FULL specification architecture
    of the tree. -/
theorem scan_rule_verdict_limit :
    ∃ g g0, generateGraph mt base root mp entries o = .ok g ∧
      generateGraph mt base root mp entries o.noLimit = .ok g0 ∧
      ∀ (mt' : Str → Str → Bool) (r : RuleSpec), r.strict = true →
        r.namesIn (scanArch root (toSEntries (isExcluded mt o.exclusions) base entries) mp is) = true →
        r.subjects ≠ [] → (r.anything = true ∨ r.objects ≠ []) → (r.anything = true → r.verb = .shouldNot) →
        ruleAbove (k + mp.length) r = true →
        verdictOf mt' g (compile r) = verdictOf mt' g0 (compile r) ∧
        verdictOf mt' g (compile r) =
          VClass.ofBool (verdict (scanArch root (toSEntries (isExcluded mt o.exclusions) base entries) mp is) r) := by
  obtain ⟨g, g0, hg, hg0, hawf, hG0, hq⟩ :=
    E2EMore.scan_limit_lemma mt base root mp entries o hwf hmp hroot hxx hext hst is his k hlim
  refine ⟨g, g0, hg, hg0, fun mt' r hstrict hnames hs ho hany habove => ?_⟩
  have h1 := E2EMore.verdict_of_quotient mt' _ hawf (k + mp.length) g hq r hstrict hnames hs ho hany habove
  have h0 := Pta.verdict_spec_of_graph_lemma mt' _ g0 hG0 hawf r hstrict hnames hs ho hany
  exact ⟨h1.trans h0.symm, h1⟩

/-- the same in the form "for the two graphs the two scans return" -/
theorem scan_rule_verdict_limit_of (g g0 : PGraph Str)
    (hg : generateGraph mt base root mp entries o = .ok g)
    (hg0 : generateGraph mt base root mp entries o.noLimit = .ok g0)
    (mt' : Str → Str → Bool) (r : RuleSpec) (hstrict : r.strict = true)
    (hnames : r.namesIn (scanArch root (toSEntries (isExcluded mt o.exclusions) base entries) mp is) = true)
    (hs : r.subjects ≠ []) (ho : r.anything = true ∨ r.objects ≠ []) (hany : r.anything = true → r.verb = .shouldNot)
    (habove : ruleAbove (k + mp.length) r = true) :
    verdictOf mt' g (compile r) = verdictOf mt' g0 (compile r) := by
  obtain ⟨g', g0', hg', hg0', hall⟩ :=
    scan_rule_verdict_limit mt base root mp entries o k hwf hmp hroot hxx hlim hext hst is his
  rw [hg] at hg'
  rw [hg0] at hg0'
  cases hg'
  cases hg0'
  exact (hall mt' r hstrict hnames hs ho hany habove).1

/-- layer rules on the limited graph: the documented layer semantics evaluated on the QUOTIENT architecture
    (C05 applies to it because it is well-formed and the limited scan graph is a graph of it) -/
theorem scan_layer_verdict_limit :
    ∃ g, generateGraph mt base root mp entries o = .ok g ∧
      ∀ (mt' : Str → Str → Bool) (ls : Layers) (r : LRuleSpec) (larch : LArch),
        layerDomain' (truncArch (shiftedLimit o mp)
          (scanArch root (toSEntries (isExcluded mt o.exclusions) base entries) mp is)) ls r = true →
        (r.anything = true → r.verb = .shouldNot) →
        resolves mt' g.nodes larch ls = true →
        (assertAppliesLayer mt' (compileLayerRule larch r) g).cls =
          VClass.ofBool (layerVerdict (truncArch (shiftedLimit o mp)
            (scanArch root (toSEntries (isExcluded mt o.exclusions) base entries) mp is)) ls r) := by
  obtain ⟨g, -, hg, -, -, -, -, -, hqwf, hqg⟩ :=
    scan_quotient_of_scanArch mt base root mp entries o k hwf hmp hroot hxx hlim hext hst is his
  exact ⟨g, hg, fun mt' ls r larch hdom hany hres => Pta.C05.layer_verdict mt' _ g hqg hqwf ls r hdom hany larch hres⟩

end limit

/-- the bound of `scan_rule_verdict_limit`, spelled out for identifiers written as `root.module_path.rest`:
    `are_named` may name modules up to `k` levels below `module_path` … -/
theorem limit_bound_named (k : Nat) (root : Comp) (mp rest : List Comp) :
    filterAbove (k + mp.length) (.named (root :: mp ++ rest)) = decide (rest.length ≤ k) := by
  simp only [filterAbove, List.length_cons, List.length_append, decide_eq_decide]
  omega

/-- … and `are_sub_modules_of` parents up to `k - 1` levels below it (so that the sub modules are at most `k` below) -/
theorem limit_bound_subOf (k : Nat) (root : Comp) (mp rest : List Comp) :
    filterAbove (k + mp.length) (.subOf (root :: mp ++ rest)) = decide (rest.length + 1 ≤ k) := by
  simp only [filterAbove, List.length_cons, List.length_append, decide_eq_decide]
  omega

/-! ### non-vacuity of the layer theorem: the tree `exTree`, two name layers and a regex layer -/

/-- `top` = the package `r.a` (with `r.a.m`, `r.a.k` below it), `low` = `r.b` -/
def exLs : Layers := [("top".toList, [nm "r.a"]), ("low".toList, [nm "r.b"])]
/-- `top` should only access `low` — holds (`r.a.m → r.b`; imports inside `top` do not count) -/
def exLPass : LRuleSpec :=
  { verb := .shouldOnly, importDir := true, exc := false, subject := "top".toList, objects := ["low".toList] }
/-- `low` should not access `top` — violated by `r.b → r.a.k` -/
def exLFail : LRuleSpec :=
  { verb := .shouldNot, importDir := true, exc := false, subject := "low".toList, objects := ["top".toList] }
/-- `low` should not be accessed by any layer — violated by `r.a.m → r.b` -/
def exLAny : LRuleSpec :=
  { verb := .shouldNot, importDir := false, exc := false, subject := "low".toList, objects := [], anything := true }

/-- the hypotheses on layers and rules (`resolves` for name layers holds on every node list) … -/
example :
    ∀ r ∈ [exLPass, exLFail, exLAny],
      layerDomain' (scanArch (s "r") (toSEntries (isExcluded noRe exOpts.exclusions) (s "/x/r") exTree) [] exIs) exLs r = true ∧
      (r.anything = true → r.verb = .shouldNot) := by decide
example (nodes : List Str) : resolves noRe nodes (compileLArch exLs) exLs = true := Pta.C05.resolves_names noRe nodes exLs

set_option maxRecDepth 40000 in
/-- … and both sides evaluated: the model (scan, then `LayerRule.assert_applies`) and the layer semantics on the
    specification architecture of the tree -/
example :
    (generateGraph noRe (s "/x/r") (s "r") [] exTree exOpts).toOption.map
        (fun g => [exLPass, exLFail, exLAny].map fun r =>
          (assertAppliesLayer noRe (compileLayerRule (compileLArch exLs) r) g).cls) =
      some [.pass, .fail, .fail] ∧
    [exLPass, exLFail, exLAny].map
        (layerVerdict (scanArch (s "r") (toSEntries (isExcluded noRe exOpts.exclusions) (s "/x/r") exTree) [] exIs) exLs) =
      [true, false, false] := by decide

/-- a regex layer: the pattern engine is a parameter; with "starts with" as engine the layer `top` defined by the
    pattern `r.a.` resolves — on the node list of the scan graph — to the modules `r.a.m`, `r.a.k` -/
def exMt : Str → Str → Bool := fun p x => startsWith p x
def exLarchRe : LArch := [("top".toList, [.regex "r.a.".toList]), ("low".toList, [.name "r.b".toList])]
def exLsRe : Layers := [("top".toList, [nm "r.a.m", nm "r.a.k"]), ("low".toList, [nm "r.b"])]

set_option maxRecDepth 40000 in
example :
    (generateGraph noRe (s "/x/r") (s "r") [] exTree exOpts).toOption.map
        (fun g => (resolves exMt g.nodes exLarchRe exLsRe,
          (assertAppliesLayer exMt (compileLayerRule exLarchRe exLFail) g).cls)) = some (true, .fail) ∧
    layerDomain' (scanArch (s "r") (toSEntries (isExcluded noRe exOpts.exclusions) (s "/x/r") exTree) [] exIs) exLsRe exLFail = true ∧
    layerVerdict (scanArch (s "r") (toSEntries (isExcluded noRe exOpts.exclusions) (s "/x/r") exTree) [] exIs) exLsRe exLFail =
      false := by decide

/-! ### non-vacuity of the diagram theorem: `[r.a] --> [r.b]` and back on `exTree` -/

/-- components `r.a`, `r.b`; arrows in both directions (the tree has `r.a.m → r.b` and `r.b → r.a.k`) -/
def exDg : Diagram := { components := [nm "r.a", nm "r.b"], arrows := [(nm "r.a", nm "r.b"), (nm "r.b", nm "r.a")] }
/-- only `r.a → r.b` drawn: the import `r.b → r.a.k` is not allowed -/
def exDgBad : Diagram := { components := [nm "r.a", nm "r.b"], arrows := [(nm "r.a", nm "r.b")] }

set_option maxRecDepth 40000 in
example :
    diagramDomain (scanArch (s "r") (toSEntries (isExcluded noRe exOpts.exclusions) (s "/x/r") exTree) [] exIs) exDg = true ∧
    diagramDomain (scanArch (s "r") (toSEntries (isExcluded noRe exOpts.exclusions) (s "/x/r") exTree) [] exIs) exDgBad = true ∧
    conforms (scanArch (s "r") (toSEntries (isExcluded noRe exOpts.exclusions) (s "/x/r") exTree) [] exIs) exDg true = true ∧
    conforms (scanArch (s "r") (toSEntries (isExcluded noRe exOpts.exclusions) (s "/x/r") exTree) [] exIs) exDgBad false = false ∧
    (generateGraph noRe (s "/x/r") (s "r") [] exTree exOpts).toOption.map
        (fun g => ((applyAll noRe g (diagramRules true (parsedOf exDg))).cls,
          (applyAll noRe g (diagramRules false (parsedOf exDgBad))).cls)) = some (.pass, .fail) := by decide +kernel

/-- the same drawing as a FILE (hypotheses of `scan_diagram_file_conforms`, both sides evaluated) -/
def exDgLines : List DLine := [
  .arrow .r2 (.bracketed "r.a".toList) (.bracketed "r.b".toList),
  .arrow .l2 (.bracketed "r.b".toList) (.bracketed "r.a".toList)]

set_option maxRecDepth 40000 in
example :
    diagramWF exDgLines = true ∧ isInfix "@enduml".toList "\n' end".toList = false ∧
    diagramDomain (scanArch (s "r") (toSEntries (isExcluded noRe exOpts.exclusions) (s "/x/r") exTree) [] exIs)
      (specDiagram exDgLines) = true ∧
    conforms (scanArch (s "r") (toSEntries (isExcluded noRe exOpts.exclusions) (s "/x/r") exTree) [] exIs)
      (specDiagram exDgLines) true = true ∧
    (generateGraph noRe (s "/x/r") (s "r") [] exTree exOpts).toOption.map
        (fun g => (diagramAssert noRe (some (diagramText "' head\n".toList exDgLines "\n' end".toList)) none true g).cls) =
      some .pass := by decide +kernel

/-! ### non-vacuity of the label theorem: alias `A` for `r.a` on `exTree` -/

def exAl : Aliases := [(nm "r.a", "A".toList)]

set_option maxRecDepth 40000 in
example :
    (exAl.map (·.1)).Nodup ∧
    (∀ a ∈ exAl, a.1 ∈ scanModules (s "r") (toSEntries (isExcluded noRe exOpts.exclusions) (s "/x/r") exTree) []) ∧
    (generateGraph noRe (s "/x/r") (s "r") [] exTree exOpts).toOption.bind
        (fun g => (plotLabels g.nodes (exAl.map fun a => (render a.1, a.2))).toOption) =
      some ([(s "r", s "r"), (s "r.a", s "A"), (s "r.a.m", s "A.m"), (s "r.a.k", s "A.k"), (s "r.b", s "r.b")]) ∧
    (scanModules (s "r") (toSEntries (isExcluded noRe exOpts.exclusions) (s "/x/r") exTree) []).map
        (fun n => (render n, PtaSpec.label exAl n)) =
      [(s "r", s "r"), (s "r.a", s "A"), (s "r.a.m", s "A.m"), (s "r.a.k", s "A.k"), (s "r.b", s "r.b")] := by
  refine ⟨by decide, by decide, by decide, by decide⟩

/-! ### non-vacuity of the limit theorem: the tree of `C09.ScanEx`, `module_path = r/app`, `level_limit = 1` -/

/-- r/app/{a/x.py, b/y/z.py, c.py}; x: `import app.b.y.z`; z: `from ... import c` — the imports of the specification -/
def limIs : List (Name × Name) := [(nm "r.app.a.x", nm "r.app.b.y.z"), (nm "r.app.b.y.z", nm "r.app.c")]

/-- `r.app.a` should only import `r.app.b` — holds on both graphs (`r.app.a.x → r.app.b.y.z`, flattened `r.app.a → r.app.b`) -/
def limPass : RuleSpec :=
  { verb := .shouldOnly, importDir := true, exc := false, subjects := [.named (nm "r.app.a")], objects := [.named (nm "r.app.b")] }
/-- `r.app.b` should not import `r.app.c` — violated on both graphs (`r.app.b.y.z → r.app.c`) -/
def limFail : RuleSpec :=
  { verb := .shouldNot, importDir := true, exc := false, subjects := [.named (nm "r.app.b")], objects := [.named (nm "r.app.c")] }
/-- `r.app.c` should not be imported by anything except `r.app.b` — holds on both graphs -/
def limExc : RuleSpec :=
  { verb := .shouldNot, importDir := false, exc := true, subjects := [.named (nm "r.app.c")], objects := [.named (nm "r.app.b")] }
/-- sub modules of `r.app` should not import anything — an `are_sub_modules_of` parent ON the bound (two components);
    holds on both graphs (every import stays among the sub modules of `r.app`) -/
def limSub : RuleSpec :=
  { verb := .shouldNot, importDir := true, exc := false, subjects := [.subOf (nm "r.app")], objects := [], anything := true }

open Pta.C09.ScanEx in
set_option maxRecDepth 100000 in
/-- every hypothesis of `scan_rule_verdict_limit` holds (k = 1, |mp| = 1, so the bound is `ruleAbove 2`) … -/
example :
    treeWFFor (isExcluded mt0 o1.exclusions) (S "/r") [S "app"] ents = true ∧ mpOK ents [S "app"] = true ∧
    compWF (S "r") = true ∧ o1.excludeExternal = true ∧ o1.levelLimit = some 1 ∧ o1.externalExclusions.isEmpty = true ∧
    (∀ e ∈ ents, ∀ st ∈ e.stmts, stmtOK (toSStmt st) = true) ∧
    scanImports (S "r") (toSEntries (isExcluded mt0 o1.exclusions) (S "/r") ents) [S "app"] = some limIs ∧
    (∀ r ∈ [limPass, limFail, limExc, limSub],
      r.strict = true ∧
      r.namesIn (scanArch (S "r") (toSEntries (isExcluded mt0 o1.exclusions) (S "/r") ents) [S "app"] limIs) = true ∧
      r.subjects ≠ [] ∧ (r.anything = true ∨ r.objects ≠ []) ∧ (r.anything = true → r.verb = .shouldNot) ∧
      ruleAbove (1 + [S "app"].length) r = true) := by
  refine ⟨by decide, by decide, by decide, by decide, by decide, by decide, by decide, by decide, by decide⟩

open Pta.C09.ScanEx in
set_option maxRecDepth 100000 in
/-- … and all three sides evaluated: the limited scan, the scan without limit, and the documented semantics on the
    full specification architecture -/
example :
    (generateGraph mt0 (S "/r") (S "r") [S "app"] ents o1).toOption.map
        (fun g => [limPass, limFail, limExc, limSub].map fun r => verdictOf mt0 g (compile r)) = some [.pass, .fail, .pass, .pass] ∧
    (generateGraph mt0 (S "/r") (S "r") [S "app"] ents o1.noLimit).toOption.map
        (fun g => [limPass, limFail, limExc, limSub].map fun r => verdictOf mt0 g (compile r)) = some [.pass, .fail, .pass, .pass] ∧
    [limPass, limFail, limExc, limSub].map
        (verdict (scanArch (S "r") (toSEntries (isExcluded mt0 o1.exclusions) (S "/r") ents) [S "app"] limIs)) =
      [true, false, true, true] := by
  refine ⟨by decide, by decide, by decide⟩

open Pta.C09.ScanEx in
set_option maxRecDepth 100000 in
/-- the bound is needed: `r.app.b.y` (two levels below `r.app`) is a scanned module, the rule `r.app.b.y should import
    r.app.c` is strict and holds on the full graph, but the module does not exist in the limited graph (the query
    raises) — `ruleAbove 2` fails for it -/
example :
    let r : RuleSpec := { verb := .should, importDir := true, exc := false, subjects := [.named (nm "r.app.b.y")],
                          objects := [.named (nm "r.app.c")] }
    r.strict = true ∧
    r.namesIn (scanArch (S "r") (toSEntries (isExcluded mt0 o1.exclusions) (S "/r") ents) [S "app"] limIs) = true ∧
    ruleAbove (1 + [S "app"].length) r = false ∧
    (generateGraph mt0 (S "/r") (S "r") [S "app"] ents o1.noLimit).toOption.map
        (fun g => verdictOf mt0 g (compile r)) = some .pass ∧
    (generateGraph mt0 (S "/r") (S "r") [S "app"] ents o1).toOption.map
        (fun g => verdictOf mt0 g (compile r)) ≠ some .pass := by
  refine ⟨by decide, by decide, by decide, by decide, by decide⟩

/-- layers `A` = `r.app.a`, `B` = `r.app.b` on the limited graph; `A should only access B` -/
def limLs : Layers := [("A".toList, [nm "r.app.a"]), ("B".toList, [nm "r.app.b"])]
def limLR : LRuleSpec :=
  { verb := .shouldOnly, importDir := true, exc := false, subject := "A".toList, objects := ["B".toList] }

open Pta.C09.ScanEx in
set_option maxRecDepth 100000 in
/-- hypotheses of `scan_layer_verdict_limit` and both sides (the quotient architecture has the import `r.app.a → r.app.b`) -/
example :
    (truncArch (shiftedLimit o1 [S "app"])
      (scanArch (S "r") (toSEntries (isExcluded mt0 o1.exclusions) (S "/r") ents) [S "app"] limIs)).imports =
      [(nm "r.app.a", nm "r.app.b"), (nm "r.app.b", nm "r.app.c")] ∧
    layerDomain' (truncArch (shiftedLimit o1 [S "app"])
      (scanArch (S "r") (toSEntries (isExcluded mt0 o1.exclusions) (S "/r") ents) [S "app"] limIs)) limLs limLR = true ∧
    layerVerdict (truncArch (shiftedLimit o1 [S "app"])
      (scanArch (S "r") (toSEntries (isExcluded mt0 o1.exclusions) (S "/r") ents) [S "app"] limIs)) limLs limLR = true ∧
    (generateGraph mt0 (S "/r") (S "r") [S "app"] ents o1).toOption.map
        (fun g => (assertAppliesLayer mt0 (compileLayerRule (compileLArch limLs) limLR) g).cls) = some .pass := by
  refine ⟨by decide, by decide, by decide, by decide⟩

end Pta.E2E
