/-
  PtaProofs.Props.C09 — level_limit yields the quotient graph (property C09, first sentence): for EVERY
  well-formed architecture and every limit k, the graph built with level_limit = k has exactly the truncated
  module names as nodes, a hierarchy edge exactly between a truncated name and its parent, and an import edge
  a → b exactly when some module truncating to a imports some module truncating to b and a ≠ b.
  With `lim = none` this is the statement that the graph constructor represents the architecture faithfully.

  Second sentence: the flattened graph is the graph of the (well-formed) quotient architecture `truncArch lim a`,
  and every STRICT rule whose identifiers lie at or above the limit (`ruleAbove k r`: `are_named x` with at most k+1
  components, `are_sub_modules_of x` with at most k) has the same verdict on the flattened and on the full graph.
  For related identifiers this fails (`verdict_not_preserved_related`).
-/
import Bridge.Abs
import Bridge.Quotient
import PtaProofs.Lemmas.Build
import PtaProofs.Lemmas.LimitVerdict
import Bridge.ScanLimit
import PtaProofs.Lemmas.ScanLimit
namespace Pta.C09
open Pta PtaSpec

theorem quotient (a : Arch) (hwf : a.wf = true) (lim : Option Nat) : QuotientOf a lim (archGraphLim a lim) :=
  Pta.buildGraph_quotient a hwf lim

/-- without a limit: the graph of an architecture -/
theorem graph_of_arch (a : Arch) (hwf : a.wf = true) : GraphOf a (archGraph a) :=
  Pta.archGraph_graphOf a hwf

/-- nodes are never duplicated -/
theorem nodes_nodup (a : Arch) (lim : Option Nat) : (archGraphLim a lim).nodes.Nodup :=
  Pta.archGraphLim_nodup a lim

/-- self edges are dropped: no node imports itself -/
theorem no_self_import (a : Arch) (hwf : a.wf = true) (lim : Option Nat) (s : Str) :
    s ∉ (archGraphLim a lim).importSuccs s :=
  Pta.no_self_import_lemma a hwf lim s

/-- the limit is raised by the number of levels between root_path and module_path (`generate_graph`) -/
theorem limit_shift (k : Nat) (mp : List Str) :
    ((some k).map fun k => if !mp.isEmpty then k + mp.length else k) = some (if mp = [] then k else k + mp.length) := by
  cases mp <;> simp

/-! non-vacuity -/
def exA : Arch :=
  { nodes := [["p".toList], ["p".toList, "a".toList], ["p".toList, "a".toList, "x".toList], ["p".toList, "b".toList], ["q".toList]],
    imports := [(["p".toList, "a".toList, "x".toList], ["q".toList]), (["p".toList, "a".toList, "x".toList], ["p".toList, "a".toList])] }
example : exA.wf = true := by decide
example : (archGraphLim exA (some 1)).importPairs = [("p.a".toList, "q".toList)] := by decide

/-! ### second sentence: verdicts above the limit are preserved -/

/-- the flattened graph is the graph of the quotient architecture … -/
theorem graph_of_quotient_arch (a : Arch) (hwf : a.wf = true) (lim : Option Nat) :
    GraphOf (truncArch lim a) (archGraphLim a lim) :=
  Pta.graphOf_truncArch a lim _ (Pta.buildGraph_quotient a hwf lim)

/-- … which is again well-formed (in particular truncation never makes an importer a strict ancestor of its importee),
    so that C01 applies to the flattened graph -/
theorem quotient_arch_wf (a : Arch) (hwf : a.wf = true) (lim : Option Nat) : (truncArch lim a).wf = true :=
  Pta.truncArch_wf lim a hwf

/-- on the specification side, rules at or above the limit do not see the truncation -/
theorem spec_verdict_preserved (a : Arch) (k : Nat) (r : RuleSpec) (hstrict : r.strict = true)
    (hany : r.anything = true → r.verb = .shouldNot) (habove : ruleAbove k r = true) :
    verdict (truncArch (some k) a) r = verdict a r :=
  Pta.verdict_trunc k a r hstrict habove hany

/-- C09, second sentence: every strict rule whose named modules lie at or above level k (and whose
    'sub modules of' parents lie strictly above it) has the same verdict on the flattened and on the full graph -/
theorem verdict_preserved (mt : Str → Str → Bool) (a : Arch) (hwf : a.wf = true) (k : Nat)
    (r : RuleSpec) (hstrict : r.strict = true) (hnames : r.namesIn a = true)
    (hs : r.subjects ≠ []) (ho : r.anything = true ∨ r.objects ≠ [])
    (hany : r.anything = true → r.verb = .shouldNot)
    (hdepth : ruleAbove k r = true) :
    verdictOf mt (archGraphLim a (some k)) (compile r) = verdictOf mt (archGraph a) (compile r) :=
  Pta.verdict_preserved_lemma mt a hwf k r hstrict hnames hs ho hany hdepth

/-- `hdepth`, spelled out: `are_named x` has at most k+1 components, `are_sub_modules_of x` at most k -/
theorem ruleAbove_iff (k : Nat) (r : RuleSpec) :
    ruleAbove k r = true ↔ ∀ f ∈ r.subjects ++ r.effObjects,
      (∀ x, f = .named x → x.length ≤ k + 1) ∧ (∀ x, f = .subOf x → x.length ≤ k) := by
  unfold ruleAbove
  rw [List.all_eq_true]
  refine forall_congr' fun f => forall_congr' fun _ => ?_
  cases f <;> simp [filterAbove]

/-- and both are the documented semantics evaluated on the FULL architecture -/
theorem verdict_lim_spec (mt : Str → Str → Bool) (a : Arch) (hwf : a.wf = true) (k : Nat)
    (r : RuleSpec) (hstrict : r.strict = true) (hnames : r.namesIn a = true)
    (hs : r.subjects ≠ []) (ho : r.anything = true ∨ r.objects ≠ [])
    (hany : r.anything = true → r.verb = .shouldNot)
    (hdepth : ruleAbove k r = true) :
    verdictOf mt (archGraphLim a (some k)) (compile r) = VClass.ofBool (verdict a r) :=
  Pta.verdict_lim_spec_lemma mt a hwf k r hstrict hnames hs ho hany hdepth

/-! non-vacuity: `p.a should only import q` at limit 1; `sub modules of p should not import except q` at limit 1 -/
def nm (s : String) : Name := splitDots s.toList
def exR : RuleSpec :=
  { verb := .shouldOnly, importDir := true, exc := false, subjects := [.named (nm "p.a")], objects := [.named (nm "q")] }
def exR2 : RuleSpec :=
  { verb := .shouldNot, importDir := true, exc := true, subjects := [.subOf (nm "p")], objects := [.named (nm "q")] }
example : exA.wf = true ∧ exR.strict = true ∧ exR.namesIn exA = true ∧ exR.subjects ≠ [] ∧ exR.objects ≠ [] ∧
    ruleAbove 1 exR = true := by decide
example : exR2.strict = true ∧ exR2.namesIn exA = true ∧ ruleAbove 1 exR2 = true := by decide
example : (truncArch (some 1) exA).nodes = [nm "p", nm "p.a", nm "p.b", nm "q"] ∧
    (truncArch (some 1) exA).imports = [(nm "p.a", nm "q")] := by decide
example : verdictOf (fun _ _ => false) (archGraphLim exA (some 1)) (compile exR) = .pass ∧
    verdictOf (fun _ _ => false) (archGraph exA) (compile exR) = .pass := by decide
example : verdictOf (fun _ _ => false) (archGraphLim exA (some 1)) (compile exR2) = .pass ∧
    verdictOf (fun _ _ => false) (archGraph exA) (compile exR2) = .pass := by decide

/-- the `anything` alias: `p.a should not import anything` fails on both graphs (`p.a.x → q`) -/
def exR3 : RuleSpec :=
  { verb := .shouldNot, importDir := true, exc := false, subjects := [.named (nm "p.a")], objects := [], anything := true }
example : exR3.strict = true ∧ exR3.namesIn exA = true ∧ ruleAbove 1 exR3 = true := by decide
example : verdictOf (fun _ _ => false) (archGraphLim exA (some 1)) (compile exR3) = .fail ∧
    verdictOf (fun _ _ => false) (archGraph exA) (compile exR3) = .fail := by decide

/-! ### why the theorem is stated on strict rules -/

/-- `p.a.x → p.a.y` is the only import; the rule is `p.a should import p` (object `p` is an ancestor of the subject) -/
def exB : Arch :=
  { nodes := [nm "p", nm "p.a", nm "p.a.x", nm "p.a.y", nm "p.b"], imports := [(nm "p.a.x", nm "p.a.y")] }
def exRrel : RuleSpec :=
  { verb := .should, importDir := true, exc := false, subjects := [.named (nm "p.a")], objects := [.named (nm "p")] }

/-- for RELATED identifiers the verdict is not preserved: every hypothesis of `verdict_preserved` except strictness
    holds (all names exist and lie at or above limit 1), the rule passes on the full graph (the import `p.a.x → p.a.y`
    leads from `p.a` into `p`) and fails on the flattened graph (the import collapses to a dropped self edge of `p.a`) -/
theorem verdict_not_preserved_related :
    exB.wf = true ∧ exRrel.namesIn exB = true ∧ ruleAbove 1 exRrel = true ∧ exRrel.strict = false ∧
    verdictOf (fun _ _ => false) (archGraph exB) (compile exRrel) = .pass ∧
    verdictOf (fun _ _ => false) (archGraphLim exB (some 1)) (compile exRrel) = .fail := by decide

/-! ### the scan entry point: `generate_graph(level_limit = k)` against `generate_graph(level_limit = None)`

`o.noLimit` is `o` with `levelLimit := none`; `shiftedLimit o mp` is the limit the constructor receives
(`k + len(module_path below root_path)`).  Both runs hand the same module list and the same import records to the
graph constructor; no well-formedness of names, tree or statements is assumed, externals may be included. -/

/-- whether the scan fails does not depend on the level limit -/
theorem scan_error_indep (mt : Str → Str → Bool) (base rootName : Str) (mp : List Str) (entries : List Entry)
    (o : ScanOptions) (e : ErrKind) :
    generateGraph mt base rootName mp entries o = .error e ↔
      generateGraph mt base rootName mp entries o.noLimit = .error e :=
  Pta.ScanLimit.error_indep_lemma mt base rootName mp entries o e

/-- nodes of the limited graph = flattened nodes of the full graph -/
theorem scan_quotient_nodes (mt : Str → Str → Bool) (base rootName : Str) (mp : List Str) (entries : List Entry)
    (o : ScanOptions) (g g0 : PGraph Str)
    (hg : generateGraph mt base rootName mp entries o = .ok g)
    (hg0 : generateGraph mt base rootName mp entries o.noLimit = .ok g0) (s : Str) :
    s ∈ g.nodes ↔ ∃ n ∈ g0.nodes, s = flattenNode (shiftedLimit o mp) n :=
  (Pta.ScanLimit.scan_quotient_lemma mt base rootName mp entries o g g0 hg hg0).1 s

/-- hierarchy edges of the limited graph = flattened hierarchy edges of the full graph whose ends stay distinct -/
theorem scan_quotient_hier (mt : Str → Str → Bool) (base rootName : Str) (mp : List Str) (entries : List Entry)
    (o : ScanOptions) (g g0 : PGraph Str)
    (hg : generateGraph mt base rootName mp entries o = .ok g)
    (hg0 : generateGraph mt base rootName mp entries o.noLimit = .ok g0) (a b : Str) :
    (a, b) ∈ g.hierPairs ↔
      ∃ u v, (u, v) ∈ g0.hierPairs ∧ a = flattenNode (shiftedLimit o mp) u ∧ b = flattenNode (shiftedLimit o mp) v ∧ a ≠ b :=
  (Pta.ScanLimit.scan_quotient_lemma mt base rootName mp entries o g g0 hg hg0).2.1 a b

/-- import edges, unconditional half: a flattened import edge of the full graph whose ends stay distinct and which
    does not land on a parent→child pair is an import edge of the limited graph; and no import edge of the limited
    graph is a self edge or a parent→child pair -/
theorem scan_quotient_imports_sup (mt : Str → Str → Bool) (base rootName : Str) (mp : List Str) (entries : List Entry)
    (o : ScanOptions) (g g0 : PGraph Str)
    (hg : generateGraph mt base rootName mp entries o = .ok g)
    (hg0 : generateGraph mt base rootName mp entries o.noLimit = .ok g0) (a b : Str) :
    ((a ≠ b ∧ isHierPair a b = false ∧
        ∃ u v, (u, v) ∈ g0.importPairs ∧ a = flattenNode (shiftedLimit o mp) u ∧ b = flattenNode (shiftedLimit o mp) v) →
      (a, b) ∈ g.importPairs) ∧
    ((a, b) ∈ g.importPairs → a ≠ b ∧ isHierPair a b = false) :=
  ⟨(Pta.ScanLimit.scan_quotient_lemma mt base rootName mp entries o g g0 hg hg0).2.2.1 a b,
   (Pta.ScanLimit.scan_quotient_lemma mt base rootName mp entries o g g0 hg hg0).2.2.2.1 a b⟩

/-- import edges, exactly, in terms of the import records `R` handed to the constructor (no hypothesis).
    Since the repair of `_initialise` (`_is_import_between_known_modules`) only the records whose importee is a node of
    the FULL graph count: a record whose importee is not a module no longer produces an edge onto the module its name
    is truncated to. (The importer of a record is always a node.) -/
theorem scan_imports_exact (mt : Str → Str → Bool) (base rootName : Str) (mp : List Str) (entries : List Entry)
    (o : ScanOptions) (g g0 : PGraph Str)
    (hg : generateGraph mt base rootName mp entries o = .ok g)
    (hg0 : generateGraph mt base rootName mp entries o.noLimit = .ok g0)
    (R : List ImportRec) (hR : scanRetained mt base rootName mp entries o = .ok R) (a b : Str) :
    (a, b) ∈ g.importPairs ↔
      a ≠ b ∧ isHierPair a b = false ∧ a ∈ g.nodes ∧ b ∈ g.nodes ∧
      ∃ i ∈ R, i.importee ∈ g0.nodes ∧
        a = flattenNode (shiftedLimit o mp) i.importer ∧ b = flattenNode (shiftedLimit o mp) i.importee :=
  (Pta.ScanLimit.scan_quotient_lemma mt base rootName mp entries o g g0 hg hg0).2.2.2.2.1 R hR a b

/-- C09 for scans, import edges (no side condition since the repair of the dangling-import defect): `a` imports `b` in
    the limited graph exactly when some module flattening to `a` imports some module flattening to `b` in the full
    graph, `a ≠ b`, and `(a, b)` is not a parent→child pair (such a pair is the hierarchy edge, see `collision_iff`
    for when this happens) -/
theorem scan_quotient_imports (mt : Str → Str → Bool) (base rootName : Str) (mp : List Str) (entries : List Entry)
    (o : ScanOptions) (g g0 : PGraph Str)
    (hg : generateGraph mt base rootName mp entries o = .ok g)
    (hg0 : generateGraph mt base rootName mp entries o.noLimit = .ok g0) (a b : Str) :
    (a, b) ∈ g.importPairs ↔
      a ≠ b ∧ isHierPair a b = false ∧
      ∃ u v, (u, v) ∈ g0.importPairs ∧ a = flattenNode (shiftedLimit o mp) u ∧ b = flattenNode (shiftedLimit o mp) v := by
  have h := Pta.ScanLimit.scan_quotient_lemma mt base rootName mp entries o g g0 hg hg0
  exact ⟨fun hab => ⟨(h.2.2.2.1 a b hab).1, (h.2.2.2.1 a b hab).2, h.2.2.2.2.2 a b hab⟩, h.2.2.1 a b⟩

/-- `isHierPair` is the immediate-parent relation on dotted names -/
theorem isHierPair_spec (s e : Str) : isHierPair s e = true ↔ ∃ t, '.' ∉ t ∧ e = s ++ '.' :: t :=
  Pta.ScanLimit.isHierPair_iff s e

/-- when a flattened pair lands on a parent→child pair: exactly when the importer has `j` components (it sits one
    level above the cut `j + 1`, so it is not truncated) and the importee lies strictly below it — at least two levels
    below, the pair not being parent→child itself.  For scans the importer is a file, so this needs a module `x.py`
    with nodes below the name `x` (a directory `x` next to `x.py`, or dotted file names). -/
theorem collision_iff (j : Nat) (u v : Str) (hnp : isHierPair u v = false) :
    isHierPair (flattenNode (some j) u) (flattenNode (some j) v) = true ↔
      isStrictSub u v = true ∧ (splitDots u).length = j := by
  rw [Pta.ScanLimit.isHierPair_iff]
  exact Pta.ScanLimit.collision_iff j u v (by rw [← Pta.ScanLimit.isHierPair_iff, hnp]; simp)

/-- importers that are leaves of the module tree never import downwards -/
theorem noDownward_of_leafImporters (mt : Str → Str → Bool) (base rootName : Str) (mp : List Str) (entries : List Entry)
    (o : ScanOptions) (g0 : PGraph Str)
    (hg0 : generateGraph mt base rootName mp entries o.noLimit = .ok g0)
    (R : List ImportRec) (hR : scanRetained mt base rootName mp entries o = .ok R)
    (hleaf : leafImporters R g0 = true) : noDownwardImports g0 = true :=
  Pta.ScanLimit.noDownward_of_leaf_lemma mt base rootName mp entries o g0 hg0 R hR hleaf

/-- … and importers are leaves as soon as the modules of the parsed `.py` files are -/
theorem leafImporters_of_leafFiles (mt : Str → Str → Bool) (base rootName : Str) (mp : List Str) (entries : List Entry)
    (o : ScanOptions) (g0 : PGraph Str) (R : List ImportRec)
    (hR : scanRetained mt base rootName mp entries o = .ok R)
    (hleaf : leafFiles (scanParsed mt base rootName mp entries o).files g0 = true) : leafImporters R g0 = true :=
  Pta.ScanLimit.leafImporters_of_files_lemma mt base rootName mp entries o g0 R hR hleaf

/-- every importer handed to the constructor is the module of a parsed file -/
theorem importers_are_files (mt : Str → Str → Bool) (base rootName : Str) (mp : List Str) (entries : List Entry)
    (o : ScanOptions) (R : List ImportRec) (hR : scanRetained mt base rootName mp entries o = .ok R) :
    ∀ i ∈ R, ∃ f ∈ (scanParsed mt base rootName mp entries o).files, i.importer = f.1 :=
  Pta.ScanLimit.scan_importer_file mt base rootName mp entries o R hR

/-- C09 for scans, the property text verbatim: no import from a module into its own subtree
    (e.g. importers are leaves: no `x.py` next to a directory `x`). Then `a` imports `b` in the limited graph exactly
    when some module truncating to `a` imports some module truncating to `b` and `a ≠ b`.
    (Before the repair this also needed `danglingFree`.) -/
theorem scan_quotient_imports_clean (mt : Str → Str → Bool) (base rootName : Str) (mp : List Str) (entries : List Entry)
    (o : ScanOptions) (g g0 : PGraph Str)
    (hg : generateGraph mt base rootName mp entries o = .ok g)
    (hg0 : generateGraph mt base rootName mp entries o.noLimit = .ok g0)
    (hdown : noDownwardImports g0 = true) (a b : Str) :
    (a, b) ∈ g.importPairs ↔
      a ≠ b ∧ ∃ u v, (u, v) ∈ g0.importPairs ∧ a = flattenNode (shiftedLimit o mp) u ∧ b = flattenNode (shiftedLimit o mp) v := by
  rw [scan_quotient_imports mt base rootName mp entries o g g0 hg hg0 a b]
  constructor
  · rintro ⟨h1, -, h3⟩; exact ⟨h1, h3⟩
  · rintro ⟨h1, u, v, huv, rfl, rfl⟩
    exact ⟨h1, Pta.ScanLimit.no_collision_lemma mt base rootName mp entries o g0 hg0 hdown u v huv, u, v, huv, rfl, rfl⟩

/-- "truncated to k levels below module_path": the constructor's limit is `k + len(module_path)`, so a module
    `root.mp.rest` keeps the first `k` components of `rest` … -/
theorem flatten_is_truncation (o : ScanOptions) (k : Nat) (hk : o.levelLimit = some k) (root : Comp) (mp rest : List Comp)
    (hwf : nameWF (root :: mp ++ rest) = true) :
    flattenNode (shiftedLimit o mp) (render (root :: mp ++ rest)) = render (root :: mp ++ rest.take k) :=
  Pta.ScanLimit.flatten_below_lemma o k hk root mp rest hwf

/-- … while `module_path` and its ancestors are unchanged -/
theorem flatten_above_unchanged (o : ScanOptions) (root : Comp) (mp : List Comp) (j : Nat)
    (hwf : nameWF (root :: mp) = true) :
    flattenNode (shiftedLimit o mp) (render (root :: mp.take j)) = render (root :: mp.take j) :=
  Pta.ScanLimit.flatten_above_lemma o root mp j hwf

/-- on every string the constructor's flattening is "keep the first `j + 1` components" -/
theorem flatten_def (j : Nat) (s : Str) : flattenNode (some j) s = joinDots ((splitDots s).take (j + 1)) := rfl

/-! #### non-vacuity: `module_path = r/app` below `root_path = r`, limit 1 -/
namespace ScanEx

def mt0 : Str → Str → Bool := fun _ _ => false
def S (s : String) : Str := s.toList

/-- r/app/{a/x.py, b/y/z.py, c.py};  x: `import app.b.y.z` (completed to `r.app.b.y.z`);  z: `from ... import c` -/
def ents : List Entry := [
  { rel := [S "app"], isDir := true },
  { rel := [S "app", S "a"], isDir := true },
  { rel := [S "app", S "a", S "x.py"], isDir := false, stmts := [.imp [S "app.b.y.z"]] },
  { rel := [S "app", S "b"], isDir := true },
  { rel := [S "app", S "b", S "y"], isDir := true },
  { rel := [S "app", S "b", S "y", S "z.py"], isDir := false, stmts := [.impFrom none [S "c"] 3] },
  { rel := [S "app", S "c.py"], isDir := false } ]
def o1 : ScanOptions := { exclusions := .globs [], levelLimit := some 1 }
def run (es : List Entry) (mp : List Str) (o : ScanOptions) : PGraph Str :=
  match generateGraph mt0 (S "/r") (S "r") mp es o with
  | .ok g => g
  | .error _ => PGraph.empty
def recs (es : List Entry) (mp : List Str) (o : ScanOptions) : List ImportRec :=
  match scanRetained mt0 (S "/r") (S "r") mp es o with
  | .ok R => R
  | .error _ => []

set_option maxRecDepth 100000 in
example : generateGraph mt0 (S "/r") (S "r") [S "app"] ents o1 = .ok (run ents [S "app"] o1) ∧
    generateGraph mt0 (S "/r") (S "r") [S "app"] ents o1.noLimit = .ok (run ents [S "app"] o1.noLimit) ∧
    scanRetained mt0 (S "/r") (S "r") [S "app"] ents o1 = .ok (recs ents [S "app"] o1) := ⟨by rfl, by rfl, by rfl⟩
example : shiftedLimit o1 [S "app"] = some 2 := rfl
-- the hypothesis of `scan_quotient_imports_clean` (`noDownwardImports`), two sufficient conditions for it, and
-- `danglingFree` (needed before the repair, now only documentation)
set_option maxRecDepth 100000 in
example : danglingFree (recs ents [S "app"] o1) (run ents [S "app"] o1.noLimit) = true ∧
    leafImporters (recs ents [S "app"] o1) (run ents [S "app"] o1.noLimit) = true ∧
    leafFiles (scanParsed mt0 (S "/r") (S "r") [S "app"] ents o1).files (run ents [S "app"] o1.noLimit) = true ∧
    noDownwardImports (run ents [S "app"] o1.noLimit) = true := by decide
-- the full graph …
set_option maxRecDepth 100000 in
example : (run ents [S "app"] o1.noLimit).nodes =
      [S "r.app", S "r", S "r.app.a", S "r.app.a.x", S "r.app.b", S "r.app.b.y", S "r.app.b.y.z", S "r.app.c"] ∧
    (run ents [S "app"] o1.noLimit).importPairs = [(S "r.app.a.x", S "r.app.b.y.z"), (S "r.app.b.y.z", S "r.app.c")] := by
  decide
-- … and its quotient: every name cut to one level below `r.app`
set_option maxRecDepth 100000 in
example : (run ents [S "app"] o1).nodes = [S "r.app", S "r", S "r.app.a", S "r.app.b", S "r.app.c"] ∧
    (run ents [S "app"] o1).importPairs = [(S "r.app.a", S "r.app.b"), (S "r.app.b", S "r.app.c")] ∧
    (run ents [S "app"] o1).hierPairs = [(S "r", S "r.app"), (S "r.app", S "r.app.a"), (S "r.app", S "r.app.b"), (S "r.app", S "r.app.c")] := by
  decide
example : nameWF [S "r", S "app", S "b", S "y", S "z"] = true ∧
    flattenNode (shiftedLimit o1 [S "app"]) (S "r.app.b.y.z") = S "r.app.b" := by decide

/-! #### a dangling import (the defect repaired by `_is_import_between_known_modules`)

`c.py` additionally does `import r.app.a.gone` (no such module: not a `.py` file, excluded, or a typo).  The full
graph has no edge for it (the constructor requires both ends to be nodes).  Before the repair, with limit 1 the importee
was cut to the existing package `r.app.a` and the edge `r.app.c → r.app.a` appeared in the limited graph although it is
the image of no import edge of the full graph.  Now the constructor checks the UNFLATTENED names against the known
modules, and the limited graph has exactly the import edges of the quotient. -/
def entsD : List Entry := ents.dropLast ++ [{ rel := [S "app", S "c.py"], isDir := false, stmts := [.imp [S "r.app.a.gone"]] }]

/-- the import edges of the quotient of `g0`: flattened import edges with distinct ends that are not parent→child pairs -/
def quotientImports (L : Option Nat) (g0 : PGraph Str) : List (Str × Str) :=
  (g0.importPairs.map fun p => (flattenNode L p.1, flattenNode L p.2)).filter fun p => p.1 != p.2 && !isHierPair p.1 p.2

end ScanEx

set_option maxRecDepth 100000 in
/-- on the witness tree of the former counterexample (a dangling import `r.app.c → r.app.a.gone`, so `danglingFree`
    fails) the limited graph now has exactly the quotient's import edges; in particular not `r.app.c → r.app.a` -/
theorem scan_quotient_imports_dangling_fixed :
    generateGraph ScanEx.mt0 (ScanEx.S "/r") (ScanEx.S "r") [ScanEx.S "app"] ScanEx.entsD ScanEx.o1 =
      .ok (ScanEx.run ScanEx.entsD [ScanEx.S "app"] ScanEx.o1) ∧
    generateGraph ScanEx.mt0 (ScanEx.S "/r") (ScanEx.S "r") [ScanEx.S "app"] ScanEx.entsD ScanEx.o1.noLimit =
      .ok (ScanEx.run ScanEx.entsD [ScanEx.S "app"] ScanEx.o1.noLimit) ∧
    danglingFree (ScanEx.recs ScanEx.entsD [ScanEx.S "app"] ScanEx.o1)
      (ScanEx.run ScanEx.entsD [ScanEx.S "app"] ScanEx.o1.noLimit) = false ∧
    (ScanEx.run ScanEx.entsD [ScanEx.S "app"] ScanEx.o1.noLimit).importPairs =
      [(ScanEx.S "r.app.a.x", ScanEx.S "r.app.b.y.z"), (ScanEx.S "r.app.b.y.z", ScanEx.S "r.app.c")] ∧
    (ScanEx.run ScanEx.entsD [ScanEx.S "app"] ScanEx.o1).importPairs =
      [(ScanEx.S "r.app.a", ScanEx.S "r.app.b"), (ScanEx.S "r.app.b", ScanEx.S "r.app.c")] ∧
    (ScanEx.run ScanEx.entsD [ScanEx.S "app"] ScanEx.o1).importPairs =
      ScanEx.quotientImports (shiftedLimit ScanEx.o1 [ScanEx.S "app"])
        (ScanEx.run ScanEx.entsD [ScanEx.S "app"] ScanEx.o1.noLimit) ∧
    (ScanEx.S "r.app.c", ScanEx.S "r.app.a") ∉ (ScanEx.run ScanEx.entsD [ScanEx.S "app"] ScanEx.o1).importPairs := by
  refine ⟨by rfl, by rfl, by decide, by decide, by decide, by decide, by decide⟩

/-- the property text read as an equivalence on the scan graphs, without side condition -/
def ScanQuotientImports_Statement : Prop :=
  ∀ (mt : Str → Str → Bool) (base rootName : Str) (mp : List Str) (entries : List Entry) (o : ScanOptions)
    (g g0 : PGraph Str),
    generateGraph mt base rootName mp entries o = .ok g →
    generateGraph mt base rootName mp entries o.noLimit = .ok g0 →
    ∀ a b, (a, b) ∈ g.importPairs ↔
      a ≠ b ∧ isHierPair a b = false ∧
      ∃ u v, (u, v) ∈ g0.importPairs ∧ a = flattenNode (shiftedLimit o mp) u ∧ b = flattenNode (shiftedLimit o mp) v

/-- it HOLDS of the repaired model (it was false before the repair: `_create_edge` tests `has_node` AFTER flattening,
    so a dangling import reappeared on the module its importee is truncated to) -/
theorem scanQuotientImports : ScanQuotientImports_Statement :=
  fun mt base rootName mp entries o g g0 hg hg0 a b =>
    scan_quotient_imports mt base rootName mp entries o g g0 hg hg0 a b

/-! #### a collision: `x.py` next to a directory `x`, limit 2

`r/x.py` does `import r.x.y.z`; `r.x` is also the package `r/x`.  In the full graph `r.x → r.x.y.z` is an import edge;
cut to three components it becomes `r.x → r.x.y`, a parent→child pair, which stays the hierarchy edge: the limited
graph has no import edge although the quotient has one with distinct ends. -/
namespace CollEx
open ScanEx
def ents : List Entry := [
  { rel := [S "x.py"], isDir := false, stmts := [.imp [S "r.x.y.z"]] },
  { rel := [S "x"], isDir := true },
  { rel := [S "x", S "y"], isDir := true },
  { rel := [S "x", S "y", S "z.py"], isDir := false } ]
def o2 : ScanOptions := { exclusions := .globs [], levelLimit := some 2 }

set_option maxRecDepth 100000 in
theorem collision_facts :
    generateGraph mt0 (S "/r") (S "r") [] ents o2 = .ok (run ents [] o2) ∧
    generateGraph mt0 (S "/r") (S "r") [] ents o2.noLimit = .ok (run ents [] o2.noLimit) ∧
    (run ents [] o2.noLimit).importPairs = [(S "r.x", S "r.x.y.z")] ∧
    (run ents [] o2).importPairs = [] ∧
    (S "r.x", S "r.x.y") ∈ (run ents [] o2).hierPairs ∧
    flattenNode (shiftedLimit o2 []) (S "r.x") = S "r.x" ∧ flattenNode (shiftedLimit o2 []) (S "r.x.y.z") = S "r.x.y" ∧
    danglingFree (recs ents [] o2) (run ents [] o2.noLimit) = true ∧
    noDownwardImports (run ents [] o2.noLimit) = false ∧
    isStrictSub (S "r.x") (S "r.x.y.z") = true ∧ (splitDots (S "r.x")).length = 2 := by
  refine ⟨by rfl, by rfl, by decide, by decide, by decide, by decide, by decide, by decide, by decide, by decide, by decide⟩
end CollEx

end Pta.C09
