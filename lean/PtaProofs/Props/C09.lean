/-
  PtaProofs.Props.C09 — level_limit yields the quotient graph (property C09, first sentence): for EVERY
  well-formed architecture and every limit k, the graph built with level_limit = k has exactly the truncated
  module names as nodes, a hierarchy edge exactly between a truncated name and its parent, and an import edge
  a → b exactly when some module truncating to a imports some module truncating to b and a ≠ b.
  With `lim = none` this is the statement that the graph constructor represents the architecture faithfully.

  Second sentence: the flattened graph is the graph of the (well-formed) quotient architecture `truncArch lim a`,
  and every STRICT rule whose identifiers lie at or above the limit (`ruleAbove k r`: `are_named x` with at most k+1
  components, `are_sub_modules_of x` with at most k) has the same verdict on the flattened and on the full graph.
  For related identifiers this fails (`verdict_not_preserved_related`).
-/
import Bridge.Abs
import Bridge.Quotient
import PtaProofs.Lemmas.Build
import PtaProofs.Lemmas.LimitVerdict
namespace Pta.C09
open Pta PtaSpec

theorem quotient (a : Arch) (hwf : a.wf = true) (lim : Option Nat) : QuotientOf a lim (archGraphLim a lim) :=
  Pta.buildGraph_quotient a hwf lim

/-- without a limit: the graph of an architecture -/
theorem graph_of_arch (a : Arch) (hwf : a.wf = true) : GraphOf a (archGraph a) :=
  Pta.archGraph_graphOf a hwf

/-- nodes are never duplicated -/
theorem nodes_nodup (a : Arch) (lim : Option Nat) : (archGraphLim a lim).nodes.Nodup :=
  Pta.archGraphLim_nodup a lim

/-- self edges are dropped: no node imports itself -/
theorem no_self_import (a : Arch) (hwf : a.wf = true) (lim : Option Nat) (s : Str) :
    s ∉ (archGraphLim a lim).importSuccs s :=
  Pta.no_self_import_lemma a hwf lim s

/-- the limit is raised by the number of levels between root_path and module_path (`generate_graph`) -/
theorem limit_shift (k : Nat) (mp : List Str) :
    ((some k).map fun k => if !mp.isEmpty then k + mp.length else k) = some (if mp = [] then k else k + mp.length) := by
  cases mp <;> simp

/-! non-vacuity -/
def exA : Arch :=
  { nodes := [["p".toList], ["p".toList, "a".toList], ["p".toList, "a".toList, "x".toList], ["p".toList, "b".toList], ["q".toList]],
    imports := [(["p".toList, "a".toList, "x".toList], ["q".toList]), (["p".toList, "a".toList, "x".toList], ["p".toList, "a".toList])] }
example : exA.wf = true := by decide
example : (archGraphLim exA (some 1)).importPairs = [("p.a".toList, "q".toList)] := by decide

/-! ### second sentence: verdicts above the limit are preserved -/

/-- the flattened graph is the graph of the quotient architecture … -/
theorem graph_of_quotient_arch (a : Arch) (hwf : a.wf = true) (lim : Option Nat) :
    GraphOf (truncArch lim a) (archGraphLim a lim) :=
  Pta.graphOf_truncArch a lim _ (Pta.buildGraph_quotient a hwf lim)

/-- … which is again well-formed (in particular truncation never makes an importer a strict ancestor of its importee),
    so that C01 applies to the flattened graph -/
theorem quotient_arch_wf (a : Arch) (hwf : a.wf = true) (lim : Option Nat) : (truncArch lim a).wf = true :=
  Pta.truncArch_wf lim a hwf

/-- on the specification side, rules at or above the limit do not see the truncation -/
theorem spec_verdict_preserved (a : Arch) (k : Nat) (r : RuleSpec) (hstrict : r.strict = true)
    (hany : r.anything = true → r.verb = .shouldNot) (habove : ruleAbove k r = true) :
    verdict (truncArch (some k) a) r = verdict a r :=
  Pta.verdict_trunc k a r hstrict habove hany

/-- C09, second sentence: every strict rule whose named modules lie at or above level k (and whose
    'sub modules of' parents lie strictly above it) has the same verdict on the flattened and on the full graph -/
theorem verdict_preserved (mt : Str → Str → Bool) (a : Arch) (hwf : a.wf = true) (k : Nat)
    (r : RuleSpec) (hstrict : r.strict = true) (hnames : r.namesIn a = true)
    (hs : r.subjects ≠ []) (ho : r.anything = true ∨ r.objects ≠ [])
    (hany : r.anything = true → r.verb = .shouldNot)
    (hdepth : ruleAbove k r = true) :
    verdictOf mt (archGraphLim a (some k)) (compile r) = verdictOf mt (archGraph a) (compile r) :=
  Pta.verdict_preserved_lemma mt a hwf k r hstrict hnames hs ho hany hdepth

/-- `hdepth`, spelled out: `are_named x` has at most k+1 components, `are_sub_modules_of x` at most k -/
theorem ruleAbove_iff (k : Nat) (r : RuleSpec) :
    ruleAbove k r = true ↔ ∀ f ∈ r.subjects ++ r.effObjects,
      (∀ x, f = .named x → x.length ≤ k + 1) ∧ (∀ x, f = .subOf x → x.length ≤ k) := by
  unfold ruleAbove
  rw [List.all_eq_true]
  refine forall_congr' fun f => forall_congr' fun _ => ?_
  cases f <;> simp [filterAbove]

/-- and both are the documented semantics evaluated on the FULL architecture -/
theorem verdict_lim_spec (mt : Str → Str → Bool) (a : Arch) (hwf : a.wf = true) (k : Nat)
    (r : RuleSpec) (hstrict : r.strict = true) (hnames : r.namesIn a = true)
    (hs : r.subjects ≠ []) (ho : r.anything = true ∨ r.objects ≠ [])
    (hany : r.anything = true → r.verb = .shouldNot)
    (hdepth : ruleAbove k r = true) :
    verdictOf mt (archGraphLim a (some k)) (compile r) = VClass.ofBool (verdict a r) :=
  Pta.verdict_lim_spec_lemma mt a hwf k r hstrict hnames hs ho hany hdepth

/-! non-vacuity: `p.a should only import q` at limit 1; `sub modules of p should not import except q` at limit 1 -/
def nm (s : String) : Name := splitDots s.toList
def exR : RuleSpec :=
  { verb := .shouldOnly, importDir := true, exc := false, subjects := [.named (nm "p.a")], objects := [.named (nm "q")] }
def exR2 : RuleSpec :=
  { verb := .shouldNot, importDir := true, exc := true, subjects := [.subOf (nm "p")], objects := [.named (nm "q")] }
example : exA.wf = true ∧ exR.strict = true ∧ exR.namesIn exA = true ∧ exR.subjects ≠ [] ∧ exR.objects ≠ [] ∧
    ruleAbove 1 exR = true := by decide
example : exR2.strict = true ∧ exR2.namesIn exA = true ∧ ruleAbove 1 exR2 = true := by decide
example : (truncArch (some 1) exA).nodes = [nm "p", nm "p.a", nm "p.b", nm "q"] ∧
    (truncArch (some 1) exA).imports = [(nm "p.a", nm "q")] := by decide
example : verdictOf (fun _ _ => false) (archGraphLim exA (some 1)) (compile exR) = .pass ∧
    verdictOf (fun _ _ => false) (archGraph exA) (compile exR) = .pass := by decide
example : verdictOf (fun _ _ => false) (archGraphLim exA (some 1)) (compile exR2) = .pass ∧
    verdictOf (fun _ _ => false) (archGraph exA) (compile exR2) = .pass := by decide

/-- the `anything` alias: `p.a should not import anything` fails on both graphs (`p.a.x → q`) -/
def exR3 : RuleSpec :=
  { verb := .shouldNot, importDir := true, exc := false, subjects := [.named (nm "p.a")], objects := [], anything := true }
example : exR3.strict = true ∧ exR3.namesIn exA = true ∧ ruleAbove 1 exR3 = true := by decide
example : verdictOf (fun _ _ => false) (archGraphLim exA (some 1)) (compile exR3) = .fail ∧
    verdictOf (fun _ _ => false) (archGraph exA) (compile exR3) = .fail := by decide

/-! ### why the theorem is stated on strict rules -/

/-- `p.a.x → p.a.y` is the only import; the rule is `p.a should import p` (object `p` is an ancestor of the subject) -/
def exB : Arch :=
  { nodes := [nm "p", nm "p.a", nm "p.a.x", nm "p.a.y", nm "p.b"], imports := [(nm "p.a.x", nm "p.a.y")] }
def exRrel : RuleSpec :=
  { verb := .should, importDir := true, exc := false, subjects := [.named (nm "p.a")], objects := [.named (nm "p")] }

/-- for RELATED identifiers the verdict is not preserved: every hypothesis of `verdict_preserved` except strictness
    holds (all names exist and lie at or above limit 1), the rule passes on the full graph (the import `p.a.x → p.a.y`
    leads from `p.a` into `p`) and fails on the flattened graph (the import collapses to a dropped self edge of `p.a`) -/
theorem verdict_not_preserved_related :
    exB.wf = true ∧ exRrel.namesIn exB = true ∧ ruleAbove 1 exRrel = true ∧ exRrel.strict = false ∧
    verdictOf (fun _ _ => false) (archGraph exB) (compile exRrel) = .pass ∧
    verdictOf (fun _ _ => false) (archGraphLim exB (some 1)) (compile exRrel) = .fail := by decide

end Pta.C09
