/-
  PtaProofs.Props.C09 — level_limit yields the quotient graph (property C09, first sentence): for EVERY
  well-formed architecture and every limit k, the graph built with level_limit = k has exactly the truncated
  module names as nodes, a hierarchy edge exactly between a truncated name and its parent, and an import edge
  a → b exactly when some module truncating to a imports some module truncating to b and a ≠ b.
  With `lim = none` this is the statement that the graph constructor represents the architecture faithfully.
-/
import Bridge.Abs
import PtaProofs.Lemmas.Build
namespace Pta.C09
open Pta PtaSpec

theorem quotient (a : Arch) (hwf : a.wf = true) (lim : Option Nat) : QuotientOf a lim (archGraphLim a lim) :=
  Pta.buildGraph_quotient a hwf lim

/-- without a limit: the graph of an architecture -/
theorem graph_of_arch (a : Arch) (hwf : a.wf = true) : GraphOf a (archGraph a) :=
  Pta.archGraph_graphOf a hwf

/-- nodes are never duplicated -/
theorem nodes_nodup (a : Arch) (lim : Option Nat) : (archGraphLim a lim).nodes.Nodup :=
  Pta.archGraphLim_nodup a lim

/-- self edges are dropped: no node imports itself -/
theorem no_self_import (a : Arch) (hwf : a.wf = true) (lim : Option Nat) (s : Str) :
    s ∉ (archGraphLim a lim).importSuccs s :=
  Pta.no_self_import_lemma a hwf lim s

/-- the limit is raised by the number of levels between root_path and module_path (`generate_graph`) -/
theorem limit_shift (k : Nat) (mp : List Str) :
    ((some k).map fun k => if !mp.isEmpty then k + mp.length else k) = some (if mp = [] then k else k + mp.length) := by
  cases mp <;> simp

/-! non-vacuity -/
def exA : Arch :=
  { nodes := [["p".toList], ["p".toList, "a".toList], ["p".toList, "a".toList, "x".toList], ["p".toList, "b".toList], ["q".toList]],
    imports := [(["p".toList, "a".toList, "x".toList], ["q".toList]), (["p".toList, "a".toList, "x".toList], ["p".toList, "a".toList])] }
example : exA.wf = true := by decide
example : (archGraphLim exA (some 1)).importPairs = [("p.a".toList, "q".toList)] := by decide

end Pta.C09
