/-
  PtaProofs.Props.C14 — module identity follows dotted-name boundaries (property C14).
  (1) Bridge: every raw-string test the (repaired) code performs on rendered names — sub-module test, layer lookup,
      alias lookup, internal/external test — equals the component-level prefix relation.
  (2) The component-level semantics commutes with every injective renaming ρ of path components, including renamings
      that make a sibling's name a raw string prefix or substring of another's.
  Consequently verdicts, violating sets, layer attribution and plot labels are invariant up to the renaming.
  (3) The CODE MODEL itself commutes with the renaming for ALL rules with well-formed identifiers — related
      (ancestor / descendant) subjects and objects, batches, `anything` with its parent/sub-module de-duplication,
      names that do not exist (`model_verdict_ren_all`, `model_report_ren`, `model_atoms_ren`): the graph of the renamed
      architecture is the image of the original graph and every search, query, bucket and report line is mapped.
  (4) The same for LAYER rules (`layer_model_iso`, `layer_verdict_ren`): layer mapping, consistency check, layer lookup, the
      lenient detector and the tagged report commute with the renaming — same verdict class, same error kind
      (`LayerMismatch` included), same report lines with every module name renamed and the SAME layer tags.
  (5) The same for DIAGRAM rules (`diagram_model_iso`, `diagram_verdict_ren`, `diagram_spec_ren`): the generated rules of the
      renamed diagram are the renamed rules up to the order `sorted(...)` imposes; verdict class and the multiset of
      report items are invariant.
-/
import Bridge.Abs
import Bridge.Rename
import PtaProofs.Lemmas.Rename
import PtaProofs.Lemmas.RenameModel
import PtaProofs.Lemmas.RenameBuild
import PtaProofs.Lemmas.RenameNames
import PtaProofs.Lemmas.RenameLabel
import Bridge.RenameLayer
import PtaProofs.Lemmas.RenameLayer
import PtaProofs.Lemmas.RenameDiagram
namespace Pta.C14
open Pta PtaSpec

/-- (1) the raw boundary-aware test is the dotted-prefix relation (sub modules, aliases, internal modules) -/
theorem raw_test_is_prefix (p n : Name) (hp : nameWF p = true) (hn : nameWF n = true) :
    isModuleOrSub (render p) (render n) = desc p n ∧ isStrictSub (render p) (render n) = sdesc p n ∧
    isInternal (render n) (render p) = desc p n :=
  Pta.raw_test_is_prefix_lemma p n hp hn

/-- why the boundary matters: a raw `startswith` confuses `pkg.ab` with `pkg.a`, the boundary-aware test does not -/
theorem raw_prefix_counterexample :
    startsWith "pkg.a".toList "pkg.ab".toList = true ∧ isModuleOrSub "pkg.a".toList "pkg.ab".toList = false ∧
    isInfix "pkg.a".toList "pkg.ab".toList = true := by decide

/-- (2) the prefix relation is invariant under injective renaming of components -/
theorem desc_ren (ρ : Comp → Comp) (hρ : GoodRen ρ) (x n : Name) :
    desc (renName ρ x) (renName ρ n) = desc x n ∧ sdesc (renName ρ x) (renName ρ n) = sdesc x n ∧
    related (renName ρ x) (renName ρ n) = related x n :=
  Pta.desc_ren_lemma ρ hρ x n

/-- the documented rule semantics is invariant under renaming (all rules, strict or not) -/
theorem verdict_ren (ρ : Comp → Comp) (hρ : GoodRen ρ) (a : Arch) (r : RuleSpec) :
    verdict (renArch ρ a) (renRule ρ r) = verdict a r :=
  Pta.verdict_ren_lemma ρ hρ a r

/-- … and so is the violating set, up to the renaming itself -/
theorem violating_ren (ρ : Comp → Comp) (hρ : GoodRen ρ) (a : Arch) (r : RuleSpec) :
    violating (renArch ρ a) (renRule ρ r) = (violating a r).map (renSItem ρ) :=
  Pta.violating_ren_lemma ρ hρ a r

/-- well-formedness, strictness and existence of names are preserved -/
theorem domain_ren (ρ : Comp → Comp) (hρ : GoodRen ρ) (a : Arch) (r : RuleSpec) :
    (a.wf = true → (renArch ρ a).wf = true) ∧ (renRule ρ r).strict = r.strict ∧ (renRule ρ r).namesIn (renArch ρ a) = r.namesIn a :=
  Pta.domain_ren_lemma ρ hρ a r

/-- verdict of the CODE MODEL on the renamed architecture and rule = verdict on the original (strict domain) -/
theorem model_verdict_ren (mt : Str → Str → Bool) (ρ : Comp → Comp) (hρ : GoodRen ρ) (a : Arch) (hwf : a.wf = true)
    (r : RuleSpec) (hstrict : r.strict = true) (hnames : r.namesIn a = true)
    (hs : r.subjects ≠ []) (ho : r.anything = true ∨ r.objects ≠ [])
    (hany : r.anything = true → r.verb = .shouldNot) :
    verdictOf mt (archGraph (renArch ρ a)) (compile (renRule ρ r)) = verdictOf mt (archGraph a) (compile r) :=
  Pta.model_verdict_ren_lemma mt ρ hρ a hwf r hstrict hnames hs ho hany

/-- plot labels: the nearest aliased ancestor is found by components, so labels commute with renaming -/
theorem nearest_alias_ren (ρ : Comp → Comp) (hρ : GoodRen ρ) (al : Aliases) (n : Name) :
    nearestAliased (al.map fun p => (renName ρ p.1, p.2)) (renName ρ n) =
      (nearestAliased al n).map fun p => (renName ρ p.1, p.2) :=
  Pta.nearest_alias_ren_lemma ρ hρ al n

/-- layer lookup (`get_layer_for_module_name`) on rendered names is the nearest listed ancestor by components,
    and is invariant under renaming -/
theorem layerOf_ren (ρ : Comp → Comp) (hρ : GoodRen ρ) (m : List (Str × List Name)) (n : Name)
    (hm : ∀ l ∈ m, ∀ x ∈ l.2, nameWF x = true) (hn : nameWF n = true) :
    LayerMap.layerOf (m.map fun l => (l.1, l.2.map fun x => render (renName ρ x))) (render (renName ρ n)) =
    LayerMap.layerOf (m.map fun l => (l.1, l.2.map render)) (render n) :=
  Pta.layerOf_ren_lemma ρ hρ m n hm hn

/-! ### (3) the code model, all rules -/

/-- the graph built for the renamed architecture is the image of the original graph: same node order, same edge
    records, every name renamed (an exact equality of the two data structures) -/
theorem graph_ren (ρ : Comp → Comp) (hρ : GoodRen ρ) (a : Arch) (hwf : a.wf = true) :
    archGraph (renArch ρ a) = mapGraph (renStr ρ) (archGraph a) :=
  Pta.RM.archGraph_ren hρ a hwf

/-- Target A, verdict: for EVERY rule with well-formed identifiers (no strictness, names need not exist) the verdict
    class — pass / fail / which error — of the code model is invariant under the renaming -/
theorem model_verdict_ren_all (mt : Str → Str → Bool) (ρ : Comp → Comp) (hρ : GoodRen ρ) (a : Arch) (hwf : a.wf = true)
    (r : RuleSpec) (hr : ruleWF r = true) :
    verdictOf mt (archGraph (renArch ρ a)) (compile (renRule ρ r)) = verdictOf mt (archGraph a) (compile r) :=
  Pta.RM.model_verdict_ren_all_lemma mt ρ hρ a hwf r hr

/-- Target A, report: the full outcome of `assert_applies` on the renamed inputs is the original outcome with every
    module name in every report line renamed component-wise (same lines, same order, same error kind) -/
theorem model_report_ren (mt : Str → Str → Bool) (ρ : Comp → Comp) (hρ : GoodRen ρ) (a : Arch) (hwf : a.wf = true)
    (r : RuleSpec) (hr : ruleWF r = true) :
    (assertApplies mt (compile (renRule ρ r)) (archGraph (renArch ρ a))).2 =
      (assertApplies mt (compile r) (archGraph a)).2.mapId (renDotted ρ) :=
  Pta.RM.model_report_ren_plain_lemma mt ρ hρ a hwf r hr

/-- … together with the rewritten rule object (`_convert_aliases` with its parent / sub-module de-duplication
    commutes with the renaming); `renStr ρ` is `renDotted ρ` on well-formed dotted names (`renStr_agrees`) -/
theorem model_outcome_ren (mt : Str → Str → Bool) (ρ : Comp → Comp) (hρ : GoodRen ρ) (a : Arch) (hwf : a.wf = true)
    (r : RuleSpec) (hr : ruleWF r = true) :
    assertApplies mt (compile (renRule ρ r)) (archGraph (renArch ρ a)) =
      ((assertApplies mt (compile r) (archGraph a)).1.mapId (renStr ρ),
       (assertApplies mt (compile r) (archGraph a)).2.mapId (renStr ρ)) :=
  Pta.RM.model_report_ren_lemma mt ρ hρ a hwf r hr

/-- the reported atoms (import lines, (subject, object) pairs of "does not import" lines) correspond one to one -/
theorem model_atoms_ren (mt : Str → Str → Bool) (ρ : Comp → Comp) (hρ : GoodRen ρ) (a : Arch) (hwf : a.wf = true)
    (r : RuleSpec) (hr : ruleWF r = true) (items : List Item)
    (h : (assertApplies mt (compile r) (archGraph a)).2 = .fail items) :
    ∃ items', (assertApplies mt (compile (renRule ρ r)) (archGraph (renArch ρ a))).2 = .fail items' ∧
      items'.flatMap Item.atoms = (items.flatMap Item.atoms).map (Atom.mapId (renDotted ρ)) :=
  Pta.RM.model_atoms_ren_lemma mt ρ hρ a hwf r hr items h

/-- every module name occurring in a report is a well-formed dotted name, so the renaming of a report is the
    plain component-wise one -/
theorem report_names_wf (mt : Str → Str → Bool) (a : Arch) (hwf : a.wf = true) (r : RuleSpec) (hr : ruleWF r = true) :
    ∀ s ∈ (assertApplies mt (compile r) (archGraph a)).2.names, nameWF (splitDots s) = true :=
  Pta.RM.report_names_wf_lemma mt a hwf r hr

/-- the guarded string renaming agrees with the plain one on well-formed dotted names, is `render ∘ renName ρ` on
    rendered names, and is injective on all strings -/
theorem renStr_agrees (ρ : Comp → Comp) (hρ : GoodRen ρ) :
    (∀ s, nameWF (splitDots s) = true → renStr ρ s = renDotted ρ s) ∧
    (∀ n, nameWF n = true → renStr ρ (render n) = render (renName ρ n)) ∧
    (∀ x y, renStr ρ x = renStr ρ y → x = y) :=
  ⟨fun s h => by simp only [renStr, renDotted, h, if_true], Pta.RM.renStr_render ρ, Pta.RM.renStr_inj hρ⟩

/-- the generic fact behind (3): `assert_applies` commutes with EVERY injective map of node names that preserves
    the strict-sub-module test among the subject identifiers, on every graph and every regex-free rule object -/
theorem model_iso (φ : Str → Str) (hφ : ∀ x y, φ x = φ y → x = y) (mt : Str → Str → Bool) (g : PGraph Str) (s : RuleState)
    (hreg : Pta.RM.cfgNoRegex s.cfg) (hsub : Pta.RM.cfgSubOK φ s.cfg) :
    assertApplies mt (s.mapId φ) (mapGraph φ g) =
      ((assertApplies mt s g).1.mapId φ, (assertApplies mt s g).2.mapId φ) :=
  Pta.RM.assertApplies_map φ hφ mt g s hreg hsub

/-! ### Target B: plot labels and the internal / external classification -/

/-- plot labels of the renamed modules with the renamed alias table: the alias text is kept, the components that
    remain below the aliased ancestor are renamed (`labelWith id` is the documented label, `labelWith_id`) -/
theorem labels_ren (ρ : Comp → Comp) (hρ : GoodRen ρ) (nodes : List Name) (al : Aliases)
    (hn : ∀ n ∈ nodes, nameWF n = true) (hk : (al.map (·.1)).Nodup) (hex : ∀ a ∈ al, a.1 ∈ nodes) :
    plotLabels ((nodes.map (renName ρ)).map render) ((renAliases ρ al).map fun a => (render a.1, a.2)) =
      .ok (nodes.map fun n => (render (renName ρ n), labelWith (renName ρ) al n)) ∧
    plotLabels (nodes.map render) (al.map fun a => (render a.1, a.2)) =
      .ok (nodes.map fun n => (render n, labelWith id al n)) := by
  refine ⟨Pta.RM.labels_ren_lemma ρ hρ nodes al hn hk hex, ?_⟩
  rw [Pta.labels_spec_lemma nodes al hn hk hex]
  simp only [Pta.RM.labelWith_id]

/-- the documented label commutes with the renaming -/
theorem label_ren (ρ : Comp → Comp) (hρ : GoodRen ρ) (al : Aliases) (n : Name) :
    PtaSpec.label (renAliases ρ al) (renName ρ n) = labelWith (renName ρ) al n ∧ PtaSpec.label al n = labelWith id al n :=
  ⟨Pta.RM.label_ren hρ al n, (Pta.RM.labelWith_id al n).symm⟩

/-- internal / external classification (`isInternal`, used by the scan to split imports) is invariant -/
theorem isInternal_ren (ρ : Comp → Comp) (hρ : GoodRen ρ) (n p : Name) (hn : nameWF n = true) (hp : nameWF p = true) :
    isInternal (render (renName ρ n)) (render (renName ρ p)) = isInternal (render n) (render p) :=
  Pta.RM.isInternal_ren_lemma ρ hρ n p hn hp

/-! ### non-vacuity: an adversarial renaming is admissible, and the hypotheses are met by non-strict rules -/

/-- `x ↦ a`, `y ↦ ab` (a sibling becomes a raw string prefix of the other), everything else gets a `z` in front -/
def advRen : Comp → Comp := fun c => if c = "x".toList then "a".toList else if c = "y".toList then "ab".toList else 'z' :: c
example : renName advRen [["p".toList], ["x".toList]].head! = ["zp".toList] := by decide

theorem advRen_good : GoodRen advRen := by
  constructor
  · intro c d h
    unfold advRen at h
    by_cases c1 : c = "x".toList <;> by_cases c2 : c = "y".toList <;> by_cases d1 : d = "x".toList <;>
      by_cases d2 : d = "y".toList <;> simp_all
  · intro c h
    unfold advRen
    by_cases c1 : c = "x".toList
    · simp only [c1, if_true]; decide
    · by_cases c2 : c = "y".toList
      · simp only [c2]; decide
      · simp only [c1, c2, if_false]
        rw [Pta.compWF_iff] at h ⊢
        refine ⟨by simp, ?_⟩
        intro hm
        rcases List.mem_cons.1 hm with h' | h'
        · cases h'
        · exact h.2 h'

def nm (s : String) : Name := splitDots s.toList
def exA : Arch :=
  { nodes := ["p", "p.x", "p.x.u", "p.y", "q"].map nm, imports := [(nm "p.x.u", nm "p.y"), (nm "p.y", nm "q"), (nm "q", nm "p.x")] }
/-- `anything` with related subjects (a module, one of its sub modules, and "sub modules of" their common parent) -/
def exR : RuleSpec :=
  { verb := .shouldNot, importDir := true, exc := false, anything := true, objects := [],
    subjects := [.named (nm "p.x"), .named (nm "p.x.u"), .subOf (nm "p")] }
/-- related subject and object, batch of objects, "be imported by" -/
def exR' : RuleSpec :=
  { verb := .shouldOnly, importDir := false, exc := false,
    subjects := [.named (nm "p.x"), .subOf (nm "p")], objects := [.named (nm "p.x.u"), .named (nm "q")] }
example : exA.wf = true ∧ ruleWF exR = true ∧ exR.strict = false ∧ ruleWF exR' = true ∧ exR'.strict = false := by decide
example : (assertApplies (fun _ _ => false) (compile exR) (archGraph exA)).2 = .fail [.imp "p.y".toList "q".toList false] ∧
    (assertApplies (fun _ _ => false) (compile (renRule advRen exR)) (archGraph (renArch advRen exA))).2 =
      .fail [.imp "zp.ab".toList "zq".toList false] := by decide
set_option maxRecDepth 8000 in
example : (assertApplies (fun _ _ => false) (compile exR') (archGraph exA)).2 =
      .fail [.miss false ⟨false, "p.x".toList⟩ [⟨false, "p.x.u".toList⟩] true] ∧
    (assertApplies (fun _ _ => false) (compile (renRule advRen exR')) (archGraph (renArch advRen exA))).2 =
      .fail [.miss false ⟨false, "zp.a".toList⟩ [⟨false, "zp.a.zu".toList⟩] true] := by decide
/-- labels: `p.ab` (renamed `p.y`) keeps its name although `p.a` (renamed `p.x`) has an alias -/
example : plotLabels (([nm "p", nm "p.x", nm "p.y", nm "p.x.u"].map (renName advRen)).map render)
      ((renAliases advRen [(nm "p.x", "A".toList)]).map fun a => (render a.1, a.2)) =
    .ok [("zp".toList, "zp".toList), ("zp.a".toList, "A".toList), ("zp.ab".toList, "zp.ab".toList), ("zp.a.zu".toList, "A.zu".toList)] := by
  rfl


/-! ### (4) LAYER rules: the code model commutes with the renaming -/

/-- the generic fact: `LayerRule.assert_applies` commutes with EVERY injective map `φ` of node names that preserves the
    boundary-aware strict-sub-module test `isStrictSub x y` for `x` an identifier listed by a layer or used by the rule
    and `y` a name the graph mentions (node or edge end) or an identifier used by the rule (`subOK`) — on every graph,
    every layered architecture (regex layers contribute nothing to the mapping of a regex-free rule, on both sides) and
    every regex-free rule object. Same verdict class, same error kind (`LayerMismatch` included), same report lines in
    the same order with every module name mapped and the SAME layer tags. -/
theorem layer_model_iso (φ : Str → Str) (hφ : ∀ x y, φ x = φ y → x = y) (mt : Str → Str → Bool) (g : PGraph Str)
    (larch : LArch) (rule : RuleState) (hreg : Pta.RM.cfgNoRegex rule.cfg)
    (hsub : subOK φ (larch.listedIds ++ rule.cfg.ids) (g.names ++ rule.cfg.ids)) :
    assertAppliesLayer mt ⟨some (larch.mapIds φ), some (rule.mapId φ)⟩ (mapGraph φ g) =
      (assertAppliesLayer mt ⟨some larch, some rule⟩ g).mapId φ :=
  Pta.RL.assertAppliesLayer_map φ hφ mt g larch rule hreg hsub

/-- the mapped verdict has the class and the layer tags of the original one -/
theorem layer_mapId_cls_tags (φ : Str → Str) (v : LVerdict) : (v.mapId φ).cls = v.cls ∧ (v.mapId φ).tags = v.tags :=
  Pta.RL.mapId_cls_tags_lemma φ v

/-- the layer mapping itself: consistency check (`LayerMismatch` for a module listed by two layers) and layer lookup
    (`get_layer_for_module_name`, with its de-duplication and its sub-module test) commute with `φ` -/
theorem layerMap_iso (φ : Str → Str) (hφ : ∀ x y, φ x = φ y → x = y) (m : LayerMap) :
    (m.mapIds φ).consistent = m.consistent ∧
    ∀ n, subOK φ m.listed [n] → (m.mapIds φ).layerOf (φ n) = m.layerOf n :=
  ⟨Pta.RL.consistent_map φ hφ m, fun n h => Pta.RL.layerOf_map φ hφ m n (fun c hc => h c hc n (by simp))⟩

/-- Target 2: for EVERY layer rule (any verb, direction, `except`, `anything`; layers may list related modules, the
    same module twice or in two layers, modules that do not exist; undefined layer names) on a well-formed architecture
    with layers listing well-formed names: the outcome on the renamed architecture with the renamed layers is the
    original outcome with every module name renamed — same class, same error kind, same layer tags -/
theorem layer_verdict_ren (mt : Str → Str → Bool) (ρ : Comp → Comp) (hρ : GoodRen ρ) (a : Arch) (hwf : a.wf = true)
    (ls : Layers) (hls : layersWF ls = true) (r : LRuleSpec) :
    assertAppliesLayer mt (compileLayerRule (compileLArch (renLayers ρ ls)) r) (archGraph (renArch ρ a)) =
      (assertAppliesLayer mt (compileLayerRule (compileLArch ls) r) (archGraph a)).mapId (renStr ρ) :=
  Pta.RL.layer_verdict_ren_lemma mt ρ hρ a hwf ls hls r

/-- … in particular the verdict class and the layer tags of the report are invariant -/
theorem layer_verdict_ren_cls (mt : Str → Str → Bool) (ρ : Comp → Comp) (hρ : GoodRen ρ) (a : Arch) (hwf : a.wf = true)
    (ls : Layers) (hls : layersWF ls = true) (r : LRuleSpec) :
    (assertAppliesLayer mt (compileLayerRule (compileLArch (renLayers ρ ls)) r) (archGraph (renArch ρ a))).cls =
      (assertAppliesLayer mt (compileLayerRule (compileLArch ls) r) (archGraph a)).cls ∧
    (assertAppliesLayer mt (compileLayerRule (compileLArch (renLayers ρ ls)) r) (archGraph (renArch ρ a))).tags =
      (assertAppliesLayer mt (compileLayerRule (compileLArch ls) r) (archGraph a)).tags := by
  rw [layer_verdict_ren mt ρ hρ a hwf ls hls r]
  exact layer_mapId_cls_tags _ _

/-- … with the plain component-wise renaming `renDotted ρ` of the report: every module name in a layer report is a
    well-formed dotted name (`layer_report_names_wf`) -/
theorem layer_report_ren (mt : Str → Str → Bool) (ρ : Comp → Comp) (hρ : GoodRen ρ) (a : Arch) (hwf : a.wf = true)
    (ls : Layers) (hls : layersWF ls = true) (r : LRuleSpec) :
    assertAppliesLayer mt (compileLayerRule (compileLArch (renLayers ρ ls)) r) (archGraph (renArch ρ a)) =
      (assertAppliesLayer mt (compileLayerRule (compileLArch ls) r) (archGraph a)).mapId (renDotted ρ) :=
  Pta.RL.layer_verdict_ren_plain_lemma mt ρ hρ a hwf ls hls r

theorem layer_report_names_wf (mt : Str → Str → Bool) (a : Arch) (hwf : a.wf = true) (ls : Layers)
    (hls : layersWF ls = true) (r : LRuleSpec) :
    ∀ s ∈ (assertAppliesLayer mt (compileLayerRule (compileLArch ls) r) (archGraph a)).names, nameWF (splitDots s) = true :=
  Pta.RL.layer_report_names_wf_lemma mt a hwf ls hls r

/-- `layer_model_iso` for an arbitrary state of the `LayerRule` builder (no rule yet, no architecture yet) -/
theorem layer_model_iso_state (φ : Str → Str) (hφ : ∀ x y, φ x = φ y → x = y) (mt : Str → Str → Bool) (g : PGraph Str)
    (s : LayerRuleState)
    (h : ∀ a r, s.arch = some a → s.rule = some r →
      Pta.RM.cfgNoRegex r.cfg ∧ subOK φ (a.listedIds ++ r.cfg.ids) (g.names ++ r.cfg.ids)) :
    assertAppliesLayer mt (s.mapId φ) (mapGraph φ g) = (assertAppliesLayer mt s g).mapId φ :=
  Pta.RL.assertAppliesLayer_map_state φ hφ mt g s h

/-! ### (5) DIAGRAM rules -/

/-- (a) `MultipleRuleApplier.assert_applies` on the mapped graph with the mapped generated rules: the mapped outcome,
    exactly (rule by rule from `model_iso`) -/
theorem diagram_rules_iso (φ : Str → Str) (hφ : ∀ x y, φ x = φ y → x = y) (mt : Str → Str → Bool) (g : PGraph Str)
    (so : Bool) (p : Parsed') :
    applyAll mt (mapGraph φ g) ((diagramRules so p).map (RuleState.mapId φ)) = (applyAll mt g (diagramRules so p)).mapId φ :=
  Pta.RD.applyAll_map φ hφ mt g _ (Pta.RD.diagramRules_ok φ so p)

/-- (b) the rules generated for the mapped diagram: the mapped "should" rules in the same order, followed by a
    PERMUTATION of the mapped "should not" rules, each with its object list permuted (`sorted(...)` sorts the mapped
    names, so neither order is preserved in general — see the example below) -/
theorem diagram_rules_shape (φ : Str → Str) (hφ : ∀ x y, φ x = φ y → x = y) (so : Bool) (p : Parsed') :
    ∃ A B B' B'', diagramRules so p = A ++ B ∧ diagramRules so (p.mapNames φ) = A.map (RuleState.mapId φ) ++ B' ∧
      B'.Perm B'' ∧ Forall2 SNPerm B'' (B.map (RuleState.mapId φ)) := by
  obtain ⟨B', B'', h1, h2, h3⟩ := Pta.RD.diagramRules_mapNames φ hφ so p
  exact ⟨_, _, B', B'', Pta.Dg.diagramRules_eq so p, h1, h2, h3⟩

/-- Target 3, generic: a diagram rule commutes with EVERY injective map of node names — no hypothesis on the graph or on
    the parser result: same verdict class (same error kind), and the report items are the mapped items as a multiset
    (neither the order of the "should not" rules nor the order of their objects matters) -/
theorem diagram_model_iso (φ : Str → Str) (hφ : ∀ x y, φ x = φ y → x = y) (mt : Str → Str → Bool) (g : PGraph Str)
    (so : Bool) (p : Parsed') :
    (applyAll mt (mapGraph φ g) (diagramRules so (p.mapNames φ))).cls = (applyAll mt g (diagramRules so p)).cls ∧
    (applyAll mt (mapGraph φ g) (diagramRules so (p.mapNames φ))).items.Perm
      ((applyAll mt g (diagramRules so p)).items.map (Item.mapId φ)) :=
  Pta.RD.diagram_map φ hφ mt g so p

/-- Target 3 for the component-wise renaming, any parser result -/
theorem diagram_verdict_ren (mt : Str → Str → Bool) (ρ : Comp → Comp) (hρ : GoodRen ρ) (a : Arch) (hwf : a.wf = true)
    (so : Bool) (p : Parsed') :
    (applyAll mt (archGraph (renArch ρ a)) (diagramRules so (p.mapNames (renStr ρ)))).cls =
      (applyAll mt (archGraph a) (diagramRules so p)).cls ∧
    (applyAll mt (archGraph (renArch ρ a)) (diagramRules so (p.mapNames (renStr ρ)))).items.Perm
      ((applyAll mt (archGraph a) (diagramRules so p)).items.map (Item.mapId (renStr ρ))) :=
  Pta.RD.diagram_verdict_ren_lemma mt ρ hρ a hwf so p

/-- … and for a specification-level diagram with an optional base module (`with_base_module`): what
    `DiagramRule.assert_applies` evaluates for the renamed diagram and the renamed base module on the renamed
    architecture (`parsedOf (renDiagram ρ d) = (parsedOf d).mapNames (renStr ρ)`, `parsedOf_ren`) -/
theorem diagram_spec_ren (mt : Str → Str → Bool) (ρ : Comp → Comp) (hρ : GoodRen ρ) (a : Arch) (hwf : a.wf = true)
    (so : Bool) (d : Diagram) (hd : specDiagramWF d = true) (base : Option Name) (hb : ∀ q, base = some q → nameWF q = true) :
    (applyAll mt (archGraph (renArch ρ a))
        (diagramRules so (prefixParsed (parsedOf (renDiagram ρ d)) ((base.map (renName ρ)).map render)))).cls =
      (applyAll mt (archGraph a) (diagramRules so (prefixParsed (parsedOf d) (base.map render)))).cls ∧
    (applyAll mt (archGraph (renArch ρ a))
        (diagramRules so (prefixParsed (parsedOf (renDiagram ρ d)) ((base.map (renName ρ)).map render)))).items.Perm
      ((applyAll mt (archGraph a) (diagramRules so (prefixParsed (parsedOf d) (base.map render)))).items.map
        (Item.mapId (renStr ρ))) :=
  Pta.RD.diagram_spec_ren_lemma mt ρ hρ a hwf so d hd base hb

theorem parsedOf_ren (ρ : Comp → Comp) (hρ : GoodRen ρ) (d : Diagram) (hd : specDiagramWF d = true) :
    parsedOf (renDiagram ρ d) = (parsedOf d).mapNames (renStr ρ) :=
  Pta.RD.parsedOf_ren hρ d hd


/-! ### non-vacuity of (4) and (5): the adversarial renaming, layer tags, `LayerMismatch`, reordered diagram rules -/

/-- three layers listing `p.x`, its sibling `p.y` (renamed to `zp.a` and `zp.ab`: a raw string prefix) and `q` -/
def exLs : Layers := [("L1".toList, [nm "p.x"]), ("L2".toList, [nm "p.y"]), ("L3".toList, [nm "q"])]
/-- "L1 should not access L2" — violated by `p.x.u → p.y` -/
def exLR : LRuleSpec := { verb := .shouldNot, importDir := true, exc := false, subject := "L1".toList, objects := ["L2".toList] }
/-- "L1 should only be accessed by L2" — `q → p.x` is forbidden and no module of L2 imports one of L1 -/
def exLR' : LRuleSpec := { verb := .shouldOnly, importDir := false, exc := false, subject := "L1".toList, objects := ["L2".toList] }
/-- related layer modules: `p.x.u` lies below `p` (L1) and below `p.x` (L2) -/
def exLs2 : Layers := [("L1".toList, [nm "p"]), ("L2".toList, [nm "p.x"]), ("L3".toList, [nm "q"])]
def exLR2 : LRuleSpec := { verb := .shouldNot, importDir := true, exc := false, subject := "L2".toList, objects := ["L1".toList] }

example : exA.wf = true ∧ layersWF exLs = true ∧ layersWF exLs2 = true := by decide

set_option maxRecDepth 8000 in
/-- a report line with layer tags: the sibling `zp.ab` of `zp.a` is attributed to L2, not to L1, and the line is kept -/
example :
    assertAppliesLayer (fun _ _ => false) (compileLayerRule (compileLArch exLs) exLR) (archGraph exA) =
      .fail [.imp "p.x.u".toList "p.y".toList false (some "L1".toList) (some "L2".toList)] ∧
    assertAppliesLayer (fun _ _ => false) (compileLayerRule (compileLArch (renLayers advRen exLs)) exLR)
        (archGraph (renArch advRen exA)) =
      .fail [.imp "zp.a.zu".toList "zp.ab".toList false (some "L1".toList) (some "L2".toList)] := by decide

set_option maxRecDepth 8000 in
/-- an import line and a layer-level "is not imported by" line -/
example :
    assertAppliesLayer (fun _ _ => false) (compileLayerRule (compileLArch exLs) exLR') (archGraph exA) =
      .fail [.imp "q".toList "p.x".toList true (some "L3".toList) (some "L1".toList),
             .miss false (some "L1".toList) [some "L2".toList] true] ∧
    assertAppliesLayer (fun _ _ => false) (compileLayerRule (compileLArch (renLayers advRen exLs)) exLR')
        (archGraph (renArch advRen exA)) =
      .fail [.imp "zq".toList "zp.a".toList true (some "L3".toList) (some "L1".toList),
             .miss false (some "L1".toList) [some "L2".toList] true] := by decide

set_option maxRecDepth 8000 in
/-- `LayerMismatch` (a module below listed modules of two layers) is preserved -/
example :
    assertAppliesLayer (fun _ _ => false) (compileLayerRule (compileLArch exLs2) exLR2) (archGraph exA) = .err .layerMismatch ∧
    assertAppliesLayer (fun _ _ => false) (compileLayerRule (compileLArch (renLayers advRen exLs2)) exLR2)
        (archGraph (renArch advRen exA)) = .err .layerMismatch := by decide

set_option maxRecDepth 8000 in
/-- the hypotheses of the generic `layer_model_iso` are met by the adversarial renaming on this instance -/
example :
    let rule := mkRule false false true true false [.name "p.x".toList] [.name "p.y".toList]
    Pta.RM.cfgNoRegex rule.cfg ∧
    subOK (renStr advRen) ((compileLArch exLs).listedIds ++ rule.cfg.ids) ((archGraph exA).names ++ rule.cfg.ids) :=
  ⟨Pta.RL.cfgNoRegex_of_check _ (by decide), Pta.RL.subOK_of_check _ _ _ (by decide)⟩

/-- an architecture and a diagram over top-level modules whose sorted order changes under the adversarial renaming
    (`q < x < y` but `a < ab < zq`) -/
def exB : Arch := { nodes := ["q", "x", "x.u", "y"].map nm, imports := [(nm "x.u", nm "y"), (nm "y", nm "q"), (nm "q", nm "x")] }
def exD : Diagram := { components := [nm "q", nm "x", nm "y"], arrows := [(nm "x", nm "y")] }

example : exB.wf = true ∧ specDiagramWF exD = true := by decide

set_option maxRecDepth 8000 in
/-- the generated "should not" rules are evaluated in a different order after the renaming, so the report lines come in
    a different order: `diagram_model_iso` cannot be an equality of lists -/
example :
    (applyAll (fun _ _ => false) (archGraph exB) (diagramRules false (parsedOf exD))).items =
      [.imp "q".toList "x".toList false, .imp "y".toList "q".toList false] ∧
    (applyAll (fun _ _ => false) (archGraph (renArch advRen exB)) (diagramRules false (parsedOf (renDiagram advRen exD)))).items =
      [.imp "ab".toList "zq".toList false, .imp "zq".toList "a".toList false] := by decide


/-- `diagram_model_iso` only asks for an injective map; the guarded string renaming is one -/
example : ∀ x y, renStr advRen x = renStr advRen y → x = y := (renStr_agrees advRen advRen_good).2.2

/-- a diagram drawn below the base module `p` (`with_base_module("p")`) without arrows: `p.x` must not import `p.y` -/
def exD' : Diagram := { components := [nm "x", nm "y"], arrows := [] }

example : specDiagramWF exD' = true ∧ ∀ q, some (nm "p") = some q → nameWF q = true :=
  ⟨by decide, fun q h => by cases h; decide⟩

set_option maxRecDepth 8000 in
example :
    (applyAll (fun _ _ => false) (archGraph exA)
      (diagramRules false (prefixParsed (parsedOf exD') ((some (nm "p")).map render)))).items =
      [.imp "p.x.u".toList "p.y".toList false] ∧
    (applyAll (fun _ _ => false) (archGraph (renArch advRen exA))
      (diagramRules false (prefixParsed (parsedOf (renDiagram advRen exD')) (((some (nm "p")).map (renName advRen)).map render)))).items =
      [.imp "zp.a.zu".toList "zp.ab".toList false] := by decide

end Pta.C14
