/-
  PtaProofs.Props.C14 — module identity follows dotted-name boundaries (property C14).
  (1) Bridge: every raw-string test the (repaired) code performs on rendered names — sub-module test, layer lookup,
      alias lookup, internal/external test — equals the component-level prefix relation.
  (2) The component-level semantics commutes with every injective renaming ρ of path components, including renamings
      that make a sibling's name a raw string prefix or substring of another's.
  Consequently verdicts, violating sets, layer attribution and plot labels are invariant up to the renaming.
-/
import Bridge.Abs
import PtaProofs.Lemmas.Rename
namespace Pta.C14
open Pta PtaSpec

/-- (1) the raw boundary-aware test is the dotted-prefix relation (sub modules, aliases, internal modules) -/
theorem raw_test_is_prefix (p n : Name) (hp : nameWF p = true) (hn : nameWF n = true) :
    isModuleOrSub (render p) (render n) = desc p n ∧ isStrictSub (render p) (render n) = sdesc p n ∧
    isInternal (render n) (render p) = desc p n :=
  Pta.raw_test_is_prefix_lemma p n hp hn

/-- why the boundary matters: a raw `startswith` confuses `pkg.ab` with `pkg.a`, the boundary-aware test does not -/
theorem raw_prefix_counterexample :
    startsWith "pkg.a".toList "pkg.ab".toList = true ∧ isModuleOrSub "pkg.a".toList "pkg.ab".toList = false ∧
    isInfix "pkg.a".toList "pkg.ab".toList = true := by decide

/-- (2) the prefix relation is invariant under injective renaming of components -/
theorem desc_ren (ρ : Comp → Comp) (hρ : GoodRen ρ) (x n : Name) :
    desc (renName ρ x) (renName ρ n) = desc x n ∧ sdesc (renName ρ x) (renName ρ n) = sdesc x n ∧
    related (renName ρ x) (renName ρ n) = related x n :=
  Pta.desc_ren_lemma ρ hρ x n

/-- the documented rule semantics is invariant under renaming (all rules, strict or not) -/
theorem verdict_ren (ρ : Comp → Comp) (hρ : GoodRen ρ) (a : Arch) (r : RuleSpec) :
    verdict (renArch ρ a) (renRule ρ r) = verdict a r :=
  Pta.verdict_ren_lemma ρ hρ a r

/-- … and so is the violating set, up to the renaming itself -/
theorem violating_ren (ρ : Comp → Comp) (hρ : GoodRen ρ) (a : Arch) (r : RuleSpec) :
    violating (renArch ρ a) (renRule ρ r) = (violating a r).map (renSItem ρ) :=
  Pta.violating_ren_lemma ρ hρ a r

/-- well-formedness, strictness and existence of names are preserved -/
theorem domain_ren (ρ : Comp → Comp) (hρ : GoodRen ρ) (a : Arch) (r : RuleSpec) :
    (a.wf = true → (renArch ρ a).wf = true) ∧ (renRule ρ r).strict = r.strict ∧ (renRule ρ r).namesIn (renArch ρ a) = r.namesIn a :=
  Pta.domain_ren_lemma ρ hρ a r

/-- verdict of the CODE MODEL on the renamed architecture and rule = verdict on the original (strict domain) -/
theorem model_verdict_ren (mt : Str → Str → Bool) (ρ : Comp → Comp) (hρ : GoodRen ρ) (a : Arch) (hwf : a.wf = true)
    (r : RuleSpec) (hstrict : r.strict = true) (hnames : r.namesIn a = true)
    (hs : r.subjects ≠ []) (ho : r.anything = true ∨ r.objects ≠ [])
    (hany : r.anything = true → r.verb = .shouldNot) :
    verdictOf mt (archGraph (renArch ρ a)) (compile (renRule ρ r)) = verdictOf mt (archGraph a) (compile r) :=
  Pta.model_verdict_ren_lemma mt ρ hρ a hwf r hstrict hnames hs ho hany

/-- plot labels: the nearest aliased ancestor is found by components, so labels commute with renaming -/
theorem nearest_alias_ren (ρ : Comp → Comp) (hρ : GoodRen ρ) (al : Aliases) (n : Name) :
    nearestAliased (al.map fun p => (renName ρ p.1, p.2)) (renName ρ n) =
      (nearestAliased al n).map fun p => (renName ρ p.1, p.2) :=
  Pta.nearest_alias_ren_lemma ρ hρ al n

/-- layer lookup (`get_layer_for_module_name`) on rendered names is the nearest listed ancestor by components,
    and is invariant under renaming -/
theorem layerOf_ren (ρ : Comp → Comp) (hρ : GoodRen ρ) (m : List (Str × List Name)) (n : Name)
    (hm : ∀ l ∈ m, ∀ x ∈ l.2, nameWF x = true) (hn : nameWF n = true) :
    LayerMap.layerOf (m.map fun l => (l.1, l.2.map fun x => render (renName ρ x))) (render (renName ρ n)) =
    LayerMap.layerOf (m.map fun l => (l.1, l.2.map render)) (render n) :=
  Pta.layerOf_ren_lemma ρ hρ m n hm hn

/-! non-vacuity: an adversarial renaming is admissible -/
def advRen : Comp → Comp := fun c => if c = "x".toList then "a".toList else if c = "y".toList then "ab".toList else 'z' :: c
example : renName advRen [["p".toList], ["x".toList]].head! = ["zp".toList] := by decide

end Pta.C14
