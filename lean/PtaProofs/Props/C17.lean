/-
  PtaProofs.Props.C17 — plot labels (property C17): every module is labelled exactly once, the nearest
  aliased ancestor-or-self (by whole dotted components) is replaced by its alias, an alias for a module
  that does not exist is rejected naming it, other drawing options pass through.
-/
import Bridge.Abs
import PtaProofs.Lemmas.GlobLabel
import PtaProofs.Lemmas.KwargsOrder
namespace Pta.C17
open Pta PtaSpec

/-- labels computed by the code = documented labelling, for all well-formed module names and alias maps -/
theorem labels_spec (nodes : List Name) (al : Aliases)
    (hn : ∀ n ∈ nodes, nameWF n = true) (hk : (al.map (·.1)).Nodup) (hex : ∀ a ∈ al, a.1 ∈ nodes) :
    plotLabels (nodes.map render) (al.map fun a => (render a.1, a.2)) =
      .ok (nodes.map fun n => (render n, PtaSpec.label al n)) :=
  Pta.labels_spec_lemma nodes al hn hk hex

/-- every module is labelled exactly once, in module order -/
theorem labels_cover (nodes : List Str) (aliases : List (Str × Str)) (ls : List (Str × Str))
    (h : plotLabels nodes aliases = .ok ls) : ls.map (·.1) = nodes :=
  Pta.labels_cover_lemma nodes aliases ls h

/-- an alias for a module that does not exist is rejected with an error naming such a module -/
theorem unknown_alias (nodes : List Str) (aliases : List (Str × Str)) (h : ∃ a ∈ aliases, a.1 ∉ nodes) :
    ∃ who, plotLabels nodes aliases = .error (.lookupError, who) ∧ who ∉ nodes ∧ who ∈ aliases.map (·.1) :=
  Pta.unknown_alias_lemma nodes aliases h

/-- remaining drawing options are handed to the backend unchanged — key AND value (`KwArg.other k v`: the keyword `k` with
    an opaque token `v` for its value); `spacing` / `aliases` are consumed -/
theorem kwargs_passthrough (kw : List KwArg) (k v : Str) :
    (KwArg.other k v ∈ drawKwargs kw ↔ KwArg.other k v ∈ kw) ∧ KwArg.spacing ∉ drawKwargs kw ∧ KwArg.aliases ∉ drawKwargs kw ∧
    (KwArg.spacing ∈ kw → KwArg.pos ∈ drawKwargs kw) ∧ (KwArg.aliases ∈ kw → KwArg.labels ∈ drawKwargs kw) :=
  Pta.kwargs_passthrough_lemma kw k v

/-- audit finding F12 — order and values: the (key, value) pairs of the remaining options reach the backend in the SAME
    ORDER, with the same values and multiplicities (`kwargs` is an insertion-ordered dict; `pair?` reads the pair of an
    `other` keyword) -/
theorem kwargs_passthrough_ordered (kw : List KwArg) :
    (drawKwargs kw).filterMap KwArg.pair? = kw.filterMap KwArg.pair? :=
  Pta.drawKwargs_pairs kw

/-- … and the exact argument list: the given keywords without `spacing` / `aliases`, in their order, followed by `pos`
    iff `spacing` was given and then by `labels` iff `aliases` was given (`spacing` / `aliases` are consumed and REPLACED) -/
theorem kwargs_exact (kw : List KwArg) :
    drawKwargs kw = kw.filter KwArg.kept ++ (if KwArg.spacing ∈ kw then [KwArg.pos] else []) ++
      (if KwArg.aliases ∈ kw then [KwArg.labels] else []) :=
  Pta.drawKwargs_shape kw

/-! non-vacuity: `draw(node_size=7, spacing=…, ax=AX, aliases=…, node_size'=8)` -/
example : drawKwargs [.other "node_size".toList "7".toList, .spacing, .other "ax".toList "AX".toList, .aliases,
      .other "with_labels".toList "True".toList] =
    [.other "node_size".toList "7".toList, .other "ax".toList "AX".toList, .other "with_labels".toList "True".toList,
     .pos, .labels] := by decide
example : (drawKwargs [.other "a".toList "1".toList, .aliases, .other "b".toList "2".toList]).filterMap KwArg.pair? =
    [("a".toList, "1".toList), ("b".toList, "2".toList)] := by decide

/-! non-vacuity: `p.ab` keeps its name although `p.a` has an alias -/
example : plotLabels ["p".toList, "p.a".toList, "p.ab".toList, "p.a.x".toList] [("p.a".toList, "A".toList)]
    = .ok [("p".toList, "p".toList), ("p.a".toList, "A".toList), ("p.ab".toList, "p.ab".toList), ("p.a.x".toList, "A.x".toList)] := by
  rfl

end Pta.C17
