/-
  PtaProofs.Props.C17 — plot labels (property C17): every module is labelled exactly once, the nearest
  aliased ancestor-or-self (by whole dotted components) is replaced by its alias, an alias for a module
  that does not exist is rejected naming it, other drawing options pass through.
-/
import Bridge.Abs
import PtaProofs.Lemmas.GlobLabel
namespace Pta.C17
open Pta PtaSpec

/-- labels computed by the code = documented labelling, for all well-formed module names and alias maps -/
theorem labels_spec (nodes : List Name) (al : Aliases)
    (hn : ∀ n ∈ nodes, nameWF n = true) (hk : (al.map (·.1)).Nodup) (hex : ∀ a ∈ al, a.1 ∈ nodes) :
    plotLabels (nodes.map render) (al.map fun a => (render a.1, a.2)) =
      .ok (nodes.map fun n => (render n, PtaSpec.label al n)) :=
  Pta.labels_spec_lemma nodes al hn hk hex

/-- every module is labelled exactly once, in module order -/
theorem labels_cover (nodes : List Str) (aliases : List (Str × Str)) (ls : List (Str × Str))
    (h : plotLabels nodes aliases = .ok ls) : ls.map (·.1) = nodes :=
  Pta.labels_cover_lemma nodes aliases ls h

/-- an alias for a module that does not exist is rejected with an error naming such a module -/
theorem unknown_alias (nodes : List Str) (aliases : List (Str × Str)) (h : ∃ a ∈ aliases, a.1 ∉ nodes) :
    ∃ who, plotLabels nodes aliases = .error (.lookupError, who) ∧ who ∉ nodes ∧ who ∈ aliases.map (·.1) :=
  Pta.unknown_alias_lemma nodes aliases h

/-- remaining drawing options are handed to the backend unchanged; `spacing` / `aliases` are consumed -/
theorem kwargs_passthrough (kw : List KwArg) (k : Str) :
    (KwArg.other k ∈ drawKwargs kw ↔ KwArg.other k ∈ kw) ∧ KwArg.spacing ∉ drawKwargs kw ∧ KwArg.aliases ∉ drawKwargs kw ∧
    (KwArg.spacing ∈ kw → KwArg.pos ∈ drawKwargs kw) ∧ (KwArg.aliases ∈ kw → KwArg.labels ∈ drawKwargs kw) :=
  Pta.kwargs_passthrough_lemma kw k

/-! non-vacuity: `p.ab` keeps its name although `p.a` has an alias -/
example : plotLabels ["p".toList, "p.a".toList, "p.ab".toList, "p.a.x".toList] [("p.a".toList, "A".toList)]
    = .ok [("p".toList, "p".toList), ("p.a".toList, "A".toList), ("p.ab".toList, "p.ab".toList), ("p.a.x".toList, "A.x".toList)] := by
  rfl

end Pta.C17
