/-
  PtaProofs.Props.C11 — regex, partial-name and batched specifications equal their expansions (property C11).
  The regex engine is the uninterpreted relation `mt` (`re.match(pattern, name) is not None`): the theorems hold
  for EVERY interpretation, every graph, every rule shape; related (ancestor/descendant) names are allowed.
-/
import Bridge.Abs
import PtaProofs.Lemmas.Expansion
import PtaProofs.Lemmas.AnythingDedup
import PtaProofs.Lemmas.NoMatchExact
import PtaProofs.Lemmas.BatchThree
namespace Pta.C11
open Pta

/-- a regex subject yields the same outcome (verdict AND report) as naming all modules the regex matches -/
theorem regex_expansion_subject (mt : Str → Str → Bool) (g : PGraph Str) (hnd : g.nodes.Nodup)
    (s o n dir exc : Bool) (p : Str) (objs : List Filter) (hm : ∃ m ∈ g.nodes, mt p m = true) :
    (assertApplies mt (mkRule s o n dir exc [.regex p] objs) g).2 =
    (assertApplies mt (mkRule s o n dir exc ((g.nodes.filter (mt p)).map .name) objs) g).2 :=
  Pta.regex_expansion_subject_lemma mt g hnd s o n dir exc p objs hm

/-- the same on the object side -/
theorem regex_expansion_object (mt : Str → Str → Bool) (g : PGraph Str) (hnd : g.nodes.Nodup)
    (s o n dir exc : Bool) (p : Str) (subs : List Filter) (hm : ∃ m ∈ g.nodes, mt p m = true) :
    (assertApplies mt (mkRule s o n dir exc subs [.regex p]) g).2 =
    (assertApplies mt (mkRule s o n dir exc subs ((g.nodes.filter (mt p)).map .name)) g).2 :=
  Pta.regex_expansion_object_lemma mt g hnd s o n dir exc p subs hm

/-- the `anything` aliases with a regex subject equal the alias on the expansion -/
theorem regex_expansion_anything (mt : Str → Str → Bool) (g : PGraph Str) (hnd : g.nodes.Nodup) (dir : Bool) (p : Str)
    (hm : ∃ m ∈ g.nodes, mt p m = true)
    (hdd : dedupSubjects ((g.nodes.filter (mt p)).map Filter.name) = (g.nodes.filter (mt p)).map Filter.name) :
    (assertApplies mt { cfg := { subjects := some [.regex p], shouldNot := true, importDir := some dir, anything := true }, next := some false } g).2 =
    (assertApplies mt { cfg := { subjects := some ((g.nodes.filter (mt p)).map .name), shouldNot := true, importDir := some dir, anything := true }, next := some false } g).2 :=
  Pta.regex_expansion_anything_lemma mt g hnd dir p hm hdd

/-- a regex that matches nothing never yields a verdict -/
theorem regex_no_match (mt : Str → Str → Bool) (g : PGraph Str) (s o n dir exc : Bool) (p : Str) (objs : List Filter)
    (h : ∀ m ∈ g.nodes, mt p m = false) :
    ∃ k, (assertApplies mt (mkRule s o n dir exc [.regex p] objs) g).2 = .err k :=
  Pta.regex_no_match_lemma mt g s o n dir exc p objs h

/-- … and on a complete and consistent rule (a verb, a direction, subjects and objects given; no contradictory verbs; not the
    `anything` alias; no subject removed by an earlier alias conversion is absent) the error is exactly the no-match error —
    the regex may stand in subject OR object position, accompanied by any other filters (names, parents, further regexes,
    names absent from the graph included) -/
theorem regex_no_match_exact (mt : Str → Str → Bool) (g : PGraph Str) (st : RuleState) (ss os : List Filter)
    (hany : st.cfg.anything = false) (hcm : configMissing st.cfg = false) (hda : droppedAbsent g st.cfg = false)
    (hinc : st.cfg.behavior.inconsistent = false)
    (hs : st.cfg.subjects = some ss) (ho : st.cfg.objects = some os)
    (h : ∃ f ∈ ss ++ os, f.isRegex = true ∧ ∀ m ∈ g.nodes, mt f.id m = false) :
    (assertApplies mt st g).2 = .err .impossibleMatch :=
  Pta.regex_no_match_exact_lemma mt g st ss os hany hcm hda hinc hs ho h

/-- subject position, finished rule of any of the 12 shapes -/
theorem regex_no_match_subject (mt : Str → Str → Bool) (g : PGraph Str) (s o n dir exc : Bool) (p : Str) (subs objs : List Filter)
    (hverb : (s || o || n) = true) (hobj : objs ≠ []) (hinc : (Behavior.mk s o n exc).inconsistent = false)
    (hp : .regex p ∈ subs) (h : ∀ m ∈ g.nodes, mt p m = false) :
    (assertApplies mt (mkRule s o n dir exc subs objs) g).2 = .err .impossibleMatch := by
  obtain ⟨h1, h2, h3⟩ := Pta.mkRule_complete g s o n dir exc subs objs hverb (List.ne_nil_of_mem hp) hobj
  exact regex_no_match_exact mt g _ subs objs h1 h2 h3 hinc rfl rfl ⟨.regex p, List.mem_append_left _ hp, rfl, h⟩

/-- object position -/
theorem regex_no_match_object (mt : Str → Str → Bool) (g : PGraph Str) (s o n dir exc : Bool) (p : Str) (subs objs : List Filter)
    (hverb : (s || o || n) = true) (hsub : subs ≠ []) (hinc : (Behavior.mk s o n exc).inconsistent = false)
    (hp : .regex p ∈ objs) (h : ∀ m ∈ g.nodes, mt p m = false) :
    (assertApplies mt (mkRule s o n dir exc subs objs) g).2 = .err .impossibleMatch := by
  obtain ⟨h1, h2, h3⟩ := Pta.mkRule_complete g s o n dir exc subs objs hverb hsub (List.ne_nil_of_mem hp)
  exact regex_no_match_exact mt g _ subs objs h1 h2 h3 hinc rfl rfl ⟨.regex p, List.mem_append_right _ hp, rfl, h⟩

/-! non-vacuity: `should only … except` with an absent name next to the regex, both positions -/
example : (true || false || false) = true ∧ (Behavior.mk false true false true).inconsistent = false ∧
    (Filter.regex "x.*".toList) ∈ [Filter.name "zz".toList, .regex "x.*".toList] ∧
    ∀ m ∈ (buildGraph ["p".toList, "q".toList] [] none).nodes, (fun _ _ => false) "x.*".toList m = false := by decide
example : (assertApplies (fun _ _ => false) (mkRule false true false true true [.name "zz".toList, .regex "x.*".toList] [.name "q".toList])
    (buildGraph ["p".toList, "q".toList] [] none)).2 = .err .impossibleMatch := by decide
/-- the completeness hypotheses are needed: without a verb the configuration error comes first -/
example : (assertApplies (fun _ _ => false) (mkRule false false false true false [.regex "x.*".toList] [.name "q".toList])
    (buildGraph ["p".toList, "q".toList] [] none)).2 = .err .improperlyConfigured := by decide

/-- the deprecated partial-name form is its regex translation -/
theorem partial_name (glob : Str → Str) (st : RuleState) (p : Str) :
    st.step glob (.haveNameContaining [p]) = st.step glob (.haveNameMatching (glob p)) := rfl

/-- several subjects with explicitly given objects: the conjunction of the single-subject rules (all 12 shapes) -/
theorem batch_subjects (mt : Str → Str → Bool) (g : PGraph Str) (s o n dir exc : Bool) (subs objs : List Filter)
    (hne : subs ≠ []) :
    verdictOf mt g (mkRule s o n dir exc subs objs) = .pass ↔
    ∀ x ∈ subs, verdictOf mt g (mkRule s o n dir exc [x] objs) = .pass :=
  Pta.batch_subjects_lemma mt g s o n dir exc subs objs hne

/-- several objects, plain should / should_not: the conjunction over objects -/
theorem batch_objects (mt : Str → Str → Bool) (g : PGraph Str) (neg dir : Bool) (subs objs : List Filter)
    (hne : objs ≠ []) :
    verdictOf mt g (mkRule (!neg) false neg dir false subs objs) = .pass ↔
    ∀ y ∈ objs, verdictOf mt g (mkRule (!neg) false neg dir false subs [y]) = .pass :=
  Pta.batch_objects_lemma mt g neg dir subs objs hne

/-! ### three-valued batching (audit finding F13)

`batch_subjects` / `batch_objects` speak about `= .pass` only.  The theorems below settle the two other outcomes.  The batch does
NOT behave like "evaluate the members in list order and stop at the first that raises": `RuleMatcher.match` converts the
regexes of ALL subjects and objects before any module is looked up, so
* a configuration error (`ImproperlyConfigured`, `RuleInconsistency`) is raised by the batch iff it is raised by every member;
* the batch raises the no-match error iff SOME member raises it (wherever that member stands in the list);
* the batch raises a lookup error iff some member raises a lookup error and NO member raises the no-match error;
* the batch raises iff some member raises; it fails iff no member raises and some member fails.
(When one member raises a lookup error and another fails, the batch raises the lookup error.) -/

/-- several subjects, all 12 shapes: the error the batch raises -/
theorem batch_subjects_err (mt : Str → Str → Bool) (g : PGraph Str) (s o n dir exc : Bool) (subs objs : List Filter)
    (hne : subs ≠ []) (k : ErrKind) :
    verdictOf mt g (mkRule s o n dir exc subs objs) = .err k ↔
      (∃ x ∈ subs, verdictOf mt g (mkRule s o n dir exc [x] objs) = .err k) ∧
      (k = .lookupError → ∀ x ∈ subs, verdictOf mt g (mkRule s o n dir exc [x] objs) ≠ .err .impossibleMatch) :=
  Pta.Batch.batch_subjects_err_lemma mt g s o n dir exc subs objs hne k

/-- the batch raises iff some member raises -/
theorem batch_subjects_raises (mt : Str → Str → Bool) (g : PGraph Str) (s o n dir exc : Bool) (subs objs : List Filter)
    (hne : subs ≠ []) :
    (∃ k, verdictOf mt g (mkRule s o n dir exc subs objs) = .err k) ↔
      ∃ x ∈ subs, ∃ k, verdictOf mt g (mkRule s o n dir exc [x] objs) = .err k :=
  (Pta.Batch.batch_subjects_three_lemma mt g s o n dir exc subs objs hne).1

/-- the batch fails iff no member raises and some member fails -/
theorem batch_subjects_fail (mt : Str → Str → Bool) (g : PGraph Str) (s o n dir exc : Bool) (subs objs : List Filter)
    (hne : subs ≠ []) :
    verdictOf mt g (mkRule s o n dir exc subs objs) = .fail ↔
      (∀ x ∈ subs, ∀ k, verdictOf mt g (mkRule s o n dir exc [x] objs) ≠ .err k) ∧
      ∃ x ∈ subs, verdictOf mt g (mkRule s o n dir exc [x] objs) = .fail :=
  (Pta.Batch.batch_subjects_three_lemma mt g s o n dir exc subs objs hne).2

/-- several objects, plain should / should_not: the error the batch raises -/
theorem batch_objects_err (mt : Str → Str → Bool) (g : PGraph Str) (neg dir : Bool) (subs objs : List Filter)
    (hne : objs ≠ []) (k : ErrKind) :
    verdictOf mt g (mkRule (!neg) false neg dir false subs objs) = .err k ↔
      (∃ y ∈ objs, verdictOf mt g (mkRule (!neg) false neg dir false subs [y]) = .err k) ∧
      (k = .lookupError → ∀ y ∈ objs, verdictOf mt g (mkRule (!neg) false neg dir false subs [y]) ≠ .err .impossibleMatch) :=
  Pta.Batch.batch_objects_err_lemma mt g neg dir subs objs hne k

theorem batch_objects_raises (mt : Str → Str → Bool) (g : PGraph Str) (neg dir : Bool) (subs objs : List Filter)
    (hne : objs ≠ []) :
    (∃ k, verdictOf mt g (mkRule (!neg) false neg dir false subs objs) = .err k) ↔
      ∃ y ∈ objs, ∃ k, verdictOf mt g (mkRule (!neg) false neg dir false subs [y]) = .err k :=
  (Pta.Batch.batch_objects_three_lemma mt g neg dir subs objs hne).1

theorem batch_objects_fail (mt : Str → Str → Bool) (g : PGraph Str) (neg dir : Bool) (subs objs : List Filter)
    (hne : objs ≠ []) :
    verdictOf mt g (mkRule (!neg) false neg dir false subs objs) = .fail ↔
      (∀ y ∈ objs, ∀ k, verdictOf mt g (mkRule (!neg) false neg dir false subs [y]) ≠ .err k) ∧
      ∃ y ∈ objs, verdictOf mt g (mkRule (!neg) false neg dir false subs [y]) = .fail :=
  (Pta.Batch.batch_objects_three_lemma mt g neg dir subs objs hne).2

/-! non-vacuity and the order question, on the graph `p → q` with modules `p`, `q`, `r`: as single subjects of
    `should import q`, `p` passes, `r` fails, the absent name `zz` raises the lookup error and the regex `x.*` (no match)
    raises the no-match error -/
def bG : PGraph Str := buildGraph ["p".toList, "q".toList, "r".toList] [absImport "p".toList "q".toList] none
def bRule (subs : List Filter) : RuleState := mkRule true false false true false subs [.name "q".toList]
def bNone : Str → Str → Bool := fun _ _ => false
example : verdictOf bNone bG (bRule [.name "p".toList]) = .pass ∧ verdictOf bNone bG (bRule [.name "r".toList]) = .fail ∧
    verdictOf bNone bG (bRule [.name "zz".toList]) = .err .lookupError ∧
    verdictOf bNone bG (bRule [.regex "x.*".toList]) = .err .impossibleMatch := by decide
/-- a failing member in front of a raising one: the batch raises -/
example : verdictOf bNone bG (bRule [.name "r".toList, .name "zz".toList]) = .err .lookupError := by decide
/-- a member raising the lookup error in front of a member raising the no-match error: the batch raises the no-match error
    (not "the error of the first member that raises") -/
example : verdictOf bNone bG (bRule [.name "zz".toList, .regex "x.*".toList]) = .err .impossibleMatch := by decide
example : verdictOf bNone bG (bRule [.name "p".toList, .name "r".toList]) = .fail := by decide
/-- objects: `p should import [q, zz, x.*]` -/
example : verdictOf bNone bG (mkRule true false false true false [.name "p".toList]
    [.name "q".toList, .name "zz".toList, .regex "x.*".toList]) = .err .impossibleMatch ∧
    verdictOf bNone bG (mkRule true false false true false [.name "p".toList] [.name "r".toList, .name "zz".toList]) =
      .err .lookupError ∧
    verdictOf bNone bG (mkRule true false false true false [.name "p".toList] [.name "q".toList, .name "r".toList]) = .fail := by
  decide

/-! ### the `anything` aliases without the de-duplication hypothesis (verdict class)

`_convert_aliases` removes from the subjects of an `import_anything` / `be_imported_by_anything` rule every name that is
a strict dotted sub module of another subject that is not a `sub modules of` filter (`dedupSubjects`; the restriction
is the repair of F-C12a), BEFORE a regex subject is expanded.  The theorems below
show that this never changes the verdict class (pass / fail / error kind), on every graph whose hierarchy edges cover
the dotted nesting of its nodes (`HierClosed`, a property of every graph `buildGraph` constructs — see
`hierClosed_buildGraph`) and for subject names that are nodes of the graph.  (The REPORT may differ in duplicate lines.) -/

/-- every graph built by `NetworkxGraph(all_modules, imports, level_limit)` from absolute imports whose importers are
    among the modules satisfies `HierClosed` (arbitrary module strings, with or without level limit) -/
theorem hierClosed_buildGraph (mods : List Str) (imps : List ImportRec) (lim : Option Nat)
    (himp : ∀ i ∈ imps, ExtBuild.NodeOf lim mods (flattenNode lim i.importer) ∧
      i.importeeParents = parentModules i.importee) :
    HierClosed (buildGraph mods imps lim) :=
  Pta.buildGraph_hierClosed mods imps lim himp

/-- so does every graph representing a well-formed architecture (the interface C01 is stated for) -/
theorem hierClosed_graphOf (a : PtaSpec.Arch) (g : PGraph Str) (hwf : a.wf = true) (hg : GraphOf a g) : HierClosed g :=
  Pta.hierClosed_of_graphOf (Pta.archWF_of_wf a hwf) hg

/-- the de-duplication of the subjects is irrelevant to the verdict class of
    `S should not import / be imported by modules except S` (what `_convert_aliases` produces) -/
theorem anything_dedup_irrelevant (mt : Str → Str → Bool) (g : PGraph Str) (hc : HierClosed g) (dir : Bool)
    (S : List Filter) (hS : namesOnly S = true) (hn : ∀ f ∈ S, g.hasNode f.id = true) :
    verdictOf mt g (mkRule false false true dir true S S) =
    verdictOf mt g (mkRule false false true dir true (dedupSubjects S) (dedupSubjects S)) :=
  Pta.anything_dedup_irrelevant mt g hc dir S hS hn

/-- the same under "the rule on `S` raises no lookup error" instead of "all names exist" -/
theorem anything_dedup_irrelevant_of_no_lookup_error (mt : Str → Str → Bool) (g : PGraph Str) (hc : HierClosed g)
    (dir : Bool) (S : List Filter) (hS : namesOnly S = true)
    (hok : verdictOf mt g (mkRule false false true dir true S S) ≠ .err .lookupError) :
    verdictOf mt g (mkRule false false true dir true S S) =
    verdictOf mt g (mkRule false false true dir true (dedupSubjects S) (dedupSubjects S)) :=
  Pta.anything_dedup_irrelevant_of_no_lookup_error mt g hc dir S hS hok

/-- the ALIAS form, for ALL name batches `S` — the names need not exist: through `assert_applies` the rule
    `S should not import / be imported by anything` (which de-duplicates `S`) has the verdict class of
    `S should not import / be imported by modules except S` on the full batch. When all names exist this is
    `anything_dedup_irrelevant`; an absent name makes BOTH sides raise a lookup error — since the repair of F-C13b also when
    the de-duplication drops that name (`Rule._assert_modules_removed_by_alias_conversion_exist`). -/
theorem anything_alias_dedup_irrelevant (mt : Str → Str → Bool) (g : PGraph Str) (hc : HierClosed g) (dir : Bool)
    (S : List Filter) (hS : namesOnly S = true) :
    verdictOf mt g { cfg := { subjects := some S, shouldNot := true, importDir := some dir, anything := true }, next := some false } =
    verdictOf mt g (mkRule false false true dir true S S) :=
  Pta.alias_anything_verdict_lemma mt g hc S dir hS

/-- the `anything` aliases with a regex subject have the verdict class of the alias on the expansion — no
    de-duplication hypothesis -/
theorem regex_expansion_anything_verdict (mt : Str → Str → Bool) (g : PGraph Str) (hnd : g.nodes.Nodup)
    (hc : HierClosed g) (dir : Bool) (p : Str) (hm : ∃ m ∈ g.nodes, mt p m = true) :
    verdictOf mt g { cfg := { subjects := some [.regex p], shouldNot := true, importDir := some dir, anything := true }, next := some false } =
    verdictOf mt g { cfg := { subjects := some ((g.nodes.filter (mt p)).map .name), shouldNot := true, importDir := some dir, anything := true }, next := some false } :=
  Pta.regex_expansion_anything_verdict_lemma mt g hnd hc dir p hm

/-! non-vacuity and necessity of the hypotheses -/

def exG : PGraph Str :=
  buildGraph ["p".toList, "p.a".toList, "p.a.x".toList, "q".toList]
    [absImport "p.a.x".toList "q".toList, absImport "q".toList "p.a.x".toList] none
def exS : List Filter := [.name "p.a".toList, .name "p.a.x".toList]
/-- a regex interpretation matching `p.a` and `p.a.x` -/
def exMt : Str → Str → Bool := fun _ m => m == "p.a".toList || m == "p.a.x".toList

example : HierClosed exG := hierClosed_buildGraph _ _ _ (by simp only [ExtBuild.NodeOf]; decide)
example : exG.nodes.Nodup := by decide
example : namesOnly exS = true := by decide
example : ∀ f ∈ exS, exG.hasNode f.id = true := by decide
example : dedupSubjects exS = [.name "p.a".toList] := by decide          -- the de-duplication is NOT the identity
example : (exG.nodes.filter (exMt "p[.]a.*".toList)).map Filter.name = exS := by decide
example : ∃ m ∈ exG.nodes, exMt "p[.]a.*".toList m = true := by decide
example : verdictOf exMt exG (mkRule false false true true true exS exS) = .fail := by decide
example : verdictOf exMt exG (mkRule false false true false true exS exS) = .fail := by decide
/-! non-vacuity of `anything_alias_dedup_irrelevant` beyond `anything_dedup_irrelevant`: a batch with an absent name -/
example : namesOnly [.name "p.a".toList, .name "p.a.y".toList] = true := by decide
example : exG.hasNode "p.a.y".toList = false := by decide

/-- why the names must exist in `anything_dedup_irrelevant` (finding F-C13b): an absent name that is a dotted extension
    of another subject is dropped by the de-duplication, so the rule on `S` raises a lookup error while the rule on the
    explicitly de-duplicated batch yields a verdict -/
theorem anything_dedup_absent_name_witness :
    let S : List Filter := [.name "p.a".toList, .name "p.a.y".toList]
    verdictOf exMt exG (mkRule false false true true true S S) = .err .lookupError ∧
    verdictOf exMt exG (mkRule false false true true true (dedupSubjects S) (dedupSubjects S)) = .fail := by
  decide

/-- … but through the ALIAS form (what a user can write: `are_named([p.a, p.a.y]).should_not().import_anything()`) the
    repaired library no longer returns that verdict: the alias and the reference rule on `S` both raise the lookup
    error, in both directions (an instance of `anything_alias_dedup_irrelevant`) -/
theorem anything_dedup_absent_name_alias_witness :
    let S : List Filter := [.name "p.a".toList, .name "p.a.y".toList]
    (∀ dir : Bool,
      verdictOf exMt exG { cfg := { subjects := some S, shouldNot := true, importDir := some dir, anything := true },
                           next := some false } = .err .lookupError ∧
      verdictOf exMt exG (mkRule false false true dir true S S) = .err .lookupError) := by
  decide

/-- why `HierClosed` is needed: on a hand-made graph with nodes `p`, `p.a` but no hierarchy edge between them the
    de-duplication turns a failing rule into a passing one (such a graph is never built by `buildGraph`) -/
theorem anything_dedup_needs_hierarchy_witness :
    let g : PGraph Str := ⟨["p".toList, "p.a".toList, "q".toList], [⟨"p.a".toList, "q".toList, false⟩]⟩
    let S : List Filter := [.name "p".toList, .name "p.a".toList]
    verdictOf exMt g (mkRule false false true true true S S) = .fail ∧
    verdictOf exMt g (mkRule false false true true true (dedupSubjects S) (dedupSubjects S)) = .pass := by
  decide

end Pta.C11
