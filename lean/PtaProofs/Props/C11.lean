/-
  PtaProofs.Props.C11 — regex, partial-name and batched specifications equal their expansions (property C11).
  The regex engine is the uninterpreted relation `mt` (`re.match(pattern, name) is not None`): the theorems hold
  for EVERY interpretation, every graph, every rule shape; related (ancestor/descendant) names are allowed.
-/
import Bridge.Abs
import PtaProofs.Lemmas.Expansion
import PtaProofs.Lemmas.AnythingDedup
namespace Pta.C11
open Pta

/-- a regex subject yields the same outcome (verdict AND report) as naming all modules the regex matches -/
theorem regex_expansion_subject (mt : Str → Str → Bool) (g : PGraph Str) (hnd : g.nodes.Nodup)
    (s o n dir exc : Bool) (p : Str) (objs : List Filter) (hm : ∃ m ∈ g.nodes, mt p m = true) :
    (assertApplies mt (mkRule s o n dir exc [.regex p] objs) g).2 =
    (assertApplies mt (mkRule s o n dir exc ((g.nodes.filter (mt p)).map .name) objs) g).2 :=
  Pta.regex_expansion_subject_lemma mt g hnd s o n dir exc p objs hm

/-- the same on the object side -/
theorem regex_expansion_object (mt : Str → Str → Bool) (g : PGraph Str) (hnd : g.nodes.Nodup)
    (s o n dir exc : Bool) (p : Str) (subs : List Filter) (hm : ∃ m ∈ g.nodes, mt p m = true) :
    (assertApplies mt (mkRule s o n dir exc subs [.regex p]) g).2 =
    (assertApplies mt (mkRule s o n dir exc subs ((g.nodes.filter (mt p)).map .name)) g).2 :=
  Pta.regex_expansion_object_lemma mt g hnd s o n dir exc p subs hm

/-- the `anything` aliases with a regex subject equal the alias on the expansion -/
theorem regex_expansion_anything (mt : Str → Str → Bool) (g : PGraph Str) (hnd : g.nodes.Nodup) (dir : Bool) (p : Str)
    (hm : ∃ m ∈ g.nodes, mt p m = true)
    (hdd : dedupSubjects ((g.nodes.filter (mt p)).map Filter.name) = (g.nodes.filter (mt p)).map Filter.name) :
    (assertApplies mt { cfg := { subjects := some [.regex p], shouldNot := true, importDir := some dir, anything := true }, next := some false } g).2 =
    (assertApplies mt { cfg := { subjects := some ((g.nodes.filter (mt p)).map .name), shouldNot := true, importDir := some dir, anything := true }, next := some false } g).2 :=
  Pta.regex_expansion_anything_lemma mt g hnd dir p hm hdd

/-- a regex that matches nothing never yields a verdict -/
theorem regex_no_match (mt : Str → Str → Bool) (g : PGraph Str) (s o n dir exc : Bool) (p : Str) (objs : List Filter)
    (h : ∀ m ∈ g.nodes, mt p m = false) :
    ∃ k, (assertApplies mt (mkRule s o n dir exc [.regex p] objs) g).2 = .err k :=
  Pta.regex_no_match_lemma mt g s o n dir exc p objs h

/-- the deprecated partial-name form is its regex translation -/
theorem partial_name (glob : Str → Str) (st : RuleState) (p : Str) :
    st.step glob (.haveNameContaining [p]) = st.step glob (.haveNameMatching (glob p)) := rfl

/-- several subjects with explicitly given objects: the conjunction of the single-subject rules (all 12 shapes) -/
theorem batch_subjects (mt : Str → Str → Bool) (g : PGraph Str) (s o n dir exc : Bool) (subs objs : List Filter)
    (hne : subs ≠ []) :
    verdictOf mt g (mkRule s o n dir exc subs objs) = .pass ↔
    ∀ x ∈ subs, verdictOf mt g (mkRule s o n dir exc [x] objs) = .pass :=
  Pta.batch_subjects_lemma mt g s o n dir exc subs objs hne

/-- several objects, plain should / should_not: the conjunction over objects -/
theorem batch_objects (mt : Str → Str → Bool) (g : PGraph Str) (neg dir : Bool) (subs objs : List Filter)
    (hne : objs ≠ []) :
    verdictOf mt g (mkRule (!neg) false neg dir false subs objs) = .pass ↔
    ∀ y ∈ objs, verdictOf mt g (mkRule (!neg) false neg dir false subs [y]) = .pass :=
  Pta.batch_objects_lemma mt g neg dir subs objs hne

/-! ### the `anything` aliases without the de-duplication hypothesis (verdict class)

`_convert_aliases` removes from the subjects of an `import_anything` / `be_imported_by_anything` rule every name that is
a strict dotted sub module of another subject (`dedupSubjects`), BEFORE a regex subject is expanded.  The theorems below
show that this never changes the verdict class (pass / fail / error kind), on every graph whose hierarchy edges cover
the dotted nesting of its nodes (`HierClosed`, a property of every graph `buildGraph` constructs — see
`hierClosed_buildGraph`) and for subject names that are nodes of the graph.  (The REPORT may differ in duplicate lines.) -/

/-- every graph built by `NetworkxGraph(all_modules, imports, level_limit)` from absolute imports whose importers are
    among the modules satisfies `HierClosed` (arbitrary module strings, with or without level limit) -/
theorem hierClosed_buildGraph (mods : List Str) (imps : List ImportRec) (lim : Option Nat)
    (himp : ∀ i ∈ imps, ExtBuild.NodeOf lim mods (flattenNode lim i.importer) ∧
      i.importeeParents = parentModules i.importee) :
    HierClosed (buildGraph mods imps lim) :=
  Pta.buildGraph_hierClosed mods imps lim himp

/-- so does every graph representing a well-formed architecture (the interface C01 is stated for) -/
theorem hierClosed_graphOf (a : PtaSpec.Arch) (g : PGraph Str) (hwf : a.wf = true) (hg : GraphOf a g) : HierClosed g :=
  Pta.hierClosed_of_graphOf (Pta.archWF_of_wf a hwf) hg

/-- the de-duplication of the subjects is irrelevant to the verdict class of
    `S should not import / be imported by modules except S` (what `_convert_aliases` produces) -/
theorem anything_dedup_irrelevant (mt : Str → Str → Bool) (g : PGraph Str) (hc : HierClosed g) (dir : Bool)
    (S : List Filter) (hS : namesOnly S = true) (hn : ∀ f ∈ S, g.hasNode f.id = true) :
    verdictOf mt g (mkRule false false true dir true S S) =
    verdictOf mt g (mkRule false false true dir true (dedupSubjects S) (dedupSubjects S)) :=
  Pta.anything_dedup_irrelevant mt g hc dir S hS hn

/-- the same under "the rule on `S` raises no lookup error" instead of "all names exist" -/
theorem anything_dedup_irrelevant_of_no_lookup_error (mt : Str → Str → Bool) (g : PGraph Str) (hc : HierClosed g)
    (dir : Bool) (S : List Filter) (hS : namesOnly S = true)
    (hok : verdictOf mt g (mkRule false false true dir true S S) ≠ .err .lookupError) :
    verdictOf mt g (mkRule false false true dir true S S) =
    verdictOf mt g (mkRule false false true dir true (dedupSubjects S) (dedupSubjects S)) :=
  Pta.anything_dedup_irrelevant_of_no_lookup_error mt g hc dir S hS hok

/-- the ALIAS form, for ALL name batches `S` — the names need not exist: through `assert_applies` the rule
    `S should not import / be imported by anything` (which de-duplicates `S`) has the verdict class of
    `S should not import / be imported by modules except S` on the full batch. When all names exist this is
    `anything_dedup_irrelevant`; an absent name makes BOTH sides raise a lookup error — since the repair of F-C13b also when
    the de-duplication drops that name (`Rule._assert_modules_removed_by_alias_conversion_exist`). -/
theorem anything_alias_dedup_irrelevant (mt : Str → Str → Bool) (g : PGraph Str) (hc : HierClosed g) (dir : Bool)
    (S : List Filter) (hS : namesOnly S = true) :
    verdictOf mt g { cfg := { subjects := some S, shouldNot := true, importDir := some dir, anything := true }, next := some false } =
    verdictOf mt g (mkRule false false true dir true S S) :=
  Pta.alias_anything_verdict_lemma mt g hc S dir hS

/-- the `anything` aliases with a regex subject have the verdict class of the alias on the expansion — no
    de-duplication hypothesis -/
theorem regex_expansion_anything_verdict (mt : Str → Str → Bool) (g : PGraph Str) (hnd : g.nodes.Nodup)
    (hc : HierClosed g) (dir : Bool) (p : Str) (hm : ∃ m ∈ g.nodes, mt p m = true) :
    verdictOf mt g { cfg := { subjects := some [.regex p], shouldNot := true, importDir := some dir, anything := true }, next := some false } =
    verdictOf mt g { cfg := { subjects := some ((g.nodes.filter (mt p)).map .name), shouldNot := true, importDir := some dir, anything := true }, next := some false } :=
  Pta.regex_expansion_anything_verdict_lemma mt g hnd hc dir p hm

/-! non-vacuity and necessity of the hypotheses -/

def exG : PGraph Str :=
  buildGraph ["p".toList, "p.a".toList, "p.a.x".toList, "q".toList]
    [absImport "p.a.x".toList "q".toList, absImport "q".toList "p.a.x".toList] none
def exS : List Filter := [.name "p.a".toList, .name "p.a.x".toList]
/-- a regex interpretation matching `p.a` and `p.a.x` -/
def exMt : Str → Str → Bool := fun _ m => m == "p.a".toList || m == "p.a.x".toList

example : HierClosed exG := hierClosed_buildGraph _ _ _ (by simp only [ExtBuild.NodeOf]; decide)
example : exG.nodes.Nodup := by decide
example : namesOnly exS = true := by decide
example : ∀ f ∈ exS, exG.hasNode f.id = true := by decide
example : dedupSubjects exS = [.name "p.a".toList] := by decide          -- the de-duplication is NOT the identity
example : (exG.nodes.filter (exMt "p[.]a.*".toList)).map Filter.name = exS := by decide
example : ∃ m ∈ exG.nodes, exMt "p[.]a.*".toList m = true := by decide
example : verdictOf exMt exG (mkRule false false true true true exS exS) = .fail := by decide
example : verdictOf exMt exG (mkRule false false true false true exS exS) = .fail := by decide
/-! non-vacuity of `anything_alias_dedup_irrelevant` beyond `anything_dedup_irrelevant`: a batch with an absent name -/
example : namesOnly [.name "p.a".toList, .name "p.a.y".toList] = true := by decide
example : exG.hasNode "p.a.y".toList = false := by decide

/-- why the names must exist in `anything_dedup_irrelevant` (finding F-C13b): an absent name that is a dotted extension
    of another subject is dropped by the de-duplication, so the rule on `S` raises a lookup error while the rule on the
    explicitly de-duplicated batch yields a verdict -/
theorem anything_dedup_absent_name_witness :
    let S : List Filter := [.name "p.a".toList, .name "p.a.y".toList]
    verdictOf exMt exG (mkRule false false true true true S S) = .err .lookupError ∧
    verdictOf exMt exG (mkRule false false true true true (dedupSubjects S) (dedupSubjects S)) = .fail := by
  decide

/-- … but through the ALIAS form (what a user can write: `are_named([p.a, p.a.y]).should_not().import_anything()`) the
    repaired library no longer returns that verdict: the alias and the reference rule on `S` both raise the lookup
    error, in both directions (an instance of `anything_alias_dedup_irrelevant`) -/
theorem anything_dedup_absent_name_alias_witness :
    let S : List Filter := [.name "p.a".toList, .name "p.a.y".toList]
    (∀ dir : Bool,
      verdictOf exMt exG { cfg := { subjects := some S, shouldNot := true, importDir := some dir, anything := true },
                           next := some false } = .err .lookupError ∧
      verdictOf exMt exG (mkRule false false true dir true S S) = .err .lookupError) := by
  decide

/-- why `HierClosed` is needed: on a hand-made graph with nodes `p`, `p.a` but no hierarchy edge between them the
    de-duplication turns a failing rule into a passing one (such a graph is never built by `buildGraph`) -/
theorem anything_dedup_needs_hierarchy_witness :
    let g : PGraph Str := ⟨["p".toList, "p.a".toList, "q".toList], [⟨"p.a".toList, "q".toList, false⟩]⟩
    let S : List Filter := [.name "p".toList, .name "p.a".toList]
    verdictOf exMt g (mkRule false false true true true S S) = .fail ∧
    verdictOf exMt g (mkRule false false true true true (dedupSubjects S) (dedupSubjects S)) = .pass := by
  decide

end Pta.C11
