/-
  PtaProofs.Props.C11 — regex, partial-name and batched specifications equal their expansions (property C11).
  The regex engine is the uninterpreted relation `mt` (`re.match(pattern, name) is not None`): the theorems hold
  for EVERY interpretation, every graph, every rule shape; related (ancestor/descendant) names are allowed.
-/
import Bridge.Abs
import PtaProofs.Lemmas.Expansion
namespace Pta.C11
open Pta

/-- a regex subject yields the same outcome (verdict AND report) as naming all modules the regex matches -/
theorem regex_expansion_subject (mt : Str → Str → Bool) (g : PGraph Str) (hnd : g.nodes.Nodup)
    (s o n dir exc : Bool) (p : Str) (objs : List Filter) (hm : ∃ m ∈ g.nodes, mt p m = true) :
    (assertApplies mt (mkRule s o n dir exc [.regex p] objs) g).2 =
    (assertApplies mt (mkRule s o n dir exc ((g.nodes.filter (mt p)).map .name) objs) g).2 :=
  Pta.regex_expansion_subject_lemma mt g hnd s o n dir exc p objs hm

/-- the same on the object side -/
theorem regex_expansion_object (mt : Str → Str → Bool) (g : PGraph Str) (hnd : g.nodes.Nodup)
    (s o n dir exc : Bool) (p : Str) (subs : List Filter) (hm : ∃ m ∈ g.nodes, mt p m = true) :
    (assertApplies mt (mkRule s o n dir exc subs [.regex p]) g).2 =
    (assertApplies mt (mkRule s o n dir exc subs ((g.nodes.filter (mt p)).map .name)) g).2 :=
  Pta.regex_expansion_object_lemma mt g hnd s o n dir exc p subs hm

/-- the `anything` aliases with a regex subject equal the alias on the expansion -/
theorem regex_expansion_anything (mt : Str → Str → Bool) (g : PGraph Str) (hnd : g.nodes.Nodup) (dir : Bool) (p : Str)
    (hm : ∃ m ∈ g.nodes, mt p m = true)
    (hdd : dedupSubjects ((g.nodes.filter (mt p)).map Filter.name) = (g.nodes.filter (mt p)).map Filter.name) :
    (assertApplies mt { cfg := { subjects := some [.regex p], shouldNot := true, importDir := some dir, anything := true }, next := some false } g).2 =
    (assertApplies mt { cfg := { subjects := some ((g.nodes.filter (mt p)).map .name), shouldNot := true, importDir := some dir, anything := true }, next := some false } g).2 :=
  Pta.regex_expansion_anything_lemma mt g hnd dir p hm hdd

/-- a regex that matches nothing never yields a verdict -/
theorem regex_no_match (mt : Str → Str → Bool) (g : PGraph Str) (s o n dir exc : Bool) (p : Str) (objs : List Filter)
    (h : ∀ m ∈ g.nodes, mt p m = false) :
    ∃ k, (assertApplies mt (mkRule s o n dir exc [.regex p] objs) g).2 = .err k :=
  Pta.regex_no_match_lemma mt g s o n dir exc p objs h

/-- the deprecated partial-name form is its regex translation -/
theorem partial_name (glob : Str → Str) (st : RuleState) (p : Str) :
    st.step glob (.haveNameContaining [p]) = st.step glob (.haveNameMatching (glob p)) := rfl

/-- several subjects with explicitly given objects: the conjunction of the single-subject rules (all 12 shapes) -/
theorem batch_subjects (mt : Str → Str → Bool) (g : PGraph Str) (s o n dir exc : Bool) (subs objs : List Filter)
    (hne : subs ≠ []) :
    verdictOf mt g (mkRule s o n dir exc subs objs) = .pass ↔
    ∀ x ∈ subs, verdictOf mt g (mkRule s o n dir exc [x] objs) = .pass :=
  Pta.batch_subjects_lemma mt g s o n dir exc subs objs hne

/-- several objects, plain should / should_not: the conjunction over objects -/
theorem batch_objects (mt : Str → Str → Bool) (g : PGraph Str) (neg dir : Bool) (subs objs : List Filter)
    (hne : objs ≠ []) :
    verdictOf mt g (mkRule (!neg) false neg dir false subs objs) = .pass ↔
    ∀ y ∈ objs, verdictOf mt g (mkRule (!neg) false neg dir false subs [y]) = .pass :=
  Pta.batch_objects_lemma mt g neg dir subs objs hne

end Pta.C11
