/-
  PtaProofs.Props.C12Scan — monotonicity (property C12) at the level of FILES:

    "Adding an import to the architecture never turns a passing 'should' rule (with or without 'except') into a failing
     one nor a failing 'should not' rule into a passing one."

  Props/C12.lean proves this for adding one import EDGE to a graph value (`addImportEdge g u v`). A user adds an import
  STATEMENT to a file. Here: for the scan model (`generateGraph`), external libraries excluded (the default), ANY
  exclusion patterns, ANY level limit, on directory trees that are well-formed as far as the scan can see them
  (`treeWFFor`, the hypothesis of C04 / C02 / the end-to-end theorems) and parser-producible statements:

  * `scan_add_statement_nodes`: `addStmtAt entries i k st` is `entries` with the statement `st` inserted at position `k`
    of the statement list of the `i`-th entry (the statement list of a file = all its `Import` / `ImportFrom` nodes at
    any depth, so "inside a nested block" is "somewhere in the list"). If both scans succeed the two graphs have the
    same nodes (as sets, and as lists up to a permutation) and the same hierarchy edges, and every import pair of the
    first is one of the second. Success of the second scan implies success of the first (`scan_add_statement_succeeds`).
  * `scan_add_statement_monotone`: hence a passing `should` (plain / `except`, both directions, any subject and object
    filters, regexes included, any regex matcher) rule on the first scan passes on the second, a failing `should_not`
    fails on the second, and an error stays the same error (three-valued).
  * `scan_add_statement_error`: the second scan raises (always a lookup error) exactly when the first raises or the
    changed entry is a surviving file and the new statement reaches above the root (`aboveRoot`).
  * the same for ANY number of statements added to any files anywhere (`MoreStmts entries entries'`):
    `scan_more_statements_nodes`, `scan_more_statements_monotone`, `scan_more_statements_error`.
  * graph level: `monotone_should_edges`, `monotone_should_not_edges`, `monotone_err_edges` generalise the single-edge
    theorems of Props/C12.lean to a finite list of added import edges — with NO side condition on the added pairs (the
    hypothesis `g.hasEdge u v = false` that `monotone_should` / `monotone_should_not` used to carry was not used by
    their proofs and has been dropped there as well);
    `monotone_should_le`, `monotone_should_not_le`, `monotone_err_le`: between any two graphs with the same nodes and
    hierarchy, the second with more imports (`GraphLe`).

  What is NOT monotone (and not claimed): `should only` rules; the allowed direction of change is shown in the example
  (a failing `should` becomes passing, a passing `should_not` becomes failing).
-/
import Bridge.ScanMono
import PtaProofs.Lemmas.ScanMono
import PtaProofs.Props.C12
import PtaProofs.Props.C02
namespace Pta.C12
open Pta PtaSpec

/-! ### graph level: a finite set of added import edges -/

/-- `monotone_should` for a list of added import edges (no condition on the pairs) -/
theorem monotone_should_edges (mt : Str → Str → Bool) (g : PGraph Str) (ps : List (Str × Str)) (A B : List Filter)
    (dir exc : Bool) :
    verdictOf mt g (mkRule true false false dir exc A B) = .pass →
    verdictOf mt (addImportEdges g ps) (mkRule true false false dir exc A B) = .pass :=
  ScanMono.should_add_edges mt ps A B dir exc g

/-- `monotone_should_not` for a list of added import edges -/
theorem monotone_should_not_edges (mt : Str → Str → Bool) (g : PGraph Str) (ps : List (Str × Str)) (A B : List Filter)
    (dir exc : Bool) :
    verdictOf mt g (mkRule false false true dir exc A B) = .fail →
    verdictOf mt (addImportEdges g ps) (mkRule false false true dir exc A B) = .fail :=
  ScanMono.should_not_add_edges mt ps A B dir exc g

/-- `monotone_err` for a list of added import edges: the same error before and after -/
theorem monotone_err_edges (mt : Str → Str → Bool) (g : PGraph Str) (ps : List (Str × Str)) (A B : List Filter)
    (neg dir exc : Bool) (k : ErrKind) :
    verdictOf mt (addImportEdges g ps) (mkRule (!neg) false neg dir exc A B) = .err k ↔
    verdictOf mt g (mkRule (!neg) false neg dir exc A B) = .err k :=
  ScanMono.err_add_edges mt ps A B (!neg) false neg dir exc (by cases neg <;> rfl) (by cases neg <;> cases exc <;> rfl) k g

/-- what `addImportEdges` is: the edge list extended by one import edge per pair; one pair = `addImportEdge` -/
theorem addImportEdges_eq (g : PGraph Str) (ps : List (Str × Str)) :
    addImportEdges g ps = { g with edges := g.edges ++ ps.map fun p => ⟨p.1, p.2, false⟩ } :=
  ScanMono.addImportEdges_eq ps g

example (g : PGraph Str) (u v : Str) : addImportEdges g [(u, v)] = addImportEdge g u v := rfl

/-- between ANY two graphs with the same modules and hierarchy, the second with more imports: as far as rules can tell
    the second is the first with import edges added (`GraphEquiv`), so the three laws hold between them -/
theorem monotone_should_le (mt : Str → Str → Bool) (g g' : PGraph Str) (h : GraphLe g g') (A B : List Filter)
    (dir exc : Bool) :
    verdictOf mt g (mkRule true false false dir exc A B) = .pass →
    verdictOf mt g' (mkRule true false false dir exc A B) = .pass :=
  ScanMono.should_le mt g g' h A B dir exc

theorem monotone_should_not_le (mt : Str → Str → Bool) (g g' : PGraph Str) (h : GraphLe g g') (A B : List Filter)
    (dir exc : Bool) :
    verdictOf mt g (mkRule false false true dir exc A B) = .fail →
    verdictOf mt g' (mkRule false false true dir exc A B) = .fail :=
  ScanMono.should_not_le mt g g' h A B dir exc

theorem monotone_err_le (mt : Str → Str → Bool) (g g' : PGraph Str) (h : GraphLe g g') (A B : List Filter)
    (neg dir exc : Bool) (k : ErrKind) :
    verdictOf mt g' (mkRule (!neg) false neg dir exc A B) = .err k ↔
    verdictOf mt g (mkRule (!neg) false neg dir exc A B) = .err k :=
  ScanMono.err_le mt g g' h A B (!neg) false neg dir exc (by cases neg <;> rfl) (by cases neg <;> cases exc <;> rfl) k

/-- `GraphLe` in terms of node list, hierarchy pairs and import pairs -/
theorem graphLe_pairs (g g' : PGraph Str) (h : GraphLe g g') :
    (∀ s, s ∈ g.nodes ↔ s ∈ g'.nodes) ∧ (∀ p, p ∈ g.hierPairs ↔ p ∈ g'.hierPairs) ∧
    (∀ p ∈ g.importPairs, p ∈ g'.importPairs) := by
  refine ⟨h.nodes, fun p => ?_, fun p hp => ?_⟩
  · obtain ⟨u, v⟩ := p
    rw [ExtScan.mem_hierPairs, ExtScan.mem_hierPairs, ← BuildMain.mem_hierChildren, ← BuildMain.mem_hierChildren]
    exact h.hier u v
  · obtain ⟨u, v⟩ := p
    rw [ExtScan.mem_importPairs, ← BuildMain.mem_importSuccs] at hp ⊢
    exact h.succs u v hp

/-! ### file level: trees that differ by added statements (any number, anywhere) -/

section more
variable (mt : Str → Str → Bool) (base root : Str) (mp : List Str) (entries entries' : List Entry) (o : ScanOptions)
  (hms : MoreStmts entries entries')
  (hwf : treeWFFor (isExcluded mt o.exclusions) base mp entries = true) (hmp : mpOK entries mp = true)
  (hroot : compWF root = true)
  (hxx : o.excludeExternal = true) (hext : o.externalExclusions.isEmpty = true)
  (hst : ∀ e ∈ entries', ∀ st ∈ e.stmts, stmtOK (toSStmt st) = true)
include hms hwf hmp hroot hxx hext hst

/-- if the scan of the tree with MORE statements succeeds, so does the scan of the tree with fewer -/
theorem scan_more_statements_succeeds (g' : PGraph Str) (hg' : generateGraph mt base root mp entries' o = .ok g') :
    ∃ g, generateGraph mt base root mp entries o = .ok g ∧ GraphLe g g' :=
  ScanMono.scan_more_lemma mt base root mp entries entries' o hms hwf hmp hroot hxx hext hst g' hg'

/-- same nodes, same hierarchy edges, the import pairs of the first among those of the second -/
theorem scan_more_statements_nodes (g g' : PGraph Str) (hg : generateGraph mt base root mp entries o = .ok g)
    (hg' : generateGraph mt base root mp entries' o = .ok g') :
    (∀ s, s ∈ g.nodes ↔ s ∈ g'.nodes) ∧ g.nodes.Perm g'.nodes ∧
    (∀ p, p ∈ g.hierPairs ↔ p ∈ g'.hierPairs) ∧ (∀ p ∈ g.importPairs, p ∈ g'.importPairs) := by
  obtain ⟨g0, hg0, hle⟩ := ScanMono.scan_more_lemma mt base root mp entries entries' o hms hwf hmp hroot hxx hext hst g' hg'
  rw [hg] at hg0
  cases hg0
  obtain ⟨h1, h2, h3⟩ := graphLe_pairs g g' hle
  refine ⟨h1, ?_, h2, h3⟩
  have nd : ∀ (es : List Entry) (x : PGraph Str), generateGraph mt base root mp es o = .ok x → x.nodes.Nodup := by
    intro es x hx
    rw [ExtScan.generateGraph_eq] at hx
    split at hx
    · cases hx
    · cases hx; exact BuildCond.buildGraph_nodup _ _ _
  exact (List.perm_ext_iff_of_nodup (nd _ g hg) (nd _ g' hg')).2 h1

/-- monotonicity of verdicts under added statements, three-valued -/
theorem scan_more_statements_monotone (g g' : PGraph Str) (hg : generateGraph mt base root mp entries o = .ok g)
    (hg' : generateGraph mt base root mp entries' o = .ok g')
    (mt' : Str → Str → Bool) (A B : List Filter) (dir exc : Bool) :
    (verdictOf mt' g (mkRule true false false dir exc A B) = .pass →
      verdictOf mt' g' (mkRule true false false dir exc A B) = .pass) ∧
    (verdictOf mt' g (mkRule false false true dir exc A B) = .fail →
      verdictOf mt' g' (mkRule false false true dir exc A B) = .fail) ∧
    (∀ (neg : Bool) (k : ErrKind), verdictOf mt' g' (mkRule (!neg) false neg dir exc A B) = .err k ↔
      verdictOf mt' g (mkRule (!neg) false neg dir exc A B) = .err k) := by
  obtain ⟨g0, hg0, hle⟩ := ScanMono.scan_more_lemma mt base root mp entries entries' o hms hwf hmp hroot hxx hext hst g' hg'
  rw [hg] at hg0
  cases hg0
  exact ⟨monotone_should_le mt' g g' hle A B dir exc, monotone_should_not_le mt' g g' hle A B dir exc,
    fun neg k => monotone_err_le mt' g g' hle A B neg dir exc k⟩

/-- a scan that raises keeps raising (the same error) when statements are added -/
theorem scan_more_statements_error (k : ErrKind) (h : generateGraph mt base root mp entries o = .error k) :
    generateGraph mt base root mp entries' o = .error k :=
  ScanMono.scan_more_error mt base root mp entries entries' o hms hwf hmp hroot hxx hext hst k h

end more

/-- adding one statement is a case of `MoreStmts` -/
theorem addStmtAt_moreStmts (entries : List Entry) (i k : Nat) (st : ImportStmt) :
    MoreStmts entries (addStmtAt entries i k st) := ScanMono.addStmtAt_more entries i k st

/-! ### file level: ONE import statement added to ONE file -/

section one
variable (mt : Str → Str → Bool) (base root : Str) (mp : List Str) (entries : List Entry) (o : ScanOptions)
  (hwf : treeWFFor (isExcluded mt o.exclusions) base mp entries = true) (hmp : mpOK entries mp = true)
  (hroot : compWF root = true)
  (hxx : o.excludeExternal = true) (hext : o.externalExclusions.isEmpty = true)
  (hst : ∀ e ∈ entries, ∀ st ∈ e.stmts, stmtOK (toSStmt st) = true)
  (i k : Nat) (st : ImportStmt) (hnew : stmtOK (toSStmt st) = true)
include hwf hmp hroot hxx hext hst hnew

/-- if the scan with the added statement succeeds, the scan without it does -/
theorem scan_add_statement_succeeds (g' : PGraph Str)
    (hg' : generateGraph mt base root mp (addStmtAt entries i k st) o = .ok g') :
    ∃ g, generateGraph mt base root mp entries o = .ok g :=
  (scan_more_statements_succeeds mt base root mp entries _ o (addStmtAt_moreStmts entries i k st) hwf hmp hroot hxx hext
    (ScanMono.addStmtAt_stmtOK entries i k st hst hnew) g' hg').imp fun _ h => h.1

/-- FILE LEVEL, structure: one more import statement in one file (at any position of its statement list) leaves the
    nodes and the hierarchy edges of the scan graph unchanged and can only add import edges -/
theorem scan_add_statement_nodes (g g' : PGraph Str) (hg : generateGraph mt base root mp entries o = .ok g)
    (hg' : generateGraph mt base root mp (addStmtAt entries i k st) o = .ok g') :
    (∀ s, s ∈ g.nodes ↔ s ∈ g'.nodes) ∧ g.nodes.Perm g'.nodes ∧
    (∀ p, p ∈ g.hierPairs ↔ p ∈ g'.hierPairs) ∧ (∀ p ∈ g.importPairs, p ∈ g'.importPairs) :=
  scan_more_statements_nodes mt base root mp entries _ o (addStmtAt_moreStmts entries i k st) hwf hmp hroot hxx hext
    (ScanMono.addStmtAt_stmtOK entries i k st hst hnew) g g' hg hg'

/-- FILE LEVEL, verdicts (property C12): adding an import statement to a file never turns a passing `should` rule
    (with or without `except`) into a failing one, nor a failing `should_not` rule into a passing one, and a rule that
    raises keeps raising the same error and vice versa — for all subject / object filter lists (names, parents,
    regexes), both directions, every regex matcher `mt'` -/
theorem scan_add_statement_monotone (g g' : PGraph Str) (hg : generateGraph mt base root mp entries o = .ok g)
    (hg' : generateGraph mt base root mp (addStmtAt entries i k st) o = .ok g')
    (mt' : Str → Str → Bool) (A B : List Filter) (dir exc : Bool) :
    (verdictOf mt' g (mkRule true false false dir exc A B) = .pass →
      verdictOf mt' g' (mkRule true false false dir exc A B) = .pass) ∧
    (verdictOf mt' g (mkRule false false true dir exc A B) = .fail →
      verdictOf mt' g' (mkRule false false true dir exc A B) = .fail) ∧
    (∀ (neg : Bool) (k : ErrKind), verdictOf mt' g' (mkRule (!neg) false neg dir exc A B) = .err k ↔
      verdictOf mt' g (mkRule (!neg) false neg dir exc A B) = .err k) :=
  scan_more_statements_monotone mt base root mp entries _ o (addStmtAt_moreStmts entries i k st) hwf hmp hroot hxx hext
    (ScanMono.addStmtAt_stmtOK entries i k st hst hnew) g g' hg hg' mt' A B dir exc

/-- FILE LEVEL, the error case: the scan of the tree with the added statement raises — a lookup error, never anything
    else — exactly when the scan of the old tree raised (`Pta.C02.scan_error_iff_tree`: some relative import of some
    surviving file reaches above the root), or the changed entry `e` is a `.py` file the scan reads and the NEW
    statement reaches above the root: `aboveRoot importer st`, i.e. `from <level dots>[module] import …` with
    `level ≥` the number of components of the file's module name (`level > ` depth of the file below the root
    directory), or the unparseable `from import x`. -/
theorem scan_add_statement_error (e : Entry) (hi : entries[i]? = some e) :
    (generateGraph mt base root mp (addStmtAt entries i k st) o = .error .lookupError ↔
      generateGraph mt base root mp entries o = .error .lookupError ∨
      (e.isDir = false ∧
        survives (toSEntries (isExcluded mt o.exclusions) base entries) mp
          (toSEntry (isExcluded mt o.exclusions) base e) = true ∧
        aboveRoot (entryName root (toSEntry (isExcluded mt o.exclusions) base e)) (toSStmt st) = true)) ∧
    (∀ x, generateGraph mt base root mp (addStmtAt entries i k st) o = .error x → x = .lookupError) := by
  refine ⟨ScanMono.scan_add_error_lemma mt base root mp entries o hwf hmp hroot hxx hext hst i k st e hi hnew, ?_⟩
  have hms := addStmtAt_moreStmts entries i k st
  exact (ScanMono.scan_error_iff_bad mt base root mp _ o (by rw [ScanMono.treeWFFor_more hms]; exact hwf)
    (by rw [ScanMono.mpOK_more hms]; exact hmp) hroot hxx hext (ScanMono.addStmtAt_stmtOK entries i k st hst hnew)).2

/-- with no level limit the old scan's error is the one of `Pta.C02.scan_error_iff_tree`: the specification has no
    import list -/
theorem scan_add_statement_error_spec (hlim : o.levelLimit = none) (e : Entry) (hi : entries[i]? = some e) :
    (∃ x, generateGraph mt base root mp (addStmtAt entries i k st) o = .error x) ↔
      scanImports root (toSEntries (isExcluded mt o.exclusions) base entries) mp = none ∨
      (e.isDir = false ∧
        survives (toSEntries (isExcluded mt o.exclusions) base entries) mp
          (toSEntry (isExcluded mt o.exclusions) base e) = true ∧
        aboveRoot (entryName root (toSEntry (isExcluded mt o.exclusions) base e)) (toSStmt st) = true) := by
  obtain ⟨h1, h2⟩ := scan_add_statement_error mt base root mp entries o hwf hmp hroot hxx hext hst i k st hnew e hi
  rw [Pta.C02.scan_error_iff_tree mt base root mp entries o hwf hmp hroot hxx hlim hext hst]
  constructor
  · rintro ⟨x, hx⟩
    have := h2 x hx
    subst this
    exact (h1.1 hx).imp (fun h => ⟨_, h⟩) id
  · rintro (⟨x, hx⟩ | h)
    · have hd := ScanMono.scan_dichotomy mt base root mp entries o hwf hmp hroot hxx hext hst
      cases his : scanImports root (toSEntries (isExcluded mt o.exclusions) base entries) mp with
      | none => rw [his] at hd; exact ⟨_, h1.2 (.inl hd)⟩
      | some is => rw [his] at hd; obtain ⟨g, hg, -⟩ := hd; rw [hg] at hx; cases hx
    · exact ⟨_, h1.2 (.inr h)⟩

end one

/-! ### example: a 4-file tree, a statement added inside a nested block, verdicts before and after

  `r/a/m.py`, `r/a/k.py`, `r/b.py` (`import r.c`), `r/c.py`; the file `r/a/m.py` is
  ```
  def f():
      try:
          from . import k
      except ImportError:
          pass
          from .. import c          # <- ADDED (inside def → try → except handler)
  import r.b
  ```
  Each file comes with its AST; the statement lists are what the model's walk of `ImportConverter.convert` collects. -/

namespace ScanEx

def s (x : String) : Str := x.toList
def noRe : Str → Str → Bool := fun _ _ => false

def astOld : List AstNode :=
  [ { path := [], kind := .other (s "Module") },
    { path := [0], kind := .other (s "FunctionDef"), field := s "body" },
    { path := [0, 0], kind := .other (s "Try"), field := s "body" },
    { path := [0, 0, 0], kind := .impFrom none [s "k"] 1, field := s "body" },
    { path := [0, 0, 1], kind := .other (s "ExceptHandler"), field := s "handlers" },
    { path := [0, 0, 1, 0], kind := .other (s "Pass"), field := s "body" },
    { path := [1], kind := .imp [s "r.b"], field := s "body" } ]

/-- the added statement: `from .. import c` -/
def stNew : ImportStmt := .impFrom none [s "c"] 2

/-- the AST with the new node in the body of the `except` handler -/
def astNew : List AstNode :=
  astOld ++ [{ path := [0, 0, 1, 1], kind := .impFrom none [s "c"] 2, field := s "body" }]

def emptyAst : List AstNode := [{ path := [], kind := .other (s "Module") }]

def treeWith (ast : List AstNode) : List Entry :=
  [ { rel := [s "a"], isDir := true },
    { rel := [s "a", s "m.py"], isDir := false, tree := ast },
    { rel := [s "a", s "k.py"], isDir := false, tree := emptyAst },
    { rel := [s "b.py"], isDir := false, tree := [{ path := [], kind := .other (s "Module") },
                                                  { path := [0], kind := .imp [s "r.c"], field := s "body" }] },
    { rel := [s "c.py"], isDir := false, tree := emptyAst } ]

/-- the old tree and the tree of the edited file, statements collected by the model's walk -/
def old : List Entry := (treeWith astOld).map Entry.withCollected
def new : List Entry := (treeWith astNew).map Entry.withCollected

def opts : ScanOptions := { exclusions := .globs [] }
def optsLim : ScanOptions := { exclusions := .globs [], levelLimit := some 1 }

/-- the walk reaches the new node between the two old statements: the edited tree IS `addStmtAt old 1 1 stNew`
    (entry 1 = `a/m.py`, position 1 of its statement list) -/
example :
    collectImports astOld = [.imp [s "r.b"], .impFrom none [s "k"] 1] ∧
    collectImports astNew = [.imp [s "r.b"], stNew, .impFrom none [s "k"] 1] ∧
    new.map (fun e => (e.rel, e.isDir, e.stmts)) = (addStmtAt old 1 1 stNew).map (fun e => (e.rel, e.isDir, e.stmts)) := by
  decide

/-- every hypothesis of the file-level theorems holds (with and without the level limit) -/
example :
    treeWFFor (isExcluded noRe opts.exclusions) (s "/x/r") [] old = true ∧ mpOK old [] = true ∧ compWF (s "r") = true ∧
    opts.excludeExternal = true ∧ opts.externalExclusions.isEmpty = true ∧
    optsLim.excludeExternal = true ∧ optsLim.externalExclusions.isEmpty = true ∧
    (∀ e ∈ old, ∀ st ∈ e.stmts, stmtOK (toSStmt st) = true) ∧ stmtOK (toSStmt stNew) = true ∧
    old[1]?.map (·.rel) = some [s "a", s "m.py"] := by decide

/-- the rules: `r.a should import r.b`; `r.a should import r.c`; `r.a should_not import r.c`;
    `r.b should_not import anything except r.a`; `r.a should import except r.b` (something other than `r.b`);
    `r.zz should import r.b` (unknown module) -/
def rules : List RuleState :=
  [ mkRule true false false true false [.name (s "r.a")] [.name (s "r.b")],
    mkRule true false false true false [.name (s "r.a")] [.name (s "r.c")],
    mkRule false false true true false [.name (s "r.a")] [.name (s "r.c")],
    mkRule false false true true true [.name (s "r.b")] [.name (s "r.a")],
    mkRule true false false true true [.name (s "r.a")] [.name (s "r.b")],
    mkRule true false false true false [.name (s "r.zz")] [.name (s "r.b")] ]

set_option maxRecDepth 100000 in
/-- the two scans and the verdicts BEFORE and AFTER the edit: the passing `should` stays passing, the failing
    `should_not … except` stays failing, the error stays the error; the changes are the allowed ones (a failing `should`
    and a failing `should … except` now pass, a passing `should_not` now fails); nodes and hierarchy edges are the same,
    the import pairs grow by `r.a.m → r.c` -/
example :
    (generateGraph noRe (s "/x/r") (s "r") [] old opts).toOption.map
        (fun g => rules.map (verdictOf noRe g)) =
      some [.pass, .fail, .pass, .fail, .fail, .err .lookupError] ∧
    (generateGraph noRe (s "/x/r") (s "r") [] (addStmtAt old 1 1 stNew) opts).toOption.map
        (fun g => rules.map (verdictOf noRe g)) =
      some [.pass, .pass, .fail, .fail, .pass, .err .lookupError] ∧
    (generateGraph noRe (s "/x/r") (s "r") [] new opts).toOption.map
        (fun g => rules.map (verdictOf noRe g)) =
      some [.pass, .pass, .fail, .fail, .pass, .err .lookupError] ∧
    (generateGraph noRe (s "/x/r") (s "r") [] old opts).toOption.map (fun g => (g.nodes, g.hierPairs)) =
      (generateGraph noRe (s "/x/r") (s "r") [] (addStmtAt old 1 1 stNew) opts).toOption.map
        (fun g => (g.nodes, g.hierPairs)) ∧
    (generateGraph noRe (s "/x/r") (s "r") [] old opts).toOption.map (·.importPairs) =
      some [(s "r.a.m", s "r.b"), (s "r.a.m", s "r.a.k"), (s "r.b", s "r.c")] ∧
    (generateGraph noRe (s "/x/r") (s "r") [] (addStmtAt old 1 1 stNew) opts).toOption.map (·.importPairs) =
      some [(s "r.a.m", s "r.b"), (s "r.a.m", s "r.c"), (s "r.a.m", s "r.a.k"), (s "r.b", s "r.c")] := by
  refine ⟨by decide, by decide, by decide, by decide, by decide, by decide⟩

set_option maxRecDepth 100000 in
/-- the same with `level_limit = 1` (nodes `r`, `r.a`, `r.b`, `r.c`; the new import is the flattened `r.a → r.c`) -/
example :
    (generateGraph noRe (s "/x/r") (s "r") [] old optsLim).toOption.map
        (fun g => (rules.map (verdictOf noRe g), g.nodes, g.importPairs)) =
      some ([.pass, .fail, .pass, .fail, .fail, .err .lookupError],
        [s "r", s "r.a", s "r.b", s "r.c"], [(s "r.a", s "r.b"), (s "r.b", s "r.c")]) ∧
    (generateGraph noRe (s "/x/r") (s "r") [] (addStmtAt old 1 1 stNew) optsLim).toOption.map
        (fun g => (rules.map (verdictOf noRe g), g.nodes, g.importPairs)) =
      some ([.pass, .pass, .fail, .fail, .pass, .err .lookupError],
        [s "r", s "r.a", s "r.b", s "r.c"], [(s "r.a", s "r.b"), (s "r.a", s "r.c"), (s "r.b", s "r.c")]) := by
  refine ⟨by decide, by decide⟩

/-- the error case: `from .... import x` (level 4) in `r/a/m.py` (module `r.a.m`, three components) reaches above
    the root: the side condition of `scan_add_statement_error` holds and the new scan raises the lookup error, while
    level 3 does as well (`r.a.m` → `r.a` → `r` → above) and level 2 (`from .. import c`, the statement above) does not -/
def stBad : ImportStmt := .impFrom none [s "x"] 4

set_option maxRecDepth 100000 in
example :
    stmtOK (toSStmt stBad) = true ∧
    (old[1]?.map fun e => (e.isDir,
      survives (toSEntries (isExcluded noRe opts.exclusions) (s "/x/r") old) []
        (toSEntry (isExcluded noRe opts.exclusions) (s "/x/r") e),
      aboveRoot (entryName (s "r") (toSEntry (isExcluded noRe opts.exclusions) (s "/x/r") e)) (toSStmt stBad),
      aboveRoot (entryName (s "r") (toSEntry (isExcluded noRe opts.exclusions) (s "/x/r") e))
        (toSStmt (.impFrom none [s "x"] 3)),
      aboveRoot (entryName (s "r") (toSEntry (isExcluded noRe opts.exclusions) (s "/x/r") e)) (toSStmt stNew))) =
      some (false, true, true, true, false) ∧
    (generateGraph noRe (s "/x/r") (s "r") [] old opts).toOption.isSome = true ∧
    (generateGraph noRe (s "/x/r") (s "r") [] (addStmtAt old 1 2 stBad) opts).toOption.isNone = true ∧
    (match generateGraph noRe (s "/x/r") (s "r") [] (addStmtAt old 1 2 stBad) opts with
      | .error k => k == .lookupError | .ok _ => false) = true := by
  refine ⟨by decide, by decide, by decide, by decide, by decide⟩

/-- the tree with the added statement is a `MoreStmts` extension of the old one (hypothesis of the general theorems) -/
example : MoreStmts old (addStmtAt old 1 1 stNew) := addStmtAt_moreStmts old 1 1 stNew

/-! ### the hypotheses, evaluated at excluded points -/

/-- `exclude_external_libraries = False` is OUTSIDE the theorems, and there the property is FALSE for rules with a
    regular-expression subject: an import of a library adds a MODULE (a node) to the architecture, and a regex subject
    may match it. Tree `r/xs.py` (`import r.c`), `r/b.py`, `r/c.py`; rule "modules matching `.*s` should import `r.c`"
    (the pattern engine is a parameter: here "ends with s"). Before: the only match `r.xs` imports `r.c` — PASS.
    After adding `import os` to `b.py`: the node `os` matches and imports nothing — FAIL. All other hypotheses hold.
    (With the default `exclude_external_libraries = True` the node list cannot change: `scan_add_statement_nodes`.) -/
def extTree : List Entry :=
  [ { rel := [s "xs.py"], isDir := false, stmts := [.imp [s "r.c"]] },
    { rel := [s "b.py"], isDir := false },
    { rel := [s "c.py"], isDir := false } ]
def extOpts : ScanOptions := { exclusions := .globs [], excludeExternal := false }
def endsWithS : Str → Str → Bool := fun _ m => endsWith (s "s") m
def extRule : RuleState := mkRule true false false true false [.regex (s ".*s")] [.name (s "r.c")]

set_option maxRecDepth 100000 in
theorem external_modules_not_monotone :
    treeWFFor (isExcluded noRe extOpts.exclusions) (s "/x/r") [] extTree = true ∧ mpOK extTree [] = true ∧
    extOpts.excludeExternal = false ∧ extOpts.externalExclusions.isEmpty = true ∧
    (∀ e ∈ extTree, ∀ st ∈ e.stmts, stmtOK (toSStmt st) = true) ∧ stmtOK (toSStmt (.imp [s "os"])) = true ∧
    (generateGraph noRe (s "/x/r") (s "r") [] extTree extOpts).toOption.map
        (fun g => (verdictOf endsWithS g extRule, g.nodes)) =
      some (.pass, [s "r", s "r.xs", s "r.b", s "r.c"]) ∧
    (generateGraph noRe (s "/x/r") (s "r") [] (addStmtAt extTree 1 0 (.imp [s "os"])) extOpts).toOption.map
        (fun g => (verdictOf endsWithS g extRule, g.nodes)) =
      some (.fail, [s "r", s "r.xs", s "r.b", s "r.c", s "os"]) := by
  refine ⟨by decide, by decide, by decide, by decide, by decide, by decide, by decide, by decide⟩

/-- `treeWFFor` is forced by the proof route (through the specification architecture, which is ill-formed for a file
    `a.py` next to a directory `a/`); no counterexample to the CONCLUSION is known there. At the excluded point of
    `Pta.E2E.collision_needs_treeWF` — `r/a.py`, `r/a/`, `r/a/b.py` (`import r.c`), `r/c.py`, the statement
    `import r.a.b` added to `a.py` — the model's two graphs are equal (the pair `r.a → r.a.b` is written as an import
    edge and at once overwritten by the hierarchy edge), so the conclusion holds. -/
def colTree : List Entry :=
  [ { rel := [s "a.py"], isDir := false },
    { rel := [s "a"], isDir := true },
    { rel := [s "a", s "b.py"], isDir := false, stmts := [.imp [s "r.c"]] },
    { rel := [s "c.py"], isDir := false } ]

set_option maxRecDepth 100000 in
example :
    treeWFFor (isExcluded noRe opts.exclusions) (s "/x/r") [] colTree = false ∧
    (generateGraph noRe (s "/x/r") (s "r") [] colTree opts).toOption.map
        (fun g => (g.nodes, g.hierPairs, g.importPairs)) =
      some ([s "r", s "r.a", s "r.a.b", s "r.c"], [(s "r", s "r.a"), (s "r.a", s "r.a.b"), (s "r", s "r.c")],
        [(s "r.a.b", s "r.c")]) ∧
    (generateGraph noRe (s "/x/r") (s "r") [] (addStmtAt colTree 0 0 (.imp [s "r.a.b"])) opts).toOption.map
        (fun g => (g.nodes, g.hierPairs, g.importPairs)) =
      some ([s "r", s "r.a", s "r.a.b", s "r.c"], [(s "r", s "r.a"), (s "r.a", s "r.a.b"), (s "r", s "r.c")],
        [(s "r.a.b", s "r.c")]) := by
  refine ⟨by decide, by decide, by decide⟩

/-- `stmtOK` (the statement is one the CPython parser can produce) is needed for `scan_add_statement_error`: a
    relative `from` import with an EMPTY alias list — which the grammar forbids — reaches above the root according to
    `aboveRoot`, but the model's loop over its aliases never runs and nothing raises
    (cf. `Pta.C02.empty_alias_list_counterexample`) -/
example :
    stmtOK (toSStmt (.impFrom none [] 7)) = false ∧
    aboveRoot [s "r", s "a", s "m"] (toSStmt (.impFrom none [] 7)) = true ∧
    (generateGraph noRe (s "/x/r") (s "r") [] (addStmtAt old 1 0 (.impFrom none [] 7)) opts).toOption.isSome = true := by
  refine ⟨by decide, by decide, by decide⟩

/-- `o.externalExclusions.isEmpty` costs nothing: together with `exclude_external_libraries = True` a non-empty
    external exclusion tuple is rejected by `get_evaluable_architecture` before any scan -/
example : ∀ a b c : Bool,
    entryOptionsError ⟨a, b, true, c, true, true⟩ ≠ none ∧ entryOptionsError ⟨a, b, c, true, true, true⟩ ≠ none := by decide

end ScanEx

end Pta.C12
