/-
  PtaProofs.Props.C10Limit — property C10, externals INCLUDED, under a LEVEL LIMIT: what happens to an external importee
  that `ExternalImportFilter` removes because an external exclusion pattern matches it or one of its parents
  ("not retained").  `PtaProofs/Props/C10.lean` has this half without a limit only (`externals_included`, second
  conjunct); with a limit it carries the retained half (`externals_included_limit`).

  `L = shiftedLimit o mp` is the limit the graph constructor receives; `flattenNode L y` the flattened name.

  * `nodes_included_limit` — the complete node set with externals included, for ANY limit: a node is (a dotted parent
    of) a flattened parsed module, or (a dotted parent of) the flattened importee of a RETAINED external import.
  * `edges_between_nodes` — every edge of a scan graph joins two nodes (so a string that is not a node is touched by
    no edge).
  * `externals_not_retained_limit` — not retained, and the pattern hits a member of the importee's chain that SURVIVES
    the flattening (the importee itself or an ancestor with at most `L + 1` components): the flattened importee is
    not a node and no edge touches it, unless it is (a parent of) a flattened parsed module.
  * `externals_not_retained_uncut` — in particular when the importee has at most `L + 1` components: the statement of
    `externals_included` verbatim.
  * `externals_not_retained_iff` — in general (the pattern may hit BELOW the cut only): the flattened importee is a node
    exactly when it is (a parent of) the flattening of a parsed module or of a retained external importee.
  * `not_retained_limit_naive_counterexample` — the naive transfer of the no-limit statement ("not retained and not a
    parent of a flattened parsed module ⟹ the flattened importee is not a node") is FALSE of the model:
    `import scipy.sparse.linalg` is removed by the pattern `scipy.sparse.linalg*`, `import scipy.sparse.csgraph` is
    retained; with limit 1 both flatten to `scipy.sparse`, which is a node carrying the edge `r.a → scipy.sparse`.
    (That import edges of the limited graph stem from RETAINED records only is `C09.scan_imports_exact`.)
-/
import Bridge.Abs
import Bridge.ExtAbs
import PtaProofs.Lemmas.ExtLimit
import PtaProofs.Props.C10
namespace Pta.C10
open Pta

/-- externals included, ANY level limit: the node set -/
theorem nodes_included_limit (mt : Str → Str → Bool) (base rootName : Str) (mp : List Str) (entries : List Entry)
    (o : ScanOptions) (g : PGraph Str) (hx : o.excludeExternal = false)
    (h : generateGraph mt base rootName mp entries o = .ok g) (I : List ImportRec)
    (hI : convertAll (scanParsed mt base rootName mp entries o) (absolutePrefix rootName mp)
      ((scanParsed mt base rootName mp entries o).allModules.filter fun m => isInternal m (internalPrefix rootName mp)) = .ok I)
    (s : Str) :
    s ∈ g.nodes ↔
      (∃ m ∈ (scanParsed mt base rootName mp entries o).allModules, s ∈ withParents (flattenNode (shiftedLimit o mp) m)) ∨
      (∃ j ∈ I, isInternal j.importee (internalPrefix rootName mp) = false ∧
        retained mt o (internalPrefix rootName mp) j = true ∧
        s ∈ withParents (flattenNode (shiftedLimit o mp) j.importee)) :=
  Pta.ExtLimit.nodes_included_lemma mt base rootName mp entries o g hx h I hI s

/-- every edge (import or hierarchy) of a scan graph joins two nodes — any options, any limit -/
theorem edges_between_nodes (mt : Str → Str → Bool) (base rootName : Str) (mp : List Str) (entries : List Entry)
    (o : ScanOptions) (g : PGraph Str) (h : generateGraph mt base rootName mp entries o = .ok g) (s : Str)
    (hs : s ∉ g.nodes) : ∀ x ∈ g.edges, x.src ≠ s ∧ x.dst ≠ s :=
  Pta.ExtLimit.no_edge_of_not_node mt base rootName mp entries o g h s hs

/-- C10 (2), not-retained half, under ANY level limit: `i` is a converted import with an external importee that the
    filter removes; a pattern matches a member `p` of the chain of the importee that survives the flattening.  Then the
    flattened importee is not a node and no edge of any kind touches it — provided it is not itself (a parent of) a
    flattened parsed module. -/
theorem externals_not_retained_limit (mt : Str → Str → Bool) (base rootName : Str) (mp : List Str) (entries : List Entry)
    (o : ScanOptions) (g : PGraph Str) (hx : o.excludeExternal = false)
    (h : generateGraph mt base rootName mp entries o = .ok g) (I : List ImportRec)
    (hI : convertAll (scanParsed mt base rootName mp entries o) (absolutePrefix rootName mp)
      ((scanParsed mt base rootName mp entries o).allModules.filter fun m => isInternal m (internalPrefix rootName mp)) = .ok I)
    (i : ImportRec) (_hi : i ∈ I) (_hext : isInternal i.importee (internalPrefix rootName mp) = false)
    (_hret : retained mt o (internalPrefix rootName mp) i = false)
    (hhit : ∃ p ∈ withParents (flattenNode (shiftedLimit o mp) i.importee), isExcluded mt o.externalExclusions p = true)
    (hnp : ∀ m ∈ (scanParsed mt base rootName mp entries o).allModules,
      flattenNode (shiftedLimit o mp) i.importee ∉ withParents (flattenNode (shiftedLimit o mp) m)) :
    flattenNode (shiftedLimit o mp) i.importee ∉ g.nodes ∧
      ∀ x ∈ g.edges, x.src ≠ flattenNode (shiftedLimit o mp) i.importee ∧
        x.dst ≠ flattenNode (shiftedLimit o mp) i.importee :=
  Pta.ExtLimit.not_retained_lemma mt base rootName mp entries o g hx h I hI i.importee hhit hnp

/-- … in particular when the flattening does not cut the importee (it has at most `L + 1` components): "not retained"
    alone gives the pattern hit, and the statement is the one of `externals_included` -/
theorem externals_not_retained_uncut (mt : Str → Str → Bool) (base rootName : Str) (mp : List Str) (entries : List Entry)
    (o : ScanOptions) (g : PGraph Str) (hx : o.excludeExternal = false)
    (h : generateGraph mt base rootName mp entries o = .ok g) (I : List ImportRec)
    (hI : convertAll (scanParsed mt base rootName mp entries o) (absolutePrefix rootName mp)
      ((scanParsed mt base rootName mp entries o).allModules.filter fun m => isInternal m (internalPrefix rootName mp)) = .ok I)
    (i : ImportRec) (hi : i ∈ I) (_hext : isInternal i.importee (internalPrefix rootName mp) = false)
    (hret : retained mt o (internalPrefix rootName mp) i = false)
    (huncut : flattenNode (shiftedLimit o mp) i.importee = i.importee)
    (hnp : ∀ m ∈ (scanParsed mt base rootName mp entries o).allModules,
      i.importee ∉ withParents (flattenNode (shiftedLimit o mp) m)) :
    i.importee ∉ g.nodes ∧ ∀ x ∈ g.edges, x.src ≠ i.importee ∧ x.dst ≠ i.importee := by
  have := Pta.ExtLimit.not_retained_lemma mt base rootName mp entries o g hx h I hI i.importee
    (by rw [huncut]; exact Pta.ExtLimit.not_retained_hit mt base rootName mp entries o hx I hI i hi hret)
    (by rw [huncut]; exact hnp)
  rw [huncut] at this
  exact this

/-- the exact statement when the pattern may hit below the cut only: the flattened name of a not retained external is a
    node exactly when it is (a parent of) the flattening of a parsed module or of a RETAINED external importee -/
theorem externals_not_retained_iff (mt : Str → Str → Bool) (base rootName : Str) (mp : List Str) (entries : List Entry)
    (o : ScanOptions) (g : PGraph Str) (hx : o.excludeExternal = false)
    (h : generateGraph mt base rootName mp entries o = .ok g) (I : List ImportRec)
    (hI : convertAll (scanParsed mt base rootName mp entries o) (absolutePrefix rootName mp)
      ((scanParsed mt base rootName mp entries o).allModules.filter fun m => isInternal m (internalPrefix rootName mp)) = .ok I)
    (i : ImportRec) (_hi : i ∈ I) (_hext : isInternal i.importee (internalPrefix rootName mp) = false)
    (_hret : retained mt o (internalPrefix rootName mp) i = false) :
    (flattenNode (shiftedLimit o mp) i.importee ∈ g.nodes ↔
      (∃ m ∈ (scanParsed mt base rootName mp entries o).allModules,
        flattenNode (shiftedLimit o mp) i.importee ∈ withParents (flattenNode (shiftedLimit o mp) m)) ∨
      (∃ j ∈ I, isInternal j.importee (internalPrefix rootName mp) = false ∧
        retained mt o (internalPrefix rootName mp) j = true ∧
        flattenNode (shiftedLimit o mp) i.importee ∈ withParents (flattenNode (shiftedLimit o mp) j.importee))) ∧
    (flattenNode (shiftedLimit o mp) i.importee ∉ g.nodes →
      ∀ x ∈ g.edges, x.src ≠ flattenNode (shiftedLimit o mp) i.importee ∧
        x.dst ≠ flattenNode (shiftedLimit o mp) i.importee) :=
  ⟨Pta.ExtLimit.nodes_included_lemma mt base rootName mp entries o g hx h I hI _,
   Pta.ExtLimit.no_edge_of_not_node mt base rootName mp entries o g h _⟩

/-! ### the naive transfer of the no-limit statement is false -/

/-- `externals_included` (second conjunct) with every name flattened, and nothing else changed -/
def NotRetainedLimit_Naive_Statement : Prop :=
  ∀ (mt : Str → Str → Bool) (base rootName : Str) (mp : List Str) (entries : List Entry)
    (o : ScanOptions) (g : PGraph Str), o.excludeExternal = false →
    generateGraph mt base rootName mp entries o = .ok g → ∀ (I : List ImportRec),
    convertAll (scanParsed mt base rootName mp entries o) (absolutePrefix rootName mp)
      ((scanParsed mt base rootName mp entries o).allModules.filter fun m => isInternal m (internalPrefix rootName mp)) = .ok I →
    ∀ i ∈ I, isInternal i.importee (internalPrefix rootName mp) = false →
    retained mt o (internalPrefix rootName mp) i = false →
    (∀ m ∈ (scanParsed mt base rootName mp entries o).allModules,
      flattenNode (shiftedLimit o mp) i.importee ∉ withParents (flattenNode (shiftedLimit o mp) m)) →
    flattenNode (shiftedLimit o mp) i.importee ∉ g.nodes

namespace LimEx
/-- root `r` with `a.py` (`import scipy.sparse.linalg, scipy.sparse.csgraph`, `import r.b`) and `b.py` (`import numpy.fft`) -/
def ents : List Entry := [
  { rel := ["a.py".toList], isDir := false,
    stmts := [.imp ["scipy.sparse.linalg".toList, "scipy.sparse.csgraph".toList], .imp ["r.b".toList]] },
  { rel := ["b.py".toList], isDir := false, stmts := [.imp ["numpy.fft".toList]] } ]
def mt0 : Str → Str → Bool := fun _ _ => false
/-- externals included; `scipy.sparse.linalg*` and `numpy*` excluded by external exclusion patterns; level limit `k` -/
def oIn (k : Option Nat) : ScanOptions :=
  { exclusions := .globs [], excludeExternal := false,
    externalExclusions := .globs ["scipy.sparse.linalg*".toList, "numpy*".toList], levelLimit := k }
def run (k : Option Nat) : PGraph Str :=
  match generateGraph mt0 "/r".toList "r".toList [] ents (oIn k) with
  | .ok g => g
  | .error _ => PGraph.empty
def conv (k : Option Nat) : List ImportRec :=
  match convertAll (scanParsed mt0 "/r".toList "r".toList [] ents (oIn k)) (absolutePrefix "r".toList [])
      ((scanParsed mt0 "/r".toList "r".toList [] ents (oIn k)).allModules.filter fun m => isInternal m (internalPrefix "r".toList [])) with
  | .ok I => I
  | .error _ => []
/-- the removed import, the retained import that flattens onto the same name, and a removed import hit at the top -/
def iLinalg : ImportRec := absImport "r.a".toList "scipy.sparse.linalg".toList
def iCsgraph : ImportRec := absImport "r.a".toList "scipy.sparse.csgraph".toList
def iNumpy : ImportRec := absImport "r.b".toList "numpy.fft".toList
end LimEx
open LimEx

set_option maxRecDepth 100000 in
theorem limEx_runs (k : Option Nat) :
    generateGraph mt0 "/r".toList "r".toList [] ents (oIn k) = .ok (run k) ∧
    convertAll (scanParsed mt0 "/r".toList "r".toList [] ents (oIn k)) (absolutePrefix "r".toList [])
      ((scanParsed mt0 "/r".toList "r".toList [] ents (oIn k)).allModules.filter fun m => isInternal m (internalPrefix "r".toList []))
      = .ok (conv k) := ⟨by rfl, by rfl⟩

set_option maxRecDepth 100000 in
/-- the facts: without a limit `scipy.sparse.linalg` is not a node; with limit 1 its flattened name `scipy.sparse` is a
    node and carries an import edge, because the retained `scipy.sparse.csgraph` flattens onto it; the pattern hits
    `scipy.sparse.linalg` only, which does not survive the flattening.  `numpy.fft` is hit at `numpy`, which survives:
    `numpy` is not a node at any limit. -/
theorem limEx_facts :
    (oIn (some 1)).excludeExternal = false ∧ shiftedLimit (oIn (some 1)) [] = some 1 ∧
    iLinalg ∈ conv (some 1) ∧ isInternal iLinalg.importee "r".toList = false ∧
    retained mt0 (oIn (some 1)) "r".toList iLinalg = false ∧
    iCsgraph ∈ conv (some 1) ∧ retained mt0 (oIn (some 1)) "r".toList iCsgraph = true ∧
    flattenNode (some 1) iLinalg.importee = "scipy.sparse".toList ∧
    flattenNode (some 1) iCsgraph.importee = "scipy.sparse".toList ∧
    (∀ m ∈ (scanParsed mt0 "/r".toList "r".toList [] ents (oIn (some 1))).allModules,
      flattenNode (some 1) iLinalg.importee ∉ withParents (flattenNode (some 1) m)) ∧
    (∀ p ∈ withParents (flattenNode (some 1) iLinalg.importee), isExcluded mt0 (oIn (some 1)).externalExclusions p = false) ∧
    (run none).nodes = ["r", "r.a", "r.b", "scipy.sparse.csgraph", "scipy", "scipy.sparse"].map String.toList ∧
    (run (some 1)).nodes = ["r", "r.a", "r.b", "scipy.sparse", "scipy"].map String.toList ∧
    (run (some 1)).importPairs = [("r.a".toList, "scipy.sparse".toList), ("r.a".toList, "r.b".toList)] ∧
    iNumpy ∈ conv (some 1) ∧ retained mt0 (oIn (some 1)) "r".toList iNumpy = false ∧
    isExcluded mt0 (oIn (some 1)).externalExclusions "numpy".toList = true ∧
    "numpy".toList ∈ withParents (flattenNode (some 1) iNumpy.importee) ∧
    "numpy".toList ∉ (run (some 1)).nodes ∧ "numpy".toList ∉ (run (some 0)).nodes := by
  refine ⟨by decide, by decide, by decide, by decide, by decide, by decide, by decide, by decide, by decide, by decide,
    by decide, by decide, by decide, by decide, by decide, by decide, by decide, by decide, by decide, by decide⟩

/-- the naive statement fails on this tree -/
theorem not_retained_limit_naive_counterexample : ¬ NotRetainedLimit_Naive_Statement := by
  intro hN
  obtain ⟨f1, _, f3, f4, f5, _, _, f8, _, f10, _, _, f13, _⟩ := limEx_facts
  have := hN mt0 "/r".toList "r".toList [] ents (oIn (some 1)) (run (some 1)) f1 (limEx_runs (some 1)).1
    (conv (some 1)) (limEx_runs (some 1)).2 iLinalg f3 f4 f5 f10
  apply this
  show flattenNode (some 1) iLinalg.importee ∈ (run (some 1)).nodes
  rw [f8, f13]
  decide

/-! ### non-vacuity of the positive theorems on the same tree -/

set_option maxRecDepth 100000 in
/-- hypotheses of `externals_not_retained_limit` for `import numpy.fft` under limit 0 (the importee is cut to `numpy`,
    the pattern `numpy*` hits `numpy`, which survives) -/
example :
    (oIn (some 0)).excludeExternal = false ∧ iNumpy ∈ conv (some 0) ∧ isInternal iNumpy.importee "r".toList = false ∧
    retained mt0 (oIn (some 0)) "r".toList iNumpy = false ∧
    flattenNode (shiftedLimit (oIn (some 0)) []) iNumpy.importee = "numpy".toList ∧
    (∃ p ∈ withParents (flattenNode (shiftedLimit (oIn (some 0)) []) iNumpy.importee),
      isExcluded mt0 (oIn (some 0)).externalExclusions p = true) ∧
    (∀ m ∈ (scanParsed mt0 "/r".toList "r".toList [] ents (oIn (some 0))).allModules,
      flattenNode (shiftedLimit (oIn (some 0)) []) iNumpy.importee ∉
        withParents (flattenNode (shiftedLimit (oIn (some 0)) []) m)) := by
  refine ⟨by decide, by decide, by decide, by decide, by decide, ⟨"numpy".toList, by decide, by decide⟩, by decide⟩

set_option maxRecDepth 100000 in
/-- hypotheses of `externals_not_retained_uncut` for `import scipy.sparse.linalg` under limit 2 (three components: not cut) -/
example :
    iLinalg ∈ conv (some 2) ∧ retained mt0 (oIn (some 2)) "r".toList iLinalg = false ∧
    flattenNode (shiftedLimit (oIn (some 2)) []) iLinalg.importee = iLinalg.importee ∧
    (∀ m ∈ (scanParsed mt0 "/r".toList "r".toList [] ents (oIn (some 2))).allModules,
      iLinalg.importee ∉ withParents (flattenNode (shiftedLimit (oIn (some 2)) []) m)) ∧
    iLinalg.importee ∉ (run (some 2)).nodes := by
  refine ⟨by decide, by decide, by decide, by decide, by decide⟩

/-- the theorem applied: `numpy` is not a node of the limit-0 graph and no edge touches it -/
example : "numpy".toList ∉ (run (some 0)).nodes ∧
    ∀ x ∈ (run (some 0)).edges, x.src ≠ "numpy".toList ∧ x.dst ≠ "numpy".toList :=
  externals_not_retained_limit mt0 "/r".toList "r".toList [] ents (oIn (some 0)) (run (some 0)) (by decide)
    (limEx_runs (some 0)).1 (conv (some 0)) (limEx_runs (some 0)).2 iNumpy (by decide) (by decide) (by decide)
    ⟨"numpy".toList, by decide, by decide⟩ (by decide)

end Pta.C10
