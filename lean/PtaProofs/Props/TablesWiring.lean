/-
  PtaProofs.Props.TablesWiring — third proof obligation regenerated from the source on every run (harness/translate_wiring.py):
  the data flow of the options through the two entry points of src/pytestarch/pytestarch.py.
-/
import Generated.Wiring
import PtaModel.Wiring

namespace Pta.C04

/-- the option plumbing of the two entry points, extracted as data flow from /repo's pytestarch.py on every run
    (Generated/Wiring.lean), is the plumbing the scan model assumes (PtaModel/Wiring.lean): every option of the
    module-object entry point reaches the path entry point from the parameter of the same name, the two paths come from the
    two module objects, both entry points have the same defaults, and every argument of `generate_graph` (one per field of
    `ScanOptions`) is computed from the option(s) of that name. A dropped, swapped or re-defaulted option breaks this. -/
theorem generated_wiring_agree :
    Generated.entryParams = Pta.Wiring.entryParams ∧
    Generated.entryDefaults = Pta.Wiring.defaults ∧
    Generated.moduleObjectsDefaults = Pta.Wiring.defaults ∧
    Generated.defaultExclusions = Pta.Wiring.defaultExclusions ∧
    Generated.moduleObjectsFlow = Pta.Wiring.moduleObjectsFlow ∧
    Generated.generateGraphFlow = Pta.Wiring.generateGraphFlow := by
  decide

end Pta.C04
