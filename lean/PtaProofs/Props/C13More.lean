/-
  PtaProofs.Props.C13More — property C13, completions: absent modules behind LAYERS and DIAGRAMS, regex layers without a
  match (and which error wins), layers the rule does not mention, too-deep names against level-limited architectures,
  `module_path` outside `root_path` (and the order of the entry-point checks).

  Vocabulary (PtaProofs/Lemmas/C13More.lean, namespace `Pta.C13M`):
  * `compileLayerRule larch r` (Bridge/LayerAbs.lean) — the LayerRule object after the COMPLETE builder chain of the layer
    rule `r : LRuleSpec`: all 12 shapes (3 verbs × access / be accessed by × with / without `except`) and the two
    `any layer` forms; `layer_unknown_module_chain` transfers to the run of the chain.
  * `mentionedLayers r` — the subject layer and, unless `r` is an `any layer` rule, the object layers;
    `mentioned larch r` — the module filters these layers list in the layered architecture `larch`.
  * `withBase base m` — the name `with_base_module` gives to the diagram component `m`.
-/
import Bridge.Abs
import Bridge.LayerAbs
import PtaProofs.Lemmas.C13More
import PtaProofs.Props.C13
import PtaProofs.Props.C05
import PtaProofs.Props.C09
import PtaProofs.Props.C04
namespace Pta.C13
open Pta PtaSpec Pta.C13M

/-! ## 1. a layer that lists a module which does not exist -/

/-- **C13 for layers, absent module.** For every graph, every regex interpretation, every layered architecture and every
    complete layer rule: if a layer the rule MENTIONS (subject or object layer) lists, by name, a module identifier that is
    not a node of the graph, `assert_applies` raises the lookup error — never pass, never fail (`.cls` follows by
    `congrArg`). `hreg`: the regexes of the mentioned layers all have a match (otherwise `layer_regex_no_match`: the
    no-match error wins). `hs`, `ho`: the subject layer and the object layers together list something (a layer that was
    never defined is `Pta.C13.layer_rule_history`; an empty one is a configuration error). -/
theorem layer_unknown_module (mt : Str → Str → Bool) (g : PGraph Str) (larch : LArch) (r : LRuleSpec)
    (hany : r.anything = true → r.verb = .shouldNot)
    (hs : larch.getD r.subject ≠ []) (ho : r.anything = true ∨ r.objects.flatMap larch.getD ≠ [])
    (hreg : ∀ f ∈ mentioned larch r, f.isRegex = true → ∃ m ∈ g.nodes, mt f.id m = true)
    (L : Str) (hL : L ∈ mentionedLayers r) (f : Filter) (hf : f ∈ larch.getD L)
    (hname : f.isRegex = false) (habs : g.hasNode f.id = false) :
    assertAppliesLayer mt (compileLayerRule larch r) g = .err .lookupError :=
  layer_unknown_module_lemma mt g larch r hany hs ho hreg
    ⟨f, List.mem_flatMap.2 ⟨L, hL, hf⟩, hname, habs⟩

theorem layer_unknown_module_cls (mt : Str → Str → Bool) (g : PGraph Str) (larch : LArch) (r : LRuleSpec)
    (hany : r.anything = true → r.verb = .shouldNot)
    (hs : larch.getD r.subject ≠ []) (ho : r.anything = true ∨ r.objects.flatMap larch.getD ≠ [])
    (hreg : ∀ f ∈ mentioned larch r, f.isRegex = true → ∃ m ∈ g.nodes, mt f.id m = true)
    (L : Str) (hL : L ∈ mentionedLayers r) (f : Filter) (hf : f ∈ larch.getD L)
    (hname : f.isRegex = false) (habs : g.hasNode f.id = false) :
    (assertAppliesLayer mt (compileLayerRule larch r) g).cls = .err .lookupError := by
  rw [layer_unknown_module mt g larch r hany hs ho hreg L hL f hf hname habs]; rfl

/-- the instance for layers defined with `containing_modules` only (no regex among the mentioned layers) -/
theorem layer_unknown_module_names (mt : Str → Str → Bool) (g : PGraph Str) (larch : LArch) (r : LRuleSpec)
    (hany : r.anything = true → r.verb = .shouldNot)
    (hs : larch.getD r.subject ≠ []) (ho : r.anything = true ∨ r.objects.flatMap larch.getD ≠ [])
    (hnames : ∀ f ∈ mentioned larch r, f.isRegex = false)
    (L : Str) (hL : L ∈ mentionedLayers r) (f : Filter) (hf : f ∈ larch.getD L) (habs : g.hasNode f.id = false) :
    assertAppliesLayer mt (compileLayerRule larch r) g = .err .lookupError :=
  layer_unknown_module mt g larch r hany hs ho (fun f hf hr => by rw [hnames f hf] at hr; cases hr) L hL f hf
    (hnames f (List.mem_flatMap.2 ⟨L, hL, hf⟩)) habs

/-- … and through the fluent API: the error is raised by `assert_applies`, the call after the last builder call -/
theorem layer_unknown_module_chain (mt : Str → Str → Bool) (g : PGraph Str) (larch : LArch) (r : LRuleSpec) (isList : Bool)
    (hany : r.anything = true → r.verb = .shouldNot)
    (hS : larch.hasLayer r.subject = true) (hO : r.anything = false → r.objects.all larch.hasLayer = true)
    (hs : larch.getD r.subject ≠ []) (ho : r.anything = true ∨ r.objects.flatMap larch.getD ≠ [])
    (hreg : ∀ f ∈ mentioned larch r, f.isRegex = true → ∃ m ∈ g.nodes, mt f.id m = true)
    (L : Str) (hL : L ∈ mentionedLayers r) (f : Filter) (hf : f ∈ larch.getD L)
    (hname : f.isRegex = false) (habs : g.hasNode f.id = false) :
    runLayerRuleOps mt (layerRuleOps larch r isList) g = (.err .lookupError, (layerRuleOps larch r isList).length) := by
  rw [Pta.C05.chain_state mt g larch r isList hS hs hO,
    layer_unknown_module mt g larch r hany hs ho hreg L hL f hf hname habs]

/-- the same for a module rule with regexes next to the absent name (`unknown_name` without its "no regex" hypothesis) -/
theorem unknown_name_with_regex (mt : Str → Str → Bool) (g : PGraph Str) (b : Behavior) (dir : Bool) (subs objs : List Filter)
    (hverb : b.should = true ∨ b.shouldOnly = true ∨ b.shouldNot = true)
    (hs : subs ≠ []) (ho : objs ≠ [])
    (hreg : ∀ f ∈ subs ++ objs, f.isRegex = true → ∃ m ∈ g.nodes, mt f.id m = true)
    (hmissing : ∃ f ∈ subs ++ objs, f.isRegex = false ∧ g.hasNode f.id = false) :
    matchRule mt g b dir subs objs = .err .lookupError :=
  matchRule_lookup mt g b dir subs objs hverb hs ho hreg hmissing

/-! ### layers the rule does NOT mention: irrelevant for these errors

  `LayerRuleMatcher._update_layer_mapping` (after the repairs F-C05a / F-C15a) walks over ALL layers, but it only copies
  the listed identifiers (and raises `LayerMismatch` when one identifier is listed by two layers); it looks nothing up in
  the graph. The graph is queried for the rule's own subjects and objects only. So a module that does not exist, listed by
  a layer the rule does not mention, is NOT an error: -/

/-- the stage-by-stage description of the errors of the layer matcher: a regex without a match (conversion of the
    subjects, then of the objects), else an absent module (graph queries), else `LayerMismatch`; only the last stage
    looks at the layered architecture -/
theorem layer_matcher_error_stages (mt : Str → Str → Bool) (g : PGraph Str) (a : LArch) (b : Behavior) (d : Bool)
    (ss os : List Filter) (k : ErrKind) (hk : k ≠ .layerMismatch) :
    matchLayerRule mt g a b d ss os = .err k ↔
      convertFilters mt g.nodes ss = .error k ∨
      (∃ subs, convertFilters mt g.nodes ss = .ok subs ∧ convertFilters mt g.nodes os = .error k) ∨
      (∃ subs objs, convertFilters mt g.nodes ss = .ok subs ∧ convertFilters mt g.nodes os = .ok objs ∧
        runQueries g b d subs objs = .error k) :=
  matchLayerRule_err_iff mt g a b d ss os k hk

/-- **layers the rule does not mention are irrelevant** for the lookup error and for the no-match error: two layered
    architectures that define the layers the rule mentions in the same way raise them together — whatever else they
    define, existing or not. (For the verdict itself see `Pta.C05.unmentioned_layers_irrelevant'`; an unmentioned layer can
    still cause `LayerMismatch`, `Pta.C05.unmentioned_related_layer_mismatch`.) -/
theorem layer_unmentioned_irrelevant (mt : Str → Str → Bool) (g : PGraph Str) (larch larch' : LArch) (r : LRuleSpec)
    (hany : r.anything = true → r.verb = .shouldNot)
    (hs : larch.getD r.subject ≠ []) (ho : r.anything = true ∨ r.objects.flatMap larch.getD ≠ [])
    (hagree : ∀ L ∈ mentionedLayers r, larch'.getD L = larch.getD L) :
    (assertAppliesLayer mt (compileLayerRule larch r) g = .err .lookupError ↔
      assertAppliesLayer mt (compileLayerRule larch' r) g = .err .lookupError) ∧
    (assertAppliesLayer mt (compileLayerRule larch r) g = .err .impossibleMatch ↔
      assertAppliesLayer mt (compileLayerRule larch' r) g = .err .impossibleMatch) :=
  ⟨layer_err_unmentioned_lemma mt g larch larch' r hany hs ho hagree _ (.inl rfl),
   layer_err_unmentioned_lemma mt g larch larch' r hany hs ho hagree _ (.inr rfl)⟩

/-- in particular: when all modules listed (by name) by the MENTIONED layers exist and their regexes match, no lookup
    error is raised, whatever the other layers list -/
theorem layer_unmentioned_absent_no_lookup_error (mt : Str → Str → Bool) (g : PGraph Str) (larch : LArch) (r : LRuleSpec)
    (hex : ∀ f ∈ mentioned larch r, f.isRegex = false → g.hasNode f.id = true) :
    assertAppliesLayer mt (compileLayerRule larch r) g ≠ .err .lookupError :=
  layer_no_lookup_error_lemma mt g larch r hex

/-! non-vacuity: graph `p, p.a, q`; layer `L` lists `p.a` and the absent `zz`; layer `U` lists the absent `yy` -/
namespace LEx
def g0 : PGraph Str := buildGraph ["p".toList, "p.a".toList, "q".toList] [] none
def mtF : Str → Str → Bool := fun _ _ => false
/-- `L` lists an absent module; `U` (never mentioned below) lists an absent module too -/
def la1 : LArch := [("L".toList, [.name "p.a".toList, .name "zz".toList]), ("M".toList, [.name "q".toList]),
  ("U".toList, [.name "yy".toList])]
/-- only the unmentioned layer `U` lists an absent module -/
def la2 : LArch := [("L".toList, [.name "p.a".toList]), ("M".toList, [.name "q".toList]), ("U".toList, [.name "yy".toList])]
/-- `la2` without `U` -/
def la2' : LArch := [("L".toList, [.name "p.a".toList]), ("M".toList, [.name "q".toList])]
/-- `L` is a regex layer, `M` lists an absent module -/
def la3 : LArch := [("L".toList, [.regex "x.*".toList]), ("M".toList, [.name "q".toList, .name "zz".toList])]
def r1 : LRuleSpec := { verb := .should, importDir := true, exc := false, subject := "L".toList, objects := ["M".toList] }
def r2 : LRuleSpec := { verb := .shouldNot, importDir := false, exc := true, subject := "M".toList, objects := ["L".toList] }
def r3 : LRuleSpec := { verb := .shouldNot, importDir := true, exc := false, subject := "L".toList, objects := [], anything := true }
end LEx
open LEx in
/-- hypotheses of `layer_unknown_module`: absent module in the subject layer (`r1`, `r3`) and in an object layer (`r2`) -/
example : (r1.anything = true → r1.verb = .shouldNot) ∧ la1.getD r1.subject ≠ [] ∧ r1.objects.flatMap la1.getD ≠ [] ∧
    (∀ f ∈ mentioned la1 r1, f.isRegex = false) ∧ "L".toList ∈ mentionedLayers r1 ∧ "L".toList ∈ mentionedLayers r2 ∧
    "L".toList ∈ mentionedLayers r3 ∧ Filter.name "zz".toList ∈ la1.getD "L".toList ∧
    g0.hasNode (Filter.name "zz".toList).id = false := by decide
open LEx in
example : (assertAppliesLayer mtF (compileLayerRule la1 r1) g0).cls = .err .lookupError ∧
    (assertAppliesLayer mtF (compileLayerRule la1 r2) g0).cls = .err .lookupError ∧
    (assertAppliesLayer mtF (compileLayerRule la1 r3) g0).cls = .err .lookupError := by decide
open LEx in
/-- through the call chain: raised by `assert_applies` (call index 6 resp. 5) -/
example : runLayerRuleOps mtF (layerRuleOps la1 r1 true) g0 = (.err .lookupError, 6) ∧
    runLayerRuleOps mtF (layerRuleOps la1 r3 true) g0 = (.err .lookupError, 5) := by decide
open LEx in
/-- the unmentioned layer `U` lists the absent `yy`: no error, and the same verdicts as without `U` -/
example : (assertAppliesLayer mtF (compileLayerRule la2 r1) g0).cls = .fail ∧
    (assertAppliesLayer mtF (compileLayerRule la2' r1) g0).cls = .fail ∧
    (assertAppliesLayer mtF (compileLayerRule la2 r2) g0).cls = .pass ∧
    (assertAppliesLayer mtF (compileLayerRule la2' r2) g0).cls = .pass ∧
    (assertAppliesLayer mtF (compileLayerRule la2 r3) g0).cls = .pass ∧
    (assertAppliesLayer mtF (compileLayerRule la2' r3) g0).cls = .pass := by decide
open LEx in
/-- hypotheses of `layer_unmentioned_irrelevant` / `layer_unmentioned_absent_no_lookup_error` -/
example : (∀ L ∈ mentionedLayers r1, la2.getD L = la2'.getD L) ∧
    (∀ f ∈ mentioned la2 r1, f.isRegex = false → g0.hasNode f.id = true) := by decide

open LEx in
/-- hypotheses of `layer_unknown_module_chain` -/
example : la1.hasLayer r1.subject = true ∧ (r1.anything = false → r1.objects.all la1.hasLayer = true) ∧
    la1.hasLayer r3.subject = true := by decide

/-! ## 2. a regex layer that matches nothing — and which error wins -/

/-- **C13 for layers, regex without a match** (the 12 shapes): some layer the rule mentions contains a regex filter that
    matches no node — `ImpossibleMatch`, never a verdict. There is NO hypothesis about the names: the no-match error wins
    over the lookup error of an absent module listed by the same or another mentioned layer (the regexes of subjects and
    objects are converted before any graph query), as `no_match_wins_over_unknown_name` says for module rules. -/
theorem layer_regex_no_match (mt : Str → Str → Bool) (g : PGraph Str) (larch : LArch) (r : LRuleSpec)
    (hna : r.anything = false)
    (hs : larch.getD r.subject ≠ []) (ho : r.objects.flatMap larch.getD ≠ [])
    (L : Str) (hL : L ∈ mentionedLayers r) (f : Filter) (hf : f ∈ larch.getD L)
    (hre : f.isRegex = true) (hno : ∀ m ∈ g.nodes, mt f.id m = false) :
    assertAppliesLayer mt (compileLayerRule larch r) g = .err .impossibleMatch := by
  refine layer_regex_no_match_lemma mt g larch r (fun h => by rw [hna] at h; cases h) hs (.inr ho)
    (fun h => by rw [hna] at h; cases h) ⟨f, ?_, hre, hno⟩
  have hm : f ∈ mentioned larch r := List.mem_flatMap.2 ⟨L, hL, hf⟩
  rw [mentioned_eq] at hm
  simpa [subjF, objF, hna] using hm

/-- the two `any layer` forms, subject layer defined by `have_modules_with_names_matching(p)` (the only way the builder
    puts a regex into a layer): `ImpossibleMatch` -/
theorem layer_regex_no_match_any (mt : Str → Str → Bool) (g : PGraph Str) (larch : LArch) (r : LRuleSpec)
    (ha : r.anything = true) (hv : r.verb = .shouldNot) (p : Str) (hlayer : larch.getD r.subject = [.regex p])
    (hno : ∀ m ∈ g.nodes, mt p m = false) :
    assertAppliesLayer mt (compileLayerRule larch r) g = .err .impossibleMatch := by
  have hdd : dedupSubjects (larch.getD r.subject) = [.regex p] := by rw [hlayer]; exact dedupSubjects_singleton _
  refine layer_regex_no_match_lemma mt g larch r (fun _ => hv) (by rw [hlayer]; simp) (.inl ha) (fun _ => ?_)
    ⟨.regex p, ?_, rfl, hno⟩
  · rw [hlayer, droppedAbsentIn_false_iff]
    intro f hf _ hr
    simp only [List.mem_singleton] at hf
    subst hf; cases hr
  · simp [subjF, ha, hdd]

/-- the `any layer` forms on ARBITRARY layers (a layer mixing names and regexes cannot be defined through the builder):
    `_convert_aliases` runs first, so (1) an absent module that the alias conversion DROPS is reported first — lookup error
    (`hda` excludes it; see the examples) —, and (2) the regex must survive the alias conversion (`hf`) -/
theorem layer_regex_no_match_any_converted (mt : Str → Str → Bool) (g : PGraph Str) (larch : LArch) (r : LRuleSpec)
    (ha : r.anything = true) (hv : r.verb = .shouldNot)
    (hda : droppedAbsentIn g (larch.getD r.subject) = false)
    (f : Filter) (hf : f ∈ dedupSubjects (larch.getD r.subject))
    (hre : f.isRegex = true) (hno : ∀ m ∈ g.nodes, mt f.id m = false) :
    assertAppliesLayer mt (compileLayerRule larch r) g = .err .impossibleMatch := by
  have hne : larch.getD r.subject ≠ [] := by
    intro h; rw [h] at hf; cases hf
  refine layer_regex_no_match_lemma mt g larch r (fun _ => hv) hne (.inl ha) (fun _ => hda) ⟨f, ?_, hre, hno⟩
  simp [subjF, ha, hf]

/-- … and the other way round: an absent module dropped by the alias conversion wins over everything the matcher could
    say, a regex without a match included -/
theorem layer_any_dropped_absent_wins (mt : Str → Str → Bool) (g : PGraph Str) (larch : LArch) (r : LRuleSpec)
    (ha : r.anything = true) (hv : r.verb = .shouldNot)
    (hda : droppedAbsentIn g (larch.getD r.subject) = true) :
    assertAppliesLayer mt (compileLayerRule larch r) g = .err .lookupError :=
  assertAppliesLayer_dropped mt g larch r ha hv hda

open LEx in
/-- non-vacuity / which error wins: `L` is a regex layer without a match AND `M` lists the absent `zz` — all hypotheses of
    `layer_unknown_module` except `hreg` hold, the result is `ImpossibleMatch` in both positions; with a matching regex the
    same rules raise the lookup error -/
example : r1.anything = false ∧ la3.getD r1.subject ≠ [] ∧ r1.objects.flatMap la3.getD ≠ [] ∧
    "L".toList ∈ mentionedLayers r1 ∧ "L".toList ∈ mentionedLayers r2 ∧ Filter.regex "x.*".toList ∈ la3.getD "L".toList ∧
    (∀ m ∈ g0.nodes, mtF (Filter.regex "x.*".toList).id m = false) ∧
    Filter.name "zz".toList ∈ la3.getD "M".toList ∧ g0.hasNode "zz".toList = false := by decide
open LEx in
example : (assertAppliesLayer mtF (compileLayerRule la3 r1) g0).cls = .err .impossibleMatch ∧
    (assertAppliesLayer mtF (compileLayerRule la3 r2) g0).cls = .err .impossibleMatch ∧
    (assertAppliesLayer mtF (compileLayerRule la3 r3) g0).cls = .err .impossibleMatch ∧
    (assertAppliesLayer (fun _ _ => true) (compileLayerRule la3 r1) g0).cls = .err .lookupError ∧
    (assertAppliesLayer (fun _ _ => true) (compileLayerRule la3 r2) g0).cls = .err .lookupError := by decide
open LEx in
/-- `any layer` on a mixed layer (not definable through the builder): the absent `p.a.zz` is dropped by the alias
    conversion — lookup error although the regex has no match; the absent `zz` is kept — `ImpossibleMatch` -/
example :
    (assertAppliesLayer mtF (compileLayerRule
      [("L".toList, [.name "p.a".toList, .name "p.a.zz".toList, .regex "x.*".toList])] r3) g0).cls = .err .lookupError ∧
    droppedAbsentIn g0 [.name "p.a".toList, .name "p.a.zz".toList, .regex "x.*".toList] = true ∧
    (assertAppliesLayer mtF (compileLayerRule
      [("L".toList, [.name "p.a".toList, .name "zz".toList, .regex "x.*".toList])] r3) g0).cls = .err .impossibleMatch ∧
    droppedAbsentIn g0 [.name "p.a".toList, .name "zz".toList, .regex "x.*".toList] = false := by decide

open LEx in
/-- hypotheses of `layer_regex_no_match_any` (`la3`, rule `r3`: the subject layer is the regex layer `L`) and of
    `layer_regex_no_match_any_converted` / `layer_any_dropped_absent_wins` (the mixed layers above) -/
example : r3.anything = true ∧ r3.verb = .shouldNot ∧ la3.getD r3.subject = [.regex "x.*".toList] ∧
    (∀ m ∈ g0.nodes, mtF "x.*".toList m = false) ∧
    Filter.regex "x.*".toList ∈ dedupSubjects [.name "p.a".toList, .name "zz".toList, .regex "x.*".toList] := by decide

/-- observation (module rules, outside the builder's typed API): the alias conversion compares the identifiers of REGEX
    filters as if they were module names too, so the pattern `p.zz` is dropped in favour of the pattern `p`; it is never
    converted, and that it matches nothing goes unnoticed — the rule returns a verdict. `_assert_modules_removed_by_alias_
    conversion_exist` skips regex filters. Reachable in Python only by passing a LIST to `have_name_matching` (annotated
    `str`; `_set_modules` accepts a sequence at run time): `convert_partial_match_to_regex` never produces two patterns
    one of which extends the other by `.`, so the deprecated `have_name_containing([...])` cannot get there. -/
example :
    (assertApplies (fun r m => r == m)
      { cfg := { subjects := some [.regex "p".toList, .regex "p.zz".toList], shouldNot := true, importDir := some true,
                 anything := true }, next := some false }
      (buildGraph ["p".toList, "q".toList] [] none)).2 = .pass ∧
    (∀ m ∈ (buildGraph ["p".toList, "q".toList] [] none).nodes, (fun r m => r == m) "p.zz".toList m = false) := by decide

/-! ## 3. a diagram component that is not a module -/

/-- **C13 for diagrams, absent component.** For every parse result `p` in which no dependor has an empty list of
    dependees (true of every parser output, `diagram_file_unknown_component`), every base module, both modes, every graph:
    if a component `m` that is drawn together with another component, or that occurs in an arrow, is — after prefixing —
    not a node of the graph, the generated rule batch raises the lookup error: never a verdict. -/
theorem diagram_unknown_component (mt : Str → Str → Bool) (g : PGraph Str) (so : Bool) (p : Parsed') (base : Option Str)
    (hne : ∀ kv ∈ p.dependencies, kv.2 ≠ []) (m : Str)
    (hm : (m ∈ p.modules ∧ ∃ x ∈ p.modules, x ≠ m) ∨ ∃ kv ∈ p.dependencies, m = kv.1 ∨ m ∈ kv.2)
    (habs : g.hasNode (withBase base m) = false) :
    applyAll mt g (diagramRules so (prefixParsed p base)) = .err .lookupError :=
  diagram_unknown_component_base_lemma mt g so p base hne m hm habs

/-- **the exact statement.** `Checked p m`: `m` is drawn together with another component, or is an end of an arrow. The
    batch raises the lookup error EXACTLY when some checked component (base module prefixed) is not a node of the graph,
    and it never raises anything else. -/
theorem diagram_lookup_error_iff (mt : Str → Str → Bool) (g : PGraph Str) (so : Bool) (p : Parsed') (base : Option Str)
    (hne : ∀ kv ∈ p.dependencies, kv.2 ≠ []) :
    (applyAll mt g (diagramRules so (prefixParsed p base)) = .err .lookupError ↔
      ∃ m, Checked p m ∧ g.hasNode (withBase base m) = false) ∧
    (∀ k, applyAll mt g (diagramRules so (prefixParsed p base)) = .err k → k = .lookupError) :=
  diagram_lookup_iff_base_lemma mt g so p base hne

theorem checked_iff (p : Parsed') (m : Str) :
    Checked p m ↔ (m ∈ p.modules ∧ ∃ x ∈ p.modules, x ≠ m) ∨ ∃ kv ∈ p.dependencies, m = kv.1 ∨ m ∈ kv.2 := Iff.rfl

/-- the boundary of the RULE BATCH: ONE isolated component generates no rule at all, the batch looks nothing up and
    passes on every graph — whether the component exists or not. Before the repair of F-C13c this was the outcome of
    `DiagramRule.assert_applies` (`diagram_single_component_before_repair`); the repaired `assert_applies` checks the
    components before the batch is applied (`diagram_single_component_repaired`, `diagram_file_lookup_error_iff`). -/
theorem diagram_single_component (mt : Str → Str → Bool) (g : PGraph Str) (so : Bool) (m : Str) (base : Option Str) :
    diagramRules so (prefixParsed ⟨[m], []⟩ base) = [] ∧
    applyAll mt g (diagramRules so (prefixParsed ⟨[m], []⟩ base)) = .pass :=
  diagram_single_component_lemma mt g so m base

/-- what `PumlParser.parse` guarantees of its result -/
theorem parse_result_shape (c : Str) (p : Parsed') (h : pumlParse c = .ok p) :
    (∀ kv ∈ p.dependencies, kv.2 ≠ []) ∧ p.modules.Nodup ∧
    ∀ kv ∈ p.dependencies, kv.1 ∈ p.modules ∧ ∀ v ∈ kv.2, v ∈ p.modules := by
  obtain ⟨h1, h2, h3⟩ := pumlParse_ok_props c p h
  exact ⟨fun kv hkv => (h1.2 kv hkv).2, h2, h3⟩

/-- **on a diagram file** (after the repair of F-C13c): the file parses and one of the components it draws (base module
    prefixed) is not a node of the graph — `DiagramRule.assert_applies` raises the lookup error, however many components
    the file draws and whether or not a generated rule names that component -/
theorem diagram_file_unknown_component (mt : Str → Str → Bool) (g : PGraph Str) (so : Bool) (c : Str) (base : Option Str)
    (p : Parsed') (hp : pumlParse c = .ok p) (m : Str) (hm : m ∈ p.modules)
    (habs : g.hasNode (withBase base m) = false) :
    diagramAssert mt (some c) base so g = .err .lookupError :=
  diagram_file_unknown_component_lemma mt g so c base p hp m hm habs

/-- the exact statement on a file that parses (after the repair of F-C13c): lookup error iff SOME component (base module
    prefixed) is not a node of the graph; no other error -/
theorem diagram_file_lookup_error_iff (mt : Str → Str → Bool) (g : PGraph Str) (so : Bool) (c : Str) (base : Option Str)
    (p : Parsed') (hp : pumlParse c = .ok p) :
    (diagramAssert mt (some c) base so g = .err .lookupError ↔ ∃ m ∈ p.modules, g.hasNode (withBase base m) = false) ∧
    (∀ k, diagramAssert mt (some c) base so g = .err k → k = .lookupError) :=
  diagram_file_lookup_iff_lemma mt g so c base p hp

/-- before the repair: lookup error iff a component the generated rules NAME (`Checked`) is absent -/
theorem diagram_file_lookup_error_iff_before_repair (mt : Str → Str → Bool) (g : PGraph Str) (so : Bool) (c : Str)
    (base : Option Str) (p : Parsed') (hp : pumlParse c = .ok p) :
    (diagramAssertBeforeRepair mt (some c) base so g = .err .lookupError ↔
      ∃ m, Checked p m ∧ g.hasNode (withBase base m) = false) ∧
    (∀ k, diagramAssertBeforeRepair mt (some c) base so g = .err k → k = .lookupError) :=
  diagram_file_lookup_iff_before_repair_lemma mt g so c base p hp

/-- … and for every builder history that supplies this file last and this base module last -/
theorem diagram_history_unknown_component (only : Bool) (ops : List DiagramRuleOp) (mt : Str → Str → Bool) (g : PGraph Str)
    (c : Str) (base : Option Str) (h : classifyDiagram (ops.map toDCall) = .complete c base)
    (p : Parsed') (hp : pumlParse c = .ok p) (m : Str) (hm : m ∈ p.modules)
    (habs : g.hasNode (withBase base m) = false) :
    runDiagramOps only ops mt g = .err .lookupError := by
  rw [diagram_history_complete only ops mt g c base h]
  exact diagram_file_unknown_component mt g only c base p hp m hm habs

/-! non-vacuity: the diagram `ui → core → db` of C07 against a graph without `db`; one isolated absent component -/
section diagramExamples
open Pta.C07
def gNoDb : PGraph Str := buildGraph ["ui".toList, "core".toList] [absImport "ui".toList "core".toList] none
def exOneContent : Str := "@startuml\n[zz]\n@enduml".toList

example : (∀ kv ∈ (parsedOf exShort).dependencies, kv.2 ≠ []) ∧ "db".toList ∈ (parsedOf exShort).modules ∧
    (∃ x ∈ (parsedOf exShort).modules, x ≠ "db".toList) ∧ gNoDb.hasNode (withBase none "db".toList) = false := by
  decide
example : (applyAll mt0 gNoDb (diagramRules true (prefixParsed (parsedOf exShort) none))).cls = .err .lookupError ∧
    (applyAll mt0 gNoDb (diagramRules false (prefixParsed (parsedOf exShort) none))).cls = .err .lookupError := by
  decide
/-- with a base module the PREFIXED names are looked up: `app.ui`, … are absent from `gNoDb` -/
example : gNoDb.hasNode (withBase (some "app".toList) "ui".toList) = false ∧
    (applyAll mt0 gNoDb (diagramRules true (prefixParsed (parsedOf exShort) (some "app".toList)))).cls = .err .lookupError := by
  decide
/-- hypotheses of `diagram_file_unknown_component` on the file -/
example : pumlParse exShortContent = .ok (parsedOf exShort) := Pta.Dg.parse_eq_of_check _ _ (by decide +kernel)
example : "db".toList ∈ (parsedOf exShort).modules ∧ gNoDb.hasNode (withBase none "db".toList) = false := by decide
example : (diagramAssert mt0 (some exShortContent) none true gNoDb).cls = .err .lookupError := by decide +kernel
/-- the boundary on a file (finding F-C13c): one isolated component that does not exist. BEFORE the repair no rule is
    generated, nothing is looked up, the check passes … -/
example : pumlParse exOneContent = .ok ⟨["zz".toList], []⟩ := Pta.Dg.parse_eq_of_check _ _ (by decide +kernel)
theorem diagram_single_component_before_repair :
    gNoDb.hasNode "zz".toList = false ∧ (diagramAssertBeforeRepair mt0 (some exOneContent) none true gNoDb).cls = .pass ∧
    (diagramAssertBeforeRepair mt0 (some exOneContent) (some "app".toList) false gNoDb).cls = .pass := by decide +kernel
/-- … AFTER the repair the component is checked: lookup error, with and without a base module, in both modes -/
theorem diagram_single_component_repaired :
    gNoDb.hasNode "zz".toList = false ∧
    (diagramAssert mt0 (some exOneContent) none true gNoDb).cls = .err .lookupError ∧
    (diagramAssert mt0 (some exOneContent) (some "app".toList) false gNoDb).cls = .err .lookupError := by decide +kernel
/-- an existing isolated component still passes after the repair -/
example : gNoDb.hasNode "ui".toList = true ∧
    (diagramAssert mt0 (some "@startuml\n[ui]\n@enduml".toList) none true gNoDb).cls = .pass := by decide +kernel
/-- hypotheses of `diagram_history_unknown_component` -/
example : classifyDiagram ([DiagramRuleOp.fromFile "junk".toList, .fromFile exShortContent].map toDCall)
    = .complete exShortContent none := by decide +kernel
example : (runDiagramOps true [.fromFile "junk".toList, .fromFile exShortContent] mt0 gNoDb).cls = .err .lookupError := by
  decide +kernel
/-- the rule batch alone: ONE component with an arrow to itself is looked up (`Checked`, right disjunct) -/
example : (applyAll mt0 gNoDb (diagramRules true ⟨["zz".toList], [("zz".toList, ["zz".toList])]⟩)).cls = .err .lookupError := by
  decide
/-- why `hne` is a hypothesis of `diagram_unknown_component` (it is not one of the file-level theorem): an arbitrary
    `Parsed'` value with a dependor without dependees makes the first generated rule incomplete — configuration error -/
example : (applyAll mt0 gNoDb (diagramRules true ⟨["ui".toList, "zz".toList], [("ui".toList, [])]⟩)).cls =
    .err .improperlyConfigured := by decide
end diagramExamples

/-! ## 4. too-deep module names against level-limited architectures -/

/-- on the graph built with `level_limit = k` no well-formed name with more than `k+1` components is a node (the nodes are
    the truncated names, `Pta.C09.quotient`) — in particular no module of `a` below the limit -/
theorem too_deep_not_node (a : Arch) (hwf : a.wf = true) (k : Nat) (n : Name) (hn : nameWF n = true)
    (hdeep : k + 1 < n.length) : (archGraphLim a (some k)).hasNode (render n) = false :=
  Pta.C13M.too_deep_not_node a hwf k n hn hdeep

/-- **too-deep module name.** A complete module rule without regexes that names (`are_named` or `are_sub_modules_of`) a
    module `n` of the architecture lying deeper than the level limit raises the lookup error on the level-limited graph -/
theorem too_deep_name (mt : Str → Str → Bool) (a : Arch) (hwf : a.wf = true) (k : Nat) (b : Behavior) (dir : Bool)
    (subs objs : List Filter)
    (hverb : b.should = true ∨ b.shouldOnly = true ∨ b.shouldNot = true)
    (hs : subs ≠ []) (ho : objs ≠ [])
    (hnoregex : ∀ f ∈ subs ++ objs, f.isRegex = false)
    (n : Name) (hn : n ∈ a.nodes) (hdeep : k + 1 < n.length)
    (f : Filter) (hf : f ∈ subs ++ objs) (hfn : f.id = render n) :
    matchRule mt (archGraphLim a (some k)) b dir subs objs = .err .lookupError :=
  unknown_name mt _ b dir subs objs hverb hs ho hnoregex
    ⟨f, hf, by rw [hfn]; exact too_deep_not_node a hwf k n (Pta.BuildNames.wf_nodes a hwf n hn) hdeep⟩

/-- the same with regexes elsewhere in the rule (all of them matching) -/
theorem too_deep_name_with_regex (mt : Str → Str → Bool) (a : Arch) (hwf : a.wf = true) (k : Nat) (b : Behavior) (dir : Bool)
    (subs objs : List Filter)
    (hverb : b.should = true ∨ b.shouldOnly = true ∨ b.shouldNot = true)
    (hs : subs ≠ []) (ho : objs ≠ [])
    (hreg : ∀ f ∈ subs ++ objs, f.isRegex = true → ∃ m ∈ (archGraphLim a (some k)).nodes, mt f.id m = true)
    (n : Name) (hn : n ∈ a.nodes) (hdeep : k + 1 < n.length)
    (f : Filter) (hf : f ∈ subs ++ objs) (hfr : f.isRegex = false) (hfn : f.id = render n) :
    matchRule mt (archGraphLim a (some k)) b dir subs objs = .err .lookupError :=
  unknown_name_with_regex mt _ b dir subs objs hverb hs ho hreg
    ⟨f, hf, hfr, by rw [hfn]; exact too_deep_not_node a hwf k n (Pta.BuildNames.wf_nodes a hwf n hn) hdeep⟩

/-- … and behind a layer: a mentioned layer listing a module below the limit -/
theorem too_deep_layer (mt : Str → Str → Bool) (a : Arch) (hwf : a.wf = true) (k : Nat) (larch : LArch) (r : LRuleSpec)
    (hany : r.anything = true → r.verb = .shouldNot)
    (hs : larch.getD r.subject ≠ []) (ho : r.anything = true ∨ r.objects.flatMap larch.getD ≠ [])
    (hreg : ∀ f ∈ mentioned larch r, f.isRegex = true → ∃ m ∈ (archGraphLim a (some k)).nodes, mt f.id m = true)
    (L : Str) (hL : L ∈ mentionedLayers r) (f : Filter) (hf : f ∈ larch.getD L) (hname : f.isRegex = false)
    (n : Name) (hn : n ∈ a.nodes) (hdeep : k + 1 < n.length) (hfn : f.id = render n) :
    assertAppliesLayer mt (compileLayerRule larch r) (archGraphLim a (some k)) = .err .lookupError :=
  layer_unknown_module mt _ larch r hany hs ho hreg L hL f hf hname
    (by rw [hfn]; exact too_deep_not_node a hwf k n (Pta.BuildNames.wf_nodes a hwf n hn) hdeep)

/-! non-vacuity: `Pta.C09.exA` (`p, p.a, p.a.x, p.b, q`; `p.a.x → q`, `p.a.x → p.a`) at limit 1: `p.a.x` is too deep -/
example : Pta.C09.exA.wf = true ∧ Pta.C09.nm "p.a.x" ∈ Pta.C09.exA.nodes ∧ 1 + 1 < (Pta.C09.nm "p.a.x").length ∧
    (Filter.name "p.a.x".toList).id = render (Pta.C09.nm "p.a.x") := by decide
example : (archGraphLim Pta.C09.exA (some 1)).hasNode "p.a.x".toList = false ∧
    (archGraph Pta.C09.exA).hasNode "p.a.x".toList = true := by decide
/-- `p.a.x should import q`: lookup error at limit 1, pass on the full graph; at limit 2 the name is not too deep -/
example : matchRule (fun _ _ => false) (archGraphLim Pta.C09.exA (some 1)) ⟨true, false, false, false⟩ true
      [.name "p.a.x".toList] [.name "q".toList] = .err .lookupError ∧
    matchRule (fun _ _ => false) (archGraph Pta.C09.exA) ⟨true, false, false, false⟩ true
      [.name "p.a.x".toList] [.name "q".toList] = .pass ∧
    matchRule (fun _ _ => false) (archGraphLim Pta.C09.exA (some 2)) ⟨true, false, false, false⟩ true
      [.name "p.a.x".toList] [.name "q".toList] = .pass := by decide
/-- through the fluent chain, in object position and as a parent (`are_sub_modules_of`) -/
example : runRuleOps noGlob (fun _ _ => false)
      [.modulesThat, .areNamed ["q".toList], .shouldNot, .importThat, .areSubModulesOf ["p.a.x".toList]]
      (archGraphLim Pta.C09.exA (some 1)) = (.err .lookupError, 5) := by decide

/-- hypotheses of `too_deep_layer`: layer `L` lists `p.a.x`, layer `M` lists `q`; "L should access M" at limit 1 -/
example :
    let larch : LArch := [("L".toList, [.name "p.a.x".toList]), ("M".toList, [.name "q".toList])]
    let r : LRuleSpec := { verb := .should, importDir := true, exc := false, subject := "L".toList, objects := ["M".toList] }
    larch.getD r.subject ≠ [] ∧ r.objects.flatMap larch.getD ≠ [] ∧ (∀ f ∈ mentioned larch r, f.isRegex = false) ∧
    "L".toList ∈ mentionedLayers r ∧ Filter.name "p.a.x".toList ∈ larch.getD "L".toList ∧
    (assertAppliesLayer (fun _ _ => false) (compileLayerRule larch r) (archGraphLim Pta.C09.exA (some 1))).cls
      = .err .lookupError ∧
    (assertAppliesLayer (fun _ _ => false) (compileLayerRule larch r) (archGraph Pta.C09.exA)).cls = .pass := by decide

/-! ## 5. `module_path` outside `root_path`, and the order of the checks -/

/-- `module_path.relative_to(root_path)` raises (`ValueError`, kind `lookupError`) exactly when the roots differ or the
    components of `root_path` are not a prefix of those of `module_path` -/
theorem relative_to_error_iff (m r : PPath) :
    m.relativeTo r = .error .lookupError ↔ (m.root == r.root && r.parts.isPrefixOf m.parts) = false :=
  relativeTo_error_iff m r

/-- **`module_path` outside `root_path`**: the option checks pass and the module path is not below the root path — the
    path entry point raises the lookup error, for every file system and every option set that passes the checks -/
theorem module_path_outside_root (mt : Str → Str → Bool) (fs : Str → List Entry) (rootPath modulePath : Str) (a : EntryArgs)
    (hopt : entryOptionsError (a.flags true) = none)
    (hout : (parsePath modulePath).relativeTo (parsePath rootPath) = .error .lookupError) :
    getEvaluableArchitecture mt fs rootPath modulePath a = .error (.kind .lookupError) :=
  module_path_outside_root_lemma mt fs rootPath modulePath a hopt hout

/-- **order of the checks**: a contradictory option set is a configuration error whatever the two paths are — in
    particular it wins over the path error -/
theorem options_before_paths (mt : Str → Str → Bool) (fs : Str → List Entry) (rootPath modulePath : Str) (a : EntryArgs)
    (k : ErrKind) (hopt : entryOptionsError (a.flags true) = some k) :
    k = .improperlyConfigured ∧
    getEvaluableArchitecture mt fs rootPath modulePath a = .error (.kind .improperlyConfigured) :=
  options_before_paths_lemma mt fs rootPath modulePath a k hopt

/-- the same through the module-object entry point: the two paths are the `dirname`s of the two `__file__`s -/
theorem module_objects_outside_root (mt : Str → Str → Bool) (fs : Str → List Entry) (rootModule module : ModuleObj)
    (a : EntryArgs) (hopt : entryOptionsError (a.flags true) = none)
    (hout : (parsePath (dirname module.file)).relativeTo (parsePath (dirname rootModule.file)) = .error .lookupError) :
    scanForModuleObjects mt fs rootModule module a = .error (.kind .lookupError) :=
  module_path_outside_root_lemma mt fs _ _ a hopt hout

theorem module_objects_options_before_paths (mt : Str → Str → Bool) (fs : Str → List Entry) (rootModule module : ModuleObj)
    (a : EntryArgs) (k : ErrKind) (hopt : entryOptionsError (a.flags true) = some k) :
    scanForModuleObjects mt fs rootModule module a = .error (.kind .improperlyConfigured) :=
  (options_before_paths_lemma mt fs _ _ a k hopt).2

/-- for module objects `rdir/rfile`, `mdir/mfile` in terms of the two directories -/
theorem module_objects_outside_root_dirs (mt : Str → Str → Bool) (fs : Str → List Entry) (rdir mdir rfile mfile : Str)
    (a : EntryArgs) (hr : rdir ≠ []) (hr' : rdir.getLast? ≠ some '/') (hm : mdir ≠ []) (hm' : mdir.getLast? ≠ some '/')
    (hrf : '/' ∉ rfile) (hmf : '/' ∉ mfile)
    (hopt : entryOptionsError (a.flags true) = none)
    (hout : (parsePath mdir).relativeTo (parsePath rdir) = .error .lookupError) :
    scanForModuleObjects mt fs ⟨rdir ++ '/' :: rfile⟩ ⟨mdir ++ '/' :: mfile⟩ a = .error (.kind .lookupError) := by
  rw [Pta.Entry.scanForModuleObjects_eq mt fs rdir mdir rfile mfile a hr hr' hm hm' hrf hmf]
  exact module_path_outside_root mt fs rdir mdir a hopt hout

/-! non-vacuity: root `/r/proj/a`, module `/r/proj` (above the root), `/r/other` (beside it), `r/proj/a/b` (relative) -/
section entryExamples
open Pta.C04
local instance instDecEqExcept' {ε α : Type} [DecidableEq ε] [DecidableEq α] : DecidableEq (Except ε α)
  | .ok a, .ok b => if h : a = b then isTrue (by rw [h]) else isFalse (by intro e; cases e; exact h rfl)
  | .error a, .error b => if h : a = b then isTrue (by rw [h]) else isFalse (by intro e; cases e; exact h rfl)
  | .ok _, .error _ => isFalse (by intro e; cases e)
  | .error _, .ok _ => isFalse (by intro e; cases e)

example : entryOptionsError (exArgs.flags true) = none ∧
    (parsePath "/r/proj".toList).relativeTo (parsePath "/r/proj/a".toList) = .error .lookupError ∧
    (parsePath "/r/other".toList).relativeTo (parsePath "/r/proj/a".toList) = .error .lookupError ∧
    (parsePath "r/proj/a/b".toList).relativeTo (parsePath "/r/proj/a".toList) = .error .lookupError ∧
    (parsePath "/r/proj/a/b".toList).relativeTo (parsePath "/r/proj/a".toList) = .ok [("b".toList)] := by decide
/-- hypotheses of `module_objects_outside_root_dirs` -/
example : "/r/proj/a".toList ≠ [] ∧ "/r/proj/a".toList.getLast? ≠ some '/' ∧ "/r/proj".toList ≠ [] ∧
    "/r/proj".toList.getLast? ≠ some '/' ∧ '/' ∉ "__init__.py".toList := by decide
example : errorOf (getEvaluableArchitecture noRe exFs "/r/proj/a".toList "/r/proj".toList exArgs) = some (.kind .lookupError) := by
  decide
/-- both exclusion tuples AND the module path outside the root: the configuration error wins -/
example : entryOptionsError (({ regexExclusions := some ["x".toList] } : EntryArgs).flags true) = some .improperlyConfigured ∧
    errorOf (getEvaluableArchitecture noRe exFs "/r/proj/a".toList "/r/proj".toList { regexExclusions := some ["x".toList] })
      = some (.kind .improperlyConfigured) := by decide
example : errorOf (scanForModuleObjects noRe exFs ⟨"/r/proj/a/__init__.py".toList⟩ ⟨"/r/proj/__init__.py".toList⟩ exArgs)
      = some (.kind .lookupError) ∧
    errorOf (scanForModuleObjects noRe exFs ⟨"/r/proj/a/__init__.py".toList⟩ ⟨"/r/proj/__init__.py".toList⟩
      { regexExclusions := some ["x".toList] }) = some (.kind .improperlyConfigured) := by decide
end entryExamples

end Pta.C13
