/-
  PtaProofs.Props.C14Text — the message TEXT under renaming of path components (property C14 for the string the user sees).
  `C14.model_report_ren` renames the report ITEMS. The text is the sorted, de-duplicated rendering of the items
  (`C03.assert_text_eq`), and sorting does not commute with renaming: the lines come in another order, and inside a
  `does not import` line the objects come in another order.

  * `text_ren_items` — for every `GoodRen ρ`, well-formed architecture and rule with well-formed names: the outcome on the
    renamed inputs is the rendering of the renamed items (same class, same error kind).
  * `text_ren`       — if moreover no path component contains `"` before or after the renaming (`archNoQuote`, `ruleNoQuote`,
    `QuoteFree ρ`; Python module names never do): the lines of the renamed message are, as a multiset (`List.Perm`), the
    renamed lines of the original message, and literally the renamed lines re-sorted. `renLine ρ` (Bridge/RenameText.lean)
    renames a line through the item it shows: parse, rename the names, render again.
  * examples: an adversarial renaming for which the line ORDER changes, and one for which the object order inside a line changes.
  The `"` hypotheses are needed for `text_ren` (not for `text_ren_items`): with `"` in names two different lines can be renamed
  to the same string (`C03`, last example of part 3), and `sorted(set(...))` then drops one.
-/
import Bridge.RenameText
import Bridge.MessageAgg
import PtaProofs.Lemmas.RenameText
import PtaProofs.Props.C03
import PtaProofs.Props.C14
namespace Pta.C14
open Pta PtaSpec

/-- the outcome with the message text on the renamed inputs: the renamed report items, rendered — pass stays pass, an
    error stays the same error, a failure lists the lines of the renamed items (no hypothesis about `"`) -/
theorem text_ren_items (mt : Str → Str → Bool) (ρ : Comp → Comp) (hρ : GoodRen ρ) (a : Arch) (hwf : a.wf = true)
    (r : RuleSpec) (hr : ruleWF r = true) :
    (assertAppliesText mt (compile (renRule ρ r)) (archGraph (renArch ρ a))).2 =
      ((assertApplies mt (compile r) (archGraph a)).2.mapId (renDotted ρ)).toText ∧
    (assertAppliesText mt (compile r) (archGraph a)).2 = (assertApplies mt (compile r) (archGraph a)).2.toText := by
  constructor
  · rw [Pta.C03.assert_text_eq, model_report_ren mt ρ hρ a hwf r hr]
  · rw [Pta.C03.assert_text_eq]

/-- **the message text under renaming.** For every `GoodRen ρ` that introduces no `"`, every well-formed architecture and
    every rule with well-formed names, all path components free of `"`:
    pass stays pass; an error stays the same error; and if the original message has the lines `lines`, the message on the
    renamed inputs has lines `lines'` with
      * `lines'` is a permutation of `lines.map (renLine ρ)` — the same multiset of lines, each renamed through its item;
      * `lines' = sortStr (lines.map (renLine ρ))` — literally the renamed lines, sorted again. -/
theorem text_ren (mt : Str → Str → Bool) (ρ : Comp → Comp) (hρ : GoodRen ρ) (hq : QuoteFree ρ) (a : Arch)
    (hwf : a.wf = true) (ha : archNoQuote a = true) (r : RuleSpec) (hr : ruleWF r = true) (hrq : ruleNoQuote r = true) :
    ((assertAppliesText mt (compile r) (archGraph a)).2 = .pass →
      (assertAppliesText mt (compile (renRule ρ r)) (archGraph (renArch ρ a))).2 = .pass) ∧
    (∀ k, (assertAppliesText mt (compile r) (archGraph a)).2 = .err k →
      (assertAppliesText mt (compile (renRule ρ r)) (archGraph (renArch ρ a))).2 = .err k) ∧
    (∀ lines, (assertAppliesText mt (compile r) (archGraph a)).2 = .fail lines →
      ∃ lines', (assertAppliesText mt (compile (renRule ρ r)) (archGraph (renArch ρ a))).2 = .fail lines' ∧
        lines'.Perm (lines.map (renLine ρ)) ∧ lines' = sortStr (lines.map (renLine ρ))) := by
  obtain ⟨e', e⟩ := text_ren_items mt ρ hρ a hwf r hr
  have hnames := report_names_wf mt a hwf r hr
  have hnq := Pta.RT.report_noQuote mt a hwf r ha hrq
  rw [e', e]
  cases hv : (assertApplies mt (compile r) (archGraph a)).2 with
  | pass => exact ⟨fun _ => rfl, fun k h => (by cases h), fun l h => (by cases h)⟩
  | err k0 =>
    refine ⟨fun h => (by cases h), fun k h => ?_, fun l h => (by cases h)⟩
    simp only [Verdict.toText, TextVerdict.err.injEq] at h
    subst h; rfl
  | fail items =>
    refine ⟨fun h => (by cases h), fun k h => (by cases h), fun lines h => ?_⟩
    simp only [Verdict.toText, TextVerdict.fail.injEq] at h
    subst h
    rw [hv] at hnames hnq
    have hne := Pta.assertApplies_fail_objs_ne_nil mt (archGraph a) (compile r) items hv
    have hwfi : ∀ x ∈ items, ∀ s ∈ x.names, nameWF (splitDots s) = true :=
      fun x hx s hs => hnames s (List.mem_flatMap.2 ⟨x, hx, hs⟩)
    have hp : ∀ x ∈ items, x.canon.parsable = true := fun x hx =>
      Pta.RT.canon_parsable x (Pta.RT.parsable_of_names x (fun s hs => hnq s (List.mem_flatMap.2 ⟨x, hx, hs⟩)) (hne x hx))
    have hp' : ∀ x ∈ items, (x.mapId (renDotted ρ)).canon.parsable = true := by
      intro x hx
      apply Pta.RT.canon_parsable
      apply Pta.RT.parsable_of_names
      · intro s hs
        rw [Pta.RT.names_mapId] at hs
        obtain ⟨s0, hs0, rfl⟩ := List.mem_map.1 hs
        exact Pta.RT.noQuote_renDotted ρ hq s0 (hnq s0 (List.mem_flatMap.2 ⟨x, hx, hs0⟩))
      · intro any s objs d hxe
        cases x with
        | imp u v d' => cases hxe
        | miss any0 s0 objs0 d0 =>
          simp only [Item.mapId, Item.miss.injEq] at hxe
          obtain ⟨_, _, rfl, _⟩ := hxe
          have := hne _ hx _ _ _ _ rfl
          intro hnil
          exact this (List.map_eq_nil_iff.1 hnil)
    have hperm := Pta.RT.renderItems_ren ρ hρ items hwfi hp hp'
    refine ⟨renderItems (items.map (Item.mapId (renDotted ρ))), rfl, hperm.symm, ?_⟩
    have hs := Pta.sortStr_eq_of_perm _ _ hperm
    rw [hs]
    -- the message lines are sorted already
    unfold renderItems
    exact (Pta.sortStr_eq_of_perm _ _ (Pta.Dg.sortBy_perm strLe _)).symm

/-- what `renLine` does to the line of a report item: the line of the renamed item (objects sorted again) -/
theorem renLine_item (ρ : Comp → Comp) (x : Item) (h : x.canon.parsable = true) :
    renLine ρ (renderItem x) = renderItem (x.mapId (renDotted ρ)) :=
  Pta.RT.renLine_renderItem ρ x h

/-- the module names in a report are free of `"` when the path components of the architecture and of the rule are -/
theorem report_names_noQuote (mt : Str → Str → Bool) (a : Arch) (hwf : a.wf = true) (r : RuleSpec)
    (ha : archNoQuote a = true) (hrq : ruleNoQuote r = true) :
    ∀ s ∈ (assertApplies mt (compile r) (archGraph a)).2.names, noQuote s = true :=
  Pta.RT.report_noQuote mt a hwf r ha hrq

/-! ### non-vacuity: the adversarial renaming `advRen` (`x ↦ a`, `y ↦ ab`, everything else gets a `z` in front) -/

theorem advRen_quoteFree : QuoteFree advRen := by
  intro c h
  unfold advRen
  by_cases c1 : c = "x".toList
  · simp only [c1, if_true]; decide
  · by_cases c2 : c = "y".toList
    · simp only [c2]; decide
    · simp only [c1, c2, if_false]
      rw [Pta.noQuote_iff] at h ⊢
      intro hm
      rcases List.mem_cons.1 hm with h' | h'
      · cases h'
      · exact h h'

def T (s : String) : Str := s.toList

/-- `[q, x.u] should not import [x, y]` on `exB` (imports `x.u → y`, `y → q`, `q → x`) -/
def exRT : RuleSpec :=
  { verb := .shouldNot, importDir := true, exc := false,
    subjects := [.named (nm "q"), .named (nm "x.u")], objects := [.named (nm "x"), .named (nm "y")] }

/-- all hypotheses of `text_ren` hold for `advRen`, `exB`, `exRT` -/
example : GoodRen advRen ∧ QuoteFree advRen ∧ exB.wf = true ∧ archNoQuote exB = true ∧ ruleWF exRT = true ∧
    ruleNoQuote exRT = true := ⟨advRen_good, advRen_quoteFree, by decide, by decide, by decide, by decide⟩

set_option maxRecDepth 8000 in
/-- **the line ORDER changes.** Original: the `q` line first (`q < x`). Renamed in place that would be the `zq` line
    first; the message on the renamed inputs has the `a.zu` line first (`a < zq`): a permutation, and equal after sorting. -/
theorem text_ren_order_changes :
    (assertAppliesText (fun _ _ => false) (compile exRT) (archGraph exB)).2 =
      .fail [T "\"q\" imports \"x\".", T "\"x.u\" imports \"y\"."] ∧
    [T "\"q\" imports \"x\".", T "\"x.u\" imports \"y\"."].map (renLine advRen) =
      [T "\"zq\" imports \"a\".", T "\"a.zu\" imports \"ab\"."] ∧
    (assertAppliesText (fun _ _ => false) (compile (renRule advRen exRT)) (archGraph (renArch advRen exB))).2 =
      .fail [T "\"a.zu\" imports \"ab\".", T "\"zq\" imports \"a\"."] ∧
    sortStr [T "\"zq\" imports \"a\".", T "\"a.zu\" imports \"ab\"."] =
      [T "\"a.zu\" imports \"ab\".", T "\"zq\" imports \"a\"."] := by decide

/-- an architecture without imports, and `y should import [q, x]` -/
def exC : Arch := { nodes := ["q", "x", "y"].map nm, imports := [] }
def exRT2 : RuleSpec :=
  { verb := .should, importDir := true, exc := false, subjects := [.named (nm "y")], objects := [.named (nm "q"), .named (nm "x")] }

example : exC.wf = true ∧ archNoQuote exC = true ∧ ruleWF exRT2 = true ∧ ruleNoQuote exRT2 = true := by decide

set_option maxRecDepth 8000 in
/-- **the object order inside a line changes**, so `renLine` is not a substitution of names in place: it goes through the
    item and sorts the objects of the renamed item again (`q, x ↦ zq, a`, listed as `a, zq`) -/
theorem text_ren_object_order_changes :
    (assertAppliesText (fun _ _ => false) (compile exRT2) (archGraph exC)).2 =
      .fail [T "\"y\" does not import \"q\", \"x\"."] ∧
    renLine advRen (T "\"y\" does not import \"q\", \"x\".") = T "\"ab\" does not import \"a\", \"zq\"." ∧
    (assertAppliesText (fun _ _ => false) (compile (renRule advRen exRT2)) (archGraph (renArch advRen exC))).2 =
      .fail [T "\"ab\" does not import \"a\", \"zq\"."] := by decide

/-- `text_ren` applied to the first instance -/
example : ∃ lines', (assertAppliesText (fun _ _ => false) (compile (renRule advRen exRT)) (archGraph (renArch advRen exB))).2 =
      .fail lines' ∧
    lines'.Perm ([T "\"q\" imports \"x\".", T "\"x.u\" imports \"y\"."].map (renLine advRen)) ∧
    lines' = sortStr ([T "\"q\" imports \"x\".", T "\"x.u\" imports \"y\"."].map (renLine advRen)) :=
  (text_ren (fun _ _ => false) advRen advRen_good advRen_quoteFree exB (by decide) (by decide) exRT (by decide)
    (by decide)).2.2 _ text_ren_order_changes.1

/-! ### the `"` hypotheses of `text_ren` cannot be dropped -/

/-- a renaming given by a finite table; every other component gets a `z` in front -/
def tblRen (tbl : List (Comp × Comp)) (c : Comp) : Comp :=
  match tbl.find? (·.1 == c) with
  | some e => e.2
  | none => 'z' :: c

/-- the table is injective, its values are well-formed components that do not start with `z` -/
def tblOK (tbl : List (Comp × Comp)) : Bool :=
  tbl.all fun e => compWF e.2 && e.2.head? != some 'z' && tbl.all fun e' => e.2 != e'.2 || e.1 == e'.1

theorem tblRen_good (tbl : List (Comp × Comp)) (h : tblOK tbl = true) : GoodRen (tblRen tbl) := by
  simp only [tblOK, List.all_eq_true, Bool.and_eq_true, Bool.or_eq_true, bne_iff_ne, ne_eq, beq_iff_eq] at h
  have hfind : ∀ c e, tbl.find? (·.1 == c) = some e → e ∈ tbl ∧ e.1 = c := fun c e hf =>
    ⟨List.mem_of_find?_eq_some hf, by simpa using List.find?_some hf⟩
  constructor
  · intro c d hcd
    unfold tblRen at hcd
    cases h1 : tbl.find? (·.1 == c) with
    | some e =>
      obtain ⟨he, hec⟩ := hfind c e h1
      cases h2 : tbl.find? (·.1 == d) with
      | some e' =>
        obtain ⟨he', hed⟩ := hfind d e' h2
        rw [h1, h2] at hcd
        simp only at hcd
        rcases (h e he).2 e' he' with hne | heq
        · exact absurd hcd hne
        · rw [← hec, ← hed, heq]
      | none =>
        rw [h1, h2] at hcd
        simp only at hcd
        have := (h e he).1.2
        rw [hcd] at this
        exact absurd rfl this
    | none =>
      cases h2 : tbl.find? (·.1 == d) with
      | some e' =>
        obtain ⟨he', _⟩ := hfind d e' h2
        rw [h1, h2] at hcd
        simp only at hcd
        have := (h e' he').1.2
        rw [← hcd] at this
        exact absurd rfl this
      | none =>
        rw [h1, h2] at hcd
        exact (List.cons.inj hcd).2
  · intro c hc
    unfold tblRen
    cases h1 : tbl.find? (·.1 == c) with
    | some e => exact (h e (hfind c e h1).1).1.1
    | none =>
      simp only
      rw [Pta.compWF_iff] at hc ⊢
      refine ⟨by simp, ?_⟩
      intro hm
      rcases List.mem_cons.1 hm with h' | h'
      · cases h'
      · exact hc.2 h'

/-- `u ↦ p`, `v ↦ q" imports "r`, `w ↦ p" imports "q`, `t ↦ r`: a good renaming that introduces `"` -/
def quoteRen : Comp → Comp :=
  tblRen [(T "u", T "p"), (T "v", T "q\" imports \"r"), (T "w", T "p\" imports \"q"), (T "t", T "r")]

theorem quoteRen_good : GoodRen quoteRen := tblRen_good _ (by decide)

def exQA : Arch := { nodes := ["u", "v", "w", "t"].map nm, imports := [(nm "u", nm "v"), (nm "w", nm "t")] }
def exQR : RuleSpec :=
  { verb := .shouldNot, importDir := true, exc := false,
    subjects := [.named (nm "u"), .named (nm "w")], objects := [.named (nm "v"), .named (nm "t")] }

set_option maxRecDepth 8000 in
/-- **without `QuoteFree ρ` the multiset statement is false**: all other hypotheses of `text_ren` hold, the original message
    has two lines, and the message on the renamed inputs has ONE — both items are rendered as the same string
    `"p" imports "q" imports "r".`, and `sorted(set(...))` keeps one copy. (`text_ren_items` still holds.) -/
theorem text_ren_needs_quoteFree :
    GoodRen quoteRen ∧ exQA.wf = true ∧ archNoQuote exQA = true ∧ ruleWF exQR = true ∧ ruleNoQuote exQR = true ∧
    (assertAppliesText (fun _ _ => false) (compile exQR) (archGraph exQA)).2 =
      .fail [T "\"u\" imports \"v\".", T "\"w\" imports \"t\"."] ∧
    (assertAppliesText (fun _ _ => false) (compile (renRule quoteRen exQR)) (archGraph (renArch quoteRen exQA))).2 =
      .fail [T "\"p\" imports \"q\" imports \"r\"."] ∧
    ¬ [T "\"p\" imports \"q\" imports \"r\"."].Perm
        ([T "\"u\" imports \"v\".", T "\"w\" imports \"t\"."].map (renLine quoteRen)) := by
  refine ⟨quoteRen_good, by decide, by decide, by decide, by decide, by decide, by decide, fun h => ?_⟩
  have := h.length_eq
  simp at this

end Pta.C14
