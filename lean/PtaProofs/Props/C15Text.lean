/-
  PtaProofs.Props.C15Text — the diagram MESSAGE under permuted diagram lines (property C15 for the string the user sees;
  Headline.lean used to say: "the diagram message for permuted diagram LINES: only up to `sameItems` (C07)").

  With the text-valued model `diagramAssertText` (PtaModel/DiagramText.lean) the statement is STRONGER than for the report
  items: the dictionary order of `dependencies` decides the order of the objects inside one `does not import` ITEM
  (`C07.report_lists_objects_in_dict_order`), but the message TEXT sorts them, so it does not show. What does show is the
  order of the generated `should` rules (dictionary key order = order of the arrow lines), i.e. the order of the per-rule
  blocks of the aggregated text.

  * `diagram_rules_text_perm` — parse results with the same module set and dependency relation: one check raises `k` iff the
    other raises `k`; same class, the same multiset of per-rule messages and the same multiset of lines.
  * `diagram_message_lines_perm` — the same for two FILES whose line lists are permutations (`C15.diagram_text_perm` setting),
    any base module, any graph; `diagram_message_text_lines_perm` — for the lines of the literal texts (`splitLines`).
  * `diagram_message_order_counterexample` — literal equality of the texts is false (`decide`); the multiset statement is
    the strongest one. `diagram_message_objects_sorted` — the dictionary-order example of C07 gives ONE text.
  * errors: the two checks raise the same error or none — the generated rules can only raise `lookupError`
    (`generated_rules_raise_lookup_only`), so the order dependence of the error KIND that `MultipleRuleApplier` has for
    arbitrary rule lists (`C15.applyAll_error_kind_counterexample`) cannot show for a diagram.
-/
import Bridge.MessageAgg
import Bridge.OrderDefs
import PtaProofs.Lemmas.MessageAgg
import PtaProofs.Lemmas.OrderDiagramText
import PtaProofs.Props.C07
import PtaProofs.Props.C07Text
import PtaProofs.Props.C15
namespace Pta.C15
open Pta PtaSpec

/-- two rule lists whose outcomes (with message lines) are permutations of each other and that raise nothing but
    `lookupError`: the same error or none, the same class, the same multisets of per-rule messages and of message lines -/
theorem same_outcome_of_perm (mt : Str → Str → Bool) (g : PGraph Str) (rs rs' : List RuleState)
    (hperm : (rs.map (ruleText mt g)).Perm (rs'.map (ruleText mt g)))
    (kp : ∀ k, applyAllText mt g rs = .err k → k = .lookupError)
    (kq : ∀ k, applyAllText mt g rs' = .err k → k = .lookupError) :
    (∀ k, applyAllText mt g rs = .err k ↔ applyAllText mt g rs' = .err k) ∧
    (∀ k, applyAllText mt g rs = .err k → k = .lookupError) ∧
    (applyAllText mt g rs).cls = (applyAllText mt g rs').cls ∧
    (aggMessages mt g rs).Perm (aggMessages mt g rs') ∧ (aggLines mt g rs).Perm (aggLines mt g rs') := by
  obtain ⟨h1, _, h3⟩ := Pta.OrdDT.applyAllText_perm mt g rs rs' hperm
  obtain ⟨v1, v2⟩ := Pta.OrdDT.views_perm mt g rs rs' hperm
  have hiff : ∀ k, applyAllText mt g rs = .err k ↔ applyAllText mt g rs' = .err k := by
    intro k
    constructor
    · intro h
      obtain ⟨k', hk'⟩ := h1.1 ⟨k, h⟩
      rw [hk', kq k' hk', kp k h]
    · intro h
      obtain ⟨k', hk'⟩ := h1.2 ⟨k, h⟩
      rw [hk', kp k' hk', kq k h]
  refine ⟨hiff, kp, ?_, v1, v2⟩
  cases hB : applyAllText mt g rs' with
  | err k => rw [(hiff k).2 hB]
  | pass => rw [← hB]; exact (h3 (fun k hk => by rw [hB] at hk; cases hk)).1
  | fail t => rw [← hB]; exact (h3 (fun k hk => by rw [hB] at hk; cases hk)).1

/-- **parse results with the same content.** Same module SET, same dependency RELATION (`SameDiagram`), unique dictionary keys
    and non-empty value lists on both sides (`C07.DepsOK`; the parser guarantees them), any graph, both modes:
    (1) checking `p` raises `k` iff checking `q` raises `k`, and `k` can only be `lookupError` (a drawn module is no module);
    (2) same class; and the messages of the failing rules, hence their lines, are the same multisets (`List.Perm`) —
        when the checks fail these are the blocks / lines of the two texts (`diagram_text_views`). -/
theorem diagram_rules_text_perm (mt : Str → Str → Bool) (g : PGraph Str) (so : Bool) (p q : Parsed')
    (hs : SameDiagram (.ok p) (.ok q)) (hp : Pta.C07.DepsOK p) (hq : Pta.C07.DepsOK q) :
    (∀ k, applyAllText mt g (diagramRules so p) = .err k ↔ applyAllText mt g (diagramRules so q) = .err k) ∧
    (∀ k, applyAllText mt g (diagramRules so p) = .err k → k = .lookupError) ∧
    (applyAllText mt g (diagramRules so p)).cls = (applyAllText mt g (diagramRules so q)).cls ∧
    (aggMessages mt g (diagramRules so p)).Perm (aggMessages mt g (diagramRules so q)) ∧
    (aggLines mt g (diagramRules so p)).Perm (aggLines mt g (diagramRules so q)) := by
  have hd : ∀ x y, y ∈ p.depsOf x ↔ y ∈ q.depsOf x := fun x y => by
    rw [← Pta.E2E.hasDep_iff_depsOf p hp.1, ← Pta.E2E.hasDep_iff_depsOf q hq.1, hs.2 x y]
  have hperm := Pta.OrdDT.rules_text_perm mt g so p q hp hq hs.1 hd
  exact same_outcome_of_perm mt g _ _ hperm (Pta.OrdDT.applyAllText_err_kind mt g so p hp)
    (Pta.OrdDT.applyAllText_err_kind mt g so q hq)

/-- a rule generated from a parse result with non-empty dictionary values raises nothing but `lookupError` -/
theorem generated_rules_raise_lookup_only (mt : Str → Str → Bool) (g : PGraph Str) (so : Bool) (p : Parsed')
    (hp : Pta.C07.DepsOK p) (r : RuleState) (hr : r ∈ diagramRules so p) (k : ErrKind)
    (h : (assertAppliesText mt r g).2 = .err k) : k = .lookupError :=
  Pta.OrdDT.generated_rule_err mt g so p hp r hr k h

/-- what the views `aggMessages` / `aggLines` / `diagramRulesOf` say about the text of a file check: it is the '\n'-join of
    the per-rule messages, and the '\n'-join of all their lines -/
theorem diagram_text_views (mt : Str → Str → Bool) (g : PGraph Str) (so : Bool) (base : Option Str) (c text : Str)
    (h : diagramAssertText mt (some c) base so g = .fail text) :
    text = joinWith ['\n'] (aggMessages mt g (diagramRulesOf c base so)) ∧
    text = messageText (aggLines mt g (diagramRulesOf c base so)) ∧
    ((∀ l ∈ aggLines mt g (diagramRulesOf c base so), '\n' ∉ l) →
      splitLines text = aggLines mt g (diagramRulesOf c base so)) := by
  simp only [diagramAssertText] at h
  simp only [diagramRulesOf]
  cases hp : pumlParse c with
  | error k => rw [hp] at h; cases h
  | ok p =>
    rw [hp] at h
    simp only at h ⊢
    -- a check that fails (rather than raises) found every component among the modules of the architecture
    cases hm : diagramMissing (prefixParsed p base) g with
    | true => rw [hm] at h; cases h
    | false =>
    rw [hm] at h
    obtain ⟨h1, _, _, _, h5⟩ := (Pta.C07.aggregated_text_items mt g _).2 text h
    refine ⟨?_, h1, h5⟩
    rw [h1, ← Pta.Agg.join_aggMessages]

/-- **permuted diagram lines.** Two files `noise / @startuml / lines / @enduml / noise` whose line lists are permutations of
    each other (raw lines without newline and `@`, as in `C15.diagram_text_perm`), any base module, any graph, both modes:
    (1) one check raises `k` iff the other raises `k` (both the parsing error, or both the lookup error: of the check that
        every component is a module, or of a generated rule);
    (2) same class, the same multiset of per-rule messages, the same multiset of message lines (when the checks fail,
        these are the blocks / lines of the two texts: `diagram_text_views`, `diagram_message_text_lines_perm`). -/
theorem diagram_message_lines_perm (mt : Str → Str → Bool) (g : PGraph Str) (so : Bool) (base : Option Str)
    (noise1 noise2 : Str) (lines lines' : List Str) (h : lines.Perm lines')
    (hl : ∀ l ∈ lines, '\n' ∉ l ∧ '@' ∉ l) (hn : isInfix "@enduml".toList noise2 = false) :
    (∀ k, diagramAssertText mt (some (linesText noise1 lines noise2)) base so g = .err k ↔
      diagramAssertText mt (some (linesText noise1 lines' noise2)) base so g = .err k) ∧
    (diagramAssertText mt (some (linesText noise1 lines noise2)) base so g).cls =
      (diagramAssertText mt (some (linesText noise1 lines' noise2)) base so g).cls ∧
    (aggMessages mt g (diagramRulesOf (linesText noise1 lines noise2) base so)).Perm
      (aggMessages mt g (diagramRulesOf (linesText noise1 lines' noise2) base so)) ∧
    (aggLines mt g (diagramRulesOf (linesText noise1 lines noise2) base so)).Perm
      (aggLines mt g (diagramRulesOf (linesText noise1 lines' noise2) base so)) := by
  simp only [diagramAssertText, diagramRulesOf]
  rcases Pta.OrdDT.linesText_parse noise1 noise2 lines lines' h hl hn with ⟨e1, e2⟩ | ⟨p, q, e1, e2, hp, hq, hm, hd⟩
  · rw [e1, e2]
    exact ⟨fun _ => Iff.rfl, rfl, List.Perm.refl _, List.Perm.refl _⟩
  · rw [e1, e2]
    simp only
    obtain ⟨hp', hq', hm', hd'⟩ := Pta.OrdDT.prefix_ok p q base hp hq hm hd
    obtain ⟨h1, _, h3, h4, h5⟩ := same_outcome_of_perm mt g _ _ (Pta.OrdDT.rules_text_perm mt g so _ _ hp' hq' hm' hd')
      (Pta.OrdDT.applyAllText_err_kind mt g so _ hp') (Pta.OrdDT.applyAllText_err_kind mt g so _ hq')
    -- the check of the repair of F-C13c sees the module SET only
    rw [Pta.Repair.diagramMissing_congr _ _ g hm']
    cases diagramMissing (prefixParsed q base) g with
    | true => exact ⟨fun _ => Iff.rfl, rfl, h4, h5⟩
    | false => exact ⟨h1, h3, h4, h5⟩

/-- … for the lines of the literal texts: if both checks fail with texts `t`, `t'` and no message line contains a newline
    (no module name does), the lines of `t'` are a permutation of the lines of `t` -/
theorem diagram_message_text_lines_perm (mt : Str → Str → Bool) (g : PGraph Str) (so : Bool) (base : Option Str)
    (noise1 noise2 : Str) (lines lines' : List Str) (h : lines.Perm lines')
    (hl : ∀ l ∈ lines, '\n' ∉ l ∧ '@' ∉ l) (hn : isInfix "@enduml".toList noise2 = false) (t t' : Str)
    (ht : diagramAssertText mt (some (linesText noise1 lines noise2)) base so g = .fail t)
    (ht' : diagramAssertText mt (some (linesText noise1 lines' noise2)) base so g = .fail t')
    (hnl : ∀ l ∈ aggLines mt g (diagramRulesOf (linesText noise1 lines noise2) base so), '\n' ∉ l) :
    (splitLines t).Perm (splitLines t') := by
  obtain ⟨_, _, _, hperm⟩ := diagram_message_lines_perm mt g so base noise1 noise2 lines lines' h hl hn
  have hnl' : ∀ l ∈ aggLines mt g (diagramRulesOf (linesText noise1 lines' noise2) base so), '\n' ∉ l :=
    fun l hl' => hnl l (hperm.mem_iff.2 hl')
  rw [(diagram_text_views mt g so base _ t ht).2.2 hnl, (diagram_text_views mt g so base _ t' ht').2.2 hnl']
  exact hperm

/-! ### non-vacuity and the counterexample for literal equality -/

def T (s : String) : Str := s.toList
def mt0 : Str → Str → Bool := fun _ _ => false

/-- four modules, one import `d → a` -/
def exIso : Arch := { nodes := ["a", "b", "c", "d"].map Pta.C07.nm, imports := [(Pta.C07.nm "d", Pta.C07.nm "a")] }
/-- three arrow lines, and the same lines in another order (the value list of `a` becomes `[c, b]`, and `c` becomes the
    first dictionary key) -/
def exL : List Str := [T "[a] --> [b]", T "[c] --> [d]", T "[a] --> [c]"]
def exL' : List Str := [T "[c] --> [d]", T "[a] --> [c]", T "[a] --> [b]"]

/-- the hypotheses of `diagram_message_lines_perm` / `diagram_message_text_lines_perm` -/
example : exL.Perm exL' ∧ (∀ l ∈ exL, '\n' ∉ l ∧ '@' ∉ l) ∧ isInfix "@enduml".toList ([] : Str) = false := by decide

/-- **literal equality of the two texts is false**: the blocks of the `should` rules follow the order of the arrow lines.
    Same lines as a multiset (as `diagram_message_lines_perm` says); inside the line of `a` the objects are sorted in both
    texts although the dictionary lists them as `b, c` in one file and `c, b` in the other. -/
theorem diagram_message_order_counterexample :
    diagramAssertText mt0 (some (linesText [] exL [])) none false (archGraph exIso) =
      .fail (T "\"a\" does not import \"b\", \"c\".\n\"c\" does not import \"d\".\n\"d\" imports \"a\".") ∧
    diagramAssertText mt0 (some (linesText [] exL' [])) none false (archGraph exIso) =
      .fail (T "\"c\" does not import \"d\".\n\"a\" does not import \"b\", \"c\".\n\"d\" imports \"a\".") ∧
    diagramAssertText mt0 (some (linesText [] exL [])) none false (archGraph exIso) ≠
      diagramAssertText mt0 (some (linesText [] exL' [])) none false (archGraph exIso) := by
  decide +kernel

example : aggLines mt0 (archGraph exIso) (diagramRulesOf (linesText [] exL []) none false) =
      [T "\"a\" does not import \"b\", \"c\".", T "\"c\" does not import \"d\".", T "\"d\" imports \"a\"."] ∧
    aggLines mt0 (archGraph exIso) (diagramRulesOf (linesText [] exL' []) none false) =
      [T "\"c\" does not import \"d\".", T "\"a\" does not import \"b\", \"c\".", T "\"d\" imports \"a\"."] ∧
    (∀ l ∈ aggLines mt0 (archGraph exIso) (diagramRulesOf (linesText [] exL []) none false), '\n' ∉ l) := by
  decide +kernel

/-- the theorem applied to the instance: the lines of the two literal texts are permutations of each other -/
example : (splitLines (T "\"a\" does not import \"b\", \"c\".\n\"c\" does not import \"d\".\n\"d\" imports \"a\".")).Perm
    (splitLines (T "\"c\" does not import \"d\".\n\"a\" does not import \"b\", \"c\".\n\"d\" imports \"a\".")) :=
  diagram_message_text_lines_perm mt0 (archGraph exIso) false none [] [] exL exL' (by decide) (by decide) (by decide) _ _
    diagram_message_order_counterexample.1 diagram_message_order_counterexample.2.1 (by decide +kernel)

/-- **the dictionary order does not reach the text.** The two parse results `exP`, `exQ` of Props/C07.lean
    (`report_lists_objects_in_dict_order`: the report ITEMS list `b, c` resp. `c, b`) give literally the same text; so do the
    two files `exAB`, `exAB.reverse` -/
theorem diagram_message_objects_sorted :
    applyAllText mt0 (archGraph Pta.C07.exIsolated) (diagramRules false Pta.C07.exP) =
      .fail (T "\"a\" does not import \"b\", \"c\".") ∧
    applyAllText mt0 (archGraph Pta.C07.exIsolated) (diagramRules false Pta.C07.exQ) =
      .fail (T "\"a\" does not import \"b\", \"c\".") ∧
    diagramAssertText mt0 (some (diagramText [] Pta.C07.exAB [])) none false (archGraph Pta.C07.exIsolated) =
      diagramAssertText mt0 (some (diagramText [] Pta.C07.exAB.reverse [])) none false (archGraph Pta.C07.exIsolated) := by
  decide +kernel

/-- the hypotheses of `diagram_rules_text_perm` hold for `exP`, `exQ` -/
example : SameDiagram (.ok Pta.C07.exP) (.ok Pta.C07.exQ) ∧ Pta.C07.DepsOK Pta.C07.exP ∧ Pta.C07.DepsOK Pta.C07.exQ :=
  ⟨⟨(Pta.C07.exPQ_hyps false).1.1, fun k v => by
      rw [Bool.eq_iff_iff, Pta.E2E.hasDep_iff_depsOf _ (Pta.C07.exPQ_hyps false).2.1.1,
        Pta.E2E.hasDep_iff_depsOf _ (Pta.C07.exPQ_hyps false).2.2.1.1]
      exact (Pta.C07.exPQ_hyps false).1.2 k v⟩,
    (Pta.C07.exPQ_hyps false).2.1, (Pta.C07.exPQ_hyps false).2.2.1⟩

/-- a base module that does not exist: both orders raise (the same lookup error here) -/
example : diagramAssertText mt0 (some (linesText [] exL [])) (some (T "zz")) false (archGraph exIso) = .err .lookupError ∧
    diagramAssertText mt0 (some (linesText [] exL' [])) (some (T "zz")) false (archGraph exIso) = .err .lookupError := by
  decide +kernel

end Pta.C15
