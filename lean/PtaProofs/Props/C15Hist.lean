/-
  PtaProofs.Props.C15Hist — property C15 as a statement about HISTORIES (Bridge/History.lean).

  A `World` holds any number of `Rule`, `LayerRule` and `DiagramRule` objects and any number of evaluable architectures;
  an event `Ev` is one call `object_i.assert_applies(architecture_j)`; `step` makes the call with the model's functions
  and writes the object the call leaves behind (`Rule._configuration` is rewritten in place by `_convert_aliases`) back
  into its slot, so that later events see the rewritten object. Proved, for every world and every history:

  * `history_archs_unchanged`   — the architectures after the history are literally the architectures before it;
  * `history_outcome_fresh`     — the outcome of an event (pass / the literal message lines / the exception) after the
                                  history is its outcome in the initial world: it does not depend on which rules were
                                  evaluated before, how often, or on which architectures;
  * `history_outcomes`          — hence a history's outcomes are the outcomes of its events in the initial world;
  * `history_perm`              — the multiset of (event, outcome) pairs is invariant under permuting the history;
  * `history_final`, `history_final_perm` — the objects left behind, in closed form (an object that was called at least
                                  once is in `_convert_aliases`-normal form, all others are untouched): they do not depend
                                  on the order either.

  The invariant is `World.Equiv` (slot-wise the same normal form): `rule_equiv_congr` / `layer_rule_equiv_congr` show that
  equivalent objects cannot be told apart by `assert_applies` on ANY graph, `rule_step_equiv` / `layer_rule_step_equiv`
  that a call stays inside the class. No counterexample: the statement holds for all three object kinds.
-/
import Bridge.History
import PtaProofs.Lemmas.History
namespace Pta.C15
open Pta

/-! ## the equivalence -/

/-- what `Rule.assert_applies` leaves behind is the normal form of the rule object, whatever the architecture -/
theorem rule_step_normalForm (mt : Str → Str → Bool) (r : RuleState) (g : PGraph Str) :
    (assertAppliesText mt r g).1 = r.normalForm :=
  Pta.History.assertAppliesText_fst mt r g

/-- a call stays inside the equivalence class of the object -/
theorem rule_step_equiv (mt : Str → Str → Bool) (r : RuleState) (g : PGraph Str) :
    (assertAppliesText mt r g).1.Equiv r :=
  Pta.History.assertAppliesText_equiv mt r g

/-- equivalent rule objects (same `_convert_aliases`-normal form) give the same outcome with the same message lines on
    every graph -/
theorem rule_equiv_congr (mt : Str → Str → Bool) (r r' : RuleState) (h : r.Equiv r') (g : PGraph Str) :
    (assertAppliesText mt r g).2 = (assertAppliesText mt r' g).2 :=
  Pta.History.assertAppliesText_congr mt r r' h g

/-- the state-returning `LayerRule.assert_applies` of Bridge/History.lean has the model's `assertAppliesLayerText` as
    its outcome (by definition) and the normal form as its state -/
theorem layer_rule_step (mt : Str → Str → Bool) (s : LayerRuleState) (g : PGraph Str) :
    (s.assertAppliesTextSt mt g).2 = assertAppliesLayerText mt s g ∧ (s.assertAppliesTextSt mt g).1 = s.normalForm :=
  ⟨rfl, Pta.History.assertAppliesTextSt_fst mt s g⟩

theorem layer_rule_step_equiv (mt : Str → Str → Bool) (s : LayerRuleState) (g : PGraph Str) :
    (s.assertAppliesTextSt mt g).1.Equiv s :=
  Pta.History.assertAppliesTextSt_equiv mt s g

theorem layer_rule_equiv_congr (mt : Str → Str → Bool) (s s' : LayerRuleState) (h : s.Equiv s') (g : PGraph Str) :
    assertAppliesLayerText mt s g = assertAppliesLayerText mt s' g :=
  Pta.History.assertAppliesLayerText_congr mt s s' h g

/-- every history stays inside the equivalence class of the initial world … -/
theorem history_equiv (mt : Str → Str → Bool) (w : World) (h : List Ev) : (exec mt w h).Equiv w :=
  Pta.History.exec_normalForm mt w h

/-- … and equivalent worlds give every event the same outcome -/
theorem world_equiv_congr (mt : Str → Str → Bool) (w w' : World) (h : w.Equiv w') (e : Ev) :
    outcomeIn mt w e = outcomeIn mt w' e :=
  Pta.History.step_outcome_congr mt w w' h e

/-! ## the history theorems -/

/-- after any history the list of architectures is literally the same -/
theorem history_archs_unchanged (mt : Str → Str → Bool) (w : World) (h : List Ev) : (exec mt w h).archs = w.archs :=
  Pta.History.exec_archs mt w h

/-- … and so is the list of diagram-rule objects -/
theorem history_diagram_rules_unchanged (mt : Str → Str → Bool) (w : World) (h : List Ev) :
    (exec mt w h).diagramRules = w.diagramRules :=
  Pta.History.exec_diagramRules mt w h

/-- for EVERY history `h` and event `e`: the outcome of `e` after `h` — verdict, message lines, exception — is the
    outcome of `e` in the initial world -/
theorem history_outcome_fresh (mt : Str → Str → Bool) (w : World) (h : List Ev) (e : Ev) :
    outcomeIn mt (exec mt w h) e = outcomeIn mt w e :=
  Pta.History.history_outcome_fresh_lemma mt w h e

/-- the outcomes of a history are the outcomes of its events in the initial world -/
theorem history_outcomes (mt : Str → Str → Bool) (w : World) (h : List Ev) : run mt w h = h.map (outcomeIn mt w) :=
  Pta.History.run_eq_map mt w h

/-- what "the outcome in the initial world" is, for the three kinds of event with both indices in range: the model's
    function applied to the INITIAL object in slot `i` and architecture `j` -/
theorem outcome_initial (mt : Str → Str → Bool) (w : World) (i j : Nat) (g : PGraph Str) (hg : w.archs[j]? = some g) :
    (∀ r, w.rules[i]? = some r → outcomeIn mt w (.rule i j) = .rule (assertAppliesText mt r g).2) ∧
    (∀ s, w.layerRules[i]? = some s → outcomeIn mt w (.layerRule i j) = .layerRule (assertAppliesLayerText mt s g)) ∧
    (∀ d, w.diagramRules[i]? = some d →
      outcomeIn mt w (.diagramRule i j) = .diagramRule (d.assertApplies mt g) (d.assertAppliesText mt g)) :=
  ⟨fun r hr => Pta.History.outcomeIn_rule_lemma mt w i j r g hr hg,
   fun s hs => Pta.History.outcomeIn_layerRule_lemma mt w i j s g hs hg,
   fun d hd => Pta.History.outcomeIn_diagramRule_lemma mt w i j d g hd hg⟩

/-- in particular: whatever was evaluated before, rule object `i` applied to architecture `j` gives what the rule object
    ORIGINALLY in slot `i` gives on that architecture (the general form of `report_reapply`) -/
theorem history_rule_outcome (mt : Str → Str → Bool) (w : World) (h : List Ev) (i j : Nat) (r : RuleState) (g : PGraph Str)
    (hr : w.rules[i]? = some r) (hg : w.archs[j]? = some g) :
    outcomeIn mt (exec mt w h) (.rule i j) = .rule (assertAppliesText mt r g).2 := by
  rw [history_outcome_fresh]
  exact Pta.History.outcomeIn_rule_lemma mt w i j r g hr hg

theorem history_layer_rule_outcome (mt : Str → Str → Bool) (w : World) (h : List Ev) (i j : Nat) (s : LayerRuleState)
    (g : PGraph Str) (hs : w.layerRules[i]? = some s) (hg : w.archs[j]? = some g) :
    outcomeIn mt (exec mt w h) (.layerRule i j) = .layerRule (assertAppliesLayerText mt s g) := by
  rw [history_outcome_fresh]
  exact Pta.History.outcomeIn_layerRule_lemma mt w i j s g hs hg

/-- the multiset of (event, outcome) pairs of a history is invariant under permuting the history -/
theorem history_perm (mt : Str → Str → Bool) (w : World) (h h' : List Ev) (hp : h.Perm h') :
    (trace mt w h).Perm (trace mt w h') :=
  Pta.History.history_perm_lemma mt w h h' hp

/-- the world a history leaves behind, in closed form (`World.after`): a rule / layer-rule object that was called at
    least once (with both indices in range) is in normal form, every other object and every architecture is untouched -/
theorem history_final (mt : Str → Str → Bool) (w : World) (h : List Ev) : exec mt w h = w.after h :=
  Pta.History.exec_eq_after_lemma mt w h

/-- hence the objects left behind do not depend on the order of the events either -/
theorem history_final_perm (mt : Str → Str → Bool) (w : World) (h h' : List Ev) (hp : h.Perm h') :
    exec mt w h = exec mt w h' :=
  Pta.History.history_final_perm_lemma mt w h h' hp

/-! ## a session -/

namespace HEx
def S (s : String) : Str := s.toList
/-- no regex engine needed -/
def mt : Str → Str → Bool := fun _ _ => false
/-- architecture 0 has `p.a.zz`, which imports `q`; architecture 1 has no `p.a.zz` and no import -/
def g0 : PGraph Str := buildGraph [S "p", S "p.a", S "p.a.zz", S "q"] [absImport (S "p.a.zz") (S "q")] none
def g1 : PGraph Str := buildGraph [S "p", S "p.a", S "q"] [] none
/-- `[p.a, p.a.zz] should not import anything`: the first application rewrites the object (alias conversion drops
    `p.a.zz` in favour of `p.a` and remembers it) -/
def rAny : RuleState :=
  { cfg := { subjects := some [.name (S "p.a"), .name (S "p.a.zz")], shouldNot := true, importDir := some true,
             anything := true }, next := some false }
/-- `p.a should import q` -/
def rShould : RuleState := mkRule true false false true false [.name (S "p.a")] [.name (S "q")]
def la : LArch := [(S "A", [.name (S "p.a")]), (S "B", [.name (S "q")])]
/-- `layers that are named A should not access any layer` (again an alias that the first application rewrites) -/
def lAny : LayerRuleState :=
  { arch := some la,
    rule := some { cfg := { subjects := some [.name (S "p.a")], shouldNot := true, importDir := some true, anything := true },
                   next := some false } }
def w0 : World := { rules := [rAny, rShould], layerRules := [lAny], archs := [g0, g1] }
/-- six calls: the `anything` rule on both architectures and once more on the first, the layer rule twice -/
def h6 : List Ev := [.rule 0 0, .rule 0 1, .layerRule 0 0, .rule 1 1, .rule 0 0, .layerRule 0 0]
/-- the same calls in another order -/
def h6' : List Ev := [.layerRule 0 0, .rule 0 0, .rule 1 1, .layerRule 0 0, .rule 0 1, .rule 0 0]
end HEx

set_option maxRecDepth 20000 in
/-- the outcomes of the six calls, computed by running the machine (the world threaded through) -/
example : run HEx.mt HEx.w0 HEx.h6 =
    [.rule (.fail [HEx.S "\"p.a.zz\" imports \"q\"."]),
     .rule (.err .lookupError),
     .layerRule (.fail [HEx.S "\"p.a.zz\" (layer \"A\") imports \"q\" (layer \"B\")."]),
     .rule (.fail [HEx.S "\"p.a\" does not import \"q\"."]),
     .rule (.fail [HEx.S "\"p.a.zz\" imports \"q\"."]),
     .layerRule (.fail [HEx.S "\"p.a.zz\" (layer \"A\") imports \"q\" (layer \"B\")."])] := by decide

set_option maxRecDepth 20000 in
/-- the history is not a no-op on the objects: slot 0 of the rules was rewritten (so the later events really ran on the
    rewritten object), slot 1 was not; the layer rule's embedded rule was rewritten as well -/
example : (exec HEx.mt HEx.w0 HEx.h6).rules =
    [{ cfg := { subjects := some [.name (HEx.S "p.a")], objects := some [.name (HEx.S "p.a")], shouldNot := true,
                exceptPresent := true, importDir := some true, dropped := [.name (HEx.S "p.a.zz")] }, next := some false },
     HEx.rShould] ∧
    (exec HEx.mt HEx.w0 HEx.h6).rules ≠ HEx.w0.rules ∧
    (exec HEx.mt HEx.w0 HEx.h6).layerRules.map (·.rule) =
      [some { cfg := { subjects := some [.name (HEx.S "p.a")], objects := some [.name (HEx.S "p.a")], shouldNot := true,
                       exceptPresent := true, importDir := some true }, next := some false }] := by decide

/-- the hypothesis of `history_perm` / `history_final_perm` on the two orders -/
example : HEx.h6.Perm HEx.h6' := by decide

/-- the theorems on this instance -/
example : (trace HEx.mt HEx.w0 HEx.h6).Perm (trace HEx.mt HEx.w0 HEx.h6') ∧
    exec HEx.mt HEx.w0 HEx.h6 = exec HEx.mt HEx.w0 HEx.h6' ∧ (exec HEx.mt HEx.w0 HEx.h6).archs = [HEx.g0, HEx.g1] :=
  ⟨history_perm _ _ _ _ (by decide), history_final_perm _ _ _ _ (by decide), history_archs_unchanged _ _ _⟩

set_option maxRecDepth 20000 in
/-- the outcomes in the other order, again by running the machine: each event has the outcome it had above -/
example : run HEx.mt HEx.w0 HEx.h6' =
    [.layerRule (.fail [HEx.S "\"p.a.zz\" (layer \"A\") imports \"q\" (layer \"B\")."]),
     .rule (.fail [HEx.S "\"p.a.zz\" imports \"q\"."]),
     .rule (.fail [HEx.S "\"p.a\" does not import \"q\"."]),
     .layerRule (.fail [HEx.S "\"p.a.zz\" (layer \"A\") imports \"q\" (layer \"B\")."]),
     .rule (.err .lookupError),
     .rule (.fail [HEx.S "\"p.a.zz\" imports \"q\"."])] := by decide

set_option maxRecDepth 20000 in
/-- indices out of range (no rule object 2, no architecture 5, no diagram rule at all): no call, outcome `none`, and the
    calls around them are not affected -/
example : run HEx.mt HEx.w0 [.rule 2 0, .rule 0 1, .rule 0 5, .diagramRule 0 0, .rule 0 1] =
    [.none, .rule (.err .lookupError), .none, .none, .rule (.err .lookupError)] := by decide

namespace HEx
/-- a diagram rule object (`a --> b` under the prefix `p`, i.e. `p.a should import p.b` and `p.b should not import p.a`) -/
def dRule : DiagramRuleState :=
  { file := some (S "@startuml\n[a] --> [b]\n@enduml"), base := some (S "p"), shouldOnly := false }
def g2 : PGraph Str := buildGraph [S "p", S "p.a", S "p.b"] [absImport (S "p.b") (S "p.a")] none
def w1 : World := { rules := [rAny], diagramRules := [dRule], archs := [g2, g0] }
end HEx

/-- a diagram rule around an application of a rule object: the same items and the same text both times (`decide +kernel`
    as for the other diagram examples of the project: `pumlParse` is too slow for the elaborator's evaluator) -/
example : run HEx.mt HEx.w1 [.diagramRule 0 0, .rule 0 1, .diagramRule 0 0] =
    [.diagramRule (.fail [.miss false ⟨false, HEx.S "p.a"⟩ [⟨false, HEx.S "p.b"⟩] false, .imp (HEx.S "p.b") (HEx.S "p.a") false])
       (.fail (HEx.S "\"p.a\" does not import \"p.b\".\n\"p.b\" imports \"p.a\".")),
     .rule (.fail [HEx.S "\"p.a.zz\" imports \"q\"."]),
     .diagramRule (.fail [.miss false ⟨false, HEx.S "p.a"⟩ [⟨false, HEx.S "p.b"⟩] false, .imp (HEx.S "p.b") (HEx.S "p.a") false])
       (.fail (HEx.S "\"p.a\" does not import \"p.b\".\n\"p.b\" imports \"p.a\"."))] := by decide +kernel

end Pta.C15
