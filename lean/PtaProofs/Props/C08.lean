/-
  PtaProofs.Props.C08 — glob-style exclusion patterns mean "literal text, optional leading/trailing *"
  (property C08), for ALL patterns and ALL subject strings; and exclusion of a directory removes its sub tree.
-/
import Bridge.Abs
import PtaProofs.Lemmas.GlobLabel
namespace Pta.C08
open Pta

/-- `re.escape` is undone by the emitted-class reader: the literal survives the round trip -/
theorem unescape_escape (s : Str) : unescape (reEscape s) = some s := Pta.unescape_escape_lemma s

/-- the converter's output always lies in the emitted class, with exactly the documented shape -/
theorem convert_shape (p : Str) :
    parseEmitted (convertPartialMatch p) =
      some ⟨startsWith ['*'] p,
            pySlice p (if startsWith ['*'] p then 1 else 0) (if endsWith ['*'] p then p.length - 1 else p.length),
            endsWith ['*'] p⟩ := Pta.convert_shape_lemma p

/-- the glob theorem: matching the converted pattern = the documented meaning of the glob pattern -/
theorem glob_spec (p s : Str) : matchEmitted (convertPartialMatch p) s = some (globSpec p s) :=
  Pta.glob_spec_lemma p s

/-- all other characters are literal: a pattern without `*` at either end matches exactly itself -/
theorem literal_pattern (p s : Str) (h1 : startsWith ['*'] p = false) (h2 : endsWith ['*'] p = false) :
    matchEmitted (convertPartialMatch p) s = some (s == p) := Pta.literal_pattern_lemma p s h1 h2

/-- an excluded directory contributes no module and nothing below it is visited -/
theorem excluded_directory_contributes_nothing (excl : Str → Bool) (base rootName : Str) (entries : List Entry)
    (fuel : Nat) (e : Entry) (hd : e.isDir = true) (hx : excl (pathStr base e.rel) = true) :
    parseWalk excl base rootName entries fuel e = {} := by
  cases fuel with
  | zero => rfl
  | succ f => simp [parseWalk, hd, hx]

/-- an excluded (or non-.py) file contributes nothing -/
theorem excluded_file_contributes_nothing (excl : Str → Bool) (base rootName : Str) (entries : List Entry)
    (fuel : Nat) (e : Entry) (hd : e.isDir = false) (hx : excl (pathStr base e.rel) = true) :
    parseWalk excl base rootName entries fuel e = {} := by
  cases fuel with
  | zero => rfl
  | succ f =>
    simp only [parseWalk, hd]
    cases e.rel.getLast? <;> simp [hx]

/-! non-vacuity -/
example : matchEmitted (convertPartialMatch "*a.b".toList) "xa.b".toList = some true := by decide
example : matchEmitted (convertPartialMatch "*a.b".toList) "xaxb".toList = some false := by decide
example : convertPartialMatch "a+(*".toList = "a\\+\\(.*".toList := by decide

end Pta.C08
