/-
  PtaProofs.Props.C08 — glob-style exclusion patterns mean "literal text, optional leading/trailing *"
  (property C08), for ALL patterns and ALL subject strings; and exclusion of a directory removes its sub tree.

  Second half (`exclusion_exact_…`): one tree scanned under two exclusion tests `excl0 ≤ excl` (the option records
  differ only in `exclusions`, the second has more patterns). Modules and parsed files: an entry remains iff it was
  there before and no path from `module_path` down to it matches (`Clear`). Imports (default options): the import
  pairs of the second graph are exactly the import pairs of the first between remaining modules — under the
  carve-out `carveOut` (Bridge/ScanExcl.lean), which is needed (`carve_out_needed`): excluding `P/n.py` turns the
  target of `from P import n` into `P`.
-/
import Bridge.Abs
import Bridge.ScanTree
import Bridge.ScanExcl
import PtaProofs.Lemmas.GlobLabel
import PtaProofs.Lemmas.ScanExclude
import PtaSpec.GlobSem
import Bridge.ScanAbs
import PtaProofs.Lemmas.GlobMeaning
namespace Pta.C08
open Pta PtaSpec

/-- `re.escape` is undone by the emitted-class reader: the literal survives the round trip -/
theorem unescape_escape (s : Str) : unescape (reEscape s) = some s := Pta.unescape_escape_lemma s

/-- the converter's output always lies in the emitted class, with exactly the documented shape -/
theorem convert_shape (p : Str) :
    parseEmitted (convertPartialMatch p) =
      some ⟨startsWith ['*'] p,
            pySlice p (if startsWith ['*'] p then 1 else 0) (if endsWith ['*'] p then p.length - 1 else p.length),
            endsWith ['*'] p⟩ := Pta.convert_shape_lemma p

/-- the glob theorem: matching the converted pattern = the documented meaning of the glob pattern -/
theorem glob_spec (p s : Str) : matchEmitted (convertPartialMatch p) s = some (globSpec p s) :=
  Pta.glob_spec_lemma p s

/-- `glob_meaning` (audit finding F11): the flag-and-slice reading `globSpec` IS the independent meaning
    `PtaSpec.globMeaning` (PtaSpec/GlobSem.lean: the pattern is literal text `lit` with an optional star in front and an
    optional star behind — the lone `"*"` being both —, and the subject is `pre ++ lit ++ suf` with `pre` / `suf` empty
    where there is no star), for ALL patterns and subjects, `"*"`, `"**"` and `""` included -/
theorem glob_meaning (p s : Str) : globSpec p s = true ↔ globMeaning p s := Pta.glob_meaning_lemma p s

/-- so `glob_spec` is a statement against an independent meaning: the converted pattern matches exactly the subjects the
    glob pattern means -/
theorem glob_spec_meaning (p s : Str) : matchEmitted (convertPartialMatch p) s = some true ↔ globMeaning p s := by
  rw [glob_spec, Option.some.injEq]; exact glob_meaning p s

/-- the boundary patterns: `"*"` and `"**"` match everything, `""` matches the empty subject only, and `"***"` matches
    the subjects containing a star -/
theorem glob_boundary (s : Str) :
    globMeaning "*".toList s ∧ globMeaning "**".toList s ∧ (globMeaning "".toList s ↔ s = []) ∧
    (globMeaning "***".toList s ↔ '*' ∈ s) := by
  refine ⟨(glob_meaning _ s).1 ?_, (glob_meaning _ s).1 ?_, ?_, ?_⟩
  · show isInfix [] s = true
    rw [Pta.isInfix_iff]; exact List.nil_infix
  · show isInfix [] s = true
    rw [Pta.isInfix_iff]; exact List.nil_infix
  · rw [← glob_meaning]
    show (s == []) = true ↔ s = []
    simp
  · rw [← glob_meaning]
    show isInfix ['*'] s = true ↔ '*' ∈ s
    rw [Pta.isInfix_iff]
    constructor
    · rintro ⟨a, b, rfl⟩; simp
    · intro h
      obtain ⟨a, b, rfl⟩ := List.append_of_mem h
      exact ⟨a, b, by simp⟩

/-- `.py` files: `isPyFile` means "a non-empty stem followed by `.py`" (`PtaSpec.isPyName`), … -/
theorem py_file_meaning (name : Str) : isPyFile name = true ↔ ∃ stem, isPyName name stem := Pta.isPyFile_iff name

/-- … `dropSuffix` returns that stem, … -/
theorem drop_suffix_py (name stem : Str) (h : isPyName name stem) : dropSuffix name = stem :=
  Pta.dropSuffix_pyName name stem h

/-- … and this is how the specification's view of a directory entry (`toSEntry`, Bridge/ScanAbs.lean) gets its `isPy` flag
    and its `stem`: a file entry whose last path component is `stem ++ ".py"` -/
theorem entry_py_stem (excl : Str → Bool) (base : Str) (e : Entry) (name : Str) (hn : e.rel.getLast? = some name) :
    ((toSEntry excl base e).isPy = true ↔ e.isDir = false ∧ ∃ stem, isPyName name stem) ∧
    ∀ stem, isPyName name stem → (toSEntry excl base e).stem = stem := by
  simp only [toSEntry, hn, Bool.and_eq_true, Bool.not_eq_true', py_file_meaning]
  exact ⟨trivial, fun stem h => drop_suffix_py name stem h⟩

/-! non-vacuity -/
example : globMeaning "*a.b".toList "xa.b".toList := (glob_meaning _ _).1 (by decide)
example : ¬ globMeaning "*a.b".toList "xaxb".toList := fun h => absurd ((glob_meaning _ _).2 h) (by decide)
example : isPyName "a.b.py".toList "a.b".toList := ⟨by decide, by decide⟩
example : isPyFile ".py".toList = false ∧ isPyFile "x.py".toList = true ∧ dropSuffix "a.b.py".toList = "a.b".toList := by decide

/-- all other characters are literal: a pattern without `*` at either end matches exactly itself -/
theorem literal_pattern (p s : Str) (h1 : startsWith ['*'] p = false) (h2 : endsWith ['*'] p = false) :
    matchEmitted (convertPartialMatch p) s = some (s == p) := Pta.literal_pattern_lemma p s h1 h2

/-- an excluded directory contributes no module and nothing below it is visited -/
theorem excluded_directory_contributes_nothing (excl : Str → Bool) (base rootName : Str) (entries : List Entry)
    (fuel : Nat) (e : Entry) (hd : e.isDir = true) (hx : excl (pathStr base e.rel) = true) :
    parseWalk excl base rootName entries fuel e = {} := by
  cases fuel with
  | zero => rfl
  | succ f => simp [parseWalk, hd, hx]

/-- an excluded (or non-.py) file contributes nothing -/
theorem excluded_file_contributes_nothing (excl : Str → Bool) (base rootName : Str) (entries : List Entry)
    (fuel : Nat) (e : Entry) (hd : e.isDir = false) (hx : excl (pathStr base e.rel) = true) :
    parseWalk excl base rootName entries fuel e = {} := by
  cases fuel with
  | zero => rfl
  | succ f =>
    simp only [parseWalk, hd]
    cases e.rel.getLast? <;> simp [hx]

/-! non-vacuity -/
example : matchEmitted (convertPartialMatch "*a.b".toList) "xa.b".toList = some true := by decide
example : matchEmitted (convertPartialMatch "*a.b".toList) "xaxb".toList = some false := by decide
example : convertPartialMatch "a+(*".toList = "a\\+\\(.*".toList := by decide

/-! ### exclusions remove exactly the matching files / directories, nothing else -/

section exact
variable (excl0 excl : Str → Bool) (hsub : ∀ p, excl0 p = true → excl p = true)
  (base root : Str) (mp : List Str) (entries : List Entry)

omit hsub in
/-- the modules of a walk, under any exclusion test: the names of the entries (root directory included) at or below
    `module_path` that are directories or `.py` files and have no excluded path from `module_path` down to themselves -/
theorem walk_modules (hshape : treeShape entries = true) (hmp : mpOK entries mp = true) (x : Str) :
    x ∈ (walkFrom excl0 base root mp entries).allModules ↔
      ∃ e ∈ rootEntry :: entries, Survives excl0 base mp e ∧ x = moduleName root e.rel :=
  ScanExclude.walkFrom_modules base root excl0 (ScanWalk.shape_of entries hshape) hmp x

include hsub

/-- C08, modules (through entries): with additional exclusions (`excl0 p → excl p`) the walk registers exactly the
    entries it registered before and that are `Clear`: no path from `module_path` down to the entry — the entry's
    own path and every directory above it — matches. So a matching file or directory, and everything below a
    matching directory, contributes no module; every other module is as before. -/
theorem exclusion_exact_modules (hshape : treeShape entries = true) (hmp : mpOK entries mp = true) (x : Str) :
    x ∈ (walkFrom excl base root mp entries).allModules ↔
      ∃ e ∈ rootEntry :: entries, Survives excl0 base mp e ∧ Clear excl base mp e ∧ x = moduleName root e.rel :=
  ScanExclude.excl_modules_entries hsub base root (ScanWalk.shape_of entries hshape) hmp x

/-- C08, parsed files (the sources of imports): exactly the `.py` files parsed before that are `Clear`, each with
    its statements -/
theorem exclusion_exact_files (hshape : treeShape entries = true) (hmp : mpOK entries mp = true)
    (y : Str × List ImportStmt) :
    y ∈ (walkFrom excl base root mp entries).files ↔
      ∃ e ∈ entries, e.isDir = false ∧ Survives excl0 base mp e ∧ Clear excl base mp e ∧
        y = (moduleName root e.rel, e.stmts) :=
  ScanExclude.excl_files_entries hsub base root (ScanWalk.shape_of entries hshape) hmp y

/-- C08, modules (through module names; on a well-formed tree the entry of a module is unique): a module remains iff
    it was a module before and its entry is `Clear` -/
theorem exclusion_exact_modules_names (hwf0 : treeWFFor excl0 base mp entries = true) (hmp : mpOK entries mp = true)
    (hroot : compWF root = true) (x : Str) :
    x ∈ (walkFrom excl base root mp entries).allModules ↔
      x ∈ (walkFrom excl0 base root mp entries).allModules ∧
      ∀ e ∈ rootEntry :: entries, Survives excl0 base mp e → moduleName root e.rel = x → Clear excl base mp e :=
  ScanExclude.excl_modules_names hsub base root hwf0 hmp hroot x

/-- a file or directory whose path matches, and everything below a matching directory, contributes no module -/
theorem excluded_contributes_no_module (hwf0 : treeWFFor excl0 base mp entries = true) (hmp : mpOK entries mp = true)
    (hroot : compWF root = true) (e : Entry) (he : e ∈ rootEntry :: entries) (hS : Survives excl0 base mp e)
    (k : Nat) (hk1 : mp.length ≤ k) (hk2 : k ≤ e.rel.length) (hx : excl (pathStr base (e.rel.take k)) = true) :
    moduleName root e.rel ∉ (walkFrom excl base root mp entries).allModules := by
  intro hm
  have := ((ScanExclude.excl_modules_names hsub base root hwf0 hmp hroot _).1 hm).2 e he hS rfl k hk1 hk2
  rw [hx] at this
  cases this

/-- every other module is exactly as in the scan without the additional patterns -/
theorem unexcluded_module_remains (hshape : treeShape entries = true) (hmp : mpOK entries mp = true)
    (e : Entry) (he : e ∈ rootEntry :: entries) (hS : Survives excl0 base mp e) (hc : Clear excl base mp e) :
    moduleName root e.rel ∈ (walkFrom excl base root mp entries).allModules :=
  (ScanExclude.excl_modules_entries hsub base root (ScanWalk.shape_of entries hshape) hmp _).2 ⟨e, he, hS, hc, rfl⟩

end exact

/-- `scanParsed` is the walk under the exclusion test of the options -/
theorem scanParsed_walkFrom (mt : Str → Str → Bool) (base root : Str) (mp : List Str) (entries : List Entry)
    (o : ScanOptions) :
    scanParsed mt base root mp entries o = walkFrom (isExcluded mt o.exclusions) base root mp entries := rfl

/-- more patterns (of the same kind) exclude more: the hypothesis `excl0 p → excl p` for option records -/
theorem more_patterns_exclude_more (mt : Str → Str → Bool) (a b c : Patterns) (h : a.add b = some c) (s : Str) :
    isExcluded mt c s = (isExcluded mt a s || isExcluded mt b s) := ScanExclude.isExcluded_add mt a b c h s

/-- … and no patterns exclude nothing -/
theorem no_patterns_exclude_nothing (mt : Str → Str → Bool) (s : Str) :
    isExcluded mt (.globs []) s = false ∧ isExcluded mt (.regexes []) s = false := ⟨rfl, rfl⟩

section opts
variable (mt : Str → Str → Bool) (base root : Str) (mp : List Str) (entries : List Entry) (o0 : ScanOptions)
  (ps : Patterns) (hsub : ∀ p, isExcluded mt o0.exclusions p = true → isExcluded mt ps p = true)
include hsub

/-- C08, modules, for two option records that differ only in `exclusions` (the second excludes at least what the
    first does) -/
theorem exclusion_exact_modules_opts (hwf0 : treeWFFor (isExcluded mt o0.exclusions) base mp entries = true)
    (hmp : mpOK entries mp = true) (hroot : compWF root = true) (x : Str) :
    x ∈ (scanParsed mt base root mp entries (o0.withExclusions ps)).allModules ↔
      x ∈ (scanParsed mt base root mp entries o0).allModules ∧
      ∀ e ∈ rootEntry :: entries, Survives (isExcluded mt o0.exclusions) base mp e → moduleName root e.rel = x →
        Clear (isExcluded mt ps) base mp e :=
  ScanExclude.excl_modules_names hsub base root hwf0 hmp hroot x

/-- C08, imports (default options: externals excluded, no level limit): under the carve-out, when the scan without
    the additional patterns succeeds so does the scan with them, and its import pairs are exactly the import pairs
    of the former between remaining modules (nodes of the new graph). In particular an excluded file contributes no
    import, and no import between two remaining modules appears or disappears. -/
theorem exclusion_exact_imports (hwf0 : treeWFFor (isExcluded mt o0.exclusions) base mp entries = true)
    (hmp : mpOK entries mp = true) (hroot : compWF root = true)
    (hxx : o0.excludeExternal = true) (hlim : o0.levelLimit = none) (hext : o0.externalExclusions.isEmpty = true)
    (hst : ∀ e ∈ entries, ∀ st ∈ e.stmts, stmtOK (toSStmt st) = true)
    (hcarve : carveOut root (toSEntries (isExcluded mt o0.exclusions) base entries)
      (toSEntries (isExcluded mt ps) base entries) mp = true)
    (g0 : PGraph Str) (h0 : generateGraph mt base root mp entries o0 = .ok g0) :
    ∃ g, generateGraph mt base root mp entries (o0.withExclusions ps) = .ok g ∧
      ∀ u v, (u, v) ∈ g.importPairs ↔ (u, v) ∈ g0.importPairs ∧ u ∈ g.nodes ∧ v ∈ g.nodes :=
  ScanExclude.excl_imports_lemma hsub hwf0 hmp hroot hxx hlim hext hst hcarve g0 h0

end opts

/-! non-vacuity -/

def p (l : List String) : List Str := l.map String.toList
def noRe : Str → Str → Bool := fun _ _ => false

/-- `proj/a/x.py` (`import proj.b.y`, `from proj.cache import z`, `import proj.cache.z`), `proj/b/y.py`
    (`from ..a import x`), `proj/cache/z.py` (`import proj.a.x`) -/
def exEntries : List Entry :=
  [ { rel := p ["a"], isDir := true },
    { rel := p ["a", "x.py"], isDir := false,
      stmts := [.imp ["proj.b.y".toList], .impFrom (some "proj.cache".toList) ["z".toList] 0, .imp ["proj.cache.z".toList]] },
    { rel := p ["b"], isDir := true },
    { rel := p ["b", "y.py"], isDir := false, stmts := [.impFrom (some "a".toList) ["x".toList] 2] },
    { rel := p ["cache"], isDir := true },
    { rel := p ["cache", "z.py"], isDir := false, stmts := [.imp ["proj.a.x".toList]] } ]
def exOpts0 : ScanOptions := { exclusions := .globs [] }
def exPats : Patterns := .globs ["*cache".toList]

/-- the hypotheses of `exclusion_exact_modules_opts` / `exclusion_exact_imports` hold for this tree, … -/
example :
    (∀ s, isExcluded noRe exOpts0.exclusions s = true → isExcluded noRe exPats s = true) ∧
    treeWFFor (isExcluded noRe exOpts0.exclusions) "/r/proj".toList [] exEntries = true ∧ mpOK exEntries [] = true ∧
    compWF "proj".toList = true ∧ exOpts0.excludeExternal = true ∧ exOpts0.levelLimit = none ∧
    exOpts0.externalExclusions.isEmpty = true ∧
    (∀ e ∈ exEntries, ∀ st ∈ e.stmts, stmtOK (toSStmt st) = true) ∧
    carveOut "proj".toList (toSEntries (isExcluded noRe exOpts0.exclusions) "/r/proj".toList exEntries)
      (toSEntries (isExcluded noRe exPats) "/r/proj".toList exEntries) [] = true := by
  refine ⟨fun s h => (by simp [exOpts0, isExcluded] at h), ?_⟩
  decide

set_option maxRecDepth 20000 in
/-- … the two module lists, … -/
example :
    (scanParsed noRe "/r/proj".toList "proj".toList [] exEntries exOpts0).allModules =
      ["proj", "proj.a", "proj.a.x", "proj.b", "proj.b.y", "proj.cache", "proj.cache.z"].map String.toList ∧
    (scanParsed noRe "/r/proj".toList "proj".toList [] exEntries (exOpts0.withExclusions exPats)).allModules =
      ["proj", "proj.a", "proj.a.x", "proj.b", "proj.b.y"].map String.toList := by decide

set_option maxRecDepth 40000 in
/-- … and the two graphs' import pairs -/
example :
    (generateGraph noRe "/r/proj".toList "proj".toList [] exEntries exOpts0).toOption.map (·.importPairs) =
      some [ ("proj.a.x".toList, "proj.b.y".toList), ("proj.a.x".toList, "proj.cache.z".toList),
             ("proj.b.y".toList, "proj.a.x".toList), ("proj.cache.z".toList, "proj.a.x".toList) ] ∧
    (generateGraph noRe "/r/proj".toList "proj".toList [] exEntries (exOpts0.withExclusions exPats)).toOption.map
        (·.importPairs) =
      some [ ("proj.a.x".toList, "proj.b.y".toList), ("proj.b.y".toList, "proj.a.x".toList) ] := by decide

/-- `Clear` in Bool form, for concrete trees -/
theorem clearB_iff (excl : Str → Bool) (base : Str) (mp : List Str) (e : Entry) :
    clearB excl base mp e = true ↔ Clear excl base mp e := ScanExclude.clearB_iff excl base mp e

example : clearB (isExcluded noRe exPats) "/r/proj".toList [] { rel := p ["a", "x.py"], isDir := false } = true ∧
    clearB (isExcluded noRe exPats) "/r/proj".toList [] { rel := p ["cache", "z.py"], isDir := false } = false := by
  decide

/-- `r/P/n.py`, `r/m.py` (`from r.P import n`), `r/q.py` (`import r.m`) -/
def exCarve : List Entry :=
  [ { rel := p ["P"], isDir := true },
    { rel := p ["P", "n.py"], isDir := false },
    { rel := p ["m.py"], isDir := false, stmts := [.impFrom (some "r.P".toList) ["n".toList] 0] },
    { rel := p ["q.py"], isDir := false, stmts := [.imp ["r.m".toList]] } ]
def exCarvePats : Patterns := .globs ["*n.py".toList]

set_option maxRecDepth 40000 in
/-- The carve-out of `exclusion_exact_imports` is needed: excluding `P/n.py` turns the target of `from r.P import n`
    in `r/m.py` from the module `r.P.n` into the package `r.P` — an import between two remaining modules (`r.m`,
    `r.P`) that the scan without the pattern does not have. All other hypotheses of `exclusion_exact_imports` hold.
    (The real library behaves the same way: `ImportConverter` tests `P.n` against the list of scanned modules.) -/
theorem carve_out_needed :
    treeWFFor (isExcluded noRe exOpts0.exclusions) "/x/r".toList [] exCarve = true ∧ mpOK exCarve [] = true ∧
    (∀ e ∈ exCarve, ∀ st ∈ e.stmts, stmtOK (toSStmt st) = true) ∧
    carveOut "r".toList (toSEntries (isExcluded noRe exOpts0.exclusions) "/x/r".toList exCarve)
      (toSEntries (isExcluded noRe exCarvePats) "/x/r".toList exCarve) [] = false ∧
    (generateGraph noRe "/x/r".toList "r".toList [] exCarve exOpts0).toOption.map (·.importPairs) =
      some [ ("r.m".toList, "r.P.n".toList), ("r.q".toList, "r.m".toList) ] ∧
    (generateGraph noRe "/x/r".toList "r".toList [] exCarve (exOpts0.withExclusions exCarvePats)).toOption.map
        (fun g => (g.nodes, g.importPairs)) =
      some ( ["r", "r.P", "r.m", "r.q"].map String.toList,
             [ ("r.m".toList, "r.P".toList), ("r.q".toList, "r.m".toList) ] ) := by decide

/-! ### where the conversion looks at the list of internal modules -/

/-- `ImportConverter._convert` depends on the list of internal modules only through the membership of the
    `consulted` strings (Bridge/ScanExcl.lean): `prefix.name` in `_adjust_with_root_prefix`, the adjusted `P.n` of
    `from P import n`, and the resolved `P.n` of a relative `from`-import -/
theorem conversion_consults (importer absPrefix : Str) (internal internal' : List Str) (st : ImportStmt)
    (h : ∀ q ∈ consulted importer absPrefix st, internal.contains q = internal'.contains q) :
    convertStmt importer absPrefix internal st = convertStmt importer absPrefix internal' st :=
  ScanExclude.convertStmt_congr importer absPrefix internal internal' st h

/-- hence a statement none of whose consulted strings is an excluded module (in `internal0`, not in `internal`)
    is converted to the same import records with and without the additional exclusions -/
theorem conversion_unaffected (importer absPrefix : Str) (internal0 internal : List Str) (st : ImportStmt)
    (hsub : ∀ q, q ∈ internal → q ∈ internal0)
    (h : ∀ q ∈ consulted importer absPrefix st, q ∈ internal0 → q ∈ internal) :
    convertStmt importer absPrefix internal st = convertStmt importer absPrefix internal0 st := by
  apply ScanExclude.convertStmt_congr
  intro q hq
  rw [Bool.eq_iff_iff, List.contains_iff_mem, List.contains_iff_mem]
  exact ⟨hsub q, h q hq⟩

example : consulted "r.m".toList [] (.impFrom (some "r.P".toList) ["n".toList] 0) =
    [".r.P.n".toList, "r.P.n".toList, ".r.P".toList] ∧
    consulted "r.a.m".toList "r".toList (.impFrom (some "P".toList) ["n".toList] 2) = ["r.P.n".toList] := by decide


/-! ### The scan "without that pattern" exists (repaired defect F-C08a, fix c0bb7ac)

C08 compares every filtered scan with "the scan without that pattern"; for a single pattern that is the call with
`exclusions=()`. Before the repair that call raised a `TypeError` (`EntryArgs.filePatternsBeforeRepair` is `none`,
`FileFilter(Config(None))`). -/

/-- the entry point never runs into the `TypeError` branch: whatever the options, the file patterns are defined -/
theorem no_type_error (mt : Str → Str → Bool) (fs : Str → List Entry) (rootPath modulePath : Str) (a : EntryArgs) :
    getEvaluableArchitecture mt fs rootPath modulePath a ≠ .error .typeError := by
  unfold getEvaluableArchitecture
  split
  · simp
  · split
    · simp
    · have h : a.scanOptions ≠ none := by
        simp only [EntryArgs.scanOptions, EntryArgs.filePatterns]
        split <;> simp
      split
      · contradiction
      · split <;> simp

/-- `exclusions=()` and no `regex_exclusions`: the scan with the empty pattern list, i.e. nothing is excluded -/
theorem no_patterns_scan (mt : Str → Str → Bool) (a : EntryArgs)
    (hex : a.exclusions = []) (hrex : a.regexExclusions = none) :
    (a.scanOptions.map (·.exclusions)) = some (.regexes []) ∧
    ∀ s, isExcluded mt (.regexes []) s = false := by
  constructor
  · simp [EntryArgs.scanOptions, EntryArgs.filePatterns, hex, hrex]
  · intro s; simp [isExcluded]

/-- the defect, on the code before the repair: the pattern value handed to the file filter was `None` -/
theorem no_patterns_before_repair :
    ({ exclusions := [] } : EntryArgs).filePatternsBeforeRepair = none ∧
    ({ exclusions := [] } : EntryArgs).filePatterns = some (.regexes []) := ⟨rfl, rfl⟩

end Pta.C08
