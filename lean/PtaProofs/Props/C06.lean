/-
  PtaProofs.Props.C06 — PlantUML diagrams parse to exactly their components, aliases and arrows (property C06).

  The documented subset is given as an abstract syntax (`DLine`, Bridge/PumlRender.lean) with a renderer
  (`DLine.render`, `diagramText`), a well-formedness predicate (`diagramWF`) and a declarative meaning
  (`diagramComponents`, `diagramArrows`, aliases resolved). The theorems say that `pumlParse` inverts the
  renderer: for EVERY well-formed line list, names, aliases, arrow texts and surrounding noise.

  Layers: L1 line recognisers, L2 tag slicing and line splitting, L3 aggregation / alias unification,
  `roundtrip` = L1–L3 composed, L4 `no_tags`, L5 `conflicting_alias_rejected` (one alias declared for two components).
-/
import Bridge.PumlRender
import PtaProofs.Lemmas.PumlRoundtrip
namespace Pta.C06
open Pta

/-! ## L1 — one line -/

/-- a declaration line declares exactly its component, with its alias -/
theorem decl_line_modules (f : DeclForm) (n : Str) (al : Option Str) (hn : nameOK n = true)
    (hal : ∀ a, al = some a → wordOK a = true ∧ f ≠ .compBare) :
    lineModules (renderDecl f n al) = [⟨n, al⟩] :=
  Pta.lineModules_render (.decl f n al)
    ⟨nameOK_nameLike hn, fun a ha => ⟨nameOK_nameLike (wordOK_nameOK (hal a ha).1), (hal a ha).2⟩⟩

/-- a declaration line is never read as an arrow -/
theorem decl_line_dependency (f : DeclForm) (n : Str) (al : Option Str) (hn : nameOK n = true) :
    lineDependency (renderDecl f n al) = none :=
  Pta.lineDependency_decl_lemma f n al (nameOK_nameLike hn)

/-- an arrow line yields exactly one dependency, in dependor → dependee orientation, as written
    (name or alias, brackets removed), for all six arrow forms and all nine combinations of reference styles -/
theorem arrow_line_dependency (f : ArrowForm) (a b : DRef) (ht : f.textOK = true)
    (ha : nameOK a.written = true) (hb : nameOK b.written = true) :
    lineDependency (renderArrow f a b) = some (a.written, b.written) :=
  Pta.lineDependency_arrow_lemma f a b ht (nameOK_nameLike ha) (nameOK_nameLike hb)

/-- what the declaration recogniser sees in an arrow line, exactly: the reference written LAST if (and only
    if) it is bracketed — always a component name of that line, never an alias, never with an alias -/
theorem arrow_line_modules (f : ArrowForm) (a b : DRef) (ht : f.textOK = true)
    (ha : nameOK a.written = true) (hb : nameOK b.written = true) :
    lineModules (renderArrow f a b) = (lastRef f a b).inlineModule :=
  Pta.lineModules_arrow_lemma f a b ht (nameOK_nameLike ha) (nameOK_nameLike hb)

/-- empty lines contribute nothing -/
theorem empty_line : lineModules [] = [] ∧ lineDependency [] = none := ⟨by decide, by decide⟩

/-! ## L2 — tags, noise, lines -/

/-- only the text between the tags survives: whatever precedes `@startuml`, and whatever follows `@enduml`
    as long as it does not contain `@enduml` again -/
theorem body_of_text (noise1 noise2 : Str) (d : List DLine) (hwf : diagramWF d = true)
    (hn : isInfix "@enduml".toList noise2 = false) :
    pumlBody (pyStrip (diagramText noise1 d noise2)) = .ok (diagramBody d) :=
  Pta.pumlBody_diagramText noise1 noise2 d (WF.of d hwf).localOK (by rw [← tag_end_eq]; exact hn)

/-- general form of the slicing step: any prefix, any `@`-free non-empty body -/
theorem body_of_block (x body noise2 : Str) (hb : '@' ∉ body) (hne : body ≠ [])
    (hn : isInfix "@enduml".toList noise2 = false) :
    pumlBody (x ++ ("@startuml".toList ++ (body ++ ("@enduml".toList ++ noise2)))) = .ok body := by
  rw [tag_end_eq] at hn ⊢
  rw [tag_start_eq]
  exact Pta.pumlBody_block x body noise2 hb hn hne

/-- `splitLines` inverts joining with newlines (one trailing empty line from the final newline) -/
theorem lines_of_join (ls : List Str) (hls : ∀ l ∈ ls, '\n' ∉ l) :
    splitLines (joinWith ['\n'] ls ++ ['\n']) = (if ls = [] then [[]] else ls) ++ [[]] :=
  Pta.splitLines_join ls hls

/-- the lines of the body are the rendered lines, framed by empty lines -/
theorem lines_of_body (d : List DLine) (hwf : diagramWF d = true) :
    splitLines (diagramBody d) = [] :: ((if d.map DLine.render = [] then [[]] else d.map DLine.render) ++ [[]]) :=
  Pta.splitLines_diagramBody d (WF.of d hwf).localOK

/-! ## L3 — aggregation -/

/-- `pumlParse` is: slice, split, recognise per line, check that every alias stands for one component
    (`_get_modules_by_alias`, raising `PumlParsingError` otherwise), aggregate -/
theorem parse_factorisation (content : Str) :
    pumlParse content =
      match pumlBody (pyStrip content) with
      | .error e => .error e
      | .ok body =>
        if aliasesConsistent ((splitLines body).flatMap lineModules) = true then
          .ok (pumlAgg ((splitLines body).flatMap lineModules) ((splitLines body).filterMap lineDependency))
        else .error .pumlParsingError :=
  Pta.pumlParse_eq content

/-- the check is functionality of the alias table (the `functionalTbl` of `diagramWF`) -/
theorem alias_check_functional (modules : List PModule) :
    aliasesConsistent modules = functionalTbl (modules.filterMap fun m => m.alias.map fun a => (a, m.name)) :=
  Pta.aliasesConsistent_eq_functionalTbl modules

/-- in a well-formed diagram an alias stands for one component: the error branch of the check is not taken -/
theorem wf_aliases_consistent (d : List DLine) (hwf : diagramWF d = true) :
    aliasesConsistent (d.flatMap DLine.mods) = true :=
  Pta.aliasesConsistent_of_diagramWF d hwf

/-- the aggregation / unification law for ARBITRARY per-line results: the dependency dictionary has unique
    keys and duplicate-free non-empty value lists; `y ∈ deps[x]` iff some raw arrow unifies to `(x, y)`; the
    module list is duplicate free and consists of the declared names and the unified arrow ends -/
theorem aggregate_law (modules : List PModule) (raw : List (Str × Str)) :
    let tbl := modules.filterMap fun m => m.alias.map fun a => (a, m.name)
    let p := pumlAgg modules raw
    DictOK p.dependencies ∧ p.modules.Nodup ∧
    (∀ x y, y ∈ p.depsOf x ↔ ∃ a b, (a, b) ∈ raw ∧ x = unifyWith tbl a ∧ y = unifyWith tbl b) ∧
    (∀ x, x ∈ p.modules ↔ (∃ m ∈ modules, m.name = x) ∨
      ∃ a b, (a, b) ∈ raw ∧ (x = unifyWith tbl a ∨ x = unifyWith tbl b)) :=
  Pta.pumlAgg_spec modules raw

/-- unification under an alias table in which every alias stands for one component -/
theorem unify_alias (tbl : List (Str × Str)) (hf : functionalTbl tbl = true) (a n : Str) (h : (a, n) ∈ tbl) :
    unifyWith tbl a = n := Pta.unifyWith_hit tbl hf a n h

theorem unify_name (tbl : List (Str × Str)) (x : Str) (h : ∀ p ∈ tbl, p.1 ≠ x) : unifyWith tbl x = x :=
  Pta.unifyWith_miss tbl x h

/-- L1 + L2 on a whole text: parsing a rendered diagram = aggregating the per-line contributions -/
theorem parse_is_aggregate (noise1 noise2 : Str) (d : List DLine) (hwf : diagramWF d = true)
    (hn : isInfix "@enduml".toList noise2 = false) :
    pumlParse (diagramText noise1 d noise2) = .ok (pumlAgg (d.flatMap DLine.mods) (d.filterMap DLine.raw)) :=
  Pta.pumlParse_diagramText noise1 noise2 d (WF.of d hwf).localOK (WF.of d hwf).functional
    (by rw [← tag_end_eq]; exact hn)

/-! ## the round trip -/

/-- **C06.** For every diagram of the documented subset — any interleaving of declaration and arrow lines,
    any names/aliases/arrow texts, any noise before `@startuml`, any noise without `@enduml` after the end
    tag — parsing succeeds; the module list is duplicate free and is exactly the set of declared or referenced
    components with every alias resolved; `y` is recorded as a dependee of `x` iff the diagram draws `x → y`
    (aliases resolved, whichever way the arrow is drawn and whichever way the ends are referred to); the
    dependency dictionary has unique keys and duplicate-free, non-empty value lists. -/
theorem roundtrip (noise1 noise2 : Str) (d : List DLine) (hwf : diagramWF d = true)
    (hn : isInfix "@enduml".toList noise2 = false) :
    ∃ p, pumlParse (diagramText noise1 d noise2) = .ok p ∧
      p.modules.Nodup ∧ (∀ x, x ∈ p.modules ↔ x ∈ diagramComponents d) ∧
      (∀ x y, y ∈ p.depsOf x ↔ (x, y) ∈ diagramArrows d) ∧
      (p.dependencies.map (·.1)).Nodup ∧ (∀ kv ∈ p.dependencies, kv.2.Nodup ∧ kv.2 ≠ []) :=
  Pta.roundtrip_lemma noise1 noise2 d hwf (by rw [← tag_end_eq]; exact hn)

/-- two parse results with the same content -/
def SameParse (p q : Parsed') : Prop :=
  (∀ x, x ∈ p.modules ↔ x ∈ q.modules) ∧ (∀ x y, y ∈ p.depsOf x ↔ y ∈ q.depsOf x)

/-- the result depends on the MEANING of the diagram only: two well-formed diagrams that declare/reference the
    same components and draw the same arrows parse to the same content — whatever the declaration forms, arrow
    forms, reference styles (alias in one line, name in another), line order and surrounding noise -/
theorem presentation_irrelevant (n1 n2 n1' n2' : Str) (d d' : List DLine)
    (hwf : diagramWF d = true) (hwf' : diagramWF d' = true)
    (hn : isInfix "@enduml".toList n2 = false) (hn' : isInfix "@enduml".toList n2' = false)
    (hc : ∀ x, x ∈ diagramComponents d ↔ x ∈ diagramComponents d')
    (ha : ∀ e, e ∈ diagramArrows d ↔ e ∈ diagramArrows d') :
    ∃ p q, pumlParse (diagramText n1 d n2) = .ok p ∧ pumlParse (diagramText n1' d' n2') = .ok q ∧
      SameParse p q := by
  obtain ⟨p, hp, _, hpm, hpd, _⟩ := roundtrip n1 n2 d hwf hn
  obtain ⟨q, hq, _, hqm, hqd, _⟩ := roundtrip n1' n2' d' hwf' hn'
  refine ⟨p, q, hp, hq, fun x => ?_, fun x y => ?_⟩
  · rw [hpm, hqm]; exact hc x
  · rw [hpd, hqd]; exact ha (x, y)

/-- line order (and repetition of lines) is irrelevant: a permutation of a well-formed diagram is well formed
    and parses to the same content -/
theorem order_irrelevant (n1 n2 : Str) (d d' : List DLine) (hperm : d.Perm d')
    (hwf : diagramWF d = true) (hn : isInfix "@enduml".toList n2 = false) :
    diagramWF d' = true ∧
    ∃ p q, pumlParse (diagramText n1 d n2) = .ok p ∧ pumlParse (diagramText n1 d' n2) = .ok q ∧
      SameParse p q := by
  have hs : SameLines d d' := fun l => hperm.mem_iff
  have hwf' := hs.wf hwf
  obtain ⟨hc, ha⟩ := hs.meaning hwf
  exact ⟨hwf', presentation_irrelevant n1 n2 n1 n2 d d' hwf hwf' hn hn hc ha⟩

/-! ## L4 — no tags -/

/-- a file without the start tag or without the end tag is rejected with a parsing error -/
theorem no_tags (content : Str)
    (h : isInfix "@startuml".toList content = false ∨ isInfix "@enduml".toList content = false) :
    pumlParse content = .error .pumlParsingError :=
  Pta.no_tags_lemma content h

/-! ## L5 — one alias, two components -/

/-- **rejected.** In ANY text whose tags are fine (`pumlBody` succeeds): if two lines of the body declare the same alias
    for different component names, `pumlParse` raises the parsing error — whatever else the text contains and in
    whichever order the two lines come. -/
theorem conflicting_alias_rejected (content body l1 l2 a x y : Str)
    (hb : pumlBody (pyStrip content) = .ok body) (h1 : l1 ∈ splitLines body) (h2 : l2 ∈ splitLines body)
    (hm1 : ⟨x, some a⟩ ∈ lineModules l1) (hm2 : ⟨y, some a⟩ ∈ lineModules l2) (hxy : x ≠ y) :
    pumlParse content = .error .pumlParsingError :=
  Pta.pumlParse_conflict_raw content body l1 l2 a x y hb h1 h2 hm1 hm2 hxy

/-- … and that is the only way a text with fine tags fails to parse -/
theorem parse_error_iff (content body : Str) (hb : pumlBody (pyStrip content) = .ok body) :
    pumlParse content = .error .pumlParsingError ↔
      ∃ l1 ∈ splitLines body, ∃ l2 ∈ splitLines body, ∃ a x y,
        ⟨x, some a⟩ ∈ lineModules l1 ∧ ⟨y, some a⟩ ∈ lineModules l2 ∧ x ≠ y :=
  Pta.pumlParse_error_iff content body hb

/-- the same on rendered diagrams: every line is fine on its own (names, aliases, arrow texts; aliases used in arrows
    are declared), any noise around the tags, but two declaration lines `… x as a` and `… y as a` with `x ≠ y` -/
theorem conflicting_alias_rejected_text (noise1 noise2 : Str) (d : List DLine)
    (hok : ∀ l ∈ d, l.ok (aliasTable d) = true) (hn : isInfix "@enduml".toList noise2 = false)
    (f1 f2 : DeclForm) (a x y : Str)
    (h1 : DLine.decl f1 x (some a) ∈ d) (h2 : DLine.decl f2 y (some a) ∈ d) (hxy : x ≠ y) :
    pumlParse (diagramText noise1 d noise2) = .error .pumlParsingError :=
  Pta.pumlParse_conflict noise1 noise2 d (Pta.localOK_of_ok d hok) (by rw [← tag_end_eq]; exact hn) f1 f2 a x y h1 h2 hxy

/-- a rendered diagram whose lines are fine on their own parses iff its alias table is functional -/
theorem parse_ok_iff_functional (noise1 noise2 : Str) (d : List DLine)
    (hok : ∀ l ∈ d, l.ok (aliasTable d) = true) (hn : isInfix "@enduml".toList noise2 = false) :
    pumlParse (diagramText noise1 d noise2) =
      if functionalTbl (aliasTable d) = true then .ok (pumlAgg (d.flatMap DLine.mods) (d.filterMap DLine.raw))
      else .error .pumlParsingError := by
  rw [Pta.pumlParse_diagramText_gen noise1 noise2 d (Pta.localOK_of_ok d hok) (by rw [← tag_end_eq]; exact hn),
    Pta.aliasesConsistent_eq_functionalTbl, Pta.aliasTable_mods]

/-! ## non-vacuity, and the edge of the documented subset -/

/-- a diagram that uses all declaration forms, all arrow forms, all reference styles, dotted names, the name
    `component`, the alias `as`, an alias in one line and the name in another -/
def sample : List DLine := [
  .arrow .r2 (.viaAlias "al".toList) (.bracketed "b.c".toList),
  .decl .bracket "a".toList (some "al".toList),
  .decl .compBare "component".toList none,
  .decl .compBracket "x.y".toList (some "as".toList),
  .decl .bracket "lonely".toList none,
  .arrow (.lt "uses".toList) (.bare "component".toList) (.bracketed "a".toList),
  .arrow (.rt "component".toList) (.bare "component".toList) (.viaAlias "as".toList),
  .arrow .l1 (.bare "q".toList) (.bare "x.y".toList),
  .arrow .l2 (.bracketed "q".toList) (.bracketed "x.y".toList),
  .arrow .r1 (.bracketed "q".toList) (.bare "a".toList)]

-- hypotheses of `roundtrip` / `body_of_text` / `parse_is_aggregate` / `lines_of_body`
example : diagramWF sample = true := by decide
example : isInfix "@enduml".toList "\n' trailing @startuml junk".toList = false := by decide
-- what the sample looks like and means
set_option maxRecDepth 10000 in
example : diagramText "junk @enduml @startuml\n".toList sample "\n trailing".toList =
    ("junk @enduml @startuml\n@startuml\nal --> [b.c]\n[a] as al\ncomponent component\ncomponent [x.y] as as\n" ++
     "[lonely]\n[a] <-uses- component\ncomponent -component-> as\nx.y <- q\n[x.y] <-- [q]\n[q] -> a\n@enduml\n trailing").toList := by
  decide
example : diagramArrows sample = [("a".toList, "b.c".toList), ("component".toList, "a".toList),
    ("component".toList, "x.y".toList), ("q".toList, "x.y".toList), ("q".toList, "x.y".toList),
    ("q".toList, "a".toList)] := by decide
-- hypotheses of the L1 theorems
example : nameOK "pkg.sub.mod".toList = true ∧ wordOK "alias_1".toList = true ∧
    (ArrowForm.rt "uses".toList).textOK = true ∧ nameOK (DRef.viaAlias "alias_1".toList).written = true := by decide
-- hypotheses of `body_of_block`, `lines_of_join`
example : '@' ∉ "\n[a] --> [b]\n".toList ∧ "\n[a] --> [b]\n".toList ≠ [] := by decide
example : ∀ l ∈ ["[a]".toList, "a -> b".toList], '\n' ∉ l := by decide
-- hypothesis of `no_tags`
example : isInfix "@startuml".toList "[a] --> [b]\n@enduml".toList = false := by decide
-- hypotheses of `order_irrelevant`: a genuine permutation; of `presentation_irrelevant`: two presentations
example : sample.Perm sample.reverse := (List.reverse_perm sample).symm
example :
    let d := [DLine.decl .bracket "a".toList (some "x".toList), .arrow .r2 (.viaAlias "x".toList) (.bare "b".toList)]
    let d' := [DLine.arrow (.lt "t".toList) (.bracketed "a".toList) (.bracketed "b".toList)]
    diagramWF d = true ∧ diagramWF d' = true ∧
    (∀ x, x ∈ diagramComponents d ↔ x ∈ diagramComponents d') ∧ (∀ e, e ∈ diagramArrows d ↔ e ∈ diagramArrows d') := by
  refine ⟨by decide, by decide, ?_, ?_⟩
  · intro x
    have h1 : diagramComponents [DLine.decl .bracket "a".toList (some "x".toList),
        .arrow .r2 (.viaAlias "x".toList) (.bare "b".toList)] = ["a".toList, "a".toList, "b".toList] := by decide
    have h2 : diagramComponents [DLine.arrow (.lt "t".toList) (.bracketed "a".toList) (.bracketed "b".toList)] =
        ["a".toList, "b".toList] := by decide
    simp only [h1, h2, List.mem_cons, List.not_mem_nil, or_false]
    constructor
    · rintro (h | h | h)
      · exact .inl h
      · exact .inl h
      · exact .inr h
    · rintro (h | h)
      · exact .inl h
      · exact .inr (.inr h)
  · intro e
    have h1 : diagramArrows [DLine.decl .bracket "a".toList (some "x".toList),
        .arrow .r2 (.viaAlias "x".toList) (.bare "b".toList)] = [("a".toList, "b".toList)] := by decide
    have h2 : diagramArrows [DLine.arrow (.lt "t".toList) (.bracketed "a".toList) (.bracketed "b".toList)] =
        [("a".toList, "b".toList)] := by decide
    rw [h1, h2]

-- hypotheses of `conflicting_alias_rejected_text`: every line fine on its own, alias `x` for `a` and for `b`
def conflict : List DLine := [
  .decl .bracket "a".toList (some "x".toList),
  .decl .compBracket "b".toList (some "x".toList),
  .arrow .r2 (.viaAlias "x".toList) (.bare "c".toList)]
example : (∀ l ∈ conflict, l.ok (aliasTable conflict) = true) ∧ diagramWF conflict = false ∧
    DLine.decl .bracket "a".toList (some "x".toList) ∈ conflict ∧
    DLine.decl .compBracket "b".toList (some "x".toList) ∈ conflict ∧ "a".toList ≠ "b".toList := by decide
-- hypotheses of `conflicting_alias_rejected` / `parse_error_iff` on a raw text (in both line orders)
theorem conflicting_alias_rejected_concrete :
    pumlParse "@startuml\n[a] as x\n[b] as x\nx --> c\n@enduml".toList = .error .pumlParsingError ∧
    pumlParse "@startuml\n[b] as x\n[a] as x\nx --> c\n@enduml".toList = .error .pumlParsingError :=
  ⟨pumlParse_concrete_conflict _ [] "\n[a] as x\n[b] as x\nx --> c\n".toList [] (by decide) (by decide) (by decide)
      (by decide) (by decide),
   pumlParse_concrete_conflict _ [] "\n[b] as x\n[a] as x\nx --> c\n".toList [] (by decide) (by decide) (by decide)
      (by decide) (by decide)⟩
example : "[a] as x".toList ∈ splitLines "\n[a] as x\n[b] as x\nx --> c\n".toList ∧
    "[b] as x".toList ∈ splitLines "\n[a] as x\n[b] as x\nx --> c\n".toList ∧
    (⟨"a".toList, some "x".toList⟩ : PModule) ∈ lineModules "[a] as x".toList ∧
    (⟨"b".toList, some "x".toList⟩ : PModule) ∈ lineModules "[b] as x".toList := by decide
-- declaring the same (alias, name) pair twice is fine
example : aliasesConsistent (["[a] as x".toList, "component [a] as x".toList, "[b]".toList].flatMap lineModules) = true := by
  decide

/-- outside the documented subset: an alias written in brackets in an arrow line is ALSO registered as a
    component of its own (the declaration recogniser reads `[al]` at the end of the line as a declaration),
    although the arrow itself is unified correctly. This is why `DRef` has no "bracketed alias" form. -/
theorem bracketed_alias_outside_subset :
    ∃ p, pumlParse "@startuml\n[a] as al\n[b] --> [al]\n@enduml".toList = .ok p ∧
      p.modules = ["al".toList, "b".toList, "a".toList] ∧ p.dependencies = [("b".toList, ["a".toList])] := by
  refine ⟨_, pumlParse_concrete _ [] "\n[a] as al\n[b] --> [al]\n".toList [] (by decide) (by decide) (by decide)
    (by decide) (by decide), by decide, by decide⟩

/-- the hypothesis on the trailing noise is needed: a second `@enduml` extends the body -/
theorem second_end_tag_extends_body :
    ∃ p, pumlParse "@startuml\n[a] --> [b]\n@enduml\n[c] --> [d]\n@enduml".toList = .ok p ∧
      p.modules = ["a".toList, "c".toList, "b".toList, "d".toList] := by
  refine ⟨_, pumlParse_concrete _ [] "\n[a] --> [b]\n@enduml\n[c] --> [d]\n".toList [] (by decide) (by decide)
    (by decide) (by decide) (by decide), by decide⟩

end Pta.C06
