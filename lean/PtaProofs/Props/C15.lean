/-
  PtaProofs.Props.C15 — evaluation is independent of order and history (property C15, the part that is logic).
  The model is pure by construction, so "purity" is not claimed here; what is proved is that verdicts depend only on
  the SETS of modules, hierarchy edges and import edges (hence not on the order in which modules, imports or directory
  entries were enumerated), not on the order in which subjects, objects or exclusion patterns were listed, and not on
  how often or to how many architectures a rule object was applied before. The interpreter-level half (hash seeds,
  in-place mutation through networkx) is observed by the correspondence runs of the C15 check.
-/
import Bridge.Abs
import PtaProofs.Lemmas.Order
namespace Pta.C15
open Pta PtaSpec

/-- the verdict of any rule depends only on the node set and the three edge sets of the graph -/
theorem verdict_congr (mt : Str → Str → Bool) (g g' : PGraph Str) (h : GraphEquiv g g') (r : RuleState) :
    verdictOf mt g r = verdictOf mt g' r := Pta.verdict_congr_lemma mt g g' h r

/-- the order in which subjects are listed is irrelevant -/
theorem perm_subjects (mt : Str → Str → Bool) (g : PGraph Str) (s o n dir exc : Bool) (subs subs' objs : List Filter)
    (h : subs.Perm subs') :
    verdictOf mt g (mkRule s o n dir exc subs objs) = verdictOf mt g (mkRule s o n dir exc subs' objs) :=
  Pta.perm_subjects_lemma mt g s o n dir exc subs subs' objs h

/-- the order in which objects are listed is irrelevant -/
theorem perm_objects (mt : Str → Str → Bool) (g : PGraph Str) (s o n dir exc : Bool) (subs objs objs' : List Filter)
    (h : objs.Perm objs') :
    verdictOf mt g (mkRule s o n dir exc subs objs) = verdictOf mt g (mkRule s o n dir exc subs objs') :=
  Pta.perm_objects_lemma mt g s o n dir exc subs objs objs' h

/-- the order in which modules and imports reach the graph constructor is irrelevant (also under a level limit) -/
theorem perm_modules_imports (mt : Str → Str → Bool) (a a' : Arch) (hwf : a.wf = true)
    (hn : a.nodes.Perm a'.nodes) (hi : a.imports.Perm a'.imports) (lim : Option Nat) (r : RuleState) :
    verdictOf mt (archGraphLim a lim) r = verdictOf mt (archGraphLim a' lim) r :=
  Pta.perm_modules_imports_lemma mt a a' hwf hn hi lim r

/-- re-applying a rule object (to the same or to another architecture) gives what a fresh rule object gives:
    the only in-place rewrite (`_convert_aliases`) is idempotent -/
theorem reapply (mt : Str → Str → Bool) (s : RuleState) (g g' : PGraph Str) :
    (assertApplies mt (assertApplies mt s g).1 g').2 = (assertApplies mt s g').2 :=
  Pta.reapply_lemma mt s g g'

theorem convertAliases_idem (c : RuleConfig) : convertAliases (convertAliases c) = convertAliases c :=
  Pta.convertAliases_idem_lemma c

/-- the order of exclusion patterns is irrelevant -/
theorem perm_patterns (mt : Str → Str → Bool) (ps ps' : List Str) (h : ps.Perm ps') (s : Str) :
    isExcluded mt (.globs ps) s = isExcluded mt (.globs ps') s ∧ isExcluded mt (.regexes ps) s = isExcluded mt (.regexes ps') s :=
  Pta.perm_patterns_lemma mt ps ps' h s

/-- the order in which the file system enumerates directory entries only permutes the module list and the file list -/
theorem perm_dir_entries (excl : Str → Bool) (base rootName : Str) (entries entries' : List Entry) (h : entries.Perm entries')
    (fuel : Nat) (e : Entry) :
    (parseWalk excl base rootName entries fuel e).allModules.Perm (parseWalk excl base rootName entries' fuel e).allModules :=
  Pta.perm_dir_entries_lemma excl base rootName entries entries' h fuel e

end Pta.C15
