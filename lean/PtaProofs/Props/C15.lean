/-
  PtaProofs.Props.C15 — evaluation is independent of order and history (property C15, the part that is logic).
  The model is pure by construction, so "purity" is not claimed here; what is proved is that verdicts depend only on
  the SETS of modules, hierarchy edges and import edges (hence not on the order in which modules, imports or directory
  entries were enumerated), not on the order in which subjects, objects or exclusion patterns were listed, and not on
  how often or to how many architectures a rule object was applied before. The interpreter-level half (hash seeds,
  in-place mutation through networkx) is observed by the correspondence runs of the C15 check.
  Section "the MESSAGE" (and "layer rules: the message", "the fluent API") proves the same for the whole outcome the user
  sees — verdict class AND the literal list of message lines (`assertAppliesText`, `assertAppliesLayerText`,
  `runRuleOpsText`, `runLayerRuleOpsText`), not only for the class.
-/
import Bridge.Abs
import Bridge.OrderDefs
import PtaProofs.Lemmas.Order
import PtaProofs.Lemmas.OrderMore
import PtaProofs.Lemmas.OrderReport
import PtaProofs.Lemmas.OrderReportOps
namespace Pta.C15
open Pta PtaSpec

/-- the verdict of any rule depends only on the node set and the three edge sets of the graph -/
theorem verdict_congr (mt : Str → Str → Bool) (g g' : PGraph Str) (h : GraphEquiv g g') (r : RuleState) :
    verdictOf mt g r = verdictOf mt g' r := Pta.verdict_congr_lemma mt g g' h r

/-- the order in which subjects are listed is irrelevant -/
theorem perm_subjects (mt : Str → Str → Bool) (g : PGraph Str) (s o n dir exc : Bool) (subs subs' objs : List Filter)
    (h : subs.Perm subs') :
    verdictOf mt g (mkRule s o n dir exc subs objs) = verdictOf mt g (mkRule s o n dir exc subs' objs) :=
  Pta.perm_subjects_lemma mt g s o n dir exc subs subs' objs h

/-- the order in which objects are listed is irrelevant -/
theorem perm_objects (mt : Str → Str → Bool) (g : PGraph Str) (s o n dir exc : Bool) (subs objs objs' : List Filter)
    (h : objs.Perm objs') :
    verdictOf mt g (mkRule s o n dir exc subs objs) = verdictOf mt g (mkRule s o n dir exc subs objs') :=
  Pta.perm_objects_lemma mt g s o n dir exc subs objs objs' h

/-- the order in which modules and imports reach the graph constructor is irrelevant (also under a level limit) -/
theorem perm_modules_imports (mt : Str → Str → Bool) (a a' : Arch) (hwf : a.wf = true)
    (hn : a.nodes.Perm a'.nodes) (hi : a.imports.Perm a'.imports) (lim : Option Nat) (r : RuleState) :
    verdictOf mt (archGraphLim a lim) r = verdictOf mt (archGraphLim a' lim) r :=
  Pta.perm_modules_imports_lemma mt a a' hwf hn hi lim r

/-- re-applying a rule object (to the same or to another architecture) gives what a fresh rule object gives:
    the only in-place rewrite (`_convert_aliases`) is idempotent, and it keeps the subjects it removed
    (`modules_removed_by_alias_conversion`), so the existence check on them (repair of F-C13b) is repeated on the
    architecture the rule object is applied to next — see the example below -/
theorem reapply (mt : Str → Str → Bool) (s : RuleState) (g g' : PGraph Str) :
    (assertApplies mt (assertApplies mt s g).1 g').2 = (assertApplies mt s g').2 :=
  Pta.reapply_lemma mt s g g'

/-- the re-application that a first version of the repair got wrong: `[p.a, p.a.zz] should not import anything`, applied
    to an architecture that has `p.a.zz` and then — the same rule object — to one that has not, raises the lookup error
    exactly like a fresh rule object (an instance of `reapply`) -/
example :
    let s : RuleState := { cfg := { subjects := some [.name "p.a".toList, .name "p.a.zz".toList], shouldNot := true,
                                    importDir := some true, anything := true }, next := some false }
    let g := buildGraph ["p".toList, "p.a".toList, "p.a.zz".toList, "q".toList] [] none
    let g' := buildGraph ["p".toList, "p.a".toList, "q".toList] [] none
    (assertApplies (fun _ _ => false) s g).2 = .pass ∧
    (assertApplies (fun _ _ => false) s g).1.cfg.dropped = [.name "p.a.zz".toList] ∧
    (assertApplies (fun _ _ => false) (assertApplies (fun _ _ => false) s g).1 g').2 = .err .lookupError ∧
    (assertApplies (fun _ _ => false) s g').2 = .err .lookupError := by decide

theorem convertAliases_idem (c : RuleConfig) : convertAliases (convertAliases c) = convertAliases c :=
  Pta.convertAliases_idem_lemma c

/-- the order of exclusion patterns is irrelevant -/
theorem perm_patterns (mt : Str → Str → Bool) (ps ps' : List Str) (h : ps.Perm ps') (s : Str) :
    isExcluded mt (.globs ps) s = isExcluded mt (.globs ps') s ∧ isExcluded mt (.regexes ps) s = isExcluded mt (.regexes ps') s :=
  Pta.perm_patterns_lemma mt ps ps' h s

/-- the order in which the file system enumerates directory entries only permutes the module list and the file list -/
theorem perm_dir_entries (excl : Str → Bool) (base rootName : Str) (entries entries' : List Entry) (h : entries.Perm entries')
    (fuel : Nat) (e : Entry) :
    (parseWalk excl base rootName entries fuel e).allModules.Perm (parseWalk excl base rootName entries' fuel e).allModules :=
  Pta.perm_dir_entries_lemma excl base rootName entries entries' h fuel e

/-! ## two scans of the same tree -/

/-- the graph constructor depends on the module list and on the import list only as SETS (any level limit, external
    modules and dangling import ends allowed), provided every importer is a listed module and every import carries the
    parent modules of its importee (`importsClosed`; both hold for every scan). A package importing its own direct
    child is NOT excluded: under `importsClosed` the hierarchy edge wins that collision in every order. -/
theorem buildGraph_sets (lim : Option Nat) (mods mods' : List Str) (imps imps' : List ImportRec)
    (hm : ∀ x, x ∈ mods ↔ x ∈ mods') (hi : ∀ x, x ∈ imps ↔ x ∈ imps') (hc : importsClosed mods imps = true) :
    GraphEquiv (buildGraph mods imps lim) (buildGraph mods' imps' lim) :=
  Pta.buildGraph_sets_lemma lim mods mods' imps imps' hm hi hc

/-- without the second half of `importsClosed` (an import whose `importeeParents` are not those of its importee) the
    known last-write-wins collision is order dependent: package `a` imports its direct child `a.b` -/
theorem buildGraph_sets_counterexample :
    ¬ GraphEquiv
      (buildGraph ["a".toList, "a.b".toList, "c".toList] [⟨"a".toList, "a.b".toList, []⟩, absImport "c".toList "a.b".toList] none)
      (buildGraph ["a".toList, "a.b".toList, "c".toList] [absImport "c".toList "a.b".toList, ⟨"a".toList, "a.b".toList, []⟩] none) := by
  intro h
  have := (h.hier "a".toList "a.b".toList).1 (by decide)
  revert this
  decide

/-- without the first half (an importer that is not a listed module) node creation by a later import is order dependent -/
theorem buildGraph_sets_counterexample' :
    ¬ GraphEquiv (buildGraph ["c".toList] [absImport "a.b".toList "c".toList, absImport "c".toList "a".toList] none)
      (buildGraph ["c".toList] [absImport "c".toList "a".toList, absImport "a.b".toList "c".toList] none) := by
  intro h
  have := (h.succs "c".toList "a".toList).1 (by decide)
  revert this
  decide

example : importsClosed ["a".toList, "a.b".toList, "c".toList] [absImport "a".toList "a.b".toList, absImport "c".toList "ext.m".toList] = true := by
  decide

/-- two scans of the same tree whose directory entries are enumerated in different orders: both raise the same error, or
    both build graphs with the same nodes, the same hierarchy edges and the same import edges. No hypothesis on the
    tree, the options, the level limit or the import statements. -/
theorem scan_graph_perm (mt : Str → Str → Bool) (base rootName : Str) (mp : List Str) (entries entries' : List Entry)
    (o : ScanOptions) (h : entries.Perm entries') :
    SameScan (generateGraph mt base rootName mp entries o) (generateGraph mt base rootName mp entries' o) :=
  Pta.scan_graph_perm_lemma mt base rootName mp entries entries' o h

/-- hence every rule has the same verdict on both scans -/
theorem scan_verdict_perm (mt mt' : Str → Str → Bool) (base rootName : Str) (mp : List Str) (entries entries' : List Entry)
    (o : ScanOptions) (h : entries.Perm entries') (g g' : PGraph Str)
    (hg : generateGraph mt base rootName mp entries o = .ok g) (hg' : generateGraph mt base rootName mp entries' o = .ok g')
    (r : RuleState) : verdictOf mt' g r = verdictOf mt' g' r :=
  Pta.scan_verdict_perm_lemma mt mt' base rootName mp entries entries' o h g g' hg hg' r

namespace Ex
def e1 : Entry := { rel := ["a.py".toList], isDir := false,
                    stmts := [.imp ["pkg.sub.b".toList], .impFrom (some "sub".toList) ["b".toList] 1] }
def e2 : Entry := { rel := ["sub".toList], isDir := true }
def e3 : Entry := { rel := ["sub".toList, "b.py".toList], isDir := false,
                    stmts := [.impFrom none ["a".toList] 2, .imp ["os.path".toList]] }
def opts : ScanOptions := { exclusions := .globs [], excludeExternal := false }
def nodesOf (x : Except ErrKind (PGraph Str)) : Option (List Str) := match x with | .ok g => some g.nodes | .error _ => none
end Ex

example : [Ex.e1, Ex.e2, Ex.e3].Perm [Ex.e3, Ex.e2, Ex.e1] :=
  ((List.Perm.swap _ _ _).trans ((List.Perm.swap _ _ _).cons _)).trans (List.Perm.swap _ _ _)

set_option maxRecDepth 8000 in
/-- the two enumerations really produce different node LISTS (and both scans succeed, with external modules) -/
example : Ex.nodesOf (generateGraph (fun _ _ => false) "/r/pkg".toList "pkg".toList [] [Ex.e1, Ex.e2, Ex.e3] Ex.opts) =
    some ["pkg".toList, "pkg.a".toList, "pkg.sub".toList, "pkg.sub.b".toList, "os.path".toList, "os".toList] ∧
  Ex.nodesOf (generateGraph (fun _ _ => false) "/r/pkg".toList "pkg".toList [] [Ex.e3, Ex.e2, Ex.e1] Ex.opts) =
    some ["pkg".toList, "pkg.sub".toList, "pkg.sub.b".toList, "pkg.a".toList, "os.path".toList, "os".toList] := by decide


/-! ## the MESSAGE (audit finding F7)

The theorems above and the layer theorems below conclude equality of the verdict CLASS (`verdictOf`, `.cls`). The
following ones conclude equality of the whole outcome of `assert_applies` as the user sees it (`TextVerdict`): pass,
the same error, or `AssertionError` with literally THE SAME LIST OF MESSAGE LINES (`PtaModel/Message.lean`, transcribed
from message_generator.py). Reason: the eight violation buckets depend on graph, subjects and objects only as sets, the
generator sorts the objects inside a `does not import` line, and the lines are emitted as `sorted(set(lines))`. -/

/-- master statement for module rules: two rule objects that list the same subjects / objects (in any order, with any
    multiplicity — `SameRuleUpToOrder`), applied to two graphs with the same node and edge SETS, give the same outcome
    with the same message lines. Covers every rule state (all verbs, `except`, `anything`, regex filters, unfinished or
    ill-configured rules). -/
theorem report_congr (mt : Str → Str → Bool) (g g' : PGraph Str) (hg : GraphEquiv g g') (r r' : RuleState)
    (h : SameRuleUpToOrder r r') : (assertAppliesText mt r g).2 = (assertAppliesText mt r' g').2 :=
  Pta.report_congr_lemma mt g g' hg r r' h

/-- the order in which subjects are listed is irrelevant for the message -/
theorem report_perm_subjects (mt : Str → Str → Bool) (g : PGraph Str) (s o n dir exc : Bool) (subs subs' objs : List Filter)
    (h : subs.Perm subs') :
    (assertAppliesText mt (mkRule s o n dir exc subs objs) g).2 = (assertAppliesText mt (mkRule s o n dir exc subs' objs) g).2 :=
  Pta.report_perm_subjects_lemma mt g s o n dir exc subs subs' objs h

/-- the order in which objects are listed is irrelevant for the message -/
theorem report_perm_objects (mt : Str → Str → Bool) (g : PGraph Str) (s o n dir exc : Bool) (subs objs objs' : List Filter)
    (h : objs.Perm objs') :
    (assertAppliesText mt (mkRule s o n dir exc subs objs) g).2 = (assertAppliesText mt (mkRule s o n dir exc subs objs') g).2 :=
  Pta.report_perm_objects_lemma mt g s o n dir exc subs objs objs' h

/-- the `anything` alias (`objects := none`, not an instance of `mkRule`): the order of the subjects of
    `S should not import / be imported by anything` is irrelevant for class and message (by `C12.alias_anything_dedup`
    the rule is the `except` rule on `dedupSubjects S`, which keeps the same members for every order of `S`) -/
theorem report_perm_anything (mt : Str → Str → Bool) (g : PGraph Str) (S S' : List Filter) (dir : Bool) (h : S.Perm S') :
    (assertAppliesText mt (anythingRule dir S) g).2 = (assertAppliesText mt (anythingRule dir S') g).2 :=
  Pta.report_perm_anything_lemma mt g S S' dir h

/-- … and so is its verdict class (the state `perm_subjects` does not cover) -/
theorem perm_subjects_anything (mt : Str → Str → Bool) (g : PGraph Str) (S S' : List Filter) (dir : Bool) (h : S.Perm S') :
    verdictOf mt g (anythingRule dir S) = verdictOf mt g (anythingRule dir S') :=
  Pta.perm_subjects_anything_lemma mt g S S' dir h

/-- text version of `reapply`: re-applying a rule object (to the same or to another architecture) gives the outcome and
    the message lines a fresh rule object gives -/
theorem report_reapply (mt : Str → Str → Bool) (s : RuleState) (g g' : PGraph Str) :
    (assertAppliesText mt (assertAppliesText mt s g).1 g').2 = (assertAppliesText mt s g').2 :=
  Pta.report_reapply_lemma mt s g g'

/-- the message of any rule depends only on the node set and the three edge sets of the graph -/
theorem report_congr_graph (mt : Str → Str → Bool) (g g' : PGraph Str) (h : GraphEquiv g g') (r : RuleState) :
    (assertAppliesText mt r g).2 = (assertAppliesText mt r g').2 :=
  Pta.report_congr_graph_lemma mt g g' h r

/-- hence not on the order in which modules and imports reach the graph constructor (also under a level limit) … -/
theorem report_perm_modules_imports (mt : Str → Str → Bool) (a a' : Arch) (hwf : a.wf = true)
    (hn : a.nodes.Perm a'.nodes) (hi : a.imports.Perm a'.imports) (lim : Option Nat) (r : RuleState) :
    (assertAppliesText mt r (archGraphLim a lim)).2 = (assertAppliesText mt r (archGraphLim a' lim)).2 :=
  Pta.report_perm_modules_imports_lemma mt a a' hwf hn hi lim r

/-- … nor on the order in which the file system enumerates directory entries -/
theorem scan_report_perm (mt mt' : Str → Str → Bool) (base rootName : Str) (mp : List Str) (entries entries' : List Entry)
    (o : ScanOptions) (h : entries.Perm entries') (g g' : PGraph Str)
    (hg : generateGraph mt base rootName mp entries o = .ok g) (hg' : generateGraph mt base rootName mp entries' o = .ok g')
    (r : RuleState) : (assertAppliesText mt' r g).2 = (assertAppliesText mt' r g').2 :=
  Pta.scan_report_perm_lemma mt mt' base rootName mp entries entries' o h g g' hg hg' r

namespace Ex
def S (s : String) : Str := s.toList
def gm : PGraph Str :=
  buildGraph [S "p", S "p.a", S "p.a.x", S "p.b", S "p.c", S "q", S "q.r"]
    [absImport (S "p.a.x") (S "q"), absImport (S "p.c") (S "p.b"), absImport (S "p.c") (S "q.r")] none
/-- the same modules and imports, handed to the constructor in another order -/
def gm' : PGraph Str :=
  buildGraph [S "q", S "q.r", S "p", S "p.c", S "p.b", S "p.a", S "p.a.x"]
    [absImport (S "p.c") (S "q.r"), absImport (S "p.a.x") (S "q"), absImport (S "p.c") (S "p.b")] none
def subsA : List Filter := [.name (S "p.a"), .name (S "p.c")]
def subsB : List Filter := [.name (S "p.c"), .name (S "p.a"), .name (S "p.c")]
def objsA : List Filter := [.name (S "q.r"), .name (S "p.b")]
def objsB : List Filter := [.name (S "p.b"), .name (S "q.r")]
end Ex

/-- the hypotheses of `report_congr` on a non-trivial instance: `should only import`, subjects and objects listed in
    different orders (one subject twice), the graph built from differently ordered lists -/
example : SameRuleUpToOrder (mkRule false true false true false Ex.subsA Ex.objsA) (mkRule false true false true false Ex.subsB Ex.objsB) :=
  ⟨by intro x; simp only [Ex.subsA, Ex.subsB, List.mem_cons, List.not_mem_nil, or_false]; grind,
   by intro x; simp only [Ex.objsA, Ex.objsB, List.mem_cons, List.not_mem_nil, or_false]; exact Or.comm,
   fun _ => Iff.rfl, rfl, rfl, rfl, rfl, rfl, rfl⟩
example : Ex.objsA.Perm Ex.objsB := List.Perm.swap _ _ _
set_option maxRecDepth 8000 in
example : importsClosed [Ex.S "p", Ex.S "p.a", Ex.S "p.a.x", Ex.S "p.b", Ex.S "p.c", Ex.S "q", Ex.S "q.r"]
    [absImport (Ex.S "p.a.x") (Ex.S "q"), absImport (Ex.S "p.c") (Ex.S "p.b"), absImport (Ex.S "p.c") (Ex.S "q.r")] = true := by
  decide
set_option maxRecDepth 8000 in
example : GraphEquiv Ex.gm Ex.gm' :=
  buildGraph_sets none _ _ _ _ (by intro x; simp only [List.mem_cons, List.not_mem_nil, or_false]; grind)
    (by intro x; simp only [List.mem_cons, List.not_mem_nil, or_false]; grind) (by decide)
set_option maxRecDepth 8000 in
/-- … on which the message is not trivial, the graphs differ as data, and both sides are literally the same two lines -/
example : Ex.gm.nodes ≠ Ex.gm'.nodes ∧
    (assertAppliesText (fun _ _ => false) (mkRule false true false true false Ex.subsA Ex.objsA) Ex.gm).2 = .fail
      [Ex.S "\"p.a\" does not import \"p.b\", \"q.r\".", Ex.S "\"p.a.x\" imports \"q\"."] ∧
    (assertAppliesText (fun _ _ => false) (mkRule false true false true false Ex.subsB Ex.objsB) Ex.gm').2 = .fail
      [Ex.S "\"p.a\" does not import \"p.b\", \"q.r\".", Ex.S "\"p.a.x\" imports \"q\"."] := by decide

set_option maxRecDepth 8000 in
/-- the report ITEMS (before rendering) do depend on the order: the objects of a `does not import` item are listed in
    the order given; it is the generator's sorting that makes the message lines equal -/
example : (assertApplies (fun _ _ => false) (mkRule false true false true false Ex.subsA Ex.objsA) Ex.gm).2 ≠
    (assertApplies (fun _ _ => false) (mkRule false true false true false Ex.subsA Ex.objsB) Ex.gm).2 := by decide

/-- the `anything` form with permuted subjects, one of them a sub module of another -/
example : [Filter.name (Ex.S "p.a"), .name (Ex.S "p.a.x"), .name (Ex.S "p.c")].Perm
    [.name (Ex.S "p.c"), .name (Ex.S "p.a.x"), .name (Ex.S "p.a")] := by decide
set_option maxRecDepth 8000 in
example : (assertAppliesText (fun _ _ => false) (anythingRule true [.name (Ex.S "p.c"), .name (Ex.S "p.a.x"), .name (Ex.S "p.a")]) Ex.gm).2 =
    .fail [Ex.S "\"p.a.x\" imports \"q\".", Ex.S "\"p.c\" imports \"p.b\".", Ex.S "\"p.c\" imports \"q.r\"."] := by decide

/-! ## layers -/

/-- the order in which the layers were DEFINED does not matter — no hypothesis (since the repair of
    `LayerRuleMatcher._update_layer_mapping`): if the mapping the rule uses assigns some module identifier to two layers
    with different names, the rule raises `LayerMismatch` for EVERY definition order; otherwise the lenient detector sees
    the same layer of every module and the same set of layer names. Layer names need not be distinct (the builder forbids
    duplicates, the theorem does not need that), `layerOf` may report mismatches, the rule may be unfinished or
    ill-configured. -/
theorem perm_layers (mt : Str → Str → Bool) (larch larch' : LArch) (rule : Option RuleState) (g : PGraph Str)
    (hp : larch.Perm larch') :
    (assertAppliesLayer mt ⟨some larch, rule⟩ g).cls = (assertAppliesLayer mt ⟨some larch', rule⟩ g).cls :=
  Pta.perm_layers_lemma mt larch larch' rule g hp

/-- the same one level down, for the rule matcher -/
theorem perm_layers_rule (mt : Str → Str → Bool) (g : PGraph Str) (a a' : LArch) (b : Behavior) (ir : Bool)
    (ss os : List Filter) (hp : a.Perm a') :
    (matchLayerRule mt g a b ir ss os).cls = (matchLayerRule mt g a' b ir ss os).cls :=
  Pta.matchLayerRule_perm_layers_lemma mt g a a' b ir ss os hp

/-- the check itself does not depend on the definition order -/
theorem consistent_perm (m m' : LayerMap) (hp : m.Perm m') : m.consistent = m'.consistent :=
  Pta.consistent_perm hp

namespace Ex
def g : PGraph Str := buildGraph ["x".toList, "y".toList] [absImport "x".toList "y".toList] none
/-- a regex engine for the examples: the pattern "x|y" matches x and y, every other pattern matches itself only -/
def mt : Str → Str → Bool := fun r m => if r == "x|y".toList then (m == "x".toList || m == "y".toList) else r == m
def la : LArch := [("A".toList, [.name "x".toList]), ("B".toList, [.regex "x|y".toList])]
def lb : LArch := [("B".toList, [.regex "x|y".toList]), ("A".toList, [.name "x".toList])]
def rule : RuleState := mkRule false false true true false [.name "x".toList] [.regex "x|y".toList]
def lc : LArch := [("A".toList, [.name "x".toList]), ("B".toList, [.regex "y".toList])]
def ld : LArch := [("B".toList, [.regex "y".toList]), ("A".toList, [.name "x".toList])]
def rule2 : RuleState := mkRule false false true true false [.name "x".toList] [.regex "y".toList]
/-- a rule on the overlapping architecture `la` / `lb` that does not mention the regex of layer B -/
def rule3 : RuleState := mkRule false false true true false [.name "x".toList] [.name "y".toList]
end Ex

/-- the former counterexample (before the repair "A should not access B" passed for one definition order and failed for
    the other): module `x` is listed in layer A and matched by the regex of layer B (the builder accepts this); now BOTH
    definition orders raise `LayerMismatch` -/
theorem perm_layers_overlap_rejected :
    runLArch [.layer "A".toList, .containingModules ["x".toList], .layer "B".toList, .matching "x|y".toList] = .ok Ex.la ∧
    Ex.la.Perm Ex.lb ∧ layersDisjoint Ex.mt Ex.g.nodes Ex.la = false ∧
    assertAppliesLayer Ex.mt ⟨some Ex.la, some Ex.rule⟩ Ex.g = .err .layerMismatch ∧
    assertAppliesLayer Ex.mt ⟨some Ex.lb, some Ex.rule⟩ Ex.g = .err .layerMismatch :=
  ⟨by rfl, List.Perm.swap _ _ _, by decide, by decide, by decide⟩

/-- non-overlapping layers: a verdict, the same for both orders -/
example : Ex.lc.Perm Ex.ld ∧ layersDisjoint Ex.mt Ex.g.nodes Ex.lc = true ∧
    (assertAppliesLayer Ex.mt ⟨some Ex.lc, some Ex.rule2⟩ Ex.g).cls = .fail ∧
    (assertAppliesLayer Ex.mt ⟨some Ex.ld, some Ex.rule2⟩ Ex.g).cls = .fail :=
  ⟨List.Perm.swap _ _ _, by decide, by decide, by decide⟩

/-- the check looks at the mapping THIS rule uses: a regex layer whose pattern does not occur in the rule contributes
    nothing (as in `_replace_regex_specified_modules_with_actual_modules`), so the overlapping architecture is not
    rejected by a rule that mentions only names — and the verdict is again the same for both orders -/
example : (assertAppliesLayer Ex.mt ⟨some Ex.la, some Ex.rule3⟩ Ex.g).cls = .fail ∧
    (assertAppliesLayer Ex.mt ⟨some Ex.lb, some Ex.rule3⟩ Ex.g).cls = .fail := by decide

/-- the order in which the subject / object filters of a layer rule are listed does not matter (no hypothesis) … -/
theorem perm_layer_rule_filters (mt : Str → Str → Bool) (g : PGraph Str) (a : LArch) (s o n dir exc : Bool)
    (subs subs' objs objs' : List Filter) (hs : subs.Perm subs') (ho : objs.Perm objs') :
    (assertAppliesLayer mt ⟨some a, some (mkRule s o n dir exc subs objs)⟩ g).cls =
      (assertAppliesLayer mt ⟨some a, some (mkRule s o n dir exc subs' objs')⟩ g).cls :=
  Pta.perm_layer_rule_filters_lemma mt g a s o n dir exc subs subs' objs objs' hs ho

/-- … and naming the object LAYERS in another order only permutes the filters that `are_named` appends to the rule
    (or raises the same error), so together with `perm_layer_rule_filters` the order of the object layers is irrelevant -/
theorem perm_object_layers (a : LArch) (ls ls' : List Str) (h : ls.Perm ls') :
    match ls.mapM a.get, ls'.mapM a.get with
    | .ok ms, .ok ms' => ms.flatten.Perm ms'.flatten
    | .error e, .error e' => e = e'
    | _, _ => False :=
  Pta.layers_get_perm_lemma a ls ls' h


/-! ### layer rules: the message -/

/-- master statement for layer rules: layers defined in another order, a rule that lists the same subject / object
    filters (hence the same subject / object layers) in another order, and two graphs with the same node / edge sets give
    the same outcome with the same message lines -/
theorem report_layer_congr (mt : Str → Str → Bool) (g g' : PGraph Str) (hg : GraphEquiv g g') (a a' : LArch) (hp : a.Perm a')
    (r r' : RuleState) (h : SameRuleUpToOrder r r') :
    assertAppliesLayerText mt ⟨some a, some r⟩ g = assertAppliesLayerText mt ⟨some a', some r'⟩ g' :=
  Pta.report_layer_congr_lemma mt g g' hg a a' hp r r' h

/-- the message of a layer rule depends only on the node set and the edge sets of the graph (the layer mapping the rule
    uses expands regex layers over the module LIST, but enters the detector and the generator only through member sets) -/
theorem report_layer_congr_graph (mt : Str → Str → Bool) (g g' : PGraph Str) (hg : GraphEquiv g g') (s : LayerRuleState) :
    assertAppliesLayerText mt s g = assertAppliesLayerText mt s g' :=
  Pta.report_layer_congr_graph_lemma mt g g' hg s

/-- hence two scans whose directory entries are enumerated in different orders give every layer rule the same outcome
    and the same message -/
theorem scan_report_layer_perm (mt mt' : Str → Str → Bool) (base rootName : Str) (mp : List Str) (entries entries' : List Entry)
    (o : ScanOptions) (h : entries.Perm entries') (g g' : PGraph Str)
    (hg : generateGraph mt base rootName mp entries o = .ok g) (hg' : generateGraph mt base rootName mp entries' o = .ok g')
    (s : LayerRuleState) : assertAppliesLayerText mt' s g = assertAppliesLayerText mt' s g' :=
  Pta.scan_report_layer_perm_lemma mt mt' base rootName mp entries entries' o h g g' hg hg' s

/-- text version of `perm_layers`: the message does not depend on the order in which the layers were DEFINED -/
theorem report_perm_layers (mt : Str → Str → Bool) (larch larch' : LArch) (rule : Option RuleState) (g : PGraph Str)
    (hp : larch.Perm larch') :
    assertAppliesLayerText mt ⟨some larch, rule⟩ g = assertAppliesLayerText mt ⟨some larch', rule⟩ g :=
  Pta.report_perm_layers_lemma mt larch larch' rule g hp

/-- text version of `perm_layer_rule_filters` (with `perm_object_layers`: of the order in which the object LAYERS are
    named) -/
theorem report_perm_layer_rule_filters (mt : Str → Str → Bool) (g : PGraph Str) (a : LArch) (s o n dir exc : Bool)
    (subs subs' objs objs' : List Filter) (hs : subs.Perm subs') (ho : objs.Perm objs') :
    assertAppliesLayerText mt ⟨some a, some (mkRule s o n dir exc subs objs)⟩ g =
      assertAppliesLayerText mt ⟨some a, some (mkRule s o n dir exc subs' objs')⟩ g :=
  Pta.report_perm_layer_rule_filters_lemma mt g a s o n dir exc subs subs' objs objs' hs ho

namespace Ex
def lg : PGraph Str :=
  buildGraph [S "p", S "p.a", S "p.a.x", S "q", S "s", S "r"]
    [absImport (S "p.a.x") (S "q"), absImport (S "p.a") (S "s")] none
def la1 : LArch := [(S "A", [.name (S "p.a")]), (S "B", [.name (S "q")]), (S "C", [.name (S "r")]), (S "D", [.name (S "s")])]
def la2 : LArch := [(S "D", [.name (S "s")]), (S "C", [.name (S "r")]), (S "A", [.name (S "p.a")]), (S "B", [.name (S "q")])]
end Ex

example : Ex.la1.Perm Ex.la2 := by decide
set_option maxRecDepth 8000 in
/-- `A should only access C, D` against the two definition orders, objects named in the two orders: the same three lines -/
example :
    assertAppliesLayerText (fun _ _ => false)
      ⟨some Ex.la1, some (mkRule false true false true false [.name (Ex.S "p.a")] [.name (Ex.S "r"), .name (Ex.S "s")])⟩ Ex.lg =
      .fail [Ex.S "\"p.a.x\" (layer \"A\") imports \"q\" (layer \"B\").", Ex.S "Layer \"A\" does not import layer \"C\"."] ∧
    assertAppliesLayerText (fun _ _ => false)
      ⟨some Ex.la2, some (mkRule false true false true false [.name (Ex.S "p.a")] [.name (Ex.S "s"), .name (Ex.S "r")])⟩ Ex.lg =
      .fail [Ex.S "\"p.a.x\" (layer \"A\") imports \"q\" (layer \"B\").", Ex.S "Layer \"A\" does not import layer \"C\"."] := by
  decide


namespace Ex
/-- a regex engine for the example: the pattern `P` matches the identifiers that start with `p` -/
def mtP : Str → Str → Bool := fun r m => r == S "P" && m.take 1 == S "p"
def laP : LArch := [(S "P", [.regex (S "P")]), (S "Q", [.name (S "q")])]
def ruleP : RuleState := mkRule false false true true false [.regex (S "P")] [.name (S "q")]
end Ex
set_option maxRecDepth 8000 in
/-- `report_layer_congr_graph` on the two differently ordered graphs `Ex.gm` / `Ex.gm'` with a regex layer: the layer
    mappings the rule uses list the matched modules in different orders, the message is the same two lines -/
example : updateLayerMap Ex.mtP Ex.gm.nodes Ex.laP [Ex.S "P"] ≠ updateLayerMap Ex.mtP Ex.gm'.nodes Ex.laP [Ex.S "P"] ∧
    assertAppliesLayerText Ex.mtP ⟨some Ex.laP, some Ex.ruleP⟩ Ex.gm =
      .fail [Ex.S "\"p.a.x\" (layer \"P\") imports \"q\" (layer \"Q\").",
             Ex.S "\"p.c\" (layer \"P\") imports \"q.r\" (layer \"Q\")."] ∧
    assertAppliesLayerText Ex.mtP ⟨some Ex.laP, some Ex.ruleP⟩ Ex.gm' =
      .fail [Ex.S "\"p.a.x\" (layer \"P\") imports \"q\" (layer \"Q\").",
             Ex.S "\"p.c\" (layer \"P\") imports \"q.r\" (layer \"Q\")."] := by decide

/-! ### the fluent API

The statements above are about finished rule objects. At the level of the calls the user writes: -/

/-- two `Rule` call chains that differ only in the order in which the names are listed inside `are_named(...)`,
    `are_sub_modules_of(...)`, `have_name_containing(...)` (`RuleOpsUpToOrder`: element-wise `RuleOpPerm`), run against
    two graphs with the same node / edge sets: the same call raises the same error, or `assert_applies` gives the same
    outcome with the same message lines (the second component is the index of the raising call) -/
theorem run_report_perm (glob : Str → Str) (mt : Str → Str → Bool) (g g' : PGraph Str) (hg : GraphEquiv g g')
    (ops ops' : List RuleOp) (h : RuleOpsUpToOrder ops ops') :
    runRuleOpsText glob mt ops g = runRuleOpsText glob mt ops' g' :=
  Pta.run_report_perm_lemma glob mt g g' hg ops ops' h

/-- the same for `LayerRule` call chains: the layer names inside `are_named(...)` listed in another order, and
    `based_on` given an architecture whose layers were defined in another order (`ArchRel`: a permutation under which every
    layer name denotes the same filters — for architectures the builder produces, any permutation: `archRel_of_builder`) -/
theorem run_layer_report_perm (mt : Str → Str → Bool) (g g' : PGraph Str) (hg : GraphEquiv g g')
    (ops ops' : List LayerRuleOp) (h : LayerRuleOpsUpToOrder ops ops') :
    runLayerRuleOpsText mt ops g = runLayerRuleOpsText mt ops' g' :=
  Pta.run_layer_report_perm_lemma mt g g' hg ops ops' h

theorem archRel_of_builder (h : List LArchOp) (a a' : LArch) (ha : runLArch h = .ok a) (hp : a.Perm a') :
    Pta.OrdR.ArchRel a a' :=
  Pta.archRel_of_builder_lemma h a a' ha hp

namespace Ex
def opsA : List RuleOp :=
  [.modulesThat, .areNamed [S "p.a", S "p.c"], .shouldOnly, .importThat, .areNamed [S "q.r", S "p.b"]]
def opsB : List RuleOp :=
  [.modulesThat, .areNamed [S "p.c", S "p.a"], .shouldOnly, .importThat, .areNamed [S "p.b", S "q.r"]]
def buildLa1 : List LArchOp :=
  [.layer (S "A"), .containingModules [S "p.a"], .layer (S "B"), .containingModules [S "q"],
   .layer (S "C"), .containingModules [S "r"], .layer (S "D"), .containingModules [S "s"]]
def lopsA : List LayerRuleOp :=
  [.basedOn la1, .layersThat, .areNamed [S "A"] false, .shouldOnly, .access, .areNamed [S "C", S "D"] true]
def lopsB : List LayerRuleOp :=
  [.basedOn la2, .layersThat, .areNamed [S "A"] false, .shouldOnly, .access, .areNamed [S "D", S "C"] true]
end Ex

example : RuleOpsUpToOrder Ex.opsA Ex.opsB :=
  .cons (.refl _) (.cons (.areNamed (List.Perm.swap _ _ _)) (.cons (.refl _) (.cons (.refl _)
    (.cons (.areNamed (List.Perm.swap _ _ _)) .nil))))
set_option maxRecDepth 8000 in
example : runRuleOpsText id (fun _ _ => false) Ex.opsB Ex.gm' =
    (.fail [Ex.S "\"p.a\" does not import \"p.b\", \"q.r\".", Ex.S "\"p.a.x\" imports \"q\"."], 5) := by decide
example : runLArch Ex.buildLa1 = .ok Ex.la1 := by rfl
example : LayerRuleOpsUpToOrder Ex.lopsA Ex.lopsB :=
  .cons (.basedOn (archRel_of_builder Ex.buildLa1 Ex.la1 Ex.la2 (by rfl) (by decide))) (.cons (.refl _) (.cons (.refl _) (.cons (.refl _)
    (.cons (.refl _) (.cons (.areNamed true (List.Perm.swap _ _ _)) .nil)))))
set_option maxRecDepth 8000 in
example : runLayerRuleOpsText (fun _ _ => false) Ex.lopsB Ex.lg =
    (.fail [Ex.S "\"p.a.x\" (layer \"A\") imports \"q\" (layer \"B\").", Ex.S "Layer \"A\" does not import layer \"C\"."], 6) := by
  decide

/-! ## diagram rules -/

/-- `MultipleRuleApplier`: if no generated rule raises, pass / fail and the collected violation items (as a multiset) do
    not depend on the order of the rules -/
theorem applyAll_perm (mt : Str → Str → Bool) (g : PGraph Str) (rules rules' : List RuleState) (hp : rules.Perm rules')
    (h : ∀ r ∈ rules, ∀ k, (assertApplies mt r g).2 ≠ .err k) :
    (applyAll mt g rules).cls = (applyAll mt g rules').cls ∧ (∀ k, (applyAll mt g rules).cls ≠ .err k) ∧
    (applyAll mt g rules).items.Perm (applyAll mt g rules').items :=
  Pta.applyAll_perm_ok_lemma mt g rules rules' hp h

/-- if some generated rule raises, the result is an error for every order: the error of one of the raising rules (the
    first in the respective order), hence the same error if all raising rules raise the same kind -/
theorem applyAll_perm_err (mt : Str → Str → Bool) (g : PGraph Str) (rules rules' : List RuleState) (hp : rules.Perm rules')
    (h : ∃ r ∈ rules, ∃ k, (assertApplies mt r g).2 = .err k) :
    ∃ k k', applyAll mt g rules = .err k ∧ applyAll mt g rules' = .err k' ∧
      (∃ r ∈ rules, (assertApplies mt r g).2 = .err k) ∧ (∃ r ∈ rules, (assertApplies mt r g).2 = .err k') :=
  Pta.applyAll_perm_err_lemma mt g rules rules' hp h

theorem applyAll_perm_err_same (mt : Str → Str → Bool) (g : PGraph Str) (rules rules' : List RuleState)
    (hp : rules.Perm rules') (e0 : ErrKind)
    (h : ∃ r ∈ rules, ∃ k, (assertApplies mt r g).2 = .err k)
    (hall : ∀ r ∈ rules, ∀ k, (assertApplies mt r g).2 = .err k → k = e0) :
    applyAll mt g rules = .err e0 ∧ applyAll mt g rules' = .err e0 :=
  Pta.applyAll_perm_err_same_lemma mt g rules rules' hp e0 h hall

namespace Ex
def rFail : RuleState := mkRule false false true true false [.name "x".toList] [.name "y".toList]
def rPass : RuleState := mkRule true false false true false [.name "x".toList] [.name "y".toList]
def rFail2 : RuleState := mkRule true false false true false [.name "y".toList] [.name "x".toList]
def rCfg : RuleState := mkRule true false false true false [] [.name "y".toList]
def rLook : RuleState := mkRule true false false true false [.name "x".toList] [.name "zzz".toList]
end Ex

example : (applyAll (fun _ _ => false) Ex.g [Ex.rFail, Ex.rPass, Ex.rFail2]).cls = .fail ∧
    (applyAll (fun _ _ => false) Ex.g [Ex.rFail2, Ex.rPass, Ex.rFail]).cls = .fail ∧
    (applyAll (fun _ _ => false) Ex.g [Ex.rFail, Ex.rPass, Ex.rFail2]).items ≠
      (applyAll (fun _ _ => false) Ex.g [Ex.rFail2, Ex.rPass, Ex.rFail]).items := by decide

/-- the error KIND does depend on the order when rules raise different kinds -/
theorem applyAll_error_kind_counterexample :
    (applyAll (fun _ _ => false) Ex.g [Ex.rCfg, Ex.rLook]).cls = .err .improperlyConfigured ∧
    (applyAll (fun _ _ => false) Ex.g [Ex.rLook, Ex.rCfg]).cls = .err .lookupError := by decide

/-! ## diagram lines -/

/-- `PumlParser.parse` is tag slicing followed by `_unify` on the per-line results: the alias check of
    `_get_modules_by_alias` (parsing error when one alias is declared for two components), then the aggregation -/
theorem pumlParse_aggregate (content : Str) :
    pumlParse content = (pumlBody (pyStrip content)).bind fun body =>
      pumlUnify ((splitLines body).flatMap lineModules) ((splitLines body).filterMap lineDependency) :=
  Pta.pumlParse_aggregate_lemma content

/-- `SameDiagram`, spelled out: both outcomes are the parsing error, or both are results with the same module SET and
    the same dependency RELATION -/
theorem sameDiagram_iff (x y : Except ErrKind Parsed') :
    SameDiagram x y ↔ (x = .error .pumlParsingError ∧ y = .error .pumlParsingError) ∨
      ∃ p q, x = .ok p ∧ y = .ok q ∧ (∀ m, m ∈ p.modules ↔ m ∈ q.modules) ∧ (∀ k v, p.hasDep k v = q.hasDep k v) :=
  Pta.sameDiagram_iff_lemma x y

/-- permuting the lines of a diagram body — NO side condition any more: either both orders are rejected with the
    parsing error (one alias declared for two components) or both yield the same module SET and the same dependency
    RELATION. (`pumlUnify` = alias check + aggregation, i.e. everything `pumlParse` does behind the line recognisers.) -/
theorem diagram_lines_perm (lines lines' : List Str) (h : lines.Perm lines') :
    SameDiagram (pumlUnify (lines.flatMap lineModules) (lines.filterMap lineDependency))
      (pumlUnify (lines'.flatMap lineModules) (lines'.filterMap lineDependency)) :=
  Pta.diagram_lines_perm_lemma lines lines' h

/-- the same for `pumlParse` on whole files whose tags are fine: the bodies have the same lines in a different order -/
theorem diagram_parse_perm (content content' body body' : Str)
    (hb : pumlBody (pyStrip content) = .ok body) (hb' : pumlBody (pyStrip content') = .ok body')
    (h : (splitLines body).Perm (splitLines body')) :
    SameDiagram (pumlParse content) (pumlParse content') :=
  Pta.diagram_parse_perm_lemma content content' body body' hb hb' h

/-- … and for files written as noise / `@startuml` / ARBITRARY raw lines / `@enduml` / noise -/
theorem diagram_text_perm (noise1 noise2 : Str) (lines lines' : List Str) (h : lines.Perm lines')
    (hl : ∀ l ∈ lines, '\n' ∉ l ∧ '@' ∉ l) (hn : isInfix "@enduml".toList noise2 = false) :
    SameDiagram (pumlParse (linesText noise1 lines noise2)) (pumlParse (linesText noise1 lines' noise2)) :=
  Pta.diagram_text_perm_lemma noise1 noise2 lines lines' h hl hn

/-- such a file parses to `_unify` of the per-line results of its lines -/
theorem parse_linesText (noise1 noise2 : Str) (lines : List Str) (hl : ∀ l ∈ lines, '\n' ∉ l ∧ '@' ∉ l)
    (hn : isInfix "@enduml".toList noise2 = false) :
    pumlParse (linesText noise1 lines noise2) = pumlUnify (lines.flatMap lineModules) (lines.filterMap lineDependency) :=
  Pta.parse_linesText_lemma noise1 noise2 lines hl hn

/-- the same at the level of the per-line results -/
theorem aggregate_perm (modules modules' : List PModule) (rawDeps rawDeps' : List (Str × Str))
    (hm : modules.Perm modules') (hd : rawDeps.Perm rawDeps') :
    SameDiagram (pumlUnify modules rawDeps) (pumlUnify modules' rawDeps') :=
  Pta.unify_perm_lemma modules modules' rawDeps rawDeps' hm hd

/-- the aggregation step alone (behind a passed check), as before the repair -/
theorem aggregate_perm_checked (modules modules' : List PModule) (rawDeps rawDeps' : List (Str × Str))
    (hm : modules.Perm modules') (hd : rawDeps.Perm rawDeps') (hc : aliasesConsistent modules = true) :
    (∀ x, x ∈ (pumlAggregate modules rawDeps).modules ↔ x ∈ (pumlAggregate modules' rawDeps').modules) ∧
    (∀ k v, (pumlAggregate modules rawDeps).hasDep k v = (pumlAggregate modules' rawDeps').hasDep k v) :=
  Pta.aggregate_perm_lemma modules modules' rawDeps rawDeps' hm hd hc

namespace Ex
def l1 : List Str := ["[mod a] as x".toList, "[b] as y".toList, "x --> y".toList, "y --> c".toList]
def l2 : List Str := ["y --> c".toList, "x --> y".toList, "[b] as y".toList, "[mod a] as x".toList]
def l3 : List Str := ["[a] as x".toList, "[b] as x".toList, "x --> c".toList]
def l4 : List Str := ["[b] as x".toList, "[a] as x".toList, "x --> c".toList]
def agg (ls : List Str) : Parsed' := pumlAggregate (ls.flatMap lineModules) (ls.filterMap lineDependency)
def unify (ls : List Str) : Except ErrKind Parsed' := pumlUnify (ls.flatMap lineModules) (ls.filterMap lineDependency)
end Ex

-- a genuine permutation on which the check passes; the two results differ as lists and agree as sets
example : Ex.l1.Perm Ex.l2 := by decide
example : okModules (Ex.unify Ex.l1) = some ["mod a".toList, "b".toList, "c".toList] ∧
    okModules (Ex.unify Ex.l2) = some ["mod a".toList, "c".toList, "b".toList] := by decide
example : aliasesConsistent (Ex.l1.flatMap lineModules) = true ∧ (Ex.agg Ex.l1).modules ≠ (Ex.agg Ex.l2).modules ∧
    (Ex.agg Ex.l1).hasDep "mod a".toList "b".toList = true ∧ (Ex.agg Ex.l2).hasDep "mod a".toList "b".toList = true := by
  decide
-- hypotheses of `diagram_text_perm` / `parse_linesText`
example : (∀ l ∈ Ex.l1, '\n' ∉ l ∧ '@' ∉ l) ∧ (∀ l ∈ Ex.l3, '\n' ∉ l ∧ '@' ∉ l) ∧
    isInfix "@enduml".toList "\n' trailing @startuml junk".toList = false := by decide
set_option maxRecDepth 10000 in
example : linesText "junk\n".toList Ex.l3 "\n".toList =
    "junk\n@startuml\n[a] as x\n[b] as x\nx --> c\n@enduml\n".toList := by decide

/-- **repaired** (was `diagram_lines_counterexample`: alias `x` declared for `a` and for `b`, and the arrow `x --> c` was
    attributed to whichever declaration came last). Now both line orders are rejected with the parsing error — at the
    level of the per-line results and for the files themselves. -/
theorem conflicting_alias_rejected :
    Ex.l3.Perm Ex.l4 ∧ aliasesConsistent (Ex.l3.flatMap lineModules) = false ∧
    Ex.unify Ex.l3 = .error .pumlParsingError ∧ Ex.unify Ex.l4 = .error .pumlParsingError ∧
    pumlParse (linesText [] Ex.l3 []) = .error .pumlParsingError ∧
    pumlParse (linesText [] Ex.l4 []) = .error .pumlParsingError := by
  refine ⟨List.Perm.swap _ _ _, by decide, Pta.eq_error_of_check_lemma _ (by decide), Pta.eq_error_of_check_lemma _ (by decide), ?_, ?_⟩
  · rw [parse_linesText [] [] Ex.l3 (by decide) (by decide)]
    exact Pta.eq_error_of_check_lemma _ (by decide)
  · rw [parse_linesText [] [] Ex.l4 (by decide) (by decide)]
    exact Pta.eq_error_of_check_lemma _ (by decide)

/-- what used to go wrong is still visible in the aggregation step WITHOUT the check: it is the check that repairs it -/
theorem aggregation_without_check_depends_on_order :
    (Ex.agg Ex.l3).hasDep "b".toList "c".toList = true ∧ (Ex.agg Ex.l4).hasDep "b".toList "c".toList = false :=
  ⟨by decide, by decide⟩

end Pta.C15
