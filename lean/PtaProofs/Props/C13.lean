/-
  PtaProofs.Props.C13 — undefined or incomplete specifications never produce a verdict (property C13).
  Histories of fluent calls are classified by the independent specification automata of
  PtaSpec/BuilderSpec.lean; the theorems quantify over ALL call sequences (any length), all graphs,
  all regex interpretations.
-/
import Bridge.Abs
import PtaProofs.Lemmas.Builders
import PtaProofs.Lemmas.AnythingDedup
import PtaProofs.Lemmas.NoMatchExact
namespace Pta.C13
open Pta PtaSpec

/-- a Rule history the specification classifies as incomplete, contradictory or as an error at some call
    never yields a verdict -/
theorem rule_history_raises (glob : Str → Str) (mt : Str → Str → Bool) (ops : List RuleOp) (g : PGraph Str) :
    (classifyRule (ops.map toRCall)).mustRaise = true → ∃ k, (runRuleOps glob mt ops g).1 = .err k :=
  Pta.rule_history_raises_lemma glob mt ops g

/-- … and when the offending call is a naming call before any subject/object position, the configuration
    error is raised at exactly that call -/
theorem rule_history_error_at (glob : Str → Str) (mt : Str → Str → Bool) (ops : List RuleOp) (g : PGraph Str) (i : Nat) :
    classifyRule (ops.map toRCall) = .errorAtCall i → runRuleOps glob mt ops g = (.err .improperlyConfigured, i) :=
  Pta.rule_history_error_at_lemma glob mt ops g i

/-- conversely a complete history is never rejected as a configuration problem -/
theorem rule_history_complete (glob : Str → Str) (mt : Str → Str → Bool) (ops : List RuleOp) (g : PGraph Str) :
    classifyRule (ops.map toRCall) = .complete →
    (runRuleOps glob mt ops g).1 ≠ .err .improperlyConfigured ∧ (runRuleOps glob mt ops g).1 ≠ .err .ruleInconsistency :=
  Pta.rule_history_complete_lemma glob mt ops g

/-- a rule that mentions (by name or as a parent) a module absent from the graph raises a lookup error -/
theorem unknown_name (mt : Str → Str → Bool) (g : PGraph Str) (b : Behavior) (dir : Bool) (subs objs : List Filter)
    (hverb : b.should = true ∨ b.shouldOnly = true ∨ b.shouldNot = true)
    (hs : subs ≠ []) (ho : objs ≠ [])
    (hnoregex : ∀ f ∈ subs ++ objs, f.isRegex = false)
    (hmissing : ∃ f ∈ subs ++ objs, g.hasNode f.id = false) :
    matchRule mt g b dir subs objs = .err .lookupError :=
  Pta.unknown_name_lemma mt g b dir subs objs hverb hs ho hnoregex hmissing

/-- a regex that matches no module raises the no-match error (never a verdict), whatever else the rule says -/
theorem no_match (mt : Str → Str → Bool) (g : PGraph Str) (b : Behavior) (dir : Bool) (subs objs : List Filter)
    (h : ∃ f ∈ subs, f.isRegex = true ∧ ∀ m ∈ g.nodes, mt f.id m = false) :
    matchRule mt g b dir subs objs = .err .impossibleMatch :=
  Pta.no_match_lemma mt g b dir subs objs h

/-- … also in OBJECT position, and whatever the subjects are: `ModuleNameConverter.convert` is applied to the subjects and
    then to the objects before any query is asked, and it can fail with the no-match error only (`convert_raises_only_no_match`) -/
theorem no_match_object (mt : Str → Str → Bool) (g : PGraph Str) (b : Behavior) (dir : Bool) (subs objs : List Filter)
    (h : ∃ f ∈ objs, f.isRegex = true ∧ ∀ m ∈ g.nodes, mt f.id m = false) :
    matchRule mt g b dir subs objs = .err .impossibleMatch :=
  Pta.no_match_object_lemma mt g b dir subs objs h

/-- the regex conversion raises nothing but the no-match error -/
theorem convert_raises_only_no_match (mt : Str → Str → Bool) (mods : List Str) (fs : List Filter) (k : ErrKind)
    (h : convertFilters mt mods fs = .error k) : k = .impossibleMatch :=
  Pta.convertFilters_error_kind mt mods fs k h

/-- which error wins: a regex without a match anywhere in the rule (subject or object position) raises the no-match error
    even when the rule ALSO mentions a module name absent from the graph (the hypotheses of `unknown_name` may hold at the
    same time) — the names are looked up by the queries only, after both conversions -/
theorem no_match_wins_over_unknown_name (mt : Str → Str → Bool) (g : PGraph Str) (b : Behavior) (dir : Bool)
    (subs objs : List Filter)
    (h : ∃ f ∈ subs ++ objs, f.isRegex = true ∧ ∀ m ∈ g.nodes, mt f.id m = false) :
    matchRule mt g b dir subs objs = .err .impossibleMatch :=
  Pta.no_match_either_lemma mt g b dir subs objs h

/-! non-vacuity: the subject `zz` is absent from the graph AND the object regex matches nothing — `ImpossibleMatch`;
    with a matching regex the same rule raises the lookup error -/
example : ∃ f ∈ ([.regex "x.*".toList] : List Filter), f.isRegex = true ∧
    ∀ m ∈ (buildGraph ["p".toList, "q".toList] [] none).nodes, (fun _ _ => false) f.id m = false := by decide
example : matchRule (fun _ _ => false) (buildGraph ["p".toList, "q".toList] [] none) ⟨true, false, false, false⟩ true
    [.name "zz".toList] [.regex "x.*".toList] = .err .impossibleMatch := by decide
example : matchRule (fun _ _ => true) (buildGraph ["p".toList, "q".toList] [] none) ⟨true, false, false, false⟩ true
    [.name "zz".toList] [.regex "x.*".toList] = .err .lookupError := by decide

/-- finding F-C13b, repaired (`Rule._assert_modules_removed_by_alias_conversion_exist`): for `anything` rules the
    parent/sub-module de-duplication runs on names before any lookup, so an absent name that is a dotted extension of
    another subject used to be dropped silently and the rule returned a verdict although it mentions the absent module
    `p.a.zz` (the former witness `unknown_name_counterexample_anything : … = .pass`). On the same witness the rule is
    now rejected with a lookup error, raised by `assert_applies` (call index 4). -/
theorem unknown_name_anything_rejected :
    runRuleOps noGlob (fun _ _ => false)
      [.modulesThat, .areNamed ["p.a".toList, "p.a.zz".toList], .shouldNot, .importAnything]
      (buildGraph ["p".toList, "p.a".toList, "q".toList] [] none) = (.err .lookupError, 4) := by decide

/-- an `anything` rule (`should_not().import_anything()` / `be_imported_by_anything()`) that mentions (by name or as a
    parent) a module absent from the graph raises a lookup error — whether `_convert_aliases` drops that subject (the
    new existence check) or keeps it (the lookup of the queries). Every graph, every regex interpretation. -/
theorem anything_unknown_name (mt : Str → Str → Bool) (g : PGraph Str) (dir : Bool) (S : List Filter)
    (hnoregex : ∀ f ∈ S, f.isRegex = false)
    (hmissing : ∃ f ∈ S, g.hasNode f.id = false) :
    (assertApplies mt { cfg := { subjects := some S, shouldNot := true, importDir := some dir, anything := true },
                        next := some false } g).2 = .err .lookupError :=
  Pta.anything_unknown_name_lemma mt g dir S hnoregex hmissing

/-- the same for the fluent call chains `modules_that().are_named(ns) / are_sub_modules_of(ns) .should_not()
    .import_anything() / .be_imported_by_anything()`: the lookup error is raised by `assert_applies` -/
theorem anything_unknown_name_history (glob : Str → Str) (mt : Str → Str → Bool) (g : PGraph Str) (ns : List Str)
    (sub : Bool) (dir : Bool) (hmissing : ∃ n ∈ ns, g.hasNode n = false) :
    runRuleOps glob mt
      [.modulesThat, if sub then .areSubModulesOf ns else .areNamed ns, .shouldNot,
       if dir then .importAnything else .beImportedByAnything] g = (.err .lookupError, 4) := by
  obtain ⟨n, hn, hm⟩ := hmissing
  cases sub <;> cases dir <;>
    simp only [runRuleOps, runRuleOps.go, RuleState.step, RuleState.setModules, Bool.false_eq_true, if_false, if_true]
  · rw [anything_unknown_name mt g false (ns.map .name) (by simp [Filter.isRegex]) ⟨.name n, List.mem_map_of_mem hn, hm⟩]
  · rw [anything_unknown_name mt g true (ns.map .name) (by simp [Filter.isRegex]) ⟨.name n, List.mem_map_of_mem hn, hm⟩]
  · rw [anything_unknown_name mt g false (ns.map .parent) (by simp [Filter.isRegex]) ⟨.parent n, List.mem_map_of_mem hn, hm⟩]
  · rw [anything_unknown_name mt g true (ns.map .parent) (by simp [Filter.isRegex]) ⟨.parent n, List.mem_map_of_mem hn, hm⟩]

/-- layer rules get the same check (`LayerRule.assert_applies` delegates to `Rule.assert_applies`): an `access_any_layer` /
    `be_accessed_by_any_layer` rule one of whose subject filters names a module that does not exist raises the lookup error -/
theorem layer_anything_unknown_name (mt : Str → Str → Bool) (g : PGraph Str) (a : LArch) (dir : Bool) (S : List Filter)
    (hnoregex : ∀ f ∈ S, f.isRegex = false)
    (hmissing : ∃ f ∈ S, g.hasNode f.id = false) :
    assertAppliesLayer mt ⟨some a, some { cfg := { subjects := some S, shouldNot := true, importDir := some dir,
                                                    anything := true }, next := some false }⟩ g = .err .lookupError :=
  Pta.layer_anything_unknown_name_lemma mt g a dir S hnoregex hmissing

/-- a layer whose modules are `p.a` and the absent `p.a.zz`, through the LayerRule call chain -/
example :
    let a : LArch := [("L".toList, [.name "p.a".toList, .name "p.a.zz".toList]), ("M".toList, [.name "q".toList])]
    runLayerRuleOps (fun _ _ => false)
      [.basedOn a, .layersThat, .areNamed ["L".toList] false, .shouldNot, .accessAny]
      (buildGraph ["p".toList, "p.a".toList, "q".toList] [] none) = (.err .lookupError, 5) := by decide

/-! non-vacuity of `anything_unknown_name`: a dropped absent subject (`p.a.zz`, new check) and a retained one (`zz`) -/
example : ∀ f ∈ ([.name "p.a".toList, .name "p.a.zz".toList] : List Filter), f.isRegex = false := by decide
example : ∃ f ∈ ([.name "p.a".toList, .name "p.a.zz".toList] : List Filter),
    (buildGraph ["p".toList, "p.a".toList, "q".toList] [] none).hasNode f.id = false := by decide
example : dedupSubjects [.name "p.a".toList, .name "p.a.zz".toList] = [.name "p.a".toList] := by decide
example : droppedAbsent (buildGraph ["p".toList, "p.a".toList, "q".toList] [] none)
    (convertAliases { subjects := some [.name "p.a".toList, .name "p.a.zz".toList], shouldNot := true,
                      importDir := some true, anything := true }) = true := by
  decide
example : droppedAbsent (buildGraph ["p".toList, "p.a".toList, "q".toList] [] none)
    (convertAliases { subjects := some [.name "p.a".toList, .name "zz".toList], shouldNot := true,
                      importDir := some true, anything := true }) = false := by
  decide
example : ∃ f ∈ ([.name "p.a".toList, .name "zz".toList] : List Filter),
    (buildGraph ["p".toList, "p.a".toList, "q".toList] [] none).hasNode f.id = false := by decide
/-- when all subjects exist the rule still yields a verdict (the new check does not over-reject) -/
example : (runRuleOps noGlob (fun _ _ => false)
      [.modulesThat, .areNamed ["p".toList, "p.a".toList], .shouldNot, .importAnything]
      (buildGraph ["p".toList, "p.a".toList, "q".toList] [] none)).1 = .pass := by decide

/-- LayerRule histories: a history rejected by the specification automaton raises a configuration error at
    exactly that call; an undefined layer raises a lookup error at the call that names it; a history the
    inner rule automaton classifies as must-raise never yields a verdict -/
theorem layer_rule_history (mt : Str → Str → Bool) (a : LArch) (ops : List LayerRuleOp) (g : PGraph Str)
    (hbased : ∀ op ∈ ops, ∀ a', op = LayerRuleOp.basedOn a' → a' = a) :
    match classifyLayerRule (ops.map (toLRCall a)) with
    | .rejectedAt i => runLayerRuleOps mt ops g = (.err .improperlyConfigured, i)
    | .lookupAt i => runLayerRuleOps mt ops g = (.err .lookupError, i)
    | .notStarted => (runLayerRuleOps mt ops g).1 = .err .improperlyConfigured
    | .final c => c.mustRaise = true → ∃ k, (runLayerRuleOps mt ops g).1 = .err k :=
  Pta.layer_rule_history_lemma mt a ops g hbased

/-- entry point: every invalid option combination is rejected -/
theorem options (o : EntryOptions) :
    ((o.regexExclusions && o.exclusions) || (o.regexExternalExclusions && o.externalExclusions) ||
     (o.excludeExternal && (o.externalExclusions || o.regexExternalExclusions)) || !o.modulePathInsideRoot) = true ↔
    (entryOptionsError o).isSome = true := by
  cases o with
  | mk a b c d e f => cases a <;> cases b <;> cases c <;> cases d <;> cases e <;> cases f <;> decide

/-- DiagramRule without a file, or whose file has no start/end tags, raises -/
theorem diagram_without_file (mt : Str → Str → Bool) (base : Option Str) (only : Bool) (g : PGraph Str) :
    ∃ k, diagramAssert mt none base only g = .err k := ⟨_, rfl⟩

theorem diagram_without_tags (mt : Str → Str → Bool) (content : Str) (base : Option Str) (only : Bool) (g : PGraph Str)
    (h : pumlBody (pyStrip content) = .error .pumlParsingError) :
    ∃ k, diagramAssert mt (some content) base only g = .err k := by
  refine ⟨.pumlParsingError, ?_⟩
  simp [diagramAssert, pumlParse, h, bind, Except.bind]

/-! non-vacuity -/
example : (classifyRule ([RuleOp.modulesThat, .areNamed ["a".toList], .should, .importAnything].map toRCall)).mustRaise = true := by decide
example : classifyRule ([RuleOp.areNamed ["a".toList]].map toRCall) = .errorAtCall 0 := by decide
example : classifyRule ([RuleOp.modulesThat, .areNamed ["a".toList], .shouldNot, .importThat, .areNamed ["b".toList]].map toRCall) = .complete := by decide

end Pta.C13
