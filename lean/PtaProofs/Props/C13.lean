/-
  PtaProofs.Props.C13 — undefined or incomplete specifications never produce a verdict (property C13).
  Histories of fluent calls are classified by the independent specification automata of
  PtaSpec/BuilderSpec.lean; the theorems quantify over ALL call sequences (any length), all graphs,
  all regex interpretations.
-/
import Bridge.Abs
import PtaProofs.Lemmas.Builders
import PtaProofs.Lemmas.AnythingDedup
import PtaProofs.Lemmas.NoMatchExact
import Bridge.BuilderCalls
import PtaProofs.Lemmas.DiagramHist
import PtaProofs.Props.C07
namespace Pta.C13
open Pta PtaSpec

/-- a Rule history the specification classifies as incomplete, contradictory or as an error at some call
    never yields a verdict -/
theorem rule_history_raises (glob : Str → Str) (mt : Str → Str → Bool) (ops : List RuleOp) (g : PGraph Str) :
    (classifyRule (ops.map toRCall)).mustRaise = true → ∃ k, (runRuleOps glob mt ops g).1 = .err k :=
  Pta.rule_history_raises_lemma glob mt ops g

/-- … and when the offending call is a naming call before any subject/object position, the configuration
    error is raised at exactly that call -/
theorem rule_history_error_at (glob : Str → Str) (mt : Str → Str → Bool) (ops : List RuleOp) (g : PGraph Str) (i : Nat) :
    classifyRule (ops.map toRCall) = .errorAtCall i → runRuleOps glob mt ops g = (.err .improperlyConfigured, i) :=
  Pta.rule_history_error_at_lemma glob mt ops g i

/-- conversely a complete history is never rejected as a configuration problem -/
theorem rule_history_complete (glob : Str → Str) (mt : Str → Str → Bool) (ops : List RuleOp) (g : PGraph Str) :
    classifyRule (ops.map toRCall) = .complete →
    (runRuleOps glob mt ops g).1 ≠ .err .improperlyConfigured ∧ (runRuleOps glob mt ops g).1 ≠ .err .ruleInconsistency :=
  Pta.rule_history_complete_lemma glob mt ops g

/-- a rule that mentions (by name or as a parent) a module absent from the graph raises a lookup error -/
theorem unknown_name (mt : Str → Str → Bool) (g : PGraph Str) (b : Behavior) (dir : Bool) (subs objs : List Filter)
    (hverb : b.should = true ∨ b.shouldOnly = true ∨ b.shouldNot = true)
    (hs : subs ≠ []) (ho : objs ≠ [])
    (hnoregex : ∀ f ∈ subs ++ objs, f.isRegex = false)
    (hmissing : ∃ f ∈ subs ++ objs, g.hasNode f.id = false) :
    matchRule mt g b dir subs objs = .err .lookupError :=
  Pta.unknown_name_lemma mt g b dir subs objs hverb hs ho hnoregex hmissing

/-- a regex that matches no module raises the no-match error (never a verdict), whatever else the rule says -/
theorem no_match (mt : Str → Str → Bool) (g : PGraph Str) (b : Behavior) (dir : Bool) (subs objs : List Filter)
    (h : ∃ f ∈ subs, f.isRegex = true ∧ ∀ m ∈ g.nodes, mt f.id m = false) :
    matchRule mt g b dir subs objs = .err .impossibleMatch :=
  Pta.no_match_lemma mt g b dir subs objs h

/-- … also in OBJECT position, and whatever the subjects are: `ModuleNameConverter.convert` is applied to the subjects and
    then to the objects before any query is asked, and it can fail with the no-match error only (`convert_raises_only_no_match`) -/
theorem no_match_object (mt : Str → Str → Bool) (g : PGraph Str) (b : Behavior) (dir : Bool) (subs objs : List Filter)
    (h : ∃ f ∈ objs, f.isRegex = true ∧ ∀ m ∈ g.nodes, mt f.id m = false) :
    matchRule mt g b dir subs objs = .err .impossibleMatch :=
  Pta.no_match_object_lemma mt g b dir subs objs h

/-- the regex conversion raises nothing but the no-match error -/
theorem convert_raises_only_no_match (mt : Str → Str → Bool) (mods : List Str) (fs : List Filter) (k : ErrKind)
    (h : convertFilters mt mods fs = .error k) : k = .impossibleMatch :=
  Pta.convertFilters_error_kind mt mods fs k h

/-- which error wins: a regex without a match anywhere in the rule (subject or object position) raises the no-match error
    even when the rule ALSO mentions a module name absent from the graph (the hypotheses of `unknown_name` may hold at the
    same time) — the names are looked up by the queries only, after both conversions -/
theorem no_match_wins_over_unknown_name (mt : Str → Str → Bool) (g : PGraph Str) (b : Behavior) (dir : Bool)
    (subs objs : List Filter)
    (h : ∃ f ∈ subs ++ objs, f.isRegex = true ∧ ∀ m ∈ g.nodes, mt f.id m = false) :
    matchRule mt g b dir subs objs = .err .impossibleMatch :=
  Pta.no_match_either_lemma mt g b dir subs objs h

/-! non-vacuity: the subject `zz` is absent from the graph AND the object regex matches nothing — `ImpossibleMatch`;
    with a matching regex the same rule raises the lookup error -/
example : ∃ f ∈ ([.regex "x.*".toList] : List Filter), f.isRegex = true ∧
    ∀ m ∈ (buildGraph ["p".toList, "q".toList] [] none).nodes, (fun _ _ => false) f.id m = false := by decide
example : matchRule (fun _ _ => false) (buildGraph ["p".toList, "q".toList] [] none) ⟨true, false, false, false⟩ true
    [.name "zz".toList] [.regex "x.*".toList] = .err .impossibleMatch := by decide
example : matchRule (fun _ _ => true) (buildGraph ["p".toList, "q".toList] [] none) ⟨true, false, false, false⟩ true
    [.name "zz".toList] [.regex "x.*".toList] = .err .lookupError := by decide

/-- finding F-C13b, repaired (`Rule._assert_modules_removed_by_alias_conversion_exist`): for `anything` rules the
    parent/sub-module de-duplication runs on names before any lookup, so an absent name that is a dotted extension of
    another subject used to be dropped silently and the rule returned a verdict although it mentions the absent module
    `p.a.zz` (the former witness `unknown_name_counterexample_anything : … = .pass`). On the same witness the rule is
    now rejected with a lookup error, raised by `assert_applies` (call index 4). -/
theorem unknown_name_anything_rejected :
    runRuleOps noGlob (fun _ _ => false)
      [.modulesThat, .areNamed ["p.a".toList, "p.a.zz".toList], .shouldNot, .importAnything]
      (buildGraph ["p".toList, "p.a".toList, "q".toList] [] none) = (.err .lookupError, 4) := by decide

/-- an `anything` rule (`should_not().import_anything()` / `be_imported_by_anything()`) that mentions (by name or as a
    parent) a module absent from the graph raises a lookup error — whether `_convert_aliases` drops that subject (the
    new existence check) or keeps it (the lookup of the queries). Every graph, every regex interpretation. -/
theorem anything_unknown_name (mt : Str → Str → Bool) (g : PGraph Str) (dir : Bool) (S : List Filter)
    (hnoregex : ∀ f ∈ S, f.isRegex = false)
    (hmissing : ∃ f ∈ S, g.hasNode f.id = false) :
    (assertApplies mt { cfg := { subjects := some S, shouldNot := true, importDir := some dir, anything := true },
                        next := some false } g).2 = .err .lookupError :=
  Pta.anything_unknown_name_lemma mt g dir S hnoregex hmissing

/-- the same for the fluent call chains `modules_that().are_named(ns) / are_sub_modules_of(ns) .should_not()
    .import_anything() / .be_imported_by_anything()`: the lookup error is raised by `assert_applies` -/
theorem anything_unknown_name_history (glob : Str → Str) (mt : Str → Str → Bool) (g : PGraph Str) (ns : List Str)
    (sub : Bool) (dir : Bool) (hmissing : ∃ n ∈ ns, g.hasNode n = false) :
    runRuleOps glob mt
      [.modulesThat, if sub then .areSubModulesOf ns else .areNamed ns, .shouldNot,
       if dir then .importAnything else .beImportedByAnything] g = (.err .lookupError, 4) := by
  obtain ⟨n, hn, hm⟩ := hmissing
  cases sub <;> cases dir <;>
    simp only [runRuleOps, runRuleOps.go, RuleState.step, RuleState.setModules, Bool.false_eq_true, if_false, if_true]
  · rw [anything_unknown_name mt g false (ns.map .name) (by simp [Filter.isRegex]) ⟨.name n, List.mem_map_of_mem hn, hm⟩]
  · rw [anything_unknown_name mt g true (ns.map .name) (by simp [Filter.isRegex]) ⟨.name n, List.mem_map_of_mem hn, hm⟩]
  · rw [anything_unknown_name mt g false (ns.map .parent) (by simp [Filter.isRegex]) ⟨.parent n, List.mem_map_of_mem hn, hm⟩]
  · rw [anything_unknown_name mt g true (ns.map .parent) (by simp [Filter.isRegex]) ⟨.parent n, List.mem_map_of_mem hn, hm⟩]

/-- layer rules get the same check (`LayerRule.assert_applies` delegates to `Rule.assert_applies`): an `access_any_layer` /
    `be_accessed_by_any_layer` rule one of whose subject filters names a module that does not exist raises the lookup error -/
theorem layer_anything_unknown_name (mt : Str → Str → Bool) (g : PGraph Str) (a : LArch) (dir : Bool) (S : List Filter)
    (hnoregex : ∀ f ∈ S, f.isRegex = false)
    (hmissing : ∃ f ∈ S, g.hasNode f.id = false) :
    assertAppliesLayer mt ⟨some a, some { cfg := { subjects := some S, shouldNot := true, importDir := some dir,
                                                    anything := true }, next := some false }⟩ g = .err .lookupError :=
  Pta.layer_anything_unknown_name_lemma mt g a dir S hnoregex hmissing

/-- a layer whose modules are `p.a` and the absent `p.a.zz`, through the LayerRule call chain -/
example :
    let a : LArch := [("L".toList, [.name "p.a".toList, .name "p.a.zz".toList]), ("M".toList, [.name "q".toList])]
    runLayerRuleOps (fun _ _ => false)
      [.basedOn a, .layersThat, .areNamed ["L".toList] false, .shouldNot, .accessAny]
      (buildGraph ["p".toList, "p.a".toList, "q".toList] [] none) = (.err .lookupError, 5) := by decide

/-! non-vacuity of `anything_unknown_name`: a dropped absent subject (`p.a.zz`, new check) and a retained one (`zz`) -/
example : ∀ f ∈ ([.name "p.a".toList, .name "p.a.zz".toList] : List Filter), f.isRegex = false := by decide
example : ∃ f ∈ ([.name "p.a".toList, .name "p.a.zz".toList] : List Filter),
    (buildGraph ["p".toList, "p.a".toList, "q".toList] [] none).hasNode f.id = false := by decide
example : dedupSubjects [.name "p.a".toList, .name "p.a.zz".toList] = [.name "p.a".toList] := by decide
example : droppedAbsent (buildGraph ["p".toList, "p.a".toList, "q".toList] [] none)
    (convertAliases { subjects := some [.name "p.a".toList, .name "p.a.zz".toList], shouldNot := true,
                      importDir := some true, anything := true }) = true := by
  decide
example : droppedAbsent (buildGraph ["p".toList, "p.a".toList, "q".toList] [] none)
    (convertAliases { subjects := some [.name "p.a".toList, .name "zz".toList], shouldNot := true,
                      importDir := some true, anything := true }) = false := by
  decide
example : ∃ f ∈ ([.name "p.a".toList, .name "zz".toList] : List Filter),
    (buildGraph ["p".toList, "p.a".toList, "q".toList] [] none).hasNode f.id = false := by decide
/-- when all subjects exist the rule still yields a verdict (the new check does not over-reject) -/
example : (runRuleOps noGlob (fun _ _ => false)
      [.modulesThat, .areNamed ["p".toList, "p.a".toList], .shouldNot, .importAnything]
      (buildGraph ["p".toList, "p.a".toList, "q".toList] [] none)).1 = .pass := by decide

/-- LayerRule histories: a history rejected by the specification automaton raises a configuration error at
    exactly that call; an undefined layer raises a lookup error at the call that names it; a history the
    inner rule automaton classifies as must-raise never yields a verdict -/
theorem layer_rule_history (mt : Str → Str → Bool) (a : LArch) (ops : List LayerRuleOp) (g : PGraph Str)
    (hbased : ∀ op ∈ ops, ∀ a', op = LayerRuleOp.basedOn a' → a' = a) :
    match classifyLayerRule (ops.map (toLRCall a)) with
    | .rejectedAt i => runLayerRuleOps mt ops g = (.err .improperlyConfigured, i)
    | .lookupAt i => runLayerRuleOps mt ops g = (.err .lookupError, i)
    | .notStarted => (runLayerRuleOps mt ops g).1 = .err .improperlyConfigured
    | .final c => c.mustRaise = true → ∃ k, (runLayerRuleOps mt ops g).1 = .err k :=
  Pta.layer_rule_history_lemma mt a ops g hbased

/-- entry point: every invalid option combination is rejected -/
theorem options (o : EntryOptions) :
    ((o.regexExclusions && o.exclusions) || (o.regexExternalExclusions && o.externalExclusions) ||
     (o.excludeExternal && (o.externalExclusions || o.regexExternalExclusions)) || !o.modulePathInsideRoot) = true ↔
    (entryOptionsError o).isSome = true := by
  cases o with
  | mk a b c d e f => cases a <;> cases b <;> cases c <;> cases d <;> cases e <;> cases f <;> decide

/-- DiagramRule without a file, or whose file has no start/end tags, raises -/
theorem diagram_without_file (mt : Str → Str → Bool) (base : Option Str) (only : Bool) (g : PGraph Str) :
    ∃ k, diagramAssert mt none base only g = .err k := ⟨_, rfl⟩

theorem diagram_without_tags (mt : Str → Str → Bool) (content : Str) (base : Option Str) (only : Bool) (g : PGraph Str)
    (h : pumlBody (pyStrip content) = .error .pumlParsingError) :
    ∃ k, diagramAssert mt (some content) base only g = .err k := by
  refine ⟨.pumlParsingError, ?_⟩
  simp [diagramAssert, pumlParse, h, bind, Except.bind]

/-! non-vacuity -/
example : (classifyRule ([RuleOp.modulesThat, .areNamed ["a".toList], .should, .importAnything].map toRCall)).mustRaise = true := by decide
example : classifyRule ([RuleOp.areNamed ["a".toList]].map toRCall) = .errorAtCall 0 := by decide
example : classifyRule ([RuleOp.modulesThat, .areNamed ["a".toList], .shouldNot, .importThat, .areNamed ["b".toList]].map toRCall) = .complete := by decide

/-! ### DiagramRule builder histories (`DiagramRuleOp`, `runDiagramOps`; PtaModel/Puml.lean)

  `DiagramRule(should_only_rule)` followed by ANY sequence of `from_file` / `with_base_module` /
  `base_module_included_in_module_names` calls and `assert_applies`. The specification classifier `classifyDiagram`
  (PtaSpec/BuilderSpec.lean) only says whether a file was ever supplied and which file / base module were supplied last. -/

/-- a history that never supplies a file raises the configuration error — never a verdict — for every graph, every
    regex interpretation, both modes -/
theorem diagram_history_raises (only : Bool) (ops : List DiagramRuleOp) (mt : Str → Str → Bool) (g : PGraph Str)
    (h : ∀ c, DiagramRuleOp.fromFile c ∉ ops) : runDiagramOps only ops mt g = .err .improperlyConfigured :=
  Pta.Hist.diagram_history_raises_lemma only ops mt g ((Pta.Hist.classify_incomplete_iff ops).mpr h)

/-- the same through the classifier, and the classifier says "incomplete" exactly for the histories without `from_file` -/
theorem diagram_history_incomplete (only : Bool) (ops : List DiagramRuleOp) (mt : Str → Str → Bool) (g : PGraph Str)
    (h : classifyDiagram (ops.map toDCall) = .incomplete) : runDiagramOps only ops mt g = .err .improperlyConfigured :=
  Pta.Hist.diagram_history_raises_lemma only ops mt g h

theorem diagram_incomplete_iff (ops : List DiagramRuleOp) :
    classifyDiagram (ops.map toDCall) = .incomplete ↔ ∀ c, DiagramRuleOp.fromFile c ∉ ops :=
  Pta.Hist.classify_incomplete_iff ops

/-- a history that supplies a file is the one-shot check `diagramAssert` on the file supplied LAST with the base module
    supplied LAST (none if there was no `with_base_module` call; `base_module_included_in_module_names` does not undo
    one) — so `diagram_without_tags`, `Pta.C07.diagram_file_conforms_iff`, `diagram_file_base_conforms_iff`, … apply -/
theorem diagram_history_complete (only : Bool) (ops : List DiagramRuleOp) (mt : Str → Str → Bool) (g : PGraph Str)
    (f : Str) (b : Option Str) (h : classifyDiagram (ops.map toDCall) = .complete f b) :
    runDiagramOps only ops mt g = diagramAssert mt (some f) b only g :=
  Pta.Hist.diagram_history_complete_lemma only ops mt g f b h

/-- "supplied last", spelled out: the file of the last `from_file` call … -/
theorem diagram_last_file (pre post : List DiagramRuleOp) (f : Str) (h : ∀ c, DiagramRuleOp.fromFile c ∉ post) :
    ∃ b, classifyDiagram ((pre ++ .fromFile f :: post).map toDCall) = .complete f b := by
  have hf : lastFile ((pre ++ DiagramRuleOp.fromFile f :: post).map toDCall) = some f := by
    rw [List.map_append, List.map_cons]
    refine Pta.Hist.lastFile_split _ _ f ?_
    intro c hc
    obtain ⟨op, hop, rfl⟩ := List.mem_map.mp hc
    cases op with
    | fromFile c => exact absurd hop (h c)
    | withBaseModule p => rfl
    | baseModuleIncluded => rfl
  unfold classifyDiagram
  rw [hf]
  exact ⟨_, rfl⟩

/-- … and the prefix of the last `with_base_module` call, whatever comes after it (a
    `base_module_included_in_module_names` call included), or none when there is no such call -/
theorem diagram_last_base (ops : List DiagramRuleOp) (f : Str) (b : Option Str)
    (h : classifyDiagram (ops.map toDCall) = .complete f b) :
    (∀ pre post p, ops = pre ++ .withBaseModule p :: post → (∀ q, DiagramRuleOp.withBaseModule q ∉ post) → b = some p) ∧
    ((∀ p, DiagramRuleOp.withBaseModule p ∉ ops) → b = none) := by
  have hb : b = lastBase (ops.map toDCall) := by
    unfold classifyDiagram at h
    cases hf : lastFile (ops.map toDCall) with
    | none => rw [hf] at h; cases h
    | some f' => rw [hf] at h; simp only [DClass.complete.injEq] at h; exact h.2.symm
  constructor
  · intro pre post p hops hpost
    rw [hb, hops, List.map_append, List.map_cons]
    refine Pta.Hist.lastBase_split _ _ p ?_
    intro c hc
    obtain ⟨op, hop, rfl⟩ := List.mem_map.mp hc
    cases op with
    | fromFile c => rfl
    | withBaseModule q => exact absurd hop (hpost q)
    | baseModuleIncluded => rfl
  · intro hno
    rw [hb, Pta.Hist.lastBase_none_iff]
    intro c hc
    obtain ⟨op, hop, rfl⟩ := List.mem_map.mp hc
    cases op with
    | fromFile c => rfl
    | withBaseModule q => exact absurd hop (hno q)
    | baseModuleIncluded => rfl

/-- a complete history whose last file has no start/end tags raises the parsing error -/
theorem diagram_history_no_tags (only : Bool) (ops : List DiagramRuleOp) (mt : Str → Str → Bool) (g : PGraph Str)
    (f : Str) (b : Option Str) (h : classifyDiagram (ops.map toDCall) = .complete f b)
    (htags : pumlBody (pyStrip f) = .error .pumlParsingError) :
    runDiagramOps only ops mt g = .err .pumlParsingError := by
  rw [diagram_history_complete only ops mt g f b h]
  simp [diagramAssert, pumlParse, htags, bind, Except.bind]

/-- transfer of C06 ∘ C07 to histories: the last file is a diagram of the documented subset and no base module was
    ever supplied — the run passes exactly when the imports conform to the drawing, and it never raises -/
theorem diagram_history_conforms_iff (only : Bool) (ops : List DiagramRuleOp) (mt : Str → Str → Bool) (a : Arch)
    (noise1 noise2 : Str) (d : List DLine) (hwf : diagramWF d = true) (hn : isInfix "@enduml".toList noise2 = false)
    (h : classifyDiagram (ops.map toDCall) = .complete (diagramText noise1 d noise2) none)
    (hdom : diagramDomain a (specDiagram d) = true) :
    (runDiagramOps only ops mt (archGraph a) = .pass ↔ conforms a (specDiagram d) only = true) ∧
    (∀ k, runDiagramOps only ops mt (archGraph a) ≠ .err k) := by
  rw [diagram_history_complete only ops mt (archGraph a) _ none h]
  exact ⟨Pta.C07.diagram_file_conforms_iff mt a noise1 noise2 d hwf hn only hdom,
         Pta.C07.diagram_file_never_errs mt a noise1 noise2 d hwf hn only hdom⟩

/-- … and with a base module `q` supplied last: the file is checked as if every component were written `q.name` -/
theorem diagram_history_base_conforms_iff (only : Bool) (ops : List DiagramRuleOp) (mt : Str → Str → Bool) (a : Arch)
    (noise1 noise2 : Str) (d : List DLine) (hwf : diagramWF d = true) (hn : isInfix "@enduml".toList noise2 = false)
    (q : Name) (hq : q ≠ [])
    (h : classifyDiagram (ops.map toDCall) = .complete (diagramText noise1 d noise2) (some (render q)))
    (hdom : diagramDomain a (prefixDiagram q (specDiagram d)) = true) :
    (runDiagramOps only ops mt (archGraph a) = .pass ↔ conforms a (prefixDiagram q (specDiagram d)) only = true) ∧
    (∀ k, runDiagramOps only ops mt (archGraph a) ≠ .err k) := by
  rw [diagram_history_complete only ops mt (archGraph a) _ _ h]
  exact Pta.C07.diagram_file_base_conforms_iff mt a noise1 noise2 d hwf hn q hq only hdom

/-! non-vacuity -/
section diagramExamples
open Pta.C07

/-- histories without a file -/
example : ∀ c, DiagramRuleOp.fromFile c ∉ [DiagramRuleOp.withBaseModule "app".toList, .baseModuleIncluded] := by
  intro c h; simp at h
example : classifyDiagram ([DiagramRuleOp.withBaseModule "app".toList, .baseModuleIncluded].map toDCall) = .incomplete := by decide
example : (runDiagramOps true [.withBaseModule "app".toList, .baseModuleIncluded] mt0 (archGraph exGood)).cls = .err .improperlyConfigured := by
  decide +kernel
/-- two files, two prefixes, the no-op call last: the LAST file and the LAST prefix count, the no-op clears nothing -/
example : classifyDiagram ([DiagramRuleOp.fromFile "junk".toList, .withBaseModule "x".toList, .fromFile exShortContent,
      .withBaseModule "app".toList, .baseModuleIncluded].map toDCall) = .complete exShortContent (some "app".toList) := by
  decide +kernel
example : (runDiagramOps true [.fromFile "junk".toList, .withBaseModule "x".toList, .fromFile exShortContent,
      .withBaseModule "app".toList, .baseModuleIncluded] mt0 (archGraph exGood)).cls = .pass ∧
    (runDiagramOps true [.fromFile "junk".toList, .withBaseModule "x".toList, .fromFile exShortContent,
      .withBaseModule "app".toList, .baseModuleIncluded] mt0 (archGraph exBad)).cls = .fail := by
  decide +kernel
/-- a complete history whose last file has no tags (hypotheses of `diagram_history_no_tags`) -/
example : classifyDiagram ([DiagramRuleOp.fromFile exShortContent, .fromFile "[a] --> [b]".toList].map toDCall)
    = .complete "[a] --> [b]".toList none := by decide +kernel
/-- core has no `DecidableEq (Except ε α)` -/
local instance instDecEqExcept {ε α : Type} [DecidableEq ε] [DecidableEq α] : DecidableEq (Except ε α)
  | .ok a, .ok b => if h : a = b then isTrue (by rw [h]) else isFalse (by intro e; cases e; exact h rfl)
  | .error a, .error b => if h : a = b then isTrue (by rw [h]) else isFalse (by intro e; cases e; exact h rfl)
  | .ok _, .error _ => isFalse (by intro e; cases e)
  | .error _, .ok _ => isFalse (by intro e; cases e)
example : pumlBody (pyStrip "[a] --> [b]".toList) = .error .pumlParsingError := by decide +kernel
example : (runDiagramOps false [.fromFile exShortContent, .fromFile "[a] --> [b]".toList] mt0 (archGraph exGood)).cls
    = .err .pumlParsingError := by decide +kernel

end diagramExamples

end Pta.C13
