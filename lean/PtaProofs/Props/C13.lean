/-
  PtaProofs.Props.C13 — undefined or incomplete specifications never produce a verdict (property C13).
  Histories of fluent calls are classified by the independent specification automata of
  PtaSpec/BuilderSpec.lean; the theorems quantify over ALL call sequences (any length), all graphs,
  all regex interpretations.
-/
import Bridge.Abs
import PtaProofs.Lemmas.Builders
namespace Pta.C13
open Pta PtaSpec

/-- a Rule history the specification classifies as incomplete, contradictory or as an error at some call
    never yields a verdict -/
theorem rule_history_raises (glob : Str → Str) (mt : Str → Str → Bool) (ops : List RuleOp) (g : PGraph Str) :
    (classifyRule (ops.map toRCall)).mustRaise = true → ∃ k, (runRuleOps glob mt ops g).1 = .err k :=
  Pta.rule_history_raises_lemma glob mt ops g

/-- … and when the offending call is a naming call before any subject/object position, the configuration
    error is raised at exactly that call -/
theorem rule_history_error_at (glob : Str → Str) (mt : Str → Str → Bool) (ops : List RuleOp) (g : PGraph Str) (i : Nat) :
    classifyRule (ops.map toRCall) = .errorAtCall i → runRuleOps glob mt ops g = (.err .improperlyConfigured, i) :=
  Pta.rule_history_error_at_lemma glob mt ops g i

/-- conversely a complete history is never rejected as a configuration problem -/
theorem rule_history_complete (glob : Str → Str) (mt : Str → Str → Bool) (ops : List RuleOp) (g : PGraph Str) :
    classifyRule (ops.map toRCall) = .complete →
    (runRuleOps glob mt ops g).1 ≠ .err .improperlyConfigured ∧ (runRuleOps glob mt ops g).1 ≠ .err .ruleInconsistency :=
  Pta.rule_history_complete_lemma glob mt ops g

/-- a rule that mentions (by name or as a parent) a module absent from the graph raises a lookup error -/
theorem unknown_name (mt : Str → Str → Bool) (g : PGraph Str) (b : Behavior) (dir : Bool) (subs objs : List Filter)
    (hverb : b.should = true ∨ b.shouldOnly = true ∨ b.shouldNot = true)
    (hs : subs ≠ []) (ho : objs ≠ [])
    (hnoregex : ∀ f ∈ subs ++ objs, f.isRegex = false)
    (hmissing : ∃ f ∈ subs ++ objs, g.hasNode f.id = false) :
    matchRule mt g b dir subs objs = .err .lookupError :=
  Pta.unknown_name_lemma mt g b dir subs objs hverb hs ho hnoregex hmissing

/-- a regex that matches no module raises the no-match error (never a verdict), whatever else the rule says -/
theorem no_match (mt : Str → Str → Bool) (g : PGraph Str) (b : Behavior) (dir : Bool) (subs objs : List Filter)
    (h : ∃ f ∈ subs, f.isRegex = true ∧ ∀ m ∈ g.nodes, mt f.id m = false) :
    matchRule mt g b dir subs objs = .err .impossibleMatch :=
  Pta.no_match_lemma mt g b dir subs objs h

/-- known finding F-C13b (open): for `anything` rules the parent/sub-module de-duplication runs on names before
    any lookup, so an absent name that is a dotted extension of another subject is silently dropped.
    The rule returns a verdict although it mentions the absent module `p.a.zz`. -/
theorem unknown_name_counterexample_anything :
    (runRuleOps noGlob (fun _ _ => false)
      [.modulesThat, .areNamed ["p.a".toList, "p.a.zz".toList], .shouldNot, .importAnything]
      (buildGraph ["p".toList, "p.a".toList, "q".toList] [] none)).1 = .pass := by decide

/-- LayerRule histories: a history rejected by the specification automaton raises a configuration error at
    exactly that call; an undefined layer raises a lookup error at the call that names it; a history the
    inner rule automaton classifies as must-raise never yields a verdict -/
theorem layer_rule_history (mt : Str → Str → Bool) (a : LArch) (ops : List LayerRuleOp) (g : PGraph Str)
    (hbased : ∀ op ∈ ops, ∀ a', op = LayerRuleOp.basedOn a' → a' = a) :
    match classifyLayerRule (ops.map (toLRCall a)) with
    | .rejectedAt i => runLayerRuleOps mt ops g = (.err .improperlyConfigured, i)
    | .lookupAt i => runLayerRuleOps mt ops g = (.err .lookupError, i)
    | .notStarted => (runLayerRuleOps mt ops g).1 = .err .improperlyConfigured
    | .final c => c.mustRaise = true → ∃ k, (runLayerRuleOps mt ops g).1 = .err k :=
  Pta.layer_rule_history_lemma mt a ops g hbased

/-- entry point: every invalid option combination is rejected -/
theorem options (o : EntryOptions) :
    ((o.regexExclusions && o.exclusions) || (o.regexExternalExclusions && o.externalExclusions) ||
     (o.excludeExternal && (o.externalExclusions || o.regexExternalExclusions)) || !o.modulePathInsideRoot) = true ↔
    (entryOptionsError o).isSome = true := by
  cases o with
  | mk a b c d e f => cases a <;> cases b <;> cases c <;> cases d <;> cases e <;> cases f <;> decide

/-- DiagramRule without a file, or whose file has no start/end tags, raises -/
theorem diagram_without_file (mt : Str → Str → Bool) (base : Option Str) (only : Bool) (g : PGraph Str) :
    ∃ k, diagramAssert mt none base only g = .err k := ⟨_, rfl⟩

theorem diagram_without_tags (mt : Str → Str → Bool) (content : Str) (base : Option Str) (only : Bool) (g : PGraph Str)
    (h : pumlBody (pyStrip content) = .error .pumlParsingError) :
    ∃ k, diagramAssert mt (some content) base only g = .err k := by
  refine ⟨.pumlParsingError, ?_⟩
  simp [diagramAssert, pumlParse, h, bind, Except.bind]

/-! non-vacuity -/
example : (classifyRule ([RuleOp.modulesThat, .areNamed ["a".toList], .should, .importAnything].map toRCall)).mustRaise = true := by decide
example : classifyRule ([RuleOp.areNamed ["a".toList]].map toRCall) = .errorAtCall 0 := by decide
example : classifyRule ([RuleOp.modulesThat, .areNamed ["a".toList], .shouldNot, .importThat, .areNamed ["b".toList]].map toRCall) = .complete := by decide

end Pta.C13
