/-
  PtaProofs.Props.C07Text — the aggregated diagram message as TEXT (property C07, part 3 for the string the user sees).
  `MultipleRuleApplier.assert_applies` (`applyAllText`, PtaModel/DiagramText.lean, transcribed from
  multiple_rule_applier.py) raises `AssertionError("\n".join(error_messages))`, `error_messages` being `e.args[0]` of every
  failing rule in rule order; `DiagramRule.assert_applies` (`diagramAssertText`) applies it to the generated rules.

  * `aggregated_text_eq`    — the text is exactly the '\n'-join, in rule order, of the messages of ALL failing rules; pass iff
                              no rule fails; the first exception that is not an `AssertionError` wins.
  * `aggregated_text_items` — same verdict class as `applyAll` (report items, `C07.aggregates_all`); the text is the '\n'-join
                              of the lines `aggLines`, which are, rule by rule, the rendered report items (`C03.assert_text_eq`)
                              of the failing rules; as a set they are the renderings of `applyAll`'s items; and they are
                              literally the lines of the text (`splitLines`) when no module name contains a newline.
  * `diagram_text_is_aggregation` — from a diagram file: the aggregation over `diagramRules so (prefixParsed p base)`.
-/
import Bridge.MessageAgg
import PtaProofs.Lemmas.MessageAgg
import PtaProofs.Props.C03
import PtaProofs.Props.C07
namespace Pta.C07
open Pta PtaSpec

/-- **the aggregated text.** For every graph and every list of rule objects:
    (1) the outcome is the error `k` iff some rule raises `k` and no rule before it raises (anything but `AssertionError`);
    (2) if no rule raises: pass iff every rule passes; and `AssertionError(text)` iff some rule fails, `text` being the
        '\n'-join, in rule order, of the messages (`"\n".join(lines)`) of ALL failing rules — none skipped, none added. -/
theorem aggregated_text_eq (mt : Str → Str → Bool) (g : PGraph Str) (rs : List RuleState) :
    (∀ k, applyAllText mt g rs = .err k ↔
      ∃ pre r post, rs = pre ++ r :: post ∧ (∀ r' ∈ pre, ∀ k', (assertAppliesText mt r' g).2 ≠ .err k') ∧
        (assertAppliesText mt r g).2 = .err k) ∧
    ((∀ r ∈ rs, ∀ k, (assertAppliesText mt r g).2 ≠ .err k) →
      (applyAllText mt g rs = .pass ↔ ∀ r ∈ rs, (assertAppliesText mt r g).2 = .pass) ∧
      (∀ text, applyAllText mt g rs = .fail text ↔
        (∃ r ∈ rs, ∃ lines, (assertAppliesText mt r g).2 = .fail lines) ∧
        text = joinWith ['\n'] ((rs.filter fun r => (assertAppliesText mt r g).2.isFail).map fun r =>
          messageText (assertAppliesText mt r g).2.lines))) := by
  refine ⟨fun k => Pta.Agg.applyAllText_err_iff mt g rs k, fun hne => ?_⟩
  have hform := Pta.Agg.applyAllText_of_noErr mt g rs hne
  have hemp := Pta.Agg.aggMessages_isEmpty mt g rs
  have hany : (rs.any fun r => (ruleText mt g r).isFail) = true ↔ ∃ r ∈ rs, ∃ lines, ruleText mt g r = .fail lines := by
    rw [List.any_eq_true]
    constructor
    · rintro ⟨r, hr, hf⟩
      cases hv : ruleText mt g r with
      | fail ls => exact ⟨r, hr, ls, hv⟩
      | pass => rw [hv] at hf; cases hf
      | err k => rw [hv] at hf; cases hf
    · rintro ⟨r, hr, ls, hv⟩
      exact ⟨r, hr, by rw [hv]; rfl⟩
  constructor
  · rw [hform, hemp, Bool.not_not]
    constructor
    · intro h r hr
      split at h
      · cases h
      · rename_i hn
        cases hv : ruleText mt g r with
        | pass => exact hv
        | err k => exact absurd hv (hne r hr k)
        | fail ls => exact absurd (hany.2 ⟨r, hr, ls, hv⟩) hn
    · intro h
      rw [if_neg]
      intro ha
      obtain ⟨r, hr, ls, hv⟩ := hany.1 ha
      have := h r hr
      change ruleText mt g r = .pass at this
      rw [this] at hv; cases hv
  · intro text
    rw [hform, hemp, Bool.not_not]
    constructor
    · intro h
      split at h
      · rename_i ha
        cases h
        exact ⟨hany.1 ha, rfl⟩
      · cases h
    · rintro ⟨hex, rfl⟩
      rw [if_pos (hany.2 hex)]
      rfl

/-- **text against items.** The verdict class of `applyAllText` is that of `applyAll`; and when it fails:
    * the text is the '\n'-join of `aggLines` — no line lost or merged, since no failing rule has an empty message;
    * `aggLines` are, rule by rule in rule order, the rendered report items (sorted, without duplicates — per RULE, not
      globally) of the failing rules;
    * as a set, they are the renderings of the items `applyAll` reports (`aggregates_all`);
    * if no line contains a newline (no module name does), they are literally the lines of the text. -/
theorem aggregated_text_items (mt : Str → Str → Bool) (g : PGraph Str) (rs : List RuleState) :
    (applyAllText mt g rs).cls = (applyAll mt g rs).cls ∧
    ∀ text, applyAllText mt g rs = .fail text →
      text = messageText (aggLines mt g rs) ∧ aggLines mt g rs ≠ [] ∧
      aggLines mt g rs = ((rs.filter fun r => (assertApplies mt r g).2.isFail).flatMap fun r =>
        renderItems (assertApplies mt r g).2.items) ∧
      (∀ line, line ∈ aggLines mt g rs ↔ ∃ x ∈ (applyAll mt g rs).items, renderItem x = line) ∧
      ((∀ l ∈ aggLines mt g rs, '\n' ∉ l) → splitLines text = aggLines mt g rs) := by
  refine ⟨Pta.Agg.cls_eq_applyAll mt g rs, fun text h => ?_⟩
  -- no rule raises
  have hne : ∀ r ∈ rs, ∀ k, ruleText mt g r ≠ .err k := by
    intro r hr k hk
    obtain ⟨pre, post, rfl⟩ := List.append_of_mem hr
    -- the first raising rule decides
    have : ∃ k', applyAllText mt g (pre ++ r :: post) = .err k' := by
      rw [Pta.Agg.applyAllText_eq_aggOf]
      unfold aggOf
      cases hf : ((pre ++ r :: post).map (ruleText mt g)).findSome? TextVerdict.errKind with
      | some k' => exact ⟨k', rfl⟩
      | none =>
        rw [List.findSome?_eq_none_iff] at hf
        have := hf (ruleText mt g r) (List.mem_map_of_mem (by simp))
        rw [hk] at this; cases this
    obtain ⟨k', hk'⟩ := this
    rw [hk'] at h; cases h
  have hne' : ∀ r ∈ rs, ∀ k, (assertApplies mt r g).2 ≠ .err k := by
    intro r hr k hk
    apply hne r hr k
    rw [Pta.Agg.ruleText_eq]; show (assertApplies mt r g).2.toText = _; rw [hk]; rfl
  rw [Pta.Agg.applyAllText_of_noErr mt g rs hne] at h
  have hmsgs : aggMessages mt g rs ≠ [] := by
    intro e; rw [e] at h; cases h
  have htext : text = messageText (aggLines mt g rs) := by
    split at h
    · cases h; exact Pta.Agg.join_aggMessages mt g rs
    · cases h
  have hlines := Pta.Agg.aggLines_eq_render mt g rs
  have hnil : aggLines mt g rs ≠ [] := by
    intro e
    apply hmsgs
    unfold aggMessages
    unfold aggLines at e
    cases hf : rs.filter (fun r => (ruleText mt g r).isFail) with
    | nil => rfl
    | cons r t =>
      exfalso
      rw [hf, List.flatMap_cons, List.append_eq_nil_iff] at e
      have hr : (ruleText mt g r).isFail = true := (List.mem_filter.1 (by rw [hf]; simp : r ∈ rs.filter _)).2
      cases hv : ruleText mt g r with
      | pass => rw [hv] at hr; cases hr
      | err k => rw [hv] at hr; cases hr
      | fail ls =>
        have := e.1
        rw [hv] at this
        exact Pta.Agg.fail_lines_ne_nil mt g r ls hv this
  refine ⟨htext, hnil, hlines, fun line => ?_, fun hnl => ?_⟩
  · -- as a set: the renderings of `applyAll`'s items
    have hitems : (applyAll mt g rs).items = rs.flatMap fun r => (ruleVerdict mt g r).items := by
      rw [Pta.Dg.applyAll_eq, Pta.Dg.findSome_none_of_noErr mt g rs hne']
      simp only []
      split
      · rfl
      · rename_i hn
        show ([] : List Item) = _
        symm
        rw [List.flatMap_eq_nil_iff]
        intro r hr
        cases hv : ruleVerdict mt g r with
        | fail its => exact absurd (List.any_eq_true.2 ⟨r, hr, by rw [hv]; rfl⟩) hn
        | pass => rfl
        | err k => rfl
    rw [hlines, hitems]
    simp only [List.mem_flatMap, List.mem_filter, Pta.mem_renderItems]
    constructor
    · rintro ⟨r, ⟨hr, _⟩, x, hx, rfl⟩
      exact ⟨x, ⟨r, hr, hx⟩, rfl⟩
    · rintro ⟨x, ⟨r, hr, hx⟩, rfl⟩
      refine ⟨r, ⟨hr, ?_⟩, x, hx, rfl⟩
      change x ∈ (ruleVerdict mt g r).items at hx
      change (ruleVerdict mt g r).isFail = true
      cases hv : ruleVerdict mt g r with
      | fail its => rfl
      | pass => rw [hv] at hx; cases hx
      | err k => rw [hv] at hx; cases hx
  · rw [htext]
    exact Pta.Agg.splitLines_joinWith _ hnil hnl

/-- `applyAllText` is a function of the outcomes of the rules, in order (`aggOf`, Bridge/MessageAgg.lean) -/
theorem aggregated_text_of_outcomes (mt : Str → Str → Bool) (g : PGraph Str) (rs : List RuleState) :
    applyAllText mt g rs = aggOf (rs.map fun r => (assertAppliesText mt r g).2) :=
  Pta.Agg.applyAllText_eq_aggOf mt g rs

/-- **from a diagram.** The text-valued model of `DiagramRule.assert_applies` (after the repair of F-C13c): no file —
    `ImproperlyConfigured`; a file that does not parse — the parser's error; a component (base module prefixed) that is not
    a module of the architecture (`diagramMissing`) — a lookup error; otherwise the aggregation over the rules generated
    from the parse result with the base module prefixed. Its verdict class is that of the item-valued model
    `diagramAssert`. -/
theorem diagram_text_is_aggregation (mt : Str → Str → Bool) (g : PGraph Str) (base : Option Str) (so : Bool) :
    diagramAssertText mt none base so g = .err .improperlyConfigured ∧
    (∀ c k, pumlParse c = .error k → diagramAssertText mt (some c) base so g = .err k) ∧
    (∀ c p, pumlParse c = .ok p → diagramMissing (prefixParsed p base) g = true →
      diagramAssertText mt (some c) base so g = .err .lookupError) ∧
    (∀ c p, pumlParse c = .ok p → diagramMissing (prefixParsed p base) g = false →
      diagramAssertText mt (some c) base so g = applyAllText mt g (diagramRules so (prefixParsed p base))) ∧
    (∀ content, (diagramAssertText mt content base so g).cls = (diagramAssert mt content base so g).cls) := by
  refine ⟨rfl, fun c k h => ?_, fun c p h hm => ?_, fun c p h hm => ?_, fun content => ?_⟩
  · simp only [diagramAssertText, h]
  · exact Pta.Repair.diagramAssertText_of_missing mt g so c base p h hm
  · exact Pta.Repair.diagramAssertText_of_noMissing mt g so c base p h hm
  · cases content with
    | none => rfl
    | some c =>
      cases hp : pumlParse c with
      | error k => simp only [diagramAssertText, diagramAssert, hp]; rfl
      | ok p =>
        cases hm : diagramMissing (prefixParsed p base) g with
        | true =>
          rw [Pta.Repair.diagramAssertText_of_missing mt g so c base p hp hm,
            Pta.Repair.diagramAssert_of_missing mt g so c base p hp hm]; rfl
        | false =>
          rw [Pta.Repair.diagramAssertText_of_noMissing mt g so c base p hp hm,
            Pta.Repair.diagramAssert_of_noMissing mt g so c base p hp hm]
          exact Pta.Agg.cls_eq_applyAll mt g _

/-! ### non-vacuity: the diagram `exD` (ui → core → db) on the architecture `exBad` of Props/C07.lean -/

def T (s : String) : Str := s.toList

/-- in should-only mode two generated rules fail (ui's `should only`, db's `should not`): the text is their two messages
    in RULE order — not sorted: `"app.ui"…` comes before `"app.db"…` -/
example : applyAllText mt0 (archGraph exBad) (diagramRules true (parsedOf exD)) =
    .fail (T "\"app.ui\" imports \"app.util\".\n\"app.db\" imports \"app.ui\".") := by decide +kernel

example : aggLines mt0 (archGraph exBad) (diagramRules true (parsedOf exD)) =
    [T "\"app.ui\" imports \"app.util\".", T "\"app.db\" imports \"app.ui\"."] := by decide +kernel

/-- hypotheses of `aggregated_text_eq` (2) and of the last clause of `aggregated_text_items` on this instance -/
example : (∀ r ∈ diagramRules true (parsedOf exD), ∀ k, (assertAppliesText mt0 r (archGraph exBad)).2 ≠ .err k) ∧
    (∀ l ∈ aggLines mt0 (archGraph exBad) (diagramRules true (parsedOf exD)), '\n' ∉ l) := by
  constructor
  · intro r hr k hk
    have : ((diagramRules true (parsedOf exD)).all fun r =>
        ((assertAppliesText mt0 r (archGraph exBad)).2.errKind).isNone) = true := by decide +kernel
    have := List.all_eq_true.1 this r hr
    rw [hk] at this; cases this
  · decide +kernel

/-- the conforming architecture passes; and the whole pipeline from the FILE (`exLines`: alias, left arrow, noise) -/
example : applyAllText mt0 (archGraph exGood) (diagramRules false (parsedOf exD)) = .pass := by decide +kernel

example : diagramAssertText mt0 (some (diagramText exNoise1 exLines exNoise2)) none true (archGraph exBad) =
    .fail (T "\"app.ui\" imports \"app.util\".\n\"app.db\" imports \"app.ui\".") := by decide +kernel

/-- a rule that raises after a failing one: the error wins, the collected message is dropped -/
example : applyAllText mt0 (archGraph exBad)
    (diagramRules true (parsedOf exD) ++ [mkRule true false false true false [.name (T "app.ui")] [.name (T "nowhere")]]) =
    .err .lookupError := by decide +kernel

end Pta.C07
