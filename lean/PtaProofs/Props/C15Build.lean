/-
  PtaProofs.Props.C15Build — properties C15 / C13 for histories that INTERLEAVE BUILDER CALLS WITH APPLICATIONS on one
  `Rule` object (Bridge/HistoryBuild.lean; Props/C15Hist.lean only applies finished objects).

  Question: can an application change what LATER BUILDER CALLS mean?  Conjecture A ("applications are transparent"): the
  outcome of an application at the end of a history is the outcome of applying the object built by the builder calls of
  the history alone (`forget`).

  ANSWER: FALSE on the model (`apply_changes_later_calls_counterexample`, `ApplicationsTransparent_Statement_false`).
  `_convert_aliases` rewrites an `anything` rule in place into an `except` rule over its own subjects and CLEARS the
  `rule_object_anything` flag; a module-setting call made afterwards lands in a configuration in which the conversion is
  no longer pending, whereas in the never-applied object the conversion is still to come and OVERWRITES the call's effect.
  Three flavours (all `decide`):
    * objects re-specified (`… import_anything(); apply; are_named("b"); apply`): PASS instead of `"a" imports "b".`
    * subjects re-specified (`… apply; modules_that().are_named("c"); apply`): PASS instead of `"c" imports "a".`
    * `import_anything()` re-issued (`… apply; import_anything(); apply`): the remembered removed subjects
      (`modules_removed_by_alias_conversion`, repair of F-C13b) are overwritten by the second conversion — PASS instead of
      `KeyError` for a subject module that does not exist.

  PROVED (the strongest restrictions we found):
    * `step_respects_equiv_safe`   — the eight calls that touch neither module lists nor the `anything` flag map
                                     `_convert_aliases`-equivalent objects to equivalent objects; in particular
                                     `step_normalForm_safe`: they commute with the normal form up to equivalence.
    * `unsafe_ops_break_equiv`     — each of the other six calls does NOT (so "`step` commutes with `normalForm` for every
                                     `RuleOp`" is false for exactly those six).
    * `step_respects_equiv_sync`   — EVERY call respects the equivalence between objects that agree on the `anything` flag.
    * `step_respects_equiv_anything` — re-issuing `import_anything` / `be_imported_by_anything` respects the equivalence
                                     when no removed rule subject is remembered in either object.
    * `applications_transparent_sync` — Conjecture A, for ALL outcomes of the history (not only the last), whenever every
                                     module-setting / `anything` call is made while the history's object and the
                                     builder-only object agree on the `anything` flag, or is an `anything` call re-issued
                                     while no removed subject is remembered (`syncAtUnsafe`). The three counterexamples
                                     are exactly the three ways of violating this condition.
    * `applications_transparent_safe_after_apply` — syntactic corollary: after the first application only safe calls.
    * `applications_transparent_no_rewrite` — if no application meets an `anything`+`should_not` object, the object is
                                     LITERALLY the builder-only object at every time.
-/
import Bridge.HistoryBuild
import PtaProofs.Lemmas.HistoryBuild
namespace Pta.C15
open Pta

/-! ## Conjecture A at full strength (kept as a statement; it is FALSE) -/

/-- Conjecture A: for every history on a fresh `Rule()` and every architecture index in range, the application at the end
    of the history has the outcome of the rule built by the builder calls alone -/
def ApplicationsTransparent_Statement : Prop :=
  ∀ (glob : Str → Str) (mt : Str → Str → Bool) (archs : List (PGraph Str)) (h : List REv) (j : Nat),
    j < archs.length → outcomeAfter glob mt archs {} h j = outcomeForgotten glob mt archs {} h j

namespace BEx
def S (s : String) : Str := s.toList
/-- no regex engine / glob conversion needed -/
def mt : Str → Str → Bool := fun _ _ => false
def glob : Str → Str := id
/-- modules `a`, `b`, `c`; `a` imports `b` -/
def gab : PGraph Str := buildGraph [S "a", S "b", S "c"] [absImport (S "a") (S "b")] none
/-- modules `a`, `b`, `c`; `c` imports `a` -/
def gca : PGraph Str := buildGraph [S "a", S "b", S "c"] [absImport (S "c") (S "a")] none
/-- has `p.a.zz` -/
def gz : PGraph Str := buildGraph [S "p", S "p.a", S "p.a.zz", S "q"] [] none
/-- has no `p.a.zz` -/
def gnz : PGraph Str := buildGraph [S "p", S "p.a", S "q"] [] none
def archs : List (PGraph Str) := [gab, gca, gz, gnz]
/-- `Rule().modules_that().are_named("a").should_not().import_anything()` -/
def aNotAny : List REv := [.call .modulesThat, .call (.areNamed [S "a"]), .call .shouldNot, .call .importAnything]
/-- `…; r.assert_applies(gab); r.are_named("b")` -/
def hObj : List REv := aNotAny ++ [.apply 0, .call (.areNamed [S "b"])]
/-- `…; r.assert_applies(gab); r.modules_that().are_named("c")` -/
def hSubj : List REv := aNotAny ++ [.apply 0, .call .modulesThat, .call (.areNamed [S "c"])]
/-- `Rule().modules_that().are_named(["p.a", "p.a.zz"]).should_not().import_anything(); r.assert_applies(gz);
    r.import_anything()` -/
def hAgain : List REv :=
  [.call .modulesThat, .call (.areNamed [S "p.a", S "p.a.zz"]), .call .shouldNot, .call .importAnything,
   .apply 2, .call .importAnything]
/-- six events: `r = Rule(); r.should_not(); r.import_anything(); r.assert_applies(gab)  # raises`
    `r.modules_that(); r.are_named("a")` -/
def hSix : List REv := [.call .shouldNot, .call .importAnything, .apply 0, .call .modulesThat, .call (.areNamed [S "a"])]
end BEx

set_option maxRecDepth 20000 in
/-- THE COUNTEREXAMPLE (objects re-specified after an application). On the architecture `a → b`:

      r = Rule().modules_that().are_named("a").should_not().import_anything()
      r.assert_applies(arch)     # AssertionError: "a" imports "b".
      r.are_named("b")
      r.assert_applies(arch)     # PASSES: the object now reads `a should not import modules except b`

    whereas `Rule().modules_that().are_named("a").should_not().import_anything().are_named("b")` applied to the same
    architecture fails with `"a" imports "b".` (`_convert_aliases` overwrites the objects). Both runs in full: -/
theorem apply_changes_later_calls_counterexample :
    runREvs BEx.glob BEx.mt BEx.archs {} (BEx.hObj ++ [.apply 0]) =
      [.called, .called, .called, .called, .applied (.fail [BEx.S "\"a\" imports \"b\"."]), .called,
       .applied .pass] ∧
    refREvs BEx.glob BEx.mt BEx.archs {} (BEx.hObj ++ [.apply 0]) =
      [.called, .called, .called, .called, .applied (.fail [BEx.S "\"a\" imports \"b\"."]), .called,
       .applied (.fail [BEx.S "\"a\" imports \"b\"."])] ∧
    outcomeAfter BEx.glob BEx.mt BEx.archs {} BEx.hObj 0 = .applied .pass ∧
    outcomeForgotten BEx.glob BEx.mt BEx.archs {} BEx.hObj 0 = .applied (.fail [BEx.S "\"a\" imports \"b\"."]) := by
  decide

set_option maxRecDepth 20000 in
/-- the objects the two runs end with: an `except b` rule vs. an `anything` rule that is still to be converted -/
theorem apply_changes_later_calls_states :
    execREvs BEx.glob BEx.mt BEx.archs {} BEx.hObj =
      { cfg := { subjects := some [.name (BEx.S "a")], objects := some [.name (BEx.S "b")], shouldNot := true,
                 exceptPresent := true, importDir := some true, anything := false }, next := some false } ∧
    buildOnly BEx.glob {} (forget BEx.hObj) =
      { cfg := { subjects := some [.name (BEx.S "a")], objects := some [.name (BEx.S "b")], shouldNot := true,
                 exceptPresent := false, importDir := some true, anything := true }, next := some false } := by
  decide

/-- Conjecture A is false -/
theorem ApplicationsTransparent_Statement_false : ¬ ApplicationsTransparent_Statement := by
  intro h
  have h1 := h BEx.glob BEx.mt BEx.archs BEx.hObj 0 (by decide)
  rw [apply_changes_later_calls_counterexample.2.2.1, apply_changes_later_calls_counterexample.2.2.2] at h1
  exact absurd h1 (by decide)

set_option maxRecDepth 20000 in
/-- second flavour (SUBJECTS re-specified). On the architecture `c → a`:
    `r = Rule().modules_that().are_named("a").should_not().import_anything(); r.assert_applies(gab)` (fails),
    `r.modules_that().are_named("c"); r.assert_applies(gca)` PASSES (the object reads `c should not import modules except a`),
    the never-applied object fails with `"c" imports "a".` -/
theorem apply_changes_later_subjects_counterexample :
    outcomeAfter BEx.glob BEx.mt BEx.archs {} BEx.hSubj 1 = .applied .pass ∧
    outcomeForgotten BEx.glob BEx.mt BEx.archs {} BEx.hSubj 1 = .applied (.fail [BEx.S "\"c\" imports \"a\"."]) := by
  decide

set_option maxRecDepth 20000 in
/-- third flavour (`import_anything()` re-issued; touches the repair of F-C13b). `gz` has the module `p.a.zz`, `gnz` has not:
    `r = Rule().modules_that().are_named(["p.a", "p.a.zz"]).should_not().import_anything(); r.assert_applies(gz)` passes
    and remembers the removed subject `p.a.zz`; `r.assert_applies(gnz)` would raise `KeyError`; but after
    `r.import_anything()` the second conversion overwrites `modules_removed_by_alias_conversion` with `()` and
    `r.assert_applies(gnz)` PASSES, whereas the never-applied object raises `KeyError` on `gnz`. -/
theorem apply_then_anything_again_counterexample :
    outcomeAfter BEx.glob BEx.mt BEx.archs {} (BEx.hAgain.take 5) 3 = .applied (.err .lookupError) ∧
    outcomeAfter BEx.glob BEx.mt BEx.archs {} BEx.hAgain 3 = .applied .pass ∧
    outcomeForgotten BEx.glob BEx.mt BEx.archs {} BEx.hAgain 3 = .applied (.err .lookupError) ∧
    (execREvs BEx.glob BEx.mt BEx.archs {} (BEx.hAgain ++ [.apply 3])).cfg.dropped = [] ∧
    (execREvs BEx.glob BEx.mt BEx.archs {} (BEx.hAgain.take 5)).cfg.dropped = [.name (BEx.S "p.a.zz")] := by
  decide

set_option maxRecDepth 20000 in
/-- the shortest history with different outcomes (six events with the final application; five events cannot differ: the
    first application must meet an `anything` + `should_not` object, and with subjects unset both sides raise
    `ImproperlyConfigured`). Here the FIRST application raises `ImproperlyConfigured` (no subject) but has already
    rewritten the configuration (`_convert_aliases` runs before the check): afterwards
    `r.modules_that().are_named("a"); r.assert_applies(gab)` raises `ImproperlyConfigured` (no rule object) whereas the
    never-applied object gives the verdict `"a" imports "b".` -/
theorem apply_changes_later_calls_counterexample_six :
    runREvs BEx.glob BEx.mt BEx.archs {} (BEx.hSix ++ [.apply 0]) =
      [.called, .called, .applied (.err .improperlyConfigured), .called, .called,
       .applied (.err .improperlyConfigured)] ∧
    outcomeForgotten BEx.glob BEx.mt BEx.archs {} BEx.hSix 0 = .applied (.fail [BEx.S "\"a\" imports \"b\"."]) := by
  decide

/-! ## which calls respect the `_convert_aliases`-equivalence -/

/-- the eight safe calls (`modules_that`, `should`, `should_only`, `should_not`, `import_modules_that`,
    `be_imported_by_modules_that`, `import_modules_except_modules_that`, `be_imported_by_modules_except_modules_that`) map
    equivalent objects (same `_convert_aliases`-normal form) to equivalent objects -/
theorem step_respects_equiv_safe (glob : Str → Str) (s t : RuleState) (op : RuleOp) (h : s.Equiv t)
    (hop : op.safe = true) : (s.stepStay glob op).Equiv (t.stepStay glob op) :=
  Pta.HistoryBuild.stepStay_equiv_safe glob s t op h hop

/-- in particular a safe call commutes with the normal form, up to equivalence: calling it on the object an application
    leaves behind gives an object equivalent to calling it on the original -/
theorem step_normalForm_safe (glob : Str → Str) (s : RuleState) (op : RuleOp) (hop : op.safe = true) :
    (s.normalForm.stepStay glob op).Equiv (s.stepStay glob op) :=
  Pta.HistoryBuild.stepStay_equiv_safe glob _ _ op (Pta.History.normalForm_idem s) hop

/-- EVERY call maps equivalent objects that agree on the `anything` flag to equivalent objects -/
theorem step_respects_equiv_sync (glob : Str → Str) (s t : RuleState) (op : RuleOp) (h : s.Equiv t)
    (ha : s.cfg.anything = t.cfg.anything) : (s.stepStay glob op).Equiv (t.stepStay glob op) :=
  Pta.HistoryBuild.stepStay_equiv_sync glob s t op h ha

/-- `import_anything` / `be_imported_by_anything` re-issued on equivalent objects (e.g. after an application has
    converted one of them) gives equivalent objects when no removed rule subject is remembered in either
    (`modules_removed_by_alias_conversion` empty) -/
theorem step_respects_equiv_anything (glob : Str → Str) (s t : RuleState) (op : RuleOp) (h : s.Equiv t)
    (hop : op = .importAnything ∨ op = .beImportedByAnything) (hs : s.cfg.dropped = []) (ht : t.cfg.dropped = []) :
    (s.stepStay glob op).Equiv (t.stepStay glob op) :=
  Pta.HistoryBuild.stepStay_equiv_anything glob s t op h hop hs ht

/-- whether a call raises (and what) is the same on equivalent objects -/
theorem step_raises_equiv (glob : Str → Str) (s t : RuleState) (op : RuleOp) (h : s.Equiv t) :
    s.stepOut glob op = t.stepOut glob op :=
  Pta.HistoryBuild.stepOut_equiv glob s t op h

namespace BEx
/-- `[p.a, p.a.zz] should not import anything`, subjects to be specified next -/
def rSub : RuleState :=
  { cfg := { subjects := some [.name (S "p.a"), .name (S "p.a.zz")], shouldNot := true, importDir := some true,
             anything := true }, next := some true }
/-- the same, objects to be specified next (as `import_anything()` leaves it) -/
def rObj : RuleState := { rSub with next := some false }
end BEx

/-- none of the other six calls commutes with the normal form, not even up to equivalence -/
theorem unsafe_ops_break_equiv :
    ¬ (BEx.rObj.normalForm.stepStay BEx.glob (.areNamed [BEx.S "q"])).Equiv (BEx.rObj.stepStay BEx.glob (.areNamed [BEx.S "q"])) ∧
    ¬ (BEx.rSub.normalForm.stepStay BEx.glob (.areNamed [BEx.S "q"])).Equiv (BEx.rSub.stepStay BEx.glob (.areNamed [BEx.S "q"])) ∧
    ¬ (BEx.rObj.normalForm.stepStay BEx.glob (.areSubModulesOf [BEx.S "q"])).Equiv
        (BEx.rObj.stepStay BEx.glob (.areSubModulesOf [BEx.S "q"])) ∧
    ¬ (BEx.rObj.normalForm.stepStay BEx.glob (.haveNameMatching (BEx.S "q"))).Equiv
        (BEx.rObj.stepStay BEx.glob (.haveNameMatching (BEx.S "q"))) ∧
    ¬ (BEx.rObj.normalForm.stepStay BEx.glob (.haveNameContaining [BEx.S "q"])).Equiv
        (BEx.rObj.stepStay BEx.glob (.haveNameContaining [BEx.S "q"])) ∧
    ¬ (BEx.rObj.normalForm.stepStay BEx.glob .importAnything).Equiv (BEx.rObj.stepStay BEx.glob .importAnything) ∧
    ¬ (BEx.rObj.normalForm.stepStay BEx.glob .beImportedByAnything).Equiv
        (BEx.rObj.stepStay BEx.glob .beImportedByAnything) := by
  unfold RuleState.Equiv
  decide

/-! ## Conjecture A under the synchronisation condition -/

/-- MAIN THEOREM. If every module-setting / `anything` call of the history is made while the history's object and the
    builder-only object agree on the `anything` flag, or is `import_anything` / `be_imported_by_anything` re-issued while
    no removed subject is remembered (`syncAtUnsafe`; safe calls and applications are unrestricted), then
    EVERY outcome of the history — builder calls that raise, verdicts, message lines, exceptions of every application —
    is the outcome in the reference run, where each application is made on the object built by the builder calls so far
    alone; and the object left behind is `_convert_aliases`-equivalent to the builder-only object. Any start object. -/
theorem applications_transparent_sync (glob : Str → Str) (mt : Str → Str → Bool) (archs : List (PGraph Str))
    (s : RuleState) (h : List REv) (hs : syncAtUnsafe glob mt archs s s h = true) :
    runREvs glob mt archs s h = refREvs glob mt archs s h ∧
    (execREvs glob mt archs s h).Equiv (buildOnly glob s (forget h)) :=
  Pta.HistoryBuild.run_eq_ref_lemma glob mt archs h s s (Pta.HistoryBuild.equiv_refl s) hs

/-- Conjecture A in the form of the task (the LAST application) under the synchronisation condition -/
theorem applications_transparent (glob : Str → Str) (mt : Str → Str → Bool) (archs : List (PGraph Str))
    (s : RuleState) (h : List REv) (j : Nat) (hs : syncAtUnsafe glob mt archs s s h = true) :
    outcomeAfter glob mt archs s h j = outcomeForgotten glob mt archs s h j :=
  Pta.HistoryBuild.outcome_of_equiv glob mt archs s h j (applications_transparent_sync glob mt archs s h hs).2

/-- what `outcomeForgotten` is: `assertAppliesText` on the object the builder calls alone produce -/
theorem outcomeForgotten_eq (glob : Str → Str) (mt : Str → Str → Bool) (archs : List (PGraph Str)) (s : RuleState)
    (h : List REv) (j : Nat) (g : PGraph Str) (hg : archs[j]? = some g) :
    outcomeForgotten glob mt archs s h j = .applied (assertAppliesText mt (buildOnly glob s (forget h)) g).2 := by
  simp only [outcomeForgotten, stepREv, hg]

/-- syntactic corollary: once the object has been applied, only the eight safe calls are made -/
theorem applications_transparent_safe_after_apply (glob : Str → Str) (mt : Str → Str → Bool)
    (archs : List (PGraph Str)) (s : RuleState) (h : List REv) (hs : safeAfterApply h = true) :
    runREvs glob mt archs s h = refREvs glob mt archs s h ∧
    (∀ j, outcomeAfter glob mt archs s h j = outcomeForgotten glob mt archs s h j) :=
  have hsync := Pta.HistoryBuild.sync_of_safeAfterApply glob mt archs h s hs
  ⟨(applications_transparent_sync glob mt archs s h hsync).1,
   fun j => applications_transparent glob mt archs s h j hsync⟩

/-- if no application of the history meets an `anything` + `should_not` object (`noRewrite`: an `anything` rule misused
    with `should` raises before the conversion; any other rule is not converted), the object is at every time LITERALLY
    the object of the builder calls alone — any call may follow -/
theorem applications_transparent_no_rewrite (glob : Str → Str) (mt : Str → Str → Bool) (archs : List (PGraph Str))
    (s : RuleState) (h : List REv) (hn : noRewrite glob mt archs s h = true) :
    runREvs glob mt archs s h = refREvs glob mt archs s h ∧
    execREvs glob mt archs s h = buildOnly glob s (forget h) :=
  Pta.HistoryBuild.noRewrite_lemma glob mt archs h s hn

/-! ## instances (non-vacuity) -/

namespace BEx
/-- re-configuration AFTER the conversion has been renewed: `… import_anything(); apply; should(); apply;`
    `modules_that(); import_anything()  # anything flag back in sync`; `modules_that().are_named("c")`; apply -/
def hSync : List REv :=
  aNotAny ++ [.apply 0, .call .should, .apply 0, .call .importAnything, .call .modulesThat, .call (.areNamed [S "c"]),
    .apply 1]
/-- only safe calls after the first application -/
def hSafe : List REv := aNotAny ++ [.apply 0, .call .beImportedByThat, .call .modulesThat, .apply 1, .call .shouldOnly, .apply 0]
/-- an `except` rule re-specified after an application, and an `anything` rule misused with `should` (the application
    raises, then `should_not()` is added): no application rewrites -/
def hExcept : List REv :=
  [.call .modulesThat, .call (.areNamed [S "a"]), .call .shouldNot, .call .importExcept, .call (.areNamed [S "b"]),
   .apply 0, .call (.areNamed [S "c"]), .apply 0]
def hMisuse : List REv :=
  [.call (.areNamed [S "x"]), .call .modulesThat, .call (.areNamed [S "a"]), .call .should, .call .importAnything,
   .apply 0, .call (.areNamed [S "b"]), .call .modulesThat, .call (.areNamed [S "c"]), .apply 1]
end BEx

set_option maxRecDepth 20000 in
/-- the hypothesis of the main theorem on a history with two rewriting applications and module-setting calls after them
    (a non-trivial instance: the object IS rewritten, the final object differs from the builder-only object) -/
example : syncAtUnsafe BEx.glob BEx.mt BEx.archs {} {} BEx.hSync = true ∧
    execREvs BEx.glob BEx.mt BEx.archs {} BEx.hSync ≠ buildOnly BEx.glob {} (forget BEx.hSync) ∧
    runREvs BEx.glob BEx.mt BEx.archs {} BEx.hSync =
      [.called, .called, .called, .called, .applied (.fail [BEx.S "\"a\" imports \"b\"."]), .called,
       .applied (.err .ruleInconsistency), .called, .called, .called, .applied (.err .ruleInconsistency)] := by decide

set_option maxRecDepth 20000 in
example : safeAfterApply BEx.hSafe = true ∧ safeAfterApply BEx.hObj = false ∧
    syncAtUnsafe BEx.glob BEx.mt BEx.archs {} {} BEx.hObj = false ∧
    syncAtUnsafe BEx.glob BEx.mt BEx.archs {} {} BEx.hSubj = false ∧
    syncAtUnsafe BEx.glob BEx.mt BEx.archs {} {} BEx.hAgain = false := by decide

set_option maxRecDepth 20000 in
/-- the histories the task lists: `… apply; should(); apply` and `… apply; import_anything(); apply` (no subject was
    dropped) ARE transparent, as are a re-specified `except` rule and a first application that raises -/
example :
    runREvs BEx.glob BEx.mt BEx.archs {} (BEx.aNotAny ++ [.apply 0, .call .should, .apply 0]) =
      refREvs BEx.glob BEx.mt BEx.archs {} (BEx.aNotAny ++ [.apply 0, .call .should, .apply 0]) ∧
    runREvs BEx.glob BEx.mt BEx.archs {} (BEx.aNotAny ++ [.apply 0, .call .importAnything, .apply 0]) =
      refREvs BEx.glob BEx.mt BEx.archs {} (BEx.aNotAny ++ [.apply 0, .call .importAnything, .apply 0]) ∧
    noRewrite BEx.glob BEx.mt BEx.archs {} BEx.hExcept = true ∧
    noRewrite BEx.glob BEx.mt BEx.archs {} BEx.hMisuse = true ∧
    noRewrite BEx.glob BEx.mt BEx.archs {} BEx.hObj = false ∧
    runREvs BEx.glob BEx.mt BEx.archs {} BEx.hMisuse =
      [.raised .improperlyConfigured, .called, .called, .called, .called, .applied (.err .improperlyConfigured),
       .called, .called, .called, .applied (.err .improperlyConfigured)] ∧
    runREvs BEx.glob BEx.mt BEx.archs {} BEx.hExcept =
      [.called, .called, .called, .called, .called, .applied .pass, .called,
       .applied (.fail [BEx.S "\"a\" imports \"b\"."])] := by decide

/-- the theorems on these instances -/
example : runREvs BEx.glob BEx.mt BEx.archs {} BEx.hSync = refREvs BEx.glob BEx.mt BEx.archs {} BEx.hSync :=
  (applications_transparent_sync _ _ _ _ _ (by decide)).1

example : runREvs BEx.glob BEx.mt BEx.archs {} BEx.hSafe = refREvs BEx.glob BEx.mt BEx.archs {} BEx.hSafe :=
  (applications_transparent_safe_after_apply _ _ _ _ _ (by decide)).1

example : execREvs BEx.glob BEx.mt BEx.archs {} BEx.hExcept = buildOnly BEx.glob {} (forget BEx.hExcept) :=
  (applications_transparent_no_rewrite _ _ _ _ _ (by decide)).2

end Pta.C15
