/-
  PtaProofs.Props.C10 — external-library options affect only external modules, never internal ones (property C10).

  The property is relational: two runs of `generateGraph` (PtaModel/Scan.lean) on the same tree that differ only in
  `excludeExternal` / `externalExclusions` produce graphs with the same internal part, for EVERY level limit and
  without any well-formedness assumption on the names.  Vocabulary (`internalNodes`, `internalImports`,
  `internalHier`, `retained`, `withParents`, `ScanOptions.admissible`) is in Bridge/ExtAbs.lean.
-/
import Bridge.Abs
import Bridge.ExtAbs
import PtaProofs.Lemmas.ExtScan
import PtaProofs.Lemmas.ExtNodup
import PtaProofs.Lemmas.ExtRepair
namespace Pta.C10
open Pta

/-- MAIN: external options never add, remove or alter anything internal.  For option records that agree on
    `exclusions` and `levelLimit` (and differ arbitrarily in `excludeExternal` / `externalExclusions`), successful
    scans have the same internal nodes, the same import edges among internal nodes and the same hierarchy edges
    among internal nodes (same members; list order is not specified by the library). -/
theorem internal_invariant (mt : Str → Str → Bool) (base rootName : Str) (mp : List Str) (entries : List Entry)
    (o o' : ScanOptions) (hex : o.exclusions = o'.exclusions) (hlim : o.levelLimit = o'.levelLimit)
    (g g' : PGraph Str)
    (h : generateGraph mt base rootName mp entries o = .ok g)
    (h' : generateGraph mt base rootName mp entries o' = .ok g') :
    (∀ s, s ∈ internalNodes (internalPrefix rootName mp) g ↔ s ∈ internalNodes (internalPrefix rootName mp) g') ∧
    (∀ p, p ∈ internalImports (internalPrefix rootName mp) g ↔ p ∈ internalImports (internalPrefix rootName mp) g') ∧
    (∀ p, p ∈ internalHier (internalPrefix rootName mp) g ↔ p ∈ internalHier (internalPrefix rootName mp) g') :=
  (Pta.ExtScan.internal_invariant_lemma mt base rootName mp entries o o' hex hlim).2 g g' h h'

/-- the same, as equality up to order: the three internal lists have no duplicates and are permutations of one
    another ("identical" as sets, which is all the library guarantees about order) -/
theorem internal_invariant_perm (mt : Str → Str → Bool) (base rootName : Str) (mp : List Str) (entries : List Entry)
    (o o' : ScanOptions) (hex : o.exclusions = o'.exclusions) (hlim : o.levelLimit = o'.levelLimit)
    (g g' : PGraph Str)
    (h : generateGraph mt base rootName mp entries o = .ok g)
    (h' : generateGraph mt base rootName mp entries o' = .ok g') :
    (internalNodes (internalPrefix rootName mp) g).Perm (internalNodes (internalPrefix rootName mp) g') ∧
    (internalImports (internalPrefix rootName mp) g).Perm (internalImports (internalPrefix rootName mp) g') ∧
    (internalHier (internalPrefix rootName mp) g).Perm (internalHier (internalPrefix rootName mp) g') :=
  Pta.ExtNodup.internal_perm_lemma mt base rootName mp entries o o' hex hlim g g' h h'

/-- … and the scan fails under `o` exactly when it fails under `o'`, with the same error (the conversion step does
    not look at the external options). -/
theorem internal_invariant_errors (mt : Str → Str → Bool) (base rootName : Str) (mp : List Str) (entries : List Entry)
    (o o' : ScanOptions) (hex : o.exclusions = o'.exclusions) (hlim : o.levelLimit = o'.levelLimit) (e : ErrKind) :
    generateGraph mt base rootName mp entries o = .error e ↔ generateGraph mt base rootName mp entries o' = .error e :=
  (Pta.ExtScan.internal_invariant_lemma mt base rootName mp entries o o' hex hlim).1 e

/-- Externals excluded (the default; admissible = no external exclusion patterns): the nodes are exactly the parsed
    modules with their dotted parents (flattened to the level limit), and every import edge joins two such nodes
    and points to (the flattening of) an internal module. -/
theorem externals_excluded (mt : Str → Str → Bool) (base rootName : Str) (mp : List Str) (entries : List Entry)
    (o : ScanOptions) (g : PGraph Str) (hx : o.excludeExternal = true) (hadm : o.admissible = true)
    (h : generateGraph mt base rootName mp entries o = .ok g) :
    (∀ s, s ∈ g.nodes ↔ ∃ m ∈ (scanParsed mt base rootName mp entries o).allModules,
        s ∈ withParents (flattenNode (shiftedLimit o mp) m)) ∧
    (∀ a b, (a, b) ∈ g.importPairs → a ∈ g.nodes ∧ b ∈ g.nodes ∧
        ∃ y, isInternal y (internalPrefix rootName mp) = true ∧ b = flattenNode (shiftedLimit o mp) y) :=
  Pta.ExtScan.externals_excluded_lemma mt base rootName mp entries o g hx hadm h

/-- the same without a level limit: a node is a parsed module or one of its dotted parents; import edges end in
    internal modules -/
theorem externals_excluded_nolimit (mt : Str → Str → Bool) (base rootName : Str) (mp : List Str) (entries : List Entry)
    (o : ScanOptions) (g : PGraph Str) (hx : o.excludeExternal = true) (hadm : o.admissible = true)
    (hl : o.levelLimit = none) (h : generateGraph mt base rootName mp entries o = .ok g) :
    (∀ s, s ∈ g.nodes ↔ s ∈ (scanParsed mt base rootName mp entries o).allModules ∨
        ∃ m ∈ (scanParsed mt base rootName mp entries o).allModules, s ∈ parentModules m) ∧
    (∀ a b, (a, b) ∈ g.importPairs → a ∈ g.nodes ∧ b ∈ g.nodes ∧ isInternal b (internalPrefix rootName mp) = true) := by
  obtain ⟨h1, h2⟩ := externals_excluded mt base rootName mp entries o g hx hadm h
  have hs : shiftedLimit o mp = none := by unfold shiftedLimit; rw [hl]; rfl
  rw [hs] at h1 h2
  constructor
  · intro s
    rw [h1]
    simp only [withParents, flattenNode, List.mem_append, List.mem_singleton]
    constructor
    · rintro ⟨m, hm, h | rfl⟩
      · exact Or.inr ⟨m, hm, h⟩
      · exact Or.inl hm
    · rintro (h | ⟨m, hm, h⟩)
      · exact ⟨s, h, Or.inr rfl⟩
      · exact ⟨m, hm, Or.inl h⟩
  · intro a b hab
    obtain ⟨ha, hb, y, hy, rfl⟩ := h2 a b hab
    exact ⟨ha, hb, hy⟩

/-- Externals included (no level limit).  `I` are the converted imports of the parsed files; `i` is one with an
    external importee.
    * If `i` is retained (no external exclusion pattern matches the importee or one of its parents) then the importee and
      all its dotted parents are nodes, and the import edge importer → importee exists (the importer being internal).
      [Since the repair of F-C10e (library commit 4ee40c9) no side condition on the root path string `base` is needed:
      the library no longer skips importees whose name contains `str(root_path)`; see `relative_root_before_repair`.]
    * If `i` is not retained (a pattern matches the importee or one of its parents) then the importee is not a node
      and no edge of any kind touches it — provided it is not itself a parsed module or a parent of one. -/
theorem externals_included (mt : Str → Str → Bool) (base rootName : Str) (mp : List Str) (entries : List Entry)
    (o : ScanOptions) (g : PGraph Str) (hx : o.excludeExternal = false) (hl : o.levelLimit = none)
    (h : generateGraph mt base rootName mp entries o = .ok g) (I : List ImportRec)
    (hI : convertAll (scanParsed mt base rootName mp entries o) (absolutePrefix rootName mp)
      ((scanParsed mt base rootName mp entries o).allModules.filter fun m => isInternal m (internalPrefix rootName mp)) = .ok I)
    (i : ImportRec) (hi : i ∈ I) (hext : isInternal i.importee (internalPrefix rootName mp) = false) :
    (retained mt o (internalPrefix rootName mp) i = true →
      (∀ s ∈ withParents i.importee, s ∈ g.nodes) ∧
      (isInternal i.importer (internalPrefix rootName mp) = true → (i.importer, i.importee) ∈ g.importPairs)) ∧
    (retained mt o (internalPrefix rootName mp) i = false →
      (∀ m ∈ (scanParsed mt base rootName mp entries o).allModules, i.importee ∉ withParents m) →
      i.importee ∉ g.nodes ∧ ∀ x ∈ g.edges, x.src ≠ i.importee ∧ x.dst ≠ i.importee) :=
  Pta.ExtScan.externals_included_lemma mt base rootName mp entries o g hx hl h I hI i hi hext

/-- Externals included, ANY level limit, directory names without dots (so that the limit, which is shifted by the
    length of the module path, never cuts into the internal prefix): for a retained external import the flattened
    importee and all its dotted parents are nodes and the import edge between the flattened ends exists. -/
theorem externals_included_limit (mt : Str → Str → Bool) (base rootName : Str) (mp : List Str) (entries : List Entry)
    (o : ScanOptions) (g : PGraph Str) (hx : o.excludeExternal = false)
    (h : generateGraph mt base rootName mp entries o = .ok g) (I : List ImportRec)
    (hI : convertAll (scanParsed mt base rootName mp entries o) (absolutePrefix rootName mp)
      ((scanParsed mt base rootName mp entries o).allModules.filter fun m => isInternal m (internalPrefix rootName mp)) = .ok I)
    (i : ImportRec) (hi : i ∈ I) (hext : isInternal i.importee (internalPrefix rootName mp) = false)
    (hret : retained mt o (internalPrefix rootName mp) i = true)
    (hr : '.' ∉ rootName) (hmp : ∀ c ∈ mp, '.' ∉ c) :
    (∀ s ∈ withParents (flattenNode (shiftedLimit o mp) i.importee), s ∈ g.nodes) ∧
    (isInternal i.importer (internalPrefix rootName mp) = true →
      (flattenNode (shiftedLimit o mp) i.importer, flattenNode (shiftedLimit o mp) i.importee) ∈ g.importPairs) := by
  obtain ⟨h1, h2⟩ := Pta.ExtScan.externals_retained_lemma mt base rootName mp entries o g hx h I hI i hi hext hret
  refine ⟨h1, fun hX => h2 ?_ ?_⟩
  · rw [Pta.ExtScan.isInternal_shifted rootName mp o _ hr hmp]; exact hX
  · rw [Pta.ExtScan.isInternal_shifted rootName mp o _ hr hmp]; exact hext

/-! ### non-vacuity: a concrete tree satisfying all hypotheses, with visible effects -/
namespace Ex

/-- root `r` with `a.py`, `b.py`, `sub/c.py`, `sub.py`; imports of `os`, `os.path`, `numpy.linalg.x` are external -/
def ents : List Entry := [
  { rel := ["a.py".toList], isDir := false,
    stmts := [.imp ["os.path".toList, "r.b".toList], .impFrom (some "r.sub".toList) ["c".toList] 0] },
  { rel := ["b.py".toList], isDir := false, stmts := [.imp ["numpy.linalg.x".toList], .impFrom none ["a".toList] 1] },
  { rel := ["sub".toList], isDir := true },
  { rel := ["sub".toList, "c.py".toList], isDir := false, stmts := [.imp ["os".toList, "r.sub".toList]] },
  { rel := ["sub.py".toList], isDir := false, stmts := [.imp ["r.sub.c".toList, "r".toList]] } ]
def mt0 : Str → Str → Bool := fun _ _ => false
/-- the default: externals excluded -/
def oEx : ScanOptions := { exclusions := .globs [] }
/-- externals included, `numpy*` excluded by an external exclusion pattern -/
def oIn : ScanOptions := { exclusions := .globs [], excludeExternal := false, externalExclusions := .globs ["numpy*".toList] }
def oExL : ScanOptions := { oEx with levelLimit := some 1 }
def oInL : ScanOptions := { oIn with levelLimit := some 1 }
def run (o : ScanOptions) := generateGraph mt0 "/r".toList "r".toList [] ents o
/-- (#nodes, #internal nodes, #internal import edges, #internal hierarchy edges) -/
def sz (r : Except ErrKind (PGraph Str)) : Nat × Nat × Nat × Nat :=
  match r with
  | .ok g => (g.nodes.length, (internalNodes "r".toList g).length, (internalImports "r".toList g).length,
      (internalHier "r".toList g).length)
  | .error _ => (0, 0, 0, 0)
def conv (o : ScanOptions) : List ImportRec :=
  match convertAll (scanParsed mt0 "/r".toList "r".toList [] ents o) (absolutePrefix "r".toList [])
      ((scanParsed mt0 "/r".toList "r".toList [] ents o).allModules.filter fun m => isInternal m (internalPrefix "r".toList [])) with
  | .ok I => I
  | .error _ => []

-- hypotheses of `internal_invariant` (and of `externals_excluded` / `externals_included`)
example : oEx.exclusions = oIn.exclusions ∧ oEx.levelLimit = oIn.levelLimit := ⟨rfl, rfl⟩
example : oEx.excludeExternal = true ∧ oEx.admissible = true ∧ oEx.levelLimit = none := ⟨rfl, rfl, rfl⟩
example : oIn.excludeExternal = false ∧ oIn.admissible = true ∧ oIn.levelLimit = none := ⟨rfl, rfl, rfl⟩
example : ∃ g, run oEx = .ok g := ⟨_, rfl⟩
example : ∃ g, run oIn = .ok g := ⟨_, rfl⟩
example : ∃ g, run oExL = .ok g := ⟨_, rfl⟩
example : ∃ g, run oInL = .ok g := ⟨_, rfl⟩
-- the graphs differ (5 vs 7 nodes) but the internal parts have the same sizes; likewise with a level limit
set_option maxRecDepth 100000 in
example : sz (run oEx) = (5, 5, 5, 4) ∧ sz (run oIn) = (7, 5, 5, 4) := ⟨by rfl, by rfl⟩
set_option maxRecDepth 100000 in
example : sz (run oExL) = (4, 4, 4, 3) ∧ sz (run oInL) = (6, 4, 4, 3) := ⟨by rfl, by rfl⟩
-- `externals_included`: a retained external import and one removed by the pattern
set_option maxRecDepth 100000 in
example : convertAll (scanParsed mt0 "/r".toList "r".toList [] ents oIn) (absolutePrefix "r".toList [])
      ((scanParsed mt0 "/r".toList "r".toList [] ents oIn).allModules.filter fun m => isInternal m (internalPrefix "r".toList []))
    = .ok (conv oIn) := by rfl
set_option maxRecDepth 100000 in
example : let i := absImport "r.a".toList "os.path".toList
    i ∈ conv oIn ∧ isInternal i.importee "r".toList = false ∧ retained mt0 oIn "r".toList i = true ∧
    isInternal i.importer "r".toList = true := by decide
set_option maxRecDepth 100000 in
example : let i := absImport "r.b".toList "numpy.linalg.x".toList
    i ∈ conv oIn ∧ isInternal i.importee "r".toList = false ∧ retained mt0 oIn "r".toList i = false ∧
    ∀ m ∈ (scanParsed mt0 "/r".toList "r".toList [] ents oIn).allModules, i.importee ∉ withParents m := by decide

-- `externals_included_limit`: the same retained import under level limit 1
set_option maxRecDepth 100000 in
example : convertAll (scanParsed mt0 "/r".toList "r".toList [] ents oInL) (absolutePrefix "r".toList [])
      ((scanParsed mt0 "/r".toList "r".toList [] ents oInL).allModules.filter fun m => isInternal m (internalPrefix "r".toList []))
    = .ok (conv oInL) := by rfl
set_option maxRecDepth 100000 in
example : let i := absImport "r.a".toList "os.path".toList
    oInL.excludeExternal = false ∧ i ∈ conv oInL ∧ isInternal i.importee "r".toList = false ∧
    retained mt0 oInL "r".toList i = true ∧
    isInternal i.importer "r".toList = true ∧ '.' ∉ "r".toList ∧ ∀ c ∈ ([] : List Str), '.' ∉ c := by decide

end Ex

/-! ### the repair of F-C10e (library commit 4ee40c9): the root-path substring test is gone

Before the repair `ImporteeModuleCalculator.calculate_importee_modules` skipped every importee whose dotted name
CONTAINS `str(root_path)`; `moduleListBeforeRepair` (PtaModel/Scan.lean) is that code, `moduleList` the repaired one
(which `generateGraph` uses; `externals_included`, `externals_included_limit` and the theorems of `C10Limit.lean` carry
no hypothesis about `base` any more). -/
namespace RelEx

/-- relative root path `proj` (so `str(root_path) = "proj"`), one file `proj/m.py` with
    `import projx, proj_ext.m, os.path` -/
def ents : List Entry := [
  { rel := ["m.py".toList], isDir := false,
    stmts := [.imp ["projx".toList, "proj_ext.m".toList, "os.path".toList]] } ]
def mt0 : Str → Str → Bool := fun _ _ => false
/-- externals included, no patterns, no limit -/
def oIn : ScanOptions := { exclusions := .globs [], excludeExternal := false }
def base : Str := "proj".toList
def parsed : Parsed := scanParsed mt0 base "proj".toList [] ents oIn
def conv : List ImportRec :=
  match convertAll parsed (absolutePrefix "proj".toList [])
      (parsed.allModules.filter fun m => isInternal m (internalPrefix "proj".toList [])) with
  | .ok I => I
  | .error _ => []
/-- the graph the code before the repair built: the constructor on the OLD module list -/
def oldGraph : PGraph Str :=
  buildGraph (moduleListBeforeRepair mt0 base oIn "proj".toList parsed.allModules conv) conv none
def newGraph : PGraph Str :=
  match generateGraph mt0 base "proj".toList [] ents oIn with
  | .ok g => g
  | .error _ => PGraph.empty

end RelEx
open RelEx in
set_option maxRecDepth 100000 in
/-- F-C10e on a concrete tree: root path given as the relative string `proj`, externals included, `proj.m` imports
    `projx` (and `proj_ext.m`, `os.path`).  The import records are external and retained; the OLD module list lacks
    `projx`, `proj_ext.m`, `proj_ext` (their names contain `proj`) but has `os.path`, `os`; the REPAIRED module list has
    all of them.  At the level of graphs: before the repair `projx` was not a node and the edge `proj.m → projx` was
    missing; the repaired scan has both. -/
theorem relative_root_before_repair :
    oIn.excludeExternal = false ∧
    convertAll parsed (absolutePrefix "proj".toList [])
      (parsed.allModules.filter fun m => isInternal m (internalPrefix "proj".toList [])) = .ok conv ∧
    absImport "proj.m".toList "projx".toList ∈ conv ∧
    isInternal "projx".toList (internalPrefix "proj".toList []) = false ∧
    retained mt0 oIn (internalPrefix "proj".toList []) (absImport "proj.m".toList "projx".toList) = true ∧
    -- the module lists
    "projx".toList ∉ moduleListBeforeRepair mt0 base oIn "proj".toList parsed.allModules conv ∧
    "projx".toList ∈ moduleList mt0 base oIn "proj".toList parsed.allModules conv ∧
    moduleListBeforeRepair mt0 base oIn "proj".toList parsed.allModules conv =
      ["proj", "proj.m", "os.path", "os"].map String.toList ∧
    moduleList mt0 base oIn "proj".toList parsed.allModules conv =
      ["proj", "proj.m", "projx", "proj_ext.m", "proj_ext", "os.path", "os"].map String.toList ∧
    -- the graphs
    generateGraph mt0 base "proj".toList [] ents oIn = .ok newGraph ∧
    "projx".toList ∉ oldGraph.nodes ∧ ("proj.m".toList, "projx".toList) ∉ oldGraph.importPairs ∧
    "projx".toList ∈ newGraph.nodes ∧ ("proj.m".toList, "projx".toList) ∈ newGraph.importPairs ∧
    ("proj.m".toList, "proj_ext.m".toList) ∈ newGraph.importPairs ∧ "proj_ext".toList ∈ newGraph.nodes := by
  refine ⟨by decide, by rfl, by decide, by decide, by decide, by decide, by decide, by decide, by decide, by rfl,
    by decide, by decide, by decide, by decide, by decide, by decide⟩

/-- For absolute root paths the repair changes nothing: if the root path string contains a `/` and no importee does
    (dotted module names never do), the old and the repaired code compute the same module list. -/
theorem moduleList_eq_before_repair_of_absolute (mt : Str → Str → Bool) (base : Str) (o : ScanOptions) (pre : Str)
    (parsedModules : List Str) (imports : List ImportRec)
    (hbase : '/' ∈ base) (himp : ∀ i ∈ imports, '/' ∉ i.importee) :
    moduleListBeforeRepair mt base o pre parsedModules imports = moduleList mt base o pre parsedModules imports :=
  Pta.ExtRepair.moduleList_eq_before_repair_lemma mt base o pre parsedModules imports
    (fun i hi _ => Pta.ExtRepair.isInfix_false_of_char '/' base i.importee hbase (himp i hi))

/-- … more generally: whenever the substring test fires on no EXTERNAL importee -/
theorem moduleList_eq_before_repair_of_no_infix (mt : Str → Str → Bool) (base : Str) (o : ScanOptions) (pre : Str)
    (parsedModules : List Str) (imports : List ImportRec)
    (h : ∀ i ∈ imports, isInternal i.importee pre = false → isInfix base i.importee = false) :
    moduleListBeforeRepair mt base o pre parsedModules imports = moduleList mt base o pre parsedModules imports :=
  Pta.ExtRepair.moduleList_eq_before_repair_lemma mt base o pre parsedModules imports h

-- hypotheses of `moduleList_eq_before_repair_of_absolute` on the tree `Ex` (root path `/r`)
set_option maxRecDepth 100000 in
example : '/' ∈ "/r".toList ∧ ∀ i ∈ Ex.conv Ex.oIn, '/' ∉ i.importee := by decide

end Pta.C10
