/- PtaProofs.Audit — `#print axioms` of every property theorem; parsed by harness/core.py. -/
import PtaProofs
#print axioms Pta.C12.generated_flags_agree
