import Driver.Proto
import Driver.Ops
import Driver.Main
