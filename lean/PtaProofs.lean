import PtaProofs.Props.Tables
