import PtaProofs.Props.C08
import PtaProofs.Props.C12
import PtaProofs.Props.C17
import PtaProofs.Props.Tables
