/-
  PtaSpec.LayerSem — documented semantics of layer rules (docs/features/layer_architecture_checks.md,
  property C05): one unit per layer. A layer is the union of its listed modules and all their
  descendants; modules of layers the rule does not mention are modules of no layer.
-/
import PtaSpec.RuleSem
namespace PtaSpec

/-- layer name ↦ listed modules (regex layers already resolved to the modules they match) -/
abbrev Layers := List (List Char × List Name)

def inLayer (l : List Name) (n : Name) : Bool := l.any fun m => desc m n

structure LRuleSpec where
  verb : Verb
  importDir : Bool
  exc : Bool
  subject : List Char
  objects : List (List Char)
  anything : Bool := false
deriving Repr

def Layers.get (ls : Layers) (n : List Char) : List Name :=
  match ls.find? (·.1 == n) with
  | some l => l.2
  | none => []

/-- imports from the subject layer into the object layer (direction swapped for "be accessed by") -/
def access (a : Arch) (dir : Bool) (s o : List Name) : List (Name × Name) :=
  a.imports.filter fun e => if dir then inLayer s e.1 && inLayer o e.2 else inLayer o e.1 && inLayer s e.2

/-- imports between the subject layer and something else: outside the subject layer and outside
    all named object layers (modules of other layers or of no layer alike) -/
def otherAccess (a : Arch) (dir : Bool) (s : List Name) (os : List (List Name)) : List (Name × Name) :=
  a.imports.filter fun e =>
    let near := if dir then e.1 else e.2
    let far := if dir then e.2 else e.1
    inLayer s near && !inLayer s far && os.all fun o => !inLayer o far

def layerVerdict (a : Arch) (ls : Layers) (r : LRuleSpec) : Bool :=
  let s := ls.get r.subject
  let os := if r.anything then [] else r.objects.map ls.get
  let exc := r.anything || r.exc
  let edgeAll := os.all fun o => !(access a r.importDir s o).isEmpty
  let edgeNone := os.all fun o => (access a r.importDir s o).isEmpty
  let other := !(otherAccess a r.importDir s os).isEmpty
  match r.verb, exc with
  | .should, false => edgeAll
  | .shouldNot, false => edgeNone
  | .shouldOnly, false => edgeAll && !other
  | .should, true => other
  | .shouldOnly, true => other && edgeNone
  | .shouldNot, true => !other

def nodupC : List (List Char) → Bool
  | [] => true
  | x :: xs => !xs.contains x && nodupC xs

/-- domain of the oracle: every layer lists at least one existing module, all listed modules are
    pairwise unrelated, subject and objects are distinct defined layers -/
def layerDomain (a : Arch) (ls : Layers) (r : LRuleSpec) : Bool :=
  let listed := ls.flatMap (·.2)
  ls.all (fun l => !l.2.isEmpty) &&
  listed.all a.nodes.contains &&
  pairwiseUnrelated listed &&
  nodupC (ls.map (·.1)) &&
  ls.any (·.1 == r.subject) &&
  (r.anything || (!r.objects.isEmpty && r.objects.all (fun o => ls.any (·.1 == o) && o != r.subject) &&
    nodupC r.objects))

/-- listed modules of DIFFERENT layers are pairwise unrelated; inside one layer anything goes (a module and its
    sub module, the same module twice) -/
def crossUnrelated : Layers → Bool
  | [] => true
  | l :: ls => (l.2.all fun x => ls.all fun l' => l'.2.all fun y => !related x y) && crossUnrelated ls

/-- relaxed domain of the oracle (audit finding F6): every layer lists at least one module, listed modules exist,
    listed modules of DIFFERENT layers are pairwise unrelated, layer names are distinct, the subject is a defined
    layer, the objects are defined layers different from the subject (the same object layer may be named twice) -/
def layerDomain' (a : Arch) (ls : Layers) (r : LRuleSpec) : Bool :=
  ls.all (fun l => !l.2.isEmpty) &&
  (ls.flatMap (·.2)).all a.nodes.contains &&
  crossUnrelated ls &&
  nodupC (ls.map (·.1)) &&
  ls.any (·.1 == r.subject) &&
  (r.anything || (!r.objects.isEmpty && r.objects.all (fun o => ls.any (·.1 == o) && o != r.subject)))

/-- the domain with everything about existence required only of the layers the rule mentions: they list at least one
    module and their listed modules exist; layers that the rule does not mention may list nothing, and what they list
    need not exist (only be a well-formed dotted name). Cross-layer unrelatedness and distinct names are still required
    of ALL layers -/
def layerDomainK (a : Arch) (ls : Layers) (r : LRuleSpec) : Bool :=
  (ls.flatMap (·.2)).all nameWF &&
  crossUnrelated ls &&
  nodupC (ls.map (·.1)) &&
  ls.any (·.1 == r.subject) && !(ls.get r.subject).isEmpty && (ls.get r.subject).all a.nodes.contains &&
  (r.anything || (!r.objects.isEmpty &&
    r.objects.all (fun o => ls.any (·.1 == o) && o != r.subject && !(ls.get o).isEmpty &&
      (ls.get o).all a.nodes.contains)))

end PtaSpec
