/-
  PtaSpec.BuilderSpec — specification automata for fluent call histories (property C13/C16).
  `classifyRule` only records which of SUBJECT / VERB / IMPORT TYPE / OBJECT a history has supplied
  and the contradictions the property lists; it knows nothing about configuration records,
  alias rewriting or the order of checks inside `assert_applies`.
-/
namespace PtaSpec

/-- the Rule vocabulary, abstracted: naming calls carry whether they supply at least one name -/
inductive RCall
  | modulesThat
  | naming (nonEmpty : Bool)          -- are_named / are_sub_modules_of / have_name_matching / have_name_containing
  | should | shouldOnly | shouldNot
  | importType (exc : Bool)           -- import_modules_that / be_imported_by_modules_that / the two `except` forms
  | anything                          -- import_anything / be_imported_by_anything
deriving DecidableEq, Repr

inductive RClass
  | errorAtCall (i : Nat)   -- a naming call before any subject/object position was opened
  | incomplete              -- subject, verb, import type or object missing
  | contradictory           -- `anything` with a verb other than should_not; should_not with another verb
  | unspecified             -- histories the property does not list (e.g. should together with should_only)
  | complete
deriving DecidableEq, Repr

structure RTrack where
  target : Option Bool := none     -- some true: next naming call supplies the subject; some false: the object
  subject : Bool := false
  object : Bool := false
  should : Bool := false
  only : Bool := false
  not_ : Bool := false
  importType : Bool := false
  anything : Bool := false
  objectAfterAnything : Bool := false
deriving Repr

def RTrack.step (t : RTrack) : RCall → Option RTrack
  | .modulesThat => some { t with target := some true }
  | .naming ne =>
    match t.target with
    | none => none
    | some true => some { t with subject := ne }
    | some false => some { t with object := ne, objectAfterAnything := t.anything }
  | .should => some { t with should := true }
  | .shouldOnly => some { t with only := true }
  | .shouldNot => some { t with not_ := true }
  | .importType _ => some { t with importType := true, target := some false }
  | .anything => some { t with importType := true, anything := true, target := some false }

def RTrack.classify (t : RTrack) : RClass :=
  let verb := t.should || t.only || t.not_
  -- `anything` stands for the object "the subject itself"
  let objectGiven := if t.anything then t.subject else t.object
  if t.anything && !t.not_ then .contradictory
  else if !(t.subject && verb && t.importType && objectGiven) then .incomplete
  else if t.not_ && (t.should || t.only) then .contradictory
  else if t.should && t.only then .unspecified
  else if t.objectAfterAnything then .unspecified
  else .complete

def classifyRuleFrom (t : RTrack) (i : Nat) : List RCall → RClass
  | [] => t.classify
  | c :: cs =>
    match t.step c with
    | none => .errorAtCall i
    | some t' => classifyRuleFrom t' (i + 1) cs

def classifyRule (cs : List RCall) : RClass := classifyRuleFrom {} 0 cs

/-- the classes for which the property demands an error (never a verdict) -/
def RClass.mustRaise : RClass → Bool
  | .errorAtCall _ => true
  | .incomplete => true
  | .contradictory => true
  | _ => false


/-! ### LayeredArchitecture histories (C16) -/

inductive LCall
  | withLayer
  | layer (name : List Char)
  | modules (ms : List (List Char))      -- containing_modules, string or list argument alike
  | regex (r : List Char)
deriving DecidableEq, Repr

structure LTrack where
  closed : List (List Char × List (List Char)) := []   -- finished layers with their supplied identifiers, in order
  opened : Option (List Char) := none
deriving DecidableEq, Repr

inductive LStep
  | ok (t : LTrack)
  | reject            -- the property demands a configuration error at this call
  | dontCare          -- the property does not constrain this call (regex textually equal to a module name given elsewhere)

def LTrack.assigned (t : LTrack) : List (List Char) := t.closed.flatMap (·.2)

def LTrack.step (t : LTrack) : LCall → LStep
  | .withLayer => .ok t
  | .layer n =>
    if t.opened.isSome then .reject
    else if t.closed.any (·.1 == n) then .reject
    else .ok { t with opened := some n }
  | .modules ms =>
    match t.opened with
    | none => .reject
    | some n =>
      -- an EMPTY list supplies no modules: "a layer must receive its modules before the next layer is opened",
      -- so the layer stays open (a following `layer` call is rejected, a following modules/regex call fills it)
      if ms.isEmpty then .ok t
      else if ms.any t.assigned.contains then .reject
      else .ok { closed := t.closed ++ [(n, ms)], opened := none }
  | .regex r =>
    match t.opened with
    | none => .reject
    | some n =>
      if t.assigned.contains r then .dontCare
      else .ok { closed := t.closed ++ [(n, [r])], opened := none }

inductive LOutcome
  | accepted (t : LTrack)
  | rejectedAt (i : Nat)
  | unspecified
deriving DecidableEq, Repr

def classifyLArchFrom (t : LTrack) (i : Nat) : List LCall → LOutcome
  | [] => .accepted t
  | c :: cs =>
    match t.step c with
    | .reject => .rejectedAt i
    | .dontCare => .unspecified
    | .ok t' => classifyLArchFrom t' (i + 1) cs

def classifyLArch (cs : List LCall) : LOutcome := classifyLArchFrom {} 0 cs

/-! ### LayerRule histories (C13 / C16) -/

inductive LRCall
  | basedOn
  | layersThat
  | named (nLayers : Nat) (isList : Bool) (allDefined : Bool)
  | should | shouldOnly | shouldNot
  | accessType (exc : Bool)
  | anyLayer
deriving DecidableEq, Repr

structure LRTrack where
  arch : Bool := false
  started : Bool := false          -- layers_that() seen
  inner : RTrack := {}
deriving Repr

inductive LRStep
  | ok (t : LRTrack)
  | reject                          -- configuration error at this call
  | lookup                          -- lookup error at this call (undefined layer)

def LRTrack.step (t : LRTrack) : LRCall → LRStep
  | .basedOn => if t.arch then .reject else .ok { t with arch := true }
  | .layersThat => if !t.arch then .reject else .ok { t with started := true, inner := { target := some true } }
  | .named n isList allDefined =>
    if !t.started then .reject
    else if t.inner.target == some true && (isList || t.inner.subject) then .reject   -- exactly one subject layer
    else if !t.inner.subject && isList then .reject   -- a list before any subject is always taken as a subject batch
    else if !allDefined then .lookup
    else
      -- layer rules APPEND the modules of the named layers to the subject / object position
      match t.inner.target with
      | some true => .ok { t with inner := { t.inner with subject := t.inner.subject || decide (0 < n) } }
      | some false =>
        .ok { t with inner := { t.inner with object := t.inner.object || decide (0 < n),
                                             objectAfterAnything := t.inner.objectAfterAnything || t.inner.anything } }
      | none => .reject
  | c =>
    if !t.started then .reject
    else
      let rc : RCall := match c with
        | .should => .should | .shouldOnly => .shouldOnly | .shouldNot => .shouldNot
        | .accessType e => .importType e | _ => .anything
      match t.inner.step rc with
      | some i => .ok { t with inner := i }
      | none => .reject

inductive LRClass
  | rejectedAt (i : Nat)
  | lookupAt (i : Nat)
  | final (c : RClass)          -- every call accepted; class of the finished history
  | notStarted                  -- assert_applies without layers_that(): configuration error
deriving DecidableEq, Repr

def classifyLayerRuleFrom (t : LRTrack) (i : Nat) : List LRCall → LRClass
  | [] => if t.started then .final t.inner.classify else .notStarted
  | c :: cs =>
    match t.step c with
    | .reject => .rejectedAt i
    | .lookup => .lookupAt i
    | .ok t' => classifyLayerRuleFrom t' (i + 1) cs

def classifyLayerRule (cs : List LRCall) : LRClass := classifyLayerRuleFrom {} 0 cs

end PtaSpec

/-! ### DiagramRule histories (C13)

  The classifier is not a state machine: it asks whether a file was EVER supplied, and which file / which base module
  were supplied LAST. `base_module_included_in_module_names` supplies nothing. -/
namespace PtaSpec

inductive DCall
  | fromFile (content : List Char)
  | withBase (p : List Char)
  | baseIncluded
deriving DecidableEq, Repr

inductive DClass
  | incomplete                                                  -- no file: a configuration error, never a verdict
  | complete (file : List Char) (base : Option (List Char))     -- the diagram to apply and the prefix for its names
deriving DecidableEq, Repr

def DCall.file? : DCall → Option (List Char)
  | .fromFile c => some c
  | _ => none

def DCall.base? : DCall → Option (List Char)
  | .withBase p => some p
  | _ => none

/-- the file supplied last, if any -/
def lastFile (cs : List DCall) : Option (List Char) := (cs.filterMap DCall.file?).getLast?

/-- the base module supplied last, if any -/
def lastBase (cs : List DCall) : Option (List Char) := (cs.filterMap DCall.base?).getLast?

def classifyDiagram (cs : List DCall) : DClass :=
  match lastFile cs with
  | none => .incomplete
  | some f => .complete f (lastBase cs)

end PtaSpec
