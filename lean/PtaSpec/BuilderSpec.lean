/-
  PtaSpec.BuilderSpec — specification automata for fluent call histories (property C13/C16).
  `classifyRule` only records which of SUBJECT / VERB / IMPORT TYPE / OBJECT a history has supplied
  and the contradictions the property lists; it knows nothing about configuration records,
  alias rewriting or the order of checks inside `assert_applies`.
-/
namespace PtaSpec

/-- the Rule vocabulary, abstracted: naming calls carry whether they supply at least one name -/
inductive RCall
  | modulesThat
  | naming (nonEmpty : Bool)          -- are_named / are_sub_modules_of / have_name_matching / have_name_containing
  | should | shouldOnly | shouldNot
  | importType (exc : Bool)           -- import_modules_that / be_imported_by_modules_that / the two `except` forms
  | anything                          -- import_anything / be_imported_by_anything
deriving DecidableEq, Repr

inductive RClass
  | errorAtCall (i : Nat)   -- a naming call before any subject/object position was opened
  | incomplete              -- subject, verb, import type or object missing
  | contradictory           -- `anything` with a verb other than should_not; should_not with another verb
  | unspecified             -- histories the property does not list (e.g. should together with should_only)
  | complete
deriving DecidableEq, Repr

structure RTrack where
  target : Option Bool := none     -- some true: next naming call supplies the subject; some false: the object
  subject : Bool := false
  object : Bool := false
  should : Bool := false
  only : Bool := false
  not_ : Bool := false
  importType : Bool := false
  anything : Bool := false
  objectAfterAnything : Bool := false
deriving Repr

def RTrack.step (t : RTrack) : RCall → Option RTrack
  | .modulesThat => some { t with target := some true }
  | .naming ne =>
    match t.target with
    | none => none
    | some true => some { t with subject := ne }
    | some false => some { t with object := ne, objectAfterAnything := t.anything }
  | .should => some { t with should := true }
  | .shouldOnly => some { t with only := true }
  | .shouldNot => some { t with not_ := true }
  | .importType _ => some { t with importType := true, target := some false }
  | .anything => some { t with importType := true, anything := true, target := some false }

def RTrack.classify (t : RTrack) : RClass :=
  let verb := t.should || t.only || t.not_
  -- `anything` stands for the object "the subject itself"
  let objectGiven := if t.anything then t.subject else t.object
  if t.anything && !t.not_ then .contradictory
  else if !(t.subject && verb && t.importType && objectGiven) then .incomplete
  else if t.not_ && (t.should || t.only) then .contradictory
  else if t.should && t.only then .unspecified
  else if t.objectAfterAnything then .unspecified
  else .complete

def classifyRuleFrom (t : RTrack) (i : Nat) : List RCall → RClass
  | [] => t.classify
  | c :: cs =>
    match t.step c with
    | none => .errorAtCall i
    | some t' => classifyRuleFrom t' (i + 1) cs

def classifyRule (cs : List RCall) : RClass := classifyRuleFrom {} 0 cs

/-- the classes for which the property demands an error (never a verdict) -/
def RClass.mustRaise : RClass → Bool
  | .errorAtCall _ => true
  | .incomplete => true
  | .contradictory => true
  | _ => false

end PtaSpec
