/-
  PtaSpec.LabelSem — documented plot labelling (docs/features/visualization.md, property C17):
  the nearest aliased ancestor-or-self (by whole dotted components) is replaced by its alias.
-/
import PtaSpec.Hier
namespace PtaSpec

/-- aliases: module name (components) ↦ alias text -/
abbrev Aliases := List (Name × List Char)

/-- the most specific aliased module that is `n` or an ancestor of `n` -/
def nearestAliased (al : Aliases) (n : Name) : Option (Name × List Char) :=
  (al.filter fun a => desc a.1 n).foldl
    (fun best a => match best with
      | none => some a
      | some b => if a.1.length > b.1.length then some a else some b) none

def joinDotsS : List (List Char) → List Char
  | [] => []
  | [x] => x
  | x :: y :: r => x ++ '.' :: joinDotsS (y :: r)

/-- label = alias ++ "." ++ remaining components (or the alias alone; or the full name) -/
def label (al : Aliases) (n : Name) : List Char :=
  match nearestAliased al n with
  | none => joinDotsS n
  | some (m, alias) =>
    let rest := n.drop m.length
    if rest.isEmpty then alias else alias ++ '.' :: joinDotsS rest

end PtaSpec
