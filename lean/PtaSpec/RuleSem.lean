/-
  PtaSpec.RuleSem — the documented semantics of module rules (LANGUAGE_DEFINTION.md "Semantics",
  docs/features/module_import_checks.md, property C01/C03), stated declaratively over the import
  relation. No worklists, no exclusion sets, no flags: this is the oracle.
-/
import PtaSpec.Hier
namespace PtaSpec

inductive Verb | should | shouldOnly | shouldNot
deriving DecidableEq, Repr

/-- `are_named X` / `are_sub_modules_of X` -/
inductive SFilter
  | named (x : Name)
  | subOf (x : Name)
deriving DecidableEq, Repr

def SFilter.id : SFilter → Name
  | .named x => x | .subOf x => x
def SFilter.isSub : SFilter → Bool
  | .subOf _ => true | _ => false

/-- the modules a filter stands for: a named module and all its descendants / strict descendants -/
def SFilter.mem (f : SFilter) (n : Name) : Bool :=
  match f with
  | .named x => desc x n
  | .subOf x => sdesc x n

structure RuleSpec where
  verb : Verb
  importDir : Bool           -- true: "import", false: "be imported by"
  exc : Bool                 -- "... except ..."
  subjects : List SFilter
  objects : List SFilter     -- ignored when `anything`
  anything : Bool := false
deriving Repr

/-- concrete imports realising "subject s —edge— object o" in the rule's direction,
    always returned as (importer, importee) -/
def edges (a : Arch) (dir : Bool) (s o : SFilter) : List (Name × Name) :=
  a.imports.filter fun e => if dir then s.mem e.1 && o.mem e.2 else o.mem e.1 && s.mem e.2

/-- concrete imports between the subject and "something else": the far end is outside the subject's
    module (and its descendants) and outside every object, jointly -/
def others (a : Arch) (dir : Bool) (s : SFilter) (os : List SFilter) : List (Name × Name) :=
  a.imports.filter fun e =>
    let near := if dir then e.1 else e.2
    let far := if dir then e.2 else e.1
    s.mem near && !desc s.id far && os.all fun o => !o.mem far

def RuleSpec.effObjects (r : RuleSpec) : List SFilter := if r.anything then r.subjects else r.objects
def RuleSpec.effExc (r : RuleSpec) : Bool := r.anything || r.exc

/-- does the rule hold on the architecture? -/
def verdict (a : Arch) (r : RuleSpec) : Bool :=
  let os := r.effObjects
  let edgeAll := r.subjects.all fun s => os.all fun o => !(edges a r.importDir s o).isEmpty
  let edgeNone := r.subjects.all fun s => os.all fun o => (edges a r.importDir s o).isEmpty
  let otherAll := r.subjects.all fun s => !(others a r.importDir s os).isEmpty
  let otherNone := r.subjects.all fun s => (others a r.importDir s os).isEmpty
  match r.verb, r.effExc with
  | .should, false => edgeAll
  | .shouldNot, false => edgeNone
  | .shouldOnly, false => edgeAll && otherNone
  | .should, true => otherAll
  | .shouldOnly, true => otherAll && edgeNone
  | .shouldNot, true => otherNone

/-- reference violating set -/
inductive SItem
  | imp (importer importee : Name)
  | miss (any : Bool) (subj : SFilter) (objs : List SFilter)
deriving DecidableEq, Repr

def violating (a : Arch) (r : RuleSpec) : List SItem :=
  let os := r.effObjects
  let needEdge := (r.verb = .should || r.verb = .shouldOnly) && !r.effExc
  let forbidEdge := (r.verb = .shouldNot && !r.effExc) || (r.verb = .shouldOnly && r.effExc)
  let needOther := (r.verb = .should || r.verb = .shouldOnly) && r.effExc
  let forbidOther := (r.verb = .shouldNot && r.effExc) || (r.verb = .shouldOnly && !r.effExc)
  (if forbidEdge then
    r.subjects.flatMap fun s => os.flatMap fun o => (edges a r.importDir s o).map fun e => SItem.imp e.1 e.2
   else []) ++
  (if forbidOther then
    r.subjects.flatMap fun s => (others a r.importDir s os).map fun e => SItem.imp e.1 e.2
   else []) ++
  (if needEdge then
    r.subjects.filterMap fun s =>
      let missing := os.filter fun o => (edges a r.importDir s o).isEmpty
      if missing.isEmpty then none else some (SItem.miss false s missing)
   else []) ++
  (if needOther then
    r.subjects.filterMap fun s =>
      if (others a r.importDir s os).isEmpty then some (SItem.miss true s os) else none
   else [])

/-- strictness: all subject and object identifiers pairwise unrelated (for `anything`: the subjects) -/
def pairwiseUnrelated : List Name → Bool
  | [] => true
  | x :: xs => xs.all (fun y => !related x y) && pairwiseUnrelated xs

def RuleSpec.strict (r : RuleSpec) : Bool :=
  pairwiseUnrelated ((r.subjects.map (·.id)) ++ (if r.anything then [] else r.objects.map (·.id)))

def RuleSpec.namesIn (r : RuleSpec) (a : Arch) : Bool :=
  (r.subjects ++ r.effObjects).all fun f => a.nodes.contains f.id

end PtaSpec
