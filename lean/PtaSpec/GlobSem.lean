/-
  PtaSpec.GlobSem — the documented meaning of a glob-style exclusion pattern and of "a `.py` file name", stated
  existentially on plain character lists (audit finding F11).  Import-free; nothing of the converter
  (no slices, no start/end flags computed by string tests) is reused: the theorems `Pta.C08.glob_meaning` and
  `Pta.C08.py_file_meaning` tie the model's `globSpec` / `isPyFile` / `dropSuffix` to these definitions.
-/
namespace PtaSpec

/-- the optional star at one end of a pattern -/
def starIf (b : Bool) : List Char := if b then ['*'] else []

/-- `globMeaning p s`: the subject `s` matches the glob-style pattern `p`.

    A pattern is literal text with an optional `*` in front and an optional `*` behind; `lead` says that `p` begins with a
    star, `trail` that it ends with one, and `lit` is `p` without those (at most two) stars — for the lone star `"*"`, which
    is both the leading and the trailing star, `lit` is empty.  Every other character, stars inside `lit` included, stands
    for itself.  The subject matches iff it is `lit` with arbitrary text `pre` in front (only if `lead`) and arbitrary text
    `suf` behind (only if `trail`). -/
def globMeaning (p s : List Char) : Prop :=
  ∃ (lead trail : Bool) (lit pre suf : List Char),
    (lead = true ↔ ∃ r, p = '*' :: r) ∧
    (trail = true ↔ ∃ r, p = r ++ ['*']) ∧
    ((p = ['*'] ∧ lit = []) ∨ p = starIf lead ++ lit ++ starIf trail) ∧
    s = pre ++ lit ++ suf ∧ (lead = false → pre = []) ∧ (trail = false → suf = [])

/-- `isPyName name stem`: `name` is the name of a Python source file with stem `stem` — a non-empty stem followed by `.py` -/
def isPyName (name stem : List Char) : Prop := name = stem ++ ['.', 'p', 'y'] ∧ stem ≠ []

end PtaSpec
