/-
  PtaSpec.Hier — the documentation's vocabulary, on component lists (no raw strings here):
  a module name is a non-empty list of non-empty, dot-free components; "X is (a sub module of) Y"
  is `List.IsPrefix` on component lists, so `pkg.ab` can never be confused with `pkg.a`.
-/
namespace PtaSpec

abbrev Comp := List Char
abbrev Name := List Comp

/-- reflexive dotted-prefix: `n` is `x` or one of its descendants -/
def desc (x n : Name) : Bool := x.isPrefixOf n
/-- strict descendant -/
def sdesc (x n : Name) : Bool := x.isPrefixOf n && x != n
def related (a b : Name) : Bool := desc a b || desc b a

def compWF (c : Comp) : Bool := !c.isEmpty && !c.contains '.'
def nameWF (n : Name) : Bool := !n.isEmpty && n.all compWF

/-- non-empty proper prefixes of a name -/
def properPrefixes (n : Name) : List Name :=
  (List.range n.length).filterMap fun k => if 0 < k then some (n.take k) else none

structure Arch where
  nodes : List Name
  imports : List (Name × Name)
deriving Repr

/-- standing well-formedness hypothesis (DESIGN §2.3) -/
def nodupB : List Name → Bool
  | [] => true
  | x :: xs => !xs.contains x && nodupB xs

def Arch.wf (a : Arch) : Bool :=
  nodupB a.nodes &&
  a.nodes.all nameWF &&
  a.nodes.all (fun n => (properPrefixes n).all a.nodes.contains) &&
  a.imports.all (fun e => a.nodes.contains e.1 && a.nodes.contains e.2 && e.1 != e.2 && !sdesc e.1 e.2)

end PtaSpec
