/-
  PtaSpec.ScanSem — what a scan must produce (properties C02 / C04), stated on component lists:
  modules of a directory tree and the internal import edges the import statements account for.
  Default configuration only (external libraries excluded, no level limit); exclusions are given
  as the set of excluded paths.
-/
import PtaSpec.Hier
namespace PtaSpec

inductive SStmt
  | imp (names : List Name)                                        -- import a.b.c [as x], ...
  | impFrom (module : Option Name) (names : List Comp) (level : Nat) -- from [..]P import n, ...
deriving Repr

structure SEntry where
  rel : List Comp          -- path below the root directory
  isDir : Bool
  isPy : Bool              -- a file with suffix .py
  stem : Comp              -- last component without its suffix
  excludedHere : Bool      -- this very path matches an exclusion pattern
  stmts : List SStmt := []
deriving Repr

/-- an entry contributes a module iff it lies at or below `mp`, is a directory or a .py file, and neither
    it nor any directory between `mp` and it (inclusive) is excluded -/
def survives (entries : List SEntry) (mp : List Comp) (e : SEntry) : Bool :=
  mp.isPrefixOf e.rel && (e.isDir || e.isPy) &&
  (entries.all fun d => !(d.excludedHere && d.rel.isPrefixOf e.rel && mp.isPrefixOf d.rel && (d.isDir || d.rel == e.rel)))

def entryName (root : Comp) (e : SEntry) : Name :=
  if e.rel.isEmpty then [root] else root :: (e.rel.dropLast ++ [e.stem])

/-- modules: one per surviving entry, plus every ancestor package up to the root -/
def scanModules (root : Comp) (entries : List SEntry) (mp : List Comp) : List Name :=
  let own := (entries.filter (survives entries mp)).map (entryName root)
  let anc := own.flatMap properPrefixes
  (own ++ anc).eraseDups

/-- the module(s) one statement of module `importer` names; `absPrefix` = dotted path of `mp`'s parent -/
def targets (mods : List Name) (absPrefix : Option Name) (importer : Name) : SStmt → Option (List Name)
  | .imp names => some (names.map fun n => qualify n)
  | .impFrom (some p) names 0 =>
    some (names.map fun n => let sub := qualify (p ++ [n]); if mods.contains sub then sub else qualify p)
  | .impFrom none _ 0 => none
  | .impFrom m names level =>
    if level ≥ importer.length then none
    else
      let base := importer.take (importer.length - level)
      some (names.map fun n =>
        match m with
        | none => base ++ [n]
        | some p => if mods.contains (base ++ p ++ [n]) then base ++ p ++ [n] else base ++ p)
where
  qualify (n : Name) : Name :=
    match absPrefix with
    | some pre => if mods.contains (pre ++ n) then pre ++ n else n
    | none => n

/-- internal import edges a scan must contain; `none` if some relative import reaches above the root -/
def scanImports (root : Comp) (entries : List SEntry) (mp : List Comp) : Option (List (Name × Name)) :=
  let mods := scanModules root entries mp
  let inside := mods.filter fun m => (root :: mp).isPrefixOf m
  let absPrefix := if mp.isEmpty then none else some (root :: mp.dropLast)
  let files := (entries.filter fun e => !e.isDir && survives entries mp e)
  files.foldlM (fun acc f =>
    let importer := entryName root f
    f.stmts.foldlM (fun acc2 st =>
      match targets inside absPrefix importer st with
      | none => none
      | some ts => some (acc2 ++ (ts.filter fun t => inside.contains t && t != importer).map fun t => (importer, t))) acc) []

/-! ### the statements of a file (audit finding F1)

  "Every import statement in a scanned file, whether at module level or nested at any depth inside functions, classes
  or any branch of any compound statement (if/else, try/except/else/finally, loops and their else, with, match cases)":
  a file is a tree of statements; a compound statement, function or class holds its sub-statements in one or several
  fields (`body`, `orelse`, `finalbody`, `handlers` → `body`, `cases` → `body`, …). The statements of the file are
  ALL import nodes of that tree — at whatever depth and in whatever field of whatever node they sit; neither the
  field name nor the class of the enclosing nodes plays any role. -/

inductive SKind
  | imp (names : List Name)                                          -- import a.b.c [as x], ...
  | impFrom (module : Option Name) (names : List Comp) (level : Nat) -- from [..]P import n, ...
  | other                     -- anything else: compound statement, def, class, except handler, match case, …
deriving Repr

/-- a node of the statement tree: its position (child indices from the module node, `[]` for the module itself) and
    the name of the parent's field it sits in (recorded only to say that it does not matter) -/
structure SNode where
  path : List Nat
  field : Comp
  kind : SKind
deriving Repr

def SNode.stmt? (n : SNode) : Option SStmt :=
  match n.kind with
  | .imp names => some (.imp names)
  | .impFrom m names level => some (.impFrom m names level)
  | .other => none

/-- every import statement of the file -/
def allImports (nodes : List SNode) : List SStmt := nodes.filterMap SNode.stmt?

def nodupP : List (List Nat) → Bool
  | [] => true
  | x :: xs => !xs.contains x && nodupP xs

/-- the node list is a tree: positions are unique, every node but the module node has its parent in the list, and
    no import statement lies below an import statement (an import statement has no sub-statements; a listing of the
    complete AST hangs the statement's `alias` nodes below it, which is fine) -/
def treeOK (nodes : List SNode) : Bool :=
  nodupP (nodes.map (·.path)) &&
  (nodes.all fun n => n.path.isEmpty || nodes.any fun m => m.path == n.path.dropLast) &&
  (nodes.all fun n => n.stmt?.isNone ||
    nodes.all fun m => !(n.path.isPrefixOf m.path && m.path != n.path) || m.stmt?.isNone)

end PtaSpec
