/-
  PtaSpec.DiagramSem — conformance of an import relation to a component diagram (property C07).
-/
import PtaSpec.RuleSem
namespace PtaSpec

structure Diagram where
  components : List Name
  arrows : List (Name × Name)      -- dependor → dependee
deriving Repr

def importsBetween (a : Arch) (x y : Name) : Bool := a.imports.any fun e => desc x e.1 && desc y e.2

/-- for every ordered pair of distinct components: an import iff an arrow; in should-only mode a component
    with outgoing arrows imports nothing outside its drawn targets and itself -/
def conforms (a : Arch) (d : Diagram) (shouldOnly : Bool) : Bool :=
  (d.components.all fun x => d.components.all fun y =>
    x == y || (importsBetween a x y == d.arrows.contains (x, y))) &&
  (!shouldOnly || d.components.all fun x =>
    let targets := (d.arrows.filter (·.1 == x)).map (·.2)
    targets.isEmpty || a.imports.all fun e =>
      !desc x e.1 || desc x e.2 || targets.any fun t => desc t e.2)

def diagramDomain (a : Arch) (d : Diagram) : Bool :=
  a.wf && nodupB d.components && pairwiseUnrelated d.components && d.components.all a.nodes.contains &&
  d.arrows.all fun e => d.components.contains e.1 && d.components.contains e.2 && e.1 != e.2

end PtaSpec
