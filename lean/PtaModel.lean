import PtaModel.Str
import PtaModel.Names
import PtaModel.Graph
import PtaModel.Search
import PtaModel.Flags
import PtaModel.Rule
import PtaModel.Glob
import PtaModel.Layer
