/-
  Driver.Proto — line protocol helpers: `key=value` tokens separated by blanks, strings
  percent-encoded (everything outside [A-Za-z0-9_.-] as %XX, the empty string as %e),
  lists separated by ',', pairs by '>', records by ';', fields by ':' or '~'.
-/
import PtaModel
namespace Driver
open Pta

def hexVal (c : Char) : Nat :=
  if '0' ≤ c ∧ c ≤ '9' then c.toNat - '0'.toNat
  else if 'a' ≤ c ∧ c ≤ 'f' then c.toNat - 'a'.toNat + 10
  else if 'A' ≤ c ∧ c ≤ 'F' then c.toNat - 'A'.toNat + 10
  else 0

def decodeChars : List Char → List Char
  | '%' :: 'u' :: a :: b :: c :: d :: rest =>
    Char.ofNat (((hexVal a * 16 + hexVal b) * 16 + hexVal c) * 16 + hexVal d) :: decodeChars rest
  | '%' :: a :: b :: rest => Char.ofNat (hexVal a * 16 + hexVal b) :: decodeChars rest
  | c :: rest => c :: decodeChars rest
  | [] => []

/-- decode a protocol string into a model string -/
def dec (s : String) : Str := if s == "%e" then [] else decodeChars s.toList

def hexDigit (n : Nat) : Char :=
  if n < 10 then Char.ofNat ('0'.toNat + n) else Char.ofNat ('a'.toNat + n - 10)

def safeChar (c : Char) : Bool :=
  ('a' ≤ c ∧ c ≤ 'z') || ('A' ≤ c ∧ c ≤ 'Z') || ('0' ≤ c ∧ c ≤ '9') || c == '_' || c == '.' || c == '-'

def encChars : List Char → List Char
  | [] => []
  | c :: cs =>
    if safeChar c then c :: encChars cs
    else if c.toNat < 256 then '%' :: hexDigit (c.toNat / 16) :: hexDigit (c.toNat % 16) :: encChars cs
    else
      let n := c.toNat
      '%' :: 'u' :: hexDigit (n / 4096 % 16) :: hexDigit (n / 256 % 16) :: hexDigit (n / 16 % 16) ::
        hexDigit (n % 16) :: encChars cs

/-- encode a model string for the protocol -/
def enc (s : Str) : String := if s.isEmpty then "%e" else String.ofList (encChars s)

abbrev Args := List (String × String)

def parseArgs (line : String) : String × Args :=
  match (line.splitOn " ").filter (· ≠ "") with
  | [] => ("", [])
  | op :: rest =>
    (op, rest.map fun tok =>
      match tok.splitOn "=" with
      | [] => ("", "")
      | k :: vs => (k, "=".intercalate vs))

def Args.get? (a : Args) (k : String) : Option String := (a.find? (·.1 == k)).map (·.2)
def Args.get (a : Args) (k : String) : String := (a.get? k).getD ""

/-- split a list value; the empty value is the empty list -/
def splitList (sep : String) (v : String) : List String := if v == "" then [] else v.splitOn sep

def strList (v : String) : List Str := (splitList "," v).map dec

def pairList (v : String) : List (Str × Str) :=
  (splitList "," v).filterMap fun p =>
    match p.splitOn ">" with
    | [a, b] => some (dec a, dec b)
    | _ => none

def natOpt (v : String) : Option Nat := if v == "" then none else v.toNat?

def joinStr (sep : String) (l : List String) : String := sep.intercalate l

/-- sort + dedup of protocol strings (canonical set rendering) -/
def canonSet (l : List String) : List String :=
  let sorted := (l.toArray.qsort (· < ·)).toList
  sorted.foldr (fun x acc => match acc with | y :: _ => if x == y then acc else x :: acc | [] => [x]) []

def errName : ErrKind → String
  | .improperlyConfigured => "improperlyConfigured"
  | .ruleInconsistency => "ruleInconsistency"
  | .impossibleMatch => "impossibleMatch"
  | .layerMismatch => "layerMismatch"
  | .lookupError => "lookupError"
  | .pumlParsingError => "pumlParsingError"

end Driver
