/-
  Driver.Ops — one handler per protocol operation.
-/
import PtaModel
import PtaSpec
import Bridge.Abs
import Bridge.RuleChain
import Driver.Proto
namespace Driver
open Pta

/-! ### shared parsing -/

def parseFilter (s : String) : Option Filter :=
  match s.splitOn ":" with
  | ["N", x] => some (.name (dec x))
  | ["P", x] => some (.parent (dec x))
  | ["R", x] => some (.regex (dec x))
  | _ => none

def filterList (v : String) : List Filter := (splitList "," v).filterMap parseFilter

def parseRuleOp (s : String) : Option RuleOp :=
  match s.splitOn ":" with
  | ["mt"] => some .modulesThat
  | ["named", a] => some (.areNamed (strList a))
  | ["sub", a] => some (.areSubModulesOf (strList a))
  | ["match", a] => some (.haveNameMatching (dec a))
  | ["contain", a] => some (.haveNameContaining (strList a))
  | ["should"] => some .should
  | ["only"] => some .shouldOnly
  | ["not"] => some .shouldNot
  | ["imp"] => some .importThat
  | ["by"] => some .beImportedByThat
  | ["impx"] => some .importExcept
  | ["byx"] => some .beImportedByExcept
  | ["impany"] => some .importAnything
  | ["byany"] => some .beImportedByAnything
  | _ => none

/-- `mtab=<pat>~m1,m2;<pat>~…` : the interpretation of `re.match(pattern, module)` supplied by the
    harness (computed with Python's `re`) -/
def parseMatchTable (v : String) : List (Str × List Str) :=
  (splitList ";" v).filterMap fun rec =>
    match rec.splitOn "~" with
    | [p, ms] => some (dec p, strList ms)
    | [p] => some (dec p, [])
    | _ => none

def tableMatches (t : List (Str × List Str)) (p m : Str) : Bool :=
  t.any fun e => e.1 == p && e.2.contains m

def graphOf (a : Args) : PGraph Str :=
  buildGraph (strList (a.get "nodes")) ((pairList (a.get "imps")).map fun p => absImport p.1 p.2)
    (natOpt (a.get "lim"))

/-! ### rendering -/

def modTag (m : Mod) : String := (if m.group then "G" else "S") ++ enc m.id

def renderItem : Item → String
  | .imp u v by_ => s!"imp|{enc u}|{enc v}|{if by_ then "b" else "i"}"
  | .miss any s os by_ =>
    s!"miss|{if any then "1" else "0"}|{modTag s}|{joinStr "," (canonSet (os.map modTag))}|{if by_ then "b" else "i"}"

def renderVerdict : Verdict → String
  | .pass => "PASS"
  | .fail items => "FAIL:" ++ joinStr ";" (canonSet (items.map renderItem))
  | .err k => "ERR:" ++ errName k

def renderPairs (ps : List (Str × Str)) : String :=
  joinStr "," (canonSet (ps.map fun p => enc p.1 ++ ">" ++ enc p.2))

/-! ### specification side -/

open PtaSpec in
def toName (s : Str) : PtaSpec.Name := splitDots s

def renderName (n : PtaSpec.Name) : String := enc (joinDots n)

def parseSFilter (s : String) : Option PtaSpec.SFilter :=
  match s.splitOn ":" with
  | ["N", x] => some (.named (toName (dec x)))
  | ["P", x] => some (.subOf (toName (dec x)))
  | _ => none

def sfTag (f : PtaSpec.SFilter) : String := (if f.isSub then "G" else "S") ++ renderName f.id

def renderSItem (byDir : Bool) : PtaSpec.SItem → String
  | .imp u v => s!"imp|{renderName u}|{renderName v}|{if byDir then "b" else "i"}"
  | .miss any s os =>
    s!"miss|{if any then "1" else "0"}|{sfTag s}|{joinStr "," (canonSet (os.map sfTag))}|{if byDir then "b" else "i"}"

def archOf (a : Args) : PtaSpec.Arch :=
  { nodes := (strList (a.get "nodes")).map toName
    imports := (pairList (a.get "imps")).map fun p => (toName p.1, toName p.2) }

/-- optional spec fields: sv (should|only|not) sd (i|b) sx (0|1) ss so sa (0|1) -/
def specOf (a : Args) : Option PtaSpec.RuleSpec :=
  match a.get? "sv" with
  | none => none
  | some sv =>
    let verb := if sv == "should" then PtaSpec.Verb.should else if sv == "only" then .shouldOnly else .shouldNot
    some { verb := verb, importDir := a.get "sd" == "i", exc := a.get "sx" == "1",
           subjects := (splitList "," (a.get "ss")).filterMap parseSFilter,
           objects := (splitList "," (a.get "so")).filterMap parseSFilter,
           anything := a.get "sa" == "1" }

def specAnswer (a : Args) : String :=
  match specOf a with
  | none => "S=NA D=-"
  | some r =>
    let arch := archOf a
    -- fourth flag: the rule lies in the domain of the general oracle theorems (`Pta.C01.verdict_spec_parentFree`)
    let pf := Pta.parentFree r && !r.subjects.isEmpty && (r.anything || !r.objects.isEmpty) &&
      (!r.anything || r.verb == PtaSpec.Verb.shouldNot)
    let dom := s!"{if arch.wf then "w" else "-"}{if r.strict then "s" else "-"}{if r.namesIn arch then "n" else "-"}{if pf then "p" else "-"}"
    let v := if PtaSpec.verdict arch r then "PASS"
      else "FAIL:" ++ joinStr ";" (canonSet ((PtaSpec.violating arch r).map (renderSItem (!r.importDir))))
    s!"S={v} D={dom}"

/-! ### specification automaton for call histories -/

def renderClass : PtaSpec.RClass → String
  | .errorAtCall i => s!"errorAt{i}"
  | .incomplete => "incomplete"
  | .contradictory => "contradictory"
  | .unspecified => "unspecified"
  | .complete => "complete"

/-! ### handlers -/

/-- `T=`: the message lines of the model (`messageLines` — already `sorted(set(...))`, so this is the literal list
    `str(AssertionError).split("\n")`), each `enc`-encoded, joined by `|`; empty unless the verdict is a failure -/
def renderTextLines : TextVerdict → String
  | .fail lines => joinStr "|" (lines.map enc)
  | _ => ""

def handleRule (a : Args) : String :=
  let g := graphOf a
  let ops := (splitList ";" (a.get "ops")).filterMap parseRuleOp
  let table := parseMatchTable (a.get "mtab")
  let (v, i) := runRuleOps convertPartialMatch (tableMatches table) ops g
  let (t, _) := runRuleOpsText convertPartialMatch (tableMatches table) ops g
  s!"M={renderVerdict v} I={i} {specAnswer a} C={renderClass (PtaSpec.classifyRule (ops.map toRCall))} T={renderTextLines t}"

def handleQuery (a : Args) : String :=
  let g := graphOf a
  let fs := filterList (a.get "from")
  let os := filterList (a.get "to")
  let kind := a.get "kind"
  let render {κ : Type} (key : κ → String) (r : Except ErrKind (List (κ × List (Str × Str)))) : String :=
    match r with
    | .error k => "ERR:" ++ errName k
    | .ok l => "OK:" ++ joinStr ";" (canonSet (l.map fun kd => key kd.1 ++ "=" ++ renderPairs kd.2))
  if kind == "dep" then
    "M=" ++ render (fun (k : Dep) => modTag k.1 ++ "~" ++ modTag k.2) (getDependencies g fs os)
  else if kind == "from" then "M=" ++ render modTag (getOtherFrom g fs os)
  else if kind == "to" then "M=" ++ render modTag (getOtherTo g fs os)
  else "BAD kind"

def handleGraph (a : Args) : String :=
  let g := graphOf a
  s!"M=nodes:{joinStr "," (canonSet (g.nodes.map enc))} imps:{renderPairs g.importPairs} hier:{renderPairs g.hierPairs}"

def handleGlob (a : Args) : String :=
  let p := dec (a.get "p")
  let re := convertPartialMatch p
  let ms := (splitList "," (a.get "s")).map fun s =>
    match matchEmitted re (dec s) with
    | some true => "1" | some false => "0" | none => "?"
  let sp := (splitList "," (a.get "s")).map fun s => if globSpec p (dec s) then "1" else "0"
  s!"M={enc re} m={String.join ms} S={String.join sp}"


/-! ### layers -/

def parseLArchOp (s : String) : Option LArchOp :=
  match s.splitOn ":" with
  | ["with"] => some .withLayer
  | ["layer", n] => some (.layer (dec n))
  | ["cms", x] => some (.containingModules [dec x])          -- a str argument
  | ["cml", xs] => some (.containingModules (strList xs))    -- a list argument
  | ["cml"] => some (.containingModules [])
  | ["rx", r] => some (.matching (dec r))
  | _ => none

def renderFilter (f : Filter) : String :=
  match f with
  | .name x => "N:" ++ enc x
  | .parent x => "P:" ++ enc x
  | .regex x => "R:" ++ enc x

def renderLArch (a : LArch) : String :=
  joinStr ";" (a.map fun l => enc l.1 ++ "~" ++ joinStr "," (l.2.map renderFilter))

def renderIds (ls : List (Str × List Str)) : String :=
  joinStr ";" (ls.map fun l => enc l.1 ++ "~" ++ joinStr "," (l.2.map enc))

def handleLArch (a : Args) : String :=
  let ops := (splitList ";" (a.get "ops")).filterMap parseLArchOp
  let sAns := match PtaSpec.classifyLArch (ops.map toLCall) with
    | .accepted t => "S=OK:" ++ renderIds (t.closed ++ (match t.opened with | some n => [(n, [])] | none => []))
    | .rejectedAt i => s!"S=REJ:{i}"
    | .unspecified => "S=NA"
  match runLArch ops with
  | .error (k, i) => s!"M=ERR:{errName k} I={i} {sAns}"
  | .ok arch => s!"M=OK:{renderLArch arch} I={ops.length} {sAns} IDS={renderIds (arch.map fun l => (l.1, l.2.map (·.id)))}"

/-- `arch=<layer>~N:x,N:y;<layer>~R:pat` -/
def parseLArch (v : String) : LArch :=
  (splitList ";" v).filterMap fun rec =>
    match rec.splitOn "~" with
    | [n, fs] => some (dec n, filterList fs)
    | [n] => some (dec n, [])
    | _ => none

def parseLayerRuleOp (arch : LArch) (s : String) : Option LayerRuleOp :=
  match s.splitOn ":" with
  | ["based"] => some (.basedOn arch)
  | ["lt"] => some .layersThat
  | ["named", l] => some (.areNamed [dec l] false)
  | ["namedl", ls] => some (.areNamed (strList ls) true)
  | ["namedl"] => some (.areNamed [] true)
  | ["should"] => some .should
  | ["only"] => some .shouldOnly
  | ["not"] => some .shouldNot
  | ["acc"] => some .access
  | ["accby"] => some .beAccessedBy
  | ["accx"] => some .accessExcept
  | ["accbyx"] => some .beAccessedByExcept
  | ["accany"] => some .accessAny
  | ["accbyany"] => some .beAccessedByAny
  | _ => none

def tagOpt (t : Option Str) : String := match t with | some l => "L" ++ enc l | none => "N"

def renderLItem : LItem → String
  | .imp u v by_ tu tv => s!"limp|{enc u}|{enc v}|{if by_ then "b" else "i"}|{tagOpt tu}|{tagOpt tv}"
  | .miss any s os by_ =>
    let lname (o : Option Str) : String := match o with | some l => enc l | none => "None"
    s!"lmiss|{if any then "1" else "0"}|{lname s}|{joinStr "," (canonSet (os.map lname))}|{if by_ then "b" else "i"}"

def renderLVerdict : LVerdict → String
  | .pass => "PASS"
  | .fail items => "FAIL:" ++ joinStr ";" (canonSet (items.map renderLItem))
  | .err k => "ERR:" ++ errName k

/-- `lres=<layer>~m1,m2;…` resolved layer contents for the specification -/
def parseLayers (v : String) : PtaSpec.Layers :=
  (splitList ";" v).filterMap fun rec =>
    match rec.splitOn "~" with
    | [n, ms] => some (dec n, (strList ms).map toName)
    | [n] => some (dec n, [])
    | _ => none

def layerSpecAnswer (a : Args) : String :=
  match a.get? "lv" with
  | none => "S=NA D=-"
  | some lv =>
    let verb := if lv == "should" then PtaSpec.Verb.should else if lv == "only" then .shouldOnly else .shouldNot
    let r : PtaSpec.LRuleSpec :=
      { verb := verb, importDir := a.get "ld" == "i", exc := a.get "lx" == "1", subject := dec (a.get "lsub"),
        objects := strList (a.get "lobj"), anything := a.get "la" == "1" }
    let arch := archOf a
    let ls := parseLayers (a.get "lres")
    let dom := s!"{if arch.wf then "w" else "-"}{if PtaSpec.layerDomain' arch ls r then "d" else "-"}"
    s!"S={if PtaSpec.layerVerdict arch ls r then "PASS" else "FAIL"} D={dom}"

def renderLRClass : PtaSpec.LRClass → String
  | .rejectedAt i => s!"rejectedAt{i}"
  | .lookupAt i => s!"lookupAt{i}"
  | .final c => renderClass c
  | .notStarted => "notStarted"

def handleLayer (a : Args) : String :=
  let g := graphOf a
  let arch := parseLArch (a.get "arch")
  let ops := (splitList ";" (a.get "lops")).filterMap (parseLayerRuleOp arch)
  let table := parseMatchTable (a.get "mtab")
  let (v, i) := runLayerRuleOps (tableMatches table) ops g
  let (t, _) := runLayerRuleOpsText (tableMatches table) ops g
  s!"M={renderLVerdict v} I={i} {layerSpecAnswer a} C={renderLRClass (PtaSpec.classifyLayerRule (ops.map (toLRCall arch)))} T={renderTextLines t}"

def handleLayerOf (a : Args) : String :=
  let m : LayerMap := (splitList ";" (a.get "map")).filterMap fun rec =>
    match rec.splitOn "~" with
    | [n, ms] => some (dec n, strList ms)
    | [n] => some (dec n, [])
    | _ => none
  joinStr "," ((strList (a.get "names")).map fun n =>
    match m.layerOf n with
    | .ok t => tagOpt t
    | .error k => "ERR:" ++ errName k)


/-! ### labels -/

def handleLabel (a : Args) : String :=
  let nodes := (graphOf a).nodes
  let aliases : List (Str × Str) := (splitList "," (a.get "al")).filterMap fun p =>
    match p.splitOn ">" with
    | [k, v] => some (dec k, dec v)
    | _ => none
  let mAns := match plotLabels nodes aliases with
    | .error (k, who) => s!"ERR:{errName k}:{enc who}"
    | .ok ls => "OK:" ++ joinStr "," (canonSet (ls.map fun (l : Str × Str) => enc l.1 ++ ">" ++ enc l.2))
  let sal : PtaSpec.Aliases := aliases.map fun p => (toName p.1, p.2)
  let sAns := if aliases.all (fun p => nodes.contains p.1) then
      "OK:" ++ joinStr "," (canonSet (nodes.map fun n => enc n ++ ">" ++ enc (PtaSpec.label sal (toName n))))
    else "ERR:lookupError"
  -- `kw=` lists keyword names; a token `k:v` carries an opaque value token `v` (':' never occurs in an encoded string),
  -- a bare name `k` gets the value token equal to its name
  let kw := (splitList "," (a.get "kw")).map fun k =>
    if k == "spacing" then KwArg.spacing else if k == "aliases" then .aliases else
      match k.splitOn ":" with
      | [n, v] => .other (dec n) (dec v)
      | _ => .other (dec k) (dec k)
  let out := drawKwargs kw
  let kwOut := joinStr "," (canonSet (out.map fun k => match k with
    | .spacing => "spacing" | .aliases => "aliases" | .pos => "pos" | .labels => "labels" | .other n _ => enc n))
  -- the passed-through pairs in the ORDER the backend receives them (`K=` keeps its format: the sorted key set)
  let kvOut := joinStr "," (out.filterMap fun k => match k with
    | .other n v => some (enc n ++ ":" ++ enc v) | _ => none)
  s!"M={mAns} S={sAns} K={kwOut} KV={kvOut}"


/-! ### scans -/

def parseStmt (s : String) : Option ImportStmt :=
  match s.splitOn "~" with
  | "i" :: names => some (.imp (names.map dec))
  | "f" :: lvl :: m :: names =>
    some (.impFrom (if m == "%n" then none else some (dec m)) (names.map dec) (lvl.toNat?.getD 0))
  | _ => none

/-! #### the AST of a file (`T:` field of an entry)

  `T:<tok>!<tok>!…` — the tree in PREFIX notation (a node, then its children in order), tokens joined by `!`:
  * `I~<field>~<name>~<name>…`                      an `ast.Import` with its alias names (a leaf)
  * `F~<field>~<level>~<module or %n>~<name>…`      an `ast.ImportFrom` (a leaf)
  * `O~<field>~<class>~<k>`                         any other node, followed by its `k` children
  `<field>` = name of the parent's field the node sits in (empty or `%e` for the root); every string `enc`-encoded.
  The token list must be exactly one tree (its root is the `ast.Module` node). -/

/-- an open `O` node: its path, how many children are still to come, the index of the next one -/
structure TFrame where
  path : List Nat
  remaining : Nat
  next : Nat

/-- close the nodes whose children are complete -/
def popDone : List TFrame → List TFrame
  | f :: fs => if f.remaining == 0 then popDone fs else f :: fs
  | [] => []

/-- one token at position `path`: the node and the number of children that follow -/
def parseNodeTok (tok : String) (path : List Nat) : Option (AstNode × Nat) :=
  match tok.splitOn "~" with
  | "I" :: field :: names => some ({ path := path, kind := .imp (names.map dec), field := dec field }, 0)
  | "F" :: field :: lvl :: m :: names =>
    lvl.toNat?.map fun l =>
      ({ path := path, kind := .impFrom (if m == "%n" then none else some (dec m)) (names.map dec) l, field := dec field }, 0)
  | ["O", field, cls, k] => k.toNat?.map fun k => ({ path := path, kind := .other (dec cls), field := dec field }, k)
  | _ => none

/-- the nodes in pre-order with their paths; `none` unless the tokens are exactly one tree -/
def parseTreeToks : List String → List TFrame → Bool → List AstNode → Option (List AstNode)
  | [], stack, started, acc => if stack.isEmpty && started then some acc.reverse else none
  | tok :: rest, stack, started, acc =>
    let place : Option (List Nat × List TFrame) :=
      match stack with
      | [] => if started then none else some ([], [])
      | f :: fs => some (f.path ++ [f.next], { f with remaining := f.remaining - 1, next := f.next + 1 } :: fs)
    match place with
    | none => none
    | some (path, stack') =>
      match parseNodeTok tok path with
      | none => none
      | some (node, k) =>
        parseTreeToks rest (popDone ({ path := path, remaining := k, next := 0 } :: stack')) true (node :: acc)

def parseTree (v : String) : Option (List AstNode) := parseTreeToks (splitList "!" v) [] false []

/-- the `T:` field of an entry, if any (4th field; also accepted in 3rd position) -/
def treeField (fields : List String) : Option String :=
  (fields.find? fun f => f.startsWith "T:").map fun f => String.ofList (f.toList.drop 2)

/-- an entry carries a `T:` field that is not a tree -/
def badTree (s : String) : Bool :=
  match treeField ((s.splitOn "|").drop 2) with
  | some t => (parseTree t).isNone
  | none => false

/-- `rel|kind[|stmts[|T:tree]]`: with a tree, the statements are what the model's walk collects from it -/
def parseEntry (s : String) : Option (Entry × Bool) :=
  match s.splitOn "|" with
  | rel :: kind :: rest =>
    let comps := (splitList "/" rel).map dec
    let tree := ((treeField rest).bind parseTree).getD []
    let stmts := match treeField rest, rest with
      | some _, _ => collectImports tree
      | none, [st] => (splitList "+" st).filterMap parseStmt
      | none, _ => []
    some ({ rel := comps, isDir := kind.startsWith "d", stmts := stmts, tree := tree }, kind.endsWith "x")
  | _ => none

def parsePatterns (v : String) : Patterns :=
  match v.splitOn ":" with
  | ["G", ps] => .globs (strList ps)
  | ["G"] => .globs []
  | ["R", ps] => .regexes (strList ps)
  | _ => .regexes []

def renderGraph (g : PGraph Str) : String :=
  s!"nodes:{joinStr "," (canonSet (g.nodes.map enc))}|imps:{renderPairs g.importPairs}|hier:{renderPairs g.hierPairs}"

def toSStmt : ImportStmt → PtaSpec.SStmt
  | .imp names => .imp (names.map toName)
  | .impFrom m names lvl => .impFrom (m.map toName) names lvl

def toSNode (n : AstNode) : PtaSpec.SNode :=
  { path := n.path, field := n.field,
    kind := match n.kind with
      | .imp names => .imp (names.map toName)
      | .impFrom m names lvl => .impFrom (m.map toName) names lvl
      | .other _ => .other }

/-- the statements the specification sees: with a tree, ALL its import nodes (`PtaSpec.allImports` — not the
    model's walk); otherwise the listed statements -/
def specStmts (e : Entry) : List PtaSpec.SStmt :=
  if e.tree.isEmpty then e.stmts.map toSStmt else PtaSpec.allImports (e.tree.map toSNode)

def handleScan (a : Args) : String :=
  let base := dec (a.get "base")
  let rootName := dec (a.get "root")
  let mp := (splitList "/" (a.get "mp")).map dec
  if (splitList ";" (a.get "ents")).any badTree then "BAD tree" else
  let ents := (splitList ";" (a.get "ents")).filterMap parseEntry
  let table := parseMatchTable (a.get "mtab")
  let o : ScanOptions :=
    { exclusions := parsePatterns (a.get "ex"), excludeExternal := a.get "xx" != "0",
      levelLimit := natOpt (a.get "lim"), externalExclusions := parsePatterns (a.get "eex") }
  let mAns := match generateGraph (tableMatches table) base rootName mp (ents.map (·.1)) o with
    | .error k => "ERR:" ++ errName k
    | .ok g => renderGraph g
  let sents : List PtaSpec.SEntry := ents.map fun (e, x) =>
    let name := match e.rel.getLast? with | some n => n | none => []
    { rel := e.rel, isDir := e.isDir, isPy := !e.isDir && isPyFile name, stem := dropSuffix name,
      excludedHere := x, stmts := specStmts e }
  let smods := PtaSpec.scanModules rootName sents mp
  let sAns := match PtaSpec.scanImports rootName sents mp with
    | none => "ERR"
    | some is => s!"nodes:{joinStr "," (canonSet (smods.map renderName))}|imps:{joinStr "," (canonSet (is.map fun (e : PtaSpec.Name × PtaSpec.Name) => renderName e.1 ++ ">" ++ renderName e.2))}"
  s!"M={mAns} S={sAns}"

/-- names the external-exclusion filter will be asked about (importees and their parents, module names) -/
def handleScanNames (a : Args) : String :=
  let base := dec (a.get "base")
  let rootName := dec (a.get "root")
  let mp := (splitList "/" (a.get "mp")).map dec
  if (splitList ";" (a.get "ents")).any badTree then "BAD tree" else
  let ents := ((splitList ";" (a.get "ents")).filterMap parseEntry).map (·.1)
  let table := parseMatchTable (a.get "mtab")
  let o : ScanOptions := { exclusions := parsePatterns (a.get "ex"), excludeExternal := false }
  match generateGraph (tableMatches table) base rootName mp ents o with
  | .error k => "Q=ERR:" ++ errName k
  | .ok g => "Q=" ++ joinStr "," (canonSet (g.nodes.map enc))

def handleOpts (a : Args) : String :=
  let b (k : String) : Bool := a.get k == "1"
  let o : EntryOptions := ⟨b "ex", b "rex", b "eex", b "reex", b "xx", b "inside"⟩
  match entryOptionsError o with
  | some k => "M=ERR:" ++ errName k
  | none => "M=OK"


/-! ### diagrams -/

def renderParsed (p : Parsed') : String :=
  "OK:" ++ joinStr "," (canonSet (p.modules.map enc)) ++ "|" ++
    joinStr ";" (canonSet (p.dependencies.map fun (kv : Str × List Str) => enc kv.1 ++ "~" ++ joinStr "," (canonSet (kv.2.map enc))))

def handlePuml (a : Args) : String :=
  match pumlParse (dec (a.get "text")) with
  | .error k => "M=ERR:" ++ errName k
  | .ok p => "M=" ++ renderParsed p

def handleDiagram (a : Args) : String :=
  let g := graphOf a
  let content := if a.get "text" == "%n" then none else some (dec (a.get "text"))
  let base := if a.get "base" == "%n" || a.get "base" == "" then none else some (dec (a.get "base"))
  let only := a.get "mode" != "should"
  let mAns := match diagramAssert (fun _ _ => false) content base only g with
    | .pass => "PASS"
    | .fail items => "FAIL:" ++ joinStr ";" (canonSet (items.map renderItem))
    | .err k => "ERR:" ++ errName k
  let sAns := match a.get? "comps" with
    | none => "S=NA D=-"
    | some cs =>
      let d : PtaSpec.Diagram := { components := (strList cs).map toName,
                                   arrows := (pairList (a.get "arrows")).map fun (p : Str × Str) => (toName p.1, toName p.2) }
      let arch := archOf a
      s!"S={if PtaSpec.conforms arch d only then "PASS" else "FAIL"} D={if PtaSpec.diagramDomain arch d then "d" else "-"}"
  s!"M={mAns} {sAns}"

def handle (line : String) : String :=
  let (op, a) := parseArgs line
  if op == "rule" then handleRule a
  else if op == "query" then handleQuery a
  else if op == "graph" then handleGraph a
  else if op == "glob" then handleGlob a
  else if op == "label" then handleLabel a
  else if op == "puml" then handlePuml a
  else if op == "diagram" then handleDiagram a
  else if op == "scan" then handleScan a
  else if op == "opts" then handleOpts a
  else if op == "scannames" then handleScanNames a
  else if op == "larch" then handleLArch a
  else if op == "layer" then handleLayer a
  else if op == "layerof" then "M=" ++ handleLayerOf a
  else "BAD op"

end Driver
