/-
  Driver.Ops — one handler per protocol operation.
-/
import PtaModel
import PtaSpec
import Driver.Proto
namespace Driver
open Pta

/-! ### shared parsing -/

def parseFilter (s : String) : Option Filter :=
  match s.splitOn ":" with
  | ["N", x] => some (.name (dec x))
  | ["P", x] => some (.parent (dec x))
  | ["R", x] => some (.regex (dec x))
  | _ => none

def filterList (v : String) : List Filter := (splitList "," v).filterMap parseFilter

def parseRuleOp (s : String) : Option RuleOp :=
  match s.splitOn ":" with
  | ["mt"] => some .modulesThat
  | ["named", a] => some (.areNamed (strList a))
  | ["sub", a] => some (.areSubModulesOf (strList a))
  | ["match", a] => some (.haveNameMatching (dec a))
  | ["contain", a] => some (.haveNameContaining (strList a))
  | ["should"] => some .should
  | ["only"] => some .shouldOnly
  | ["not"] => some .shouldNot
  | ["imp"] => some .importThat
  | ["by"] => some .beImportedByThat
  | ["impx"] => some .importExcept
  | ["byx"] => some .beImportedByExcept
  | ["impany"] => some .importAnything
  | ["byany"] => some .beImportedByAnything
  | _ => none

/-- `mtab=<pat>~m1,m2;<pat>~…` : the interpretation of `re.match(pattern, module)` supplied by the
    harness (computed with Python's `re`) -/
def parseMatchTable (v : String) : List (Str × List Str) :=
  (splitList ";" v).filterMap fun rec =>
    match rec.splitOn "~" with
    | [p, ms] => some (dec p, strList ms)
    | [p] => some (dec p, [])
    | _ => none

def tableMatches (t : List (Str × List Str)) (p m : Str) : Bool :=
  t.any fun e => e.1 == p && e.2.contains m

def graphOf (a : Args) : PGraph Str :=
  buildGraph (strList (a.get "nodes")) ((pairList (a.get "imps")).map fun p => absImport p.1 p.2)
    (natOpt (a.get "lim"))

/-! ### rendering -/

def modTag (m : Mod) : String := (if m.group then "G" else "S") ++ enc m.id

def renderItem : Item → String
  | .imp u v by_ => s!"imp|{enc u}|{enc v}|{if by_ then "b" else "i"}"
  | .miss any s os by_ =>
    s!"miss|{if any then "1" else "0"}|{modTag s}|{joinStr "," (canonSet (os.map modTag))}|{if by_ then "b" else "i"}"

def renderVerdict : Verdict → String
  | .pass => "PASS"
  | .fail items => "FAIL:" ++ joinStr ";" (canonSet (items.map renderItem))
  | .err k => "ERR:" ++ errName k

def renderPairs (ps : List (Str × Str)) : String :=
  joinStr "," (canonSet (ps.map fun p => enc p.1 ++ ">" ++ enc p.2))

/-! ### specification side -/

open PtaSpec in
def toName (s : Str) : PtaSpec.Name := splitDots s

def renderName (n : PtaSpec.Name) : String := enc (joinDots n)

def parseSFilter (s : String) : Option PtaSpec.SFilter :=
  match s.splitOn ":" with
  | ["N", x] => some (.named (toName (dec x)))
  | ["P", x] => some (.subOf (toName (dec x)))
  | _ => none

def sfTag (f : PtaSpec.SFilter) : String := (if f.isSub then "G" else "S") ++ renderName f.id

def renderSItem (byDir : Bool) : PtaSpec.SItem → String
  | .imp u v => s!"imp|{renderName u}|{renderName v}|{if byDir then "b" else "i"}"
  | .miss any s os =>
    s!"miss|{if any then "1" else "0"}|{sfTag s}|{joinStr "," (canonSet (os.map sfTag))}|{if byDir then "b" else "i"}"

def archOf (a : Args) : PtaSpec.Arch :=
  { nodes := (strList (a.get "nodes")).map toName
    imports := (pairList (a.get "imps")).map fun p => (toName p.1, toName p.2) }

/-- optional spec fields: sv (should|only|not) sd (i|b) sx (0|1) ss so sa (0|1) -/
def specOf (a : Args) : Option PtaSpec.RuleSpec :=
  match a.get? "sv" with
  | none => none
  | some sv =>
    let verb := if sv == "should" then PtaSpec.Verb.should else if sv == "only" then .shouldOnly else .shouldNot
    some { verb := verb, importDir := a.get "sd" == "i", exc := a.get "sx" == "1",
           subjects := (splitList "," (a.get "ss")).filterMap parseSFilter,
           objects := (splitList "," (a.get "so")).filterMap parseSFilter,
           anything := a.get "sa" == "1" }

def specAnswer (a : Args) : String :=
  match specOf a with
  | none => "S=NA D=-"
  | some r =>
    let arch := archOf a
    let dom := s!"{if arch.wf then "w" else "-"}{if r.strict then "s" else "-"}{if r.namesIn arch then "n" else "-"}"
    let v := if PtaSpec.verdict arch r then "PASS"
      else "FAIL:" ++ joinStr ";" (canonSet ((PtaSpec.violating arch r).map (renderSItem (!r.importDir))))
    s!"S={v} D={dom}"

/-! ### specification automaton for call histories -/

def toRCall : RuleOp → PtaSpec.RCall
  | .modulesThat => .modulesThat
  | .areNamed ns => .naming (!ns.isEmpty)
  | .areSubModulesOf ns => .naming (!ns.isEmpty)
  | .haveNameMatching _ => .naming true
  | .haveNameContaining ps => .naming (!ps.isEmpty)
  | .should => .should
  | .shouldOnly => .shouldOnly
  | .shouldNot => .shouldNot
  | .importThat => .importType false
  | .beImportedByThat => .importType false
  | .importExcept => .importType true
  | .beImportedByExcept => .importType true
  | .importAnything => .anything
  | .beImportedByAnything => .anything

def renderClass : PtaSpec.RClass → String
  | .errorAtCall i => s!"errorAt{i}"
  | .incomplete => "incomplete"
  | .contradictory => "contradictory"
  | .unspecified => "unspecified"
  | .complete => "complete"

/-! ### handlers -/

def handleRule (a : Args) : String :=
  let g := graphOf a
  let ops := (splitList ";" (a.get "ops")).filterMap parseRuleOp
  let table := parseMatchTable (a.get "mtab")
  let (v, i) := runRuleOps convertPartialMatch (tableMatches table) ops g
  s!"M={renderVerdict v} I={i} {specAnswer a} C={renderClass (PtaSpec.classifyRule (ops.map toRCall))}"

def handleQuery (a : Args) : String :=
  let g := graphOf a
  let fs := filterList (a.get "from")
  let os := filterList (a.get "to")
  let kind := a.get "kind"
  let render {κ : Type} (key : κ → String) (r : Except ErrKind (List (κ × List (Str × Str)))) : String :=
    match r with
    | .error k => "ERR:" ++ errName k
    | .ok l => "OK:" ++ joinStr ";" (canonSet (l.map fun kd => key kd.1 ++ "=" ++ renderPairs kd.2))
  if kind == "dep" then
    "M=" ++ render (fun (k : Dep) => modTag k.1 ++ "~" ++ modTag k.2) (getDependencies g fs os)
  else if kind == "from" then "M=" ++ render modTag (getOtherFrom g fs os)
  else if kind == "to" then "M=" ++ render modTag (getOtherTo g fs os)
  else "BAD kind"

def handleGraph (a : Args) : String :=
  let g := graphOf a
  s!"M=nodes:{joinStr "," (canonSet (g.nodes.map enc))} imps:{renderPairs g.importPairs} hier:{renderPairs g.hierPairs}"

def handleGlob (a : Args) : String :=
  let p := dec (a.get "p")
  let re := convertPartialMatch p
  let ms := (splitList "," (a.get "s")).map fun s =>
    match matchEmitted re (dec s) with
    | some true => "1" | some false => "0" | none => "?"
  let sp := (splitList "," (a.get "s")).map fun s => if globSpec p (dec s) then "1" else "0"
  s!"M={enc re} m={String.join ms} S={String.join sp}"

def handle (line : String) : String :=
  let (op, a) := parseArgs line
  if op == "rule" then handleRule a
  else if op == "query" then handleQuery a
  else if op == "graph" then handleGraph a
  else if op == "glob" then handleGlob a
  else "BAD op"

end Driver
