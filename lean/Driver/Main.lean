/-
  Driver.Main — evaluates the model (M) and the specification (S) on protocol lines read from
  stdin; one answer line per input line. Imports only PtaModel / PtaSpec (no Mathlib), so it links
  as a native executable.
-/
import PtaModel
import PtaSpec
import Driver.Proto
import Driver.Ops
namespace Driver

partial def loop (h : IO.FS.Stream) (out : IO.FS.Stream) : IO Unit := do
  let line ← h.getLine
  if line.isEmpty then return ()
  let l := line.trimAscii.toString
  if l != "" then
    out.putStrLn (handle l)
  loop h out

end Driver

def main : IO Unit := do
  let stdin ← IO.getStdin
  let stdout ← IO.getStdout
  Driver.loop stdin stdout
  stdout.flush
