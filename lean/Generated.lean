import Generated.Flags
