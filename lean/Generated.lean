import Generated.Flags
import Generated.Config
import Generated.Wiring
