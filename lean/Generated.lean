import Generated.Flags
import Generated.Config
