import Bridge.Abs
import Bridge.Quotient
