import Bridge.Abs
import Bridge.Quotient
import Bridge.ExtAbs
import Bridge.ScanAbs
import Bridge.LayerAbs
import Bridge.Rename
import Bridge.ScanTree
import Bridge.PumlRender
