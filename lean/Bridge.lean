import Bridge.Abs
