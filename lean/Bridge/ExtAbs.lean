/-
  Bridge.ExtAbs — vocabulary for property C10 (external-library options): the internal part of a scanned graph
  and admissible option records.
-/
import PtaModel.Scan
namespace Pta

/-- both ends of a pair are internal modules -/
def bothInternal (pre : Str) (p : Str × Str) : Bool := isInternal p.1 pre && isInternal p.2 pre

/-- the internal modules among the nodes -/
def internalNodes (pre : Str) (g : PGraph Str) : List Str := g.nodes.filter (isInternal · pre)

/-- the import edges between internal modules -/
def internalImports (pre : Str) (g : PGraph Str) : List (Str × Str) := g.importPairs.filter (bothInternal pre)

/-- the hierarchy edges between internal modules -/
def internalHier (pre : Str) (g : PGraph Str) : List (Str × Str) := g.hierPairs.filter (bothInternal pre)

/-- the entry-option check: external exclusion patterns are only allowed when externals are included -/
def ScanOptions.admissible (o : ScanOptions) : Bool := !o.excludeExternal || o.externalExclusions.isEmpty

/-- `parentModules m ++ [m]`: the module with its dotted ancestors -/
def withParents (m : Str) : List Str := parentModules m ++ [m]

/-- `i` survives `ExternalImportFilter.filter` under options `o` -/
def retained (mt : Str → Str → Bool) (o : ScanOptions) (pre : Str) (i : ImportRec) : Bool :=
  if !o.excludeExternal && o.externalExclusions.isEmpty then true
  else if !o.externalExclusions.isEmpty then
    isInternal i.importee pre ||
      !(isExcluded mt o.externalExclusions i.importee || i.importeeParents.any (isExcluded mt o.externalExclusions))
  else isInternal i.importee pre

end Pta
