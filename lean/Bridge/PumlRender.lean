/-
  Bridge.PumlRender — the documented PlantUML subset as an abstract syntax (`DLine`), its renderer to raw
  text, its well-formedness predicate and its declarative meaning (component set, arrow relation).
  Used by property C06 (parser round trip). Import-free apart from the model.
-/
import PtaModel.Puml
namespace Pta

/-- the three declaration forms `[name]`, `component name`, `component [name]`
    (the two bracketed forms may be followed by ` as alias`) -/
inductive DeclForm
  | bracket | compBare | compBracket
deriving DecidableEq, Repr

/-- the six arrow forms `-->`, `->`, `<--`, `<-`, `-text->`, `<-text-` -/
inductive ArrowForm
  | r2 | r1 | l2 | l1
  | rt (text : Str)
  | lt (text : Str)
deriving DecidableEq, Repr

/-- a reference to a component in an arrow line: bare name, `[name]`, or the component's alias -/
inductive DRef
  | bare (n : Str)
  | bracketed (n : Str)
  | viaAlias (a : Str)
deriving DecidableEq, Repr

/-- one diagram line; `arrow f a b` always MEANS "a depends on b", whatever the direction it is drawn in -/
inductive DLine
  | decl (form : DeclForm) (name : Str) (alias : Option Str)
  | arrow (form : ArrowForm) (a b : DRef)
deriving DecidableEq, Repr

/-! ### rendering -/

def kwComponent : Str := ['c','o','m','p','o','n','e','n','t']
def kwAs : Str := [' ', 'a', 's', ' ']
def tagStart : Str := ['@','s','t','a','r','t','u','m','l']
def tagEnd : Str := ['@','e','n','d','u','m','l']

/-- the text the parser captures for a reference (what is written, without brackets) -/
def DRef.written : DRef → Str
  | .bare n => n
  | .bracketed n => n
  | .viaAlias a => a

def DRef.render : DRef → Str
  | .bare n => n
  | .bracketed n => '[' :: n ++ [']']
  | .viaAlias a => a

def ArrowForm.isRight : ArrowForm → Bool
  | .r2 | .r1 | .rt _ => true
  | _ => false

/-- the arrow token -/
def ArrowForm.token : ArrowForm → Str
  | .r2 => ['-','-','>']
  | .r1 => ['-','>']
  | .l2 => ['<','-','-']
  | .l1 => ['<','-']
  | .rt t => '-' :: t ++ ['-','>']
  | .lt t => '<' :: '-' :: t ++ ['-']

def renderAlias : Option Str → Str
  | none => []
  | some al => kwAs ++ al

def renderDecl : DeclForm → Str → Option Str → Str
  | .bracket, n, al => '[' :: n ++ ']' :: renderAlias al
  | .compBare, n, _ => kwComponent ++ ' ' :: n
  | .compBracket, n, al => kwComponent ++ ' ' :: '[' :: n ++ ']' :: renderAlias al

/-- right arrows are written `A tok B`, left arrows `B tok A` (one space on each side) -/
def renderArrow (f : ArrowForm) (a b : DRef) : Str :=
  if f.isRight then a.render ++ ' ' :: f.token ++ ' ' :: b.render
  else b.render ++ ' ' :: f.token ++ ' ' :: a.render

def DLine.render : DLine → Str
  | .decl f n al => renderDecl f n al
  | .arrow f a b => renderArrow f a b

/-- the reference written last in an arrow line -/
def lastRef (f : ArrowForm) (a b : DRef) : DRef := if f.isRight then b else a

/-- what the declaration recogniser finds in an arrow line whose last reference is `r`:
    a bracketed name at the end of the line is also a (alias-free) declaration -/
def DRef.inlineModule : DRef → List PModule
  | .bracketed n => [⟨n, none⟩]
  | _ => []

/-- noise, start tag, the lines joined by newlines, end tag, noise -/
def diagramText (noise1 : Str) (d : List DLine) (noise2 : Str) : Str :=
  noise1 ++ tagStart ++ '\n' :: joinWith ['\n'] (d.map DLine.render) ++ '\n' :: tagEnd ++ noise2

/-! ### meaning -/

/-- alias ↦ component name, from the declarations that carry an alias -/
def aliasTable (d : List DLine) : List (Str × Str) :=
  d.filterMap fun
    | .decl _ n (some a) => some (a, n)
    | _ => none

def resolveStr (tbl : List (Str × Str)) (x : Str) : Str :=
  match tbl.find? (·.1 == x) with
  | some p => p.2
  | none => x

/-- the component a reference denotes -/
def DRef.resolve (tbl : List (Str × Str)) : DRef → Str
  | .bare n => n
  | .bracketed n => n
  | .viaAlias a => resolveStr tbl a

/-- the arrows drawn: dependor → dependee, aliases resolved -/
def diagramArrows (d : List DLine) : List (Str × Str) :=
  d.filterMap fun
    | .arrow _ a b => some (a.resolve (aliasTable d), b.resolve (aliasTable d))
    | _ => none

/-- the components declared or referenced, aliases resolved -/
def diagramComponents (d : List DLine) : List Str :=
  d.flatMap fun
    | .decl _ n _ => [n]
    | .arrow _ a b => [a.resolve (aliasTable d), b.resolve (aliasTable d)]

/-! ### well-formedness (the documented subset) -/

def nameOK (n : Str) : Bool := !n.isEmpty && n.all isNameChar
def wordOK (a : Str) : Bool := !a.isEmpty && a.all isWordChar

def ArrowForm.textOK : ArrowForm → Bool
  | .rt t => wordOK t
  | .lt t => wordOK t
  | _ => true

def DRef.ok (tbl : List (Str × Str)) : DRef → Bool
  | .bare n => nameOK n
  | .bracketed n => nameOK n
  | .viaAlias a => tbl.any (·.1 == a)

def DLine.ok (tbl : List (Str × Str)) : DLine → Bool
  | .decl f n al => nameOK n && (match al with | none => true | some a => wordOK a && f != .compBare)
  | .arrow f a b => f.textOK && a.ok tbl && b.ok tbl

def DRef.names : DRef → List Str
  | .bare n => [n]
  | .bracketed n => [n]
  | .viaAlias _ => []

/-- every component NAME written anywhere in the diagram -/
def writtenNames (d : List DLine) : List Str :=
  d.flatMap fun
    | .decl _ n _ => [n]
    | .arrow _ a b => a.names ++ b.names

/-- an alias stands for one component only -/
def functionalTbl (tbl : List (Str × Str)) : Bool :=
  tbl.all fun p => tbl.all fun q => p.1 != q.1 || p.2 == q.2

/-- names, aliases and arrow texts are well formed; `component name` carries no alias; every alias used in an
    arrow is declared; an alias stands for one component and is not itself a component name of the diagram -/
def diagramWF (d : List DLine) : Bool :=
  d.all (DLine.ok (aliasTable d)) &&
  (aliasTable d).all (fun p => !(writtenNames d).contains p.1) &&
  functionalTbl (aliasTable d)

/-- the dependees recorded for a dependor (dict lookup) -/
def Parsed'.depsOf (p : Parsed') (x : Str) : List Str :=
  match p.dependencies.find? (·.1 == x) with
  | some kv => kv.2
  | none => []

end Pta
