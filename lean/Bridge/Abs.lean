/-
  Bridge.Abs — abstraction maps from the model's vocabulary to the specification's (used by the driver
  and by the theorems, so that both talk about the same maps).
-/
import PtaModel
import PtaSpec
namespace Pta
open PtaSpec

/-- a fluent Rule call as the specification automaton sees it -/
def toRCall : RuleOp → RCall
  | .modulesThat => .modulesThat
  | .areNamed ns => .naming (!ns.isEmpty)
  | .areSubModulesOf ns => .naming (!ns.isEmpty)
  | .haveNameMatching _ => .naming true
  | .haveNameContaining ps => .naming (!ps.isEmpty)
  | .should => .should
  | .shouldOnly => .shouldOnly
  | .shouldNot => .shouldNot
  | .importThat => .importType false
  | .beImportedByThat => .importType false
  | .importExcept => .importType true
  | .beImportedByExcept => .importType true
  | .importAnything => .anything
  | .beImportedByAnything => .anything

def toLCall : LArchOp → LCall
  | .withLayer => .withLayer
  | .layer n => .layer n
  | .containingModules ms => .modules ms
  | .matching r => .regex r

def toLRCall (arch : LArch) : LayerRuleOp → LRCall
  | .basedOn _ => .basedOn
  | .layersThat => .layersThat
  | .areNamed ls isList =>
    .named ((ls.flatMap fun l => match arch.get l with | .ok fs => fs | .error _ => []).length) isList
      (ls.all arch.hasLayer)
  | .should => .should
  | .shouldOnly => .shouldOnly
  | .shouldNot => .shouldNot
  | .access => .accessType false
  | .beAccessedBy => .accessType false
  | .accessExcept => .accessType true
  | .beAccessedByExcept => .accessType true
  | .accessAny => .anyLayer
  | .beAccessedByAny => .anyLayer

/-- dotted string of a component-list name -/
def render (n : Name) : Str := joinDots n

/-- verdict without the report -/
inductive VClass
  | pass | fail | err (k : ErrKind)
deriving DecidableEq, Repr

def Verdict.cls : Verdict → VClass
  | .pass => .pass
  | .fail _ => .fail
  | .err k => .err k

def LVerdict.cls : LVerdict → VClass
  | .pass => .pass
  | .fail _ => .fail
  | .err k => .err k


/-- a finished rule: verb flags, direction, except, subject and object filters -/
def mkRule (should only not_ : Bool) (importDir exc : Bool) (subs objs : List Filter) : RuleState :=
  { cfg := { subjects := some subs, objects := some objs, should := should, shouldOnly := only, shouldNot := not_,
             exceptPresent := exc, importDir := some importDir }, next := some false }

/-- verdict class of a rule on a graph -/
def verdictOf (mt : Str → Str → Bool) (g : PGraph Str) (r : RuleState) : VClass := (assertApplies mt r g).2.cls

/-- adding one import edge `u → v` to a graph -/
def addImportEdge (g : PGraph Str) (u v : Str) : PGraph Str := { g with edges := g.edges ++ [⟨u, v, false⟩] }


/-! ### from specification rules / architectures to the model's inputs -/

def compileFilter : SFilter → Filter
  | .named x => .name (render x)
  | .subOf x => .parent (render x)

/-- the rule object a specification rule denotes (the state of the fluent builder after the complete chain) -/
def compile (r : RuleSpec) : RuleState :=
  { cfg := { subjects := some (r.subjects.map compileFilter),
             objects := if r.anything then none else some (r.objects.map compileFilter),
             should := r.verb == .should, shouldOnly := r.verb == .shouldOnly, shouldNot := r.verb == .shouldNot,
             exceptPresent := !r.anything && r.exc, importDir := some r.importDir, anything := r.anything },
    next := some false }

/-- the graph `NetworkxGraph(all_modules, imports)` built from an architecture -/
def archGraph (a : Arch) : PGraph Str :=
  buildGraph (a.nodes.map render) (a.imports.map fun e => absImport (render e.1) (render e.2)) none

def VClass.ofBool (b : Bool) : VClass := if b then .pass else .fail

/-- `g` is the graph of architecture `a`: nodes, hierarchy edges and import edges are exactly the rendered ones -/
structure GraphOf (a : Arch) (g : PGraph Str) : Prop where
  nodes : ∀ s, g.hasNode s = true ↔ ∃ n ∈ a.nodes, s = render n
  hier : ∀ s x, x ∈ g.hierChildren s ↔ ∃ c ∈ a.nodes, 2 ≤ c.length ∧ s = render c.dropLast ∧ x = render c
  succs : ∀ s x, x ∈ g.importSuccs s ↔ ∃ e ∈ a.imports, s = render e.1 ∧ x = render e.2
  preds : ∀ s x, x ∈ g.importPreds s ↔ ∃ e ∈ a.imports, x = render e.1 ∧ s = render e.2

/-- atoms of a report: an import line, or one (subject, object) pair of a "does not import" line -/
inductive Atom
  | imp (importer importee : Str)
  | miss (any : Bool) (subj : Mod) (obj : Mod)
deriving DecidableEq, Repr

def Item.atoms : Item → List Atom
  | .imp u v _ => [.imp u v]
  | .miss any s os _ => os.map fun o => .miss any s o

def sfilterMod (f : SFilter) : Mod := ⟨f.isSub, render f.id⟩

def SItem.atoms : SItem → List Atom
  | .imp u v => [.imp (render u) (render v)]
  | .miss any s os => os.map fun o => .miss any (sfilterMod s) (sfilterMod o)


/-! ### level limit -/

/-- truncation of a name to `k` levels below the top: the first k+1 components -/
def trunc (lim : Option Nat) (n : Name) : Name :=
  match lim with
  | none => n
  | some k => n.take (k + 1)

/-- `NetworkxGraph(all_modules, imports, level_limit)` built from an architecture -/
def archGraphLim (a : Arch) (lim : Option Nat) : PGraph Str :=
  buildGraph (a.nodes.map render) (a.imports.map fun e => absImport (render e.1) (render e.2)) lim

/-- `g` is the quotient of architecture `a` under truncation to the level limit -/
structure QuotientOf (a : Arch) (lim : Option Nat) (g : PGraph Str) : Prop where
  nodes : ∀ s, g.hasNode s = true ↔ ∃ n ∈ a.nodes, s = render (trunc lim n)
  hier : ∀ s x, x ∈ g.hierChildren s ↔
    ∃ c ∈ a.nodes, 2 ≤ (trunc lim c).length ∧ s = render (trunc lim c).dropLast ∧ x = render (trunc lim c)
  succs : ∀ s x, x ∈ g.importSuccs s ↔
    ∃ e ∈ a.imports, trunc lim e.1 ≠ trunc lim e.2 ∧ s = render (trunc lim e.1) ∧ x = render (trunc lim e.2)
  preds : ∀ s x, x ∈ g.importPreds s ↔
    ∃ e ∈ a.imports, trunc lim e.1 ≠ trunc lim e.2 ∧ x = render (trunc lim e.1) ∧ s = render (trunc lim e.2)


/-! ### graphs with the same node and edge sets; renamings of path components -/

structure GraphEquiv (g g' : PGraph Str) : Prop where
  nodes : ∀ s, s ∈ g.nodes ↔ s ∈ g'.nodes
  hier : ∀ s x, x ∈ g.hierChildren s ↔ x ∈ g'.hierChildren s
  succs : ∀ s x, x ∈ g.importSuccs s ↔ x ∈ g'.importSuccs s
  preds : ∀ s x, x ∈ g.importPreds s ↔ x ∈ g'.importPreds s

/-- renaming of path components, lifted to names, architectures and rules -/
def renName (ρ : Comp → Comp) (n : Name) : Name := n.map ρ

def renArch (ρ : Comp → Comp) (a : Arch) : Arch :=
  { nodes := a.nodes.map (renName ρ), imports := a.imports.map fun e => (renName ρ e.1, renName ρ e.2) }

def renFilter (ρ : Comp → Comp) : SFilter → SFilter
  | .named x => .named (renName ρ x)
  | .subOf x => .subOf (renName ρ x)

def renRule (ρ : Comp → Comp) (r : RuleSpec) : RuleSpec :=
  { r with subjects := r.subjects.map (renFilter ρ), objects := r.objects.map (renFilter ρ) }

def renSItem (ρ : Comp → Comp) : SItem → SItem
  | .imp u v => .imp (renName ρ u) (renName ρ v)
  | .miss any s os => .miss any (renFilter ρ s) (os.map (renFilter ρ))

/-- an admissible renaming: injective on components and preserving "non-empty, dot-free" -/
structure GoodRen (ρ : Comp → Comp) : Prop where
  inj : ∀ c d, ρ c = ρ d → c = d
  wf : ∀ c, compWF c = true → compWF (ρ c) = true


/-! ### directory trees and import statements -/

/-- the root directory itself, as an entry -/
def rootEntry : Entry := { rel := [], isDir := true }

/-- a directory tree: entries have distinct non-empty relative paths and every entry's parent directory is listed -/
def TreeWF (entries : List Entry) : Prop :=
  (entries.map (·.rel)).Nodup ∧ (∀ e ∈ entries, e.rel ≠ []) ∧
  (∀ e ∈ entries, 2 ≤ e.rel.length → ∃ d ∈ entries, d.isDir = true ∧ d.rel = e.rel.dropLast)

/-- an entry contributes a module: it lies at or below `mp`, is a directory or a .py file, and no path from `mp`
    down to the entry itself is excluded -/
def Survives (excl : Str → Bool) (base : Str) (mp : List Str) (e : Entry) : Prop :=
  mp <+: e.rel ∧
  (e.isDir = true ∨ ∃ name, e.rel.getLast? = some name ∧ isPyFile name = true) ∧
  ∀ k, mp.length ≤ k → k ≤ e.rel.length → excl (pathStr base (e.rel.take k)) = false

/-- specification statement ↦ model statement -/
def toStmt : SStmt → ImportStmt
  | .imp names => .imp (names.map render)
  | .impFrom m names level => .impFrom (m.map render) names level

/-- names occurring in a statement are well-formed -/
def stmtWF : SStmt → Bool
  | .imp names => names.all nameWF
  | .impFrom m names _ => (match m with | some p => nameWF p | none => true) && names.all compWF

end Pta
