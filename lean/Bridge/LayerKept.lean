/-
  Bridge.LayerKept — the layers a layer rule actually works with (property C05, audit finding F6):
  `LayerRuleMatcher._update_layer_mapping` resolves a regex layer only if its pattern is among the regex filters the rule
  converted (the patterns of the layers the rule mentions); every other regex layer lists nothing for this rule.
  Name layers are kept as they are, mentioned or not.
-/
import PtaModel
import PtaSpec
import Bridge.Abs
import Bridge.LayerAbs
namespace Pta
open PtaSpec

/-- the patterns of the regex filters among the filters of the layers the rule mentions -/
def ruleConv (larch : LArch) (r : LRuleSpec) : List Str :=
  ((larch.getD r.subject ++
      (if r.anything = true then larch.getD r.subject else r.objects.flatMap larch.getD)).filter (·.isRegex)).map (·.id)

/-- one layer: a regex layer whose pattern the rule did not convert lists nothing -/
def keptEntry (conv : List Str) (F : List Filter) (l : List Char × List Name) : List Char × List Name :=
  match F with
  | [.regex p] => if conv.contains p then l else (l.1, [])
  | _ => l

/-- the resolved layers `ls` of `larch` as the rule sees them -/
def keptLayers (conv : List Str) : LArch → Layers → Layers
  | L :: Ls, l :: ls => keptEntry conv L.2 l :: keptLayers conv Ls ls
  | _, _ => []

/-- the layers a specification layer rule works with -/
def ruleLayers (larch : LArch) (ls : Layers) (r : LRuleSpec) : Layers := keptLayers (ruleConv larch r) larch ls

end Pta
