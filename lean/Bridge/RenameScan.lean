/-
  Bridge.RenameScan — renaming of path components lifted to the INPUTS of a scan (property C14 at scan level):
  the directory listing (`Entry.rel`, the statements and the AST of every file), the root directory name, the
  components of `module_path`; and the same renaming on the specification's vocabulary (`SEntry`, `SStmt`).
  Used by PtaProofs/Props/C14Scan.lean.
-/
import Bridge.Abs
import Bridge.Rename
import Bridge.ScanAbs
import Bridge.ScanTree
import Bridge.ScanExcl
namespace Pta
open PtaSpec

/-- renaming of ONE path component on disk (a directory name or a file name): the stem — what `Path.with_suffix("")`
    leaves, `dropSuffix` — is renamed by `ρ`, the suffix is kept: `x ↦ ρ x`, `x.py ↦ (ρ x).py`, `notes.txt ↦ (ρ notes).txt`.
    A component whose stem is not a possible module-name component (empty or with a further dot: `a.b.py`, `.hidden`,
    `v1.2.3`) cannot name a scanned module and is left alone. -/
def renFile (ρ : Comp → Comp) (c : Str) : Str :=
  if compWF (dropSuffix c) then ρ (dropSuffix c) ++ c.drop (dropSuffix c).length else c

/-- what `renFile ρ` does to the stem: `dropSuffix (renFile ρ c) = renStem ρ (dropSuffix c)` -/
def renStem (ρ : Comp → Comp) (s : Comp) : Comp := if compWF s then ρ s else s

/-- an import statement with every dotted name renamed component-wise (module names of `import a.b, c`, the module and
    the imported names of `from ..m import x, y`; the level — the number of leading dots — is kept) -/
def renStmt (ρ : Comp → Comp) : ImportStmt → ImportStmt
  | .imp names => .imp (names.map (renDotted ρ))
  | .impFrom m names lvl => .impFrom (m.map (renDotted ρ)) (names.map (renDotted ρ)) lvl

/-- the same for an AST node (`other` nodes carry no names) -/
def renAstKind (ρ : Comp → Comp) : AstKind → AstKind
  | .imp names => .imp (names.map (renDotted ρ))
  | .impFrom m names lvl => .impFrom (m.map (renDotted ρ)) (names.map (renDotted ρ)) lvl
  | .other cls => .other cls

def renAstNode (ρ : Comp → Comp) (n : AstNode) : AstNode := { n with kind := renAstKind ρ n.kind }

/-- a directory entry after the renaming: every component of its path, every name in its import statements and in
    its AST -/
def renEntry (ρ : Comp → Comp) (e : Entry) : Entry :=
  { rel := e.rel.map (renFile ρ), isDir := e.isDir, stmts := e.stmts.map (renStmt ρ), tree := e.tree.map (renAstNode ρ) }

/-- the renamed directory listing (same order) -/
def renEntries (ρ : Comp → Comp) (entries : List Entry) : List Entry := entries.map (renEntry ρ)

/-! ### the specification's vocabulary -/

def renSStmt (ρ : Comp → Comp) : SStmt → SStmt
  | .imp names => .imp (names.map (renName ρ))
  | .impFrom m names lvl => .impFrom (m.map (renName ρ)) (names.map ρ) lvl

def renSEntry (ρ : Comp → Comp) (e : SEntry) : SEntry :=
  { e with rel := e.rel.map (renFile ρ), stem := renStem ρ e.stem, stmts := e.stmts.map (renSStmt ρ) }

/-- the exclusion test of the renamed scan agrees with the original one on every path the scan can ask about: the
    root directory and every path at or above a listed entry (`excl' (str(renamed path)) = excl (str(path))`) -/
def ExclTransported (ρ : Comp → Comp) (excl excl' : Str → Bool) (base base' : Str) (entries : List Entry) : Prop :=
  ∀ q : List Str, (q = [] ∨ ∃ e ∈ entries, q <+: e.rel) →
    excl' (pathStr base' (q.map (renFile ρ))) = excl (pathStr base q)

/-- Bool-valued form of `ExclTransported` for concrete trees -/
def exclTransportedB (ρ : Comp → Comp) (excl excl' : Str → Bool) (base base' : Str) (entries : List Entry) : Bool :=
  (excl' (pathStr base' []) == excl (pathStr base [])) &&
  entries.all fun e => (List.range (e.rel.length + 1)).all fun k =>
    excl' (pathStr base' ((e.rel.take k).map (renFile ρ))) == excl (pathStr base (e.rel.take k))

/-- image of a graph under `φ`, as a relation between two graphs up to the order of nodes and edges -/
def GraphImage (φ : Str → Str) (g g' : PGraph Str) : Prop := GraphEquiv g' (mapGraph φ g)

end Pta
