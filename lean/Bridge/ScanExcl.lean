/-
  Bridge.ScanExcl — vocabulary of property C08 ("exclusions remove exactly the matching files/directories"):
  the walk under an arbitrary exclusion test on path strings, "no path from `module_path` down to the entry is
  excluded", and the carve-out under which the imports between the remaining modules are unchanged.
-/
import Bridge.Abs
import Bridge.ScanAbs
import Bridge.ScanTree
namespace Pta
open PtaSpec

/-- `_get_all_ast_modules` under an arbitrary exclusion test `excl` on path strings (`scanParsed` is the instance
    `excl = isExcluded mt o.exclusions`) -/
def walkFrom (excl : Str → Bool) (base rootName : Str) (mp : List Str) (entries : List Entry) : Parsed :=
  parseWalk excl base rootName entries (maxDepth entries + 2) { rel := mp, isDir := true }

theorem scanParsed_eq_walkFrom (mt : Str → Str → Bool) (base rootName : Str) (mp : List Str) (entries : List Entry)
    (o : ScanOptions) :
    scanParsed mt base rootName mp entries o = walkFrom (isExcluded mt o.exclusions) base rootName mp entries := rfl

/-- no path from `mp` down to the entry — the entry's own path included — matches the exclusion test -/
def Clear (excl : Str → Bool) (base : Str) (mp : List Str) (e : Entry) : Prop :=
  ∀ k, mp.length ≤ k → k ≤ e.rel.length → excl (pathStr base (e.rel.take k)) = false

/-- Bool form of `Clear` -/
def clearB (excl : Str → Bool) (base : Str) (mp : List Str) (e : Entry) : Bool :=
  (List.range (e.rel.length + 1)).all fun k => k < mp.length || !excl (pathStr base (e.rel.take k))

/-- the scan options with the exclusion patterns replaced -/
def ScanOptions.withExclusions (o : ScanOptions) (ps : Patterns) : ScanOptions := { o with exclusions := ps }

/-- pattern tuples of the same kind, concatenated (more patterns) -/
def Patterns.add : Patterns → Patterns → Option Patterns
  | .globs a, .globs b => some (.globs (a ++ b))
  | .regexes a, .regexes b => some (.regexes (a ++ b))
  | _, _ => none

/-! ### the carve-out for imports (specification vocabulary)

  `ImportConverter._convert` consults the list of internal modules in three places: `_adjust_with_root_prefix`
  (is `prefix.name` an internal module?), the sub-module test of `from P import n` (is `P.n` an internal module?), and
  the same test for relative `from`-imports. An exclusion can therefore change what a statement of a remaining file
  names: if `P/n.py` is excluded, `from P import n` names `P` instead of `P.n`. -/

/-- `q` is an excluded module: scanned without the additional patterns (`m0`), not scanned with them (`m`) -/
def gone (m0 m : List Name) (q : Name) : Bool := m0.contains q && !m.contains q

/-- one statement of the module `importer` is not affected by the exclusion:
    * no name it tries with the absolute-import prefix (`prefix.name`, for `import name`, and `prefix.P.n`, `prefix.P`
      for `from P import n`) is an excluded module, and
    * if the sub-module target `P.n` of `from P import n` (absolute or relative, resolved) is an excluded module, then
      the package `P` (resolved) is not a remaining module. -/
def carveStmt (m0 m : List Name) (ap : Option Name) (importer : Name) : SStmt → Bool
  | .imp names => names.all fun n => match ap with | some pre => !gone m0 m (pre ++ n) | none => true
  | .impFrom (some p) names 0 =>
    names.all fun n =>
      (match ap with
       | some pre => !gone m0 m (pre ++ (p ++ [n])) && !gone m0 m (pre ++ p)
       | none => true) &&
      (!gone m0 m (targets.qualify m0 ap (p ++ [n])) || !m.contains (targets.qualify m0 ap p))
  | .impFrom none _ 0 => true
  | .impFrom none _ (_ + 1) => true
  | .impFrom (some p) names (l + 1) =>
    names.all fun n =>
      !gone m0 m (importer.take (importer.length - (l + 1)) ++ p ++ [n]) ||
      !m.contains (importer.take (importer.length - (l + 1)) ++ p)

/-- the carve-out of C08 for a whole scan: every statement of every remaining file is unaffected. `sents0` / `sents`
    are the tree without / with the additional exclusion patterns. -/
def carveOut (root : Comp) (sents0 sents : List SEntry) (mp : List Comp) : Bool :=
  let inside0 := (scanModules root sents0 mp).filter fun m => (root :: mp).isPrefixOf m
  let inside := (scanModules root sents mp).filter fun m => (root :: mp).isPrefixOf m
  let absPrefix := if mp.isEmpty then none else some (root :: mp.dropLast)
  (sents.filter fun e => !e.isDir && survives sents mp e).all fun f =>
    f.stmts.all (carveStmt inside0 inside absPrefix (entryName root f))

/-! ### the same at the level of the model: where `convertStmt` looks at `internal` -/

/-- the strings whose membership in `internal` the conversion of one statement of module `importer` tests:
    `prefix.name` (`_adjust_with_root_prefix`), the adjusted `P.n` of `from P import n`, and the resolved `P.n` of a
    relative `from`-import -/
def consulted (importer absPrefix : Str) : ImportStmt → List Str
  | .imp names => names.map fun n => absPrefix ++ '.' :: n
  | .impFrom (some m) names 0 =>
    names.flatMap fun n => [absPrefix ++ '.' :: (m ++ '.' :: n), m ++ '.' :: n, absPrefix ++ '.' :: m]
  | .impFrom none _ 0 => []
  | .impFrom none _ (_ + 1) => []
  | .impFrom (some m) names (l + 1) =>
    names.flatMap fun n =>
      match relativeImportee importer (m ++ '.' :: n) (l + 1) with
      | .ok s => [s]
      | .error _ => []

end Pta
