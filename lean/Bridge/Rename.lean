/-
  Bridge.Rename — renaming of path components lifted to the MODEL's vocabulary (raw dotted strings, graphs,
  filters, rule states, verdicts and report items). Used by property C14 (PtaProofs/Props/C14.lean).
-/
import Bridge.Abs
namespace Pta
open PtaSpec

/-- the plain renaming of a raw dotted string: split at the dots, rename every component, join again -/
def renDotted (ρ : Comp → Comp) (s : Str) : Str := render (renName ρ (splitDots s))

/-- guarded variant of `renDotted` (injective on ALL strings, which the commutation proofs need): a string that is a well-formed dotted name (non-empty, dot-free components)
    is split, renamed component-wise and joined again; any other string (none occurs in a well-formed
    architecture, rule or report) is left alone. On rendered well-formed names this is `render ∘ renName ρ`
    (`renStr_render`), i.e. it agrees with `renDotted ρ`. -/
def renStr (ρ : Comp → Comp) (s : Str) : Str :=
  if nameWF (splitDots s) then render (renName ρ (splitDots s)) else s

/-- image of a graph under a map of node names: every node and both ends of every edge are mapped -/
def mapGraph (φ : Str → Str) (g : PGraph Str) : PGraph Str :=
  ⟨g.nodes.map φ, g.edges.map fun e => ⟨φ e.src, φ e.dst, e.inh⟩⟩

/-- the identifier of a filter is mapped (for uniformity also the pattern of a regex filter, so that
    `(f.mapId φ).id = φ f.id` always; compiled specification rules contain no regex filters) -/
def Filter.mapId (φ : Str → Str) : Filter → Filter
  | .name i => .name (φ i)
  | .parent i => .parent (φ i)
  | .regex p => .regex (φ p)

def Mod.mapId (φ : Str → Str) (m : Mod) : Mod := ⟨m.group, φ m.id⟩

def Item.mapId (φ : Str → Str) : Item → Item
  | .imp u v b => .imp (φ u) (φ v) b
  | .miss any s os b => .miss any (s.mapId φ) (os.map (Mod.mapId φ)) b

/-- the verdict with every module name in the report mapped -/
def Verdict.mapId (φ : Str → Str) : Verdict → Verdict
  | .pass => .pass
  | .fail items => .fail (items.map (Item.mapId φ))
  | .err k => .err k

def RuleConfig.mapId (φ : Str → Str) (c : RuleConfig) : RuleConfig :=
  { c with subjects := c.subjects.map (List.map (Filter.mapId φ)), objects := c.objects.map (List.map (Filter.mapId φ)),
           dropped := c.dropped.map (Filter.mapId φ) }

def RuleState.mapId (φ : Str → Str) (s : RuleState) : RuleState := { s with cfg := s.cfg.mapId φ }

def Atom.mapId (φ : Str → Str) : Atom → Atom
  | .imp u v => .imp (φ u) (φ v)
  | .miss any s o => .miss any (s.mapId φ) (o.mapId φ)

/-- every identifier the rule uses is a well-formed name (the objects are not used by an `anything` rule);
    the names need not exist in the architecture and may be related to each other in any way -/
def ruleWF (r : RuleSpec) : Bool := (r.subjects ++ r.effObjects).all fun f => nameWF f.id

/-- renamed alias table: keys renamed, alias texts untouched -/
def renAliases (ρ : Comp → Comp) (al : Aliases) : Aliases := al.map fun p => (renName ρ p.1, p.2)

/-- the documented label of `n`, with the components that remain after the aliased ancestor passed through `k`
    (`labelWith id = label`) -/
def labelWith (k : Name → Name) (al : Aliases) (n : Name) : List Char :=
  match nearestAliased al n with
  | none => render (k n)
  | some (m, alias) =>
    let rest := n.drop m.length
    if rest.isEmpty then alias else alias ++ '.' :: render (k rest)

/-- all module names occurring in a report -/
def Item.names : Item → List Str
  | .imp u v _ => [u, v]
  | .miss _ s os _ => s.id :: os.map (·.id)

def Verdict.names : Verdict → List Str
  | .fail items => items.flatMap Item.names
  | _ => []

end Pta
