/-
  Bridge.History — an evaluation-history machine over the model's own stateful objects (property C15 as a statement
  about HISTORIES).

  A `World` holds the objects a test session keeps alive: `Rule` objects (`RuleState`), `LayerRule` objects
  (`LayerRuleState`), `DiagramRule` objects (`DiagramRuleState`) and evaluable architectures (`PGraph Str`). An event
  `Ev` is one call `object_i.assert_applies(architecture_j)`. `step` performs the call with the model's functions and
  WRITES THE OBJECT THE CALL LEAVES BEHIND BACK INTO ITS SLOT (Python mutates `Rule._configuration` in place:
  `self._configuration = self._convert_aliases(self._configuration)`), so that the next event on the same slot sees the
  rewritten object. The architectures are handed to the model's functions, which have no way of returning a graph —
  `step` copies the list `archs` unchanged; `history_archs_unchanged` records that.

  * `Rule`        : `assertAppliesText` (PtaModel/Message.lean) returns the rewritten `RuleState` and the outcome.
  * `LayerRule`   : `LayerRule.assert_applies` is `self._rule.assert_applies(evaluable)` on the embedded `Rule` object
                    (constructed with the layer matcher). The model's `assertAppliesLayerText` returns the outcome only;
                    the object left behind is the `LayerRule` whose embedded rule is the one `Rule.assert_applies` leaves
                    behind — `(assertAppliesText mt r g).1` (the matcher class does not enter the rewrite). This pairing is
                    `LayerRuleState.assertAppliesTextSt`; its second component is LITERALLY `assertAppliesLayerText`.
  * `DiagramRule` : `DiagramRuleState.assertApplies` / `diagramAssertText` are pure (the generated `Rule` objects are
                    created afresh by every call and discarded); the slot is written back unchanged.
-/
import PtaModel
import PtaModel.DiagramText
import Bridge.Abs
namespace Pta

deriving instance DecidableEq for DVerdict

/-- what one `assert_applies` call shows the user: pass, `AssertionError` with its text, or another exception -/
inductive Outcome
  /-- no call was made: the object index or the architecture index is out of range -/
  | none
  /-- `Rule.assert_applies`: outcome with the message lines -/
  | rule (v : TextVerdict)
  /-- `LayerRule.assert_applies`: outcome with the message lines -/
  | layerRule (v : TextVerdict)
  /-- `DiagramRule.assert_applies`: the report items (`DiagramRuleState.assertApplies`) and the aggregated message text
      (`diagramAssertText`) -/
  | diagramRule (items : DVerdict) (text : AggTextVerdict)
deriving DecidableEq, Repr

/-- the live objects of a session -/
structure World where
  rules : List RuleState := []
  layerRules : List LayerRuleState := []
  diagramRules : List DiagramRuleState := []
  archs : List (PGraph Str) := []
deriving Repr

/-- "apply object `i` (of the respective kind) to architecture `j`" -/
inductive Ev
  | rule (i j : Nat)
  | layerRule (i j : Nat)
  | diagramRule (i j : Nat)
deriving DecidableEq, Repr

/-- `LayerRule.assert_applies` with the object it leaves behind: the embedded `Rule` object is the one
    `Rule.assert_applies` leaves behind (`(assertAppliesText mt r g).1`), the architecture reference is kept; the outcome
    is the model's `assertAppliesLayerText`. Without an embedded rule the call raises before touching anything. -/
def LayerRuleState.assertAppliesTextSt (mt : Str → Str → Bool) (s : LayerRuleState) (g : PGraph Str) :
    LayerRuleState × TextVerdict :=
  ({ s with rule := s.rule.map fun r => (assertAppliesText mt r g).1 }, assertAppliesLayerText mt s g)

/-- the message-text companion of `DiagramRuleState.assertApplies` (same pipeline, `diagramAssertText`) -/
def DiagramRuleState.assertAppliesText (mt : Str → Str → Bool) (s : DiagramRuleState) (g : PGraph Str) : AggTextVerdict :=
  diagramAssertText mt s.file s.base s.shouldOnly g

/-- one event: the call is made with the model's functions, the returned object is written back into slot `i`, the
    architectures are left alone. An index out of range: no call, outcome `none`, same world. -/
def step (mt : Str → Str → Bool) (w : World) : Ev → World × Outcome
  | .rule i j =>
    match w.rules[i]?, w.archs[j]? with
    | some r, some g =>
      let p := assertAppliesText mt r g
      ({ w with rules := w.rules.set i p.1 }, .rule p.2)
    | _, _ => (w, .none)
  | .layerRule i j =>
    match w.layerRules[i]?, w.archs[j]? with
    | some s, some g =>
      let p := s.assertAppliesTextSt mt g
      ({ w with layerRules := w.layerRules.set i p.1 }, .layerRule p.2)
    | _, _ => (w, .none)
  | .diagramRule i j =>
    match w.diagramRules[i]?, w.archs[j]? with
    | some d, some g =>
      ({ w with diagramRules := w.diagramRules.set i d }, .diagramRule (d.assertApplies mt g) (d.assertAppliesText mt g))
    | _, _ => (w, .none)

/-- the world after a history -/
def exec (mt : Str → Str → Bool) (w : World) : List Ev → World
  | [] => w
  | e :: es => exec mt (step mt w e).1 es

/-- the outcomes of a history, in order -/
def run (mt : Str → Str → Bool) (w : World) : List Ev → List Outcome
  | [] => []
  | e :: es => (step mt w e).2 :: run mt (step mt w e).1 es

/-- the outcome of event `e` in world `w` -/
def outcomeIn (mt : Str → Str → Bool) (w : World) (e : Ev) : Outcome := (step mt w e).2

/-- the (event, outcome) pairs of a history -/
def trace (mt : Str → Str → Bool) (w : World) (h : List Ev) : List (Ev × Outcome) := h.zip (run mt w h)

/-! ### the equivalence the histories respect -/

/-- the `_convert_aliases`-normal form of a `Rule` object: what `Rule.assert_applies` leaves behind on EVERY
    architecture (`assertAppliesText_fst` in Lemmas/History.lean). A rule object that misuses `anything` raises before
    the conversion and stays as it is. -/
def RuleState.normalForm (s : RuleState) : RuleState :=
  if anythingMisused s.cfg then s else { s with cfg := convertAliases s.cfg }

def LayerRuleState.normalForm (s : LayerRuleState) : LayerRuleState :=
  { s with rule := s.rule.map RuleState.normalForm }

/-- two rule objects that `assert_applies` cannot tell apart: the same normal form -/
def RuleState.Equiv (r r' : RuleState) : Prop := r.normalForm = r'.normalForm

def LayerRuleState.Equiv (s s' : LayerRuleState) : Prop := s.normalForm = s'.normalForm

/-- every rule object and layer-rule object replaced by its normal form -/
def World.normalForm (w : World) : World :=
  { w with rules := w.rules.map RuleState.normalForm, layerRules := w.layerRules.map LayerRuleState.normalForm }

/-- slot-wise equivalent worlds: the same architectures and diagram rules, equivalent rule / layer-rule objects -/
def World.Equiv (w w' : World) : Prop := w.normalForm = w'.normalForm

end Pta

/-! ### which objects a history has called -/
namespace Pta

/-- the history contains a call that was really made (both indices in range; `nA` architectures) on `Rule` object `i` -/
def calledRule (nA : Nat) (h : List Ev) (i : Nat) : Bool :=
  h.any fun e => match e with | .rule i' j => i' == i && decide (j < nA) | _ => false

def calledLayerRule (nA : Nat) (h : List Ev) (i : Nat) : Bool :=
  h.any fun e => match e with | .layerRule i' j => i' == i && decide (j < nA) | _ => false

/-- the world a history leaves behind, in closed form: every rule / layer-rule object that was called at least once is
    in normal form, everything else is untouched -/
def World.after (w : World) (h : List Ev) : World :=
  { w with
    rules := w.rules.mapIdx fun i r => if calledRule w.archs.length h i then r.normalForm else r
    layerRules := w.layerRules.mapIdx fun i s => if calledLayerRule w.archs.length h i then s.normalForm else s }

end Pta
