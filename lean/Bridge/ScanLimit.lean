/-
  Bridge.ScanLimit — vocabulary for property C09 at the scan entry point (`generateGraph` with a level limit
  against `generateGraph` without one): the limit-free options, the import records handed to the graph
  constructor, and the Bool-valued side conditions of the quotient statement.
-/
import PtaModel.Scan
import Bridge.Abs
namespace Pta

/-- the same options without a level limit -/
def ScanOptions.noLimit (o : ScanOptions) : ScanOptions := { o with levelLimit := none }

/-- the import records `generate_graph` hands to the graph constructor (converted, then filtered by
    `ExternalImportFilter`); the level limit plays no role -/
def scanRetained (mt : Str → Str → Bool) (base rootName : Str) (mp : List Str) (entries : List Entry)
    (o : ScanOptions) : Except ErrKind (List ImportRec) :=
  match convertAll (scanParsed mt base rootName mp entries o) (absolutePrefix rootName mp)
      ((scanParsed mt base rootName mp entries o).allModules.filter fun m => isInternal m (internalPrefix rootName mp)) with
  | .error e => .error e
  | .ok I => .ok (retainImports mt o (internalPrefix rootName mp) I)

/-- `s` is the immediate dotted parent of `e`: `e = s + "." + t` with a dot-free `t` -/
def isHierPair (s e : Str) : Bool := isStrictSub s e && (splitDots e).length == (splitDots s).length + 1

/-- no dangling import: the importee of every import record is a node of the (full) graph -/
def danglingFree (R : List ImportRec) (g0 : PGraph Str) : Bool := R.all fun i => g0.nodes.contains i.importee

/-- no import edge leads from a module into its own dotted subtree -/
def noDownwardImports (g0 : PGraph Str) : Bool := g0.importPairs.all fun p => !isStrictSub p.1 p.2

/-- importers are leaves of the module tree: no node lies strictly below the importer of a record
    (for a scan: there is no file `x.py` next to a directory `x`, and names are dot-free) -/
def leafImporters (R : List ImportRec) (g0 : PGraph Str) : Bool :=
  R.all fun i => g0.nodes.all fun n => !isStrictSub i.importer n

/-- the same on the walk's result: no node lies strictly below the module of a parsed `.py` file -/
def leafFiles (files : List (Str × List ImportStmt)) (g0 : PGraph Str) : Bool :=
  files.all fun f => g0.nodes.all fun n => !isStrictSub f.1 n

end Pta
