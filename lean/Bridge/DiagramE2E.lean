/-
  Bridge.DiagramE2E — vocabulary for the end-to-end theorem "diagram file ⟶ parser ⟶ generated rules ⟶ verdict"
  (Props/C07.lean, last section): the specification diagram a rendered diagram of the documented subset means, and
  "the same report up to the order in which a `does not import` line lists its objects".
-/
import PtaModel
import PtaSpec
import Bridge.Abs
import Bridge.Diagram
import Bridge.OrderDefs
import Bridge.PumlRender
namespace Pta
open PtaSpec

/-- the arrows of a diagram of the documented subset, as pairs of component lists -/
def specArrows (d : List DLine) : List (Name × Name) :=
  (diagramArrows d).map fun e => (splitDots e.1, splitDots e.2)

/-- the meaning of a diagram of the documented subset, literally: one component per declaration / reference
    (a component that is declared and referenced, or referenced twice, is listed several times) -/
def specDiagramRaw (d : List DLine) : Diagram := ⟨(diagramComponents d).map splitDots, specArrows d⟩

/-- the meaning of a diagram of the documented subset with every component listed once -/
def specDiagram (d : List DLine) : Diagram := ⟨dedup ((diagramComponents d).map splitDots), specArrows d⟩

/-- two report items say the same: equal `imports` lines, or `does not import` lines for the same subject that
    list the same SET of objects (the list order is the order of the rule's objects) -/
def Item.sim : Item → Item → Bool
  | .imp a b d, .imp a' b' d' => a == a' && b == b' && d == d'
  | .miss n s os d, .miss n' s' os' d' =>
    n == n' && s == s' && d == d' && os.all os'.contains && os'.all os.contains
  | _, _ => false

/-- two reports consist of the same lines (as sets, up to `Item.sim`) -/
def sameItems (l l' : List Item) : Bool :=
  l.all (fun i => l'.any fun i' => i.sim i') && l'.all (fun i' => l.any fun i => i.sim i')

/-- literally the same set of report lines -/
def sameItemSet (l l' : List Item) : Bool := l.all l'.contains && l'.all l.contains

/-- Bool-valued check that two parse results have the same module set and the same dependency relation
    (`C06.SameParse`), so that `decide` can establish it on concrete instances -/
def sameParseB (p q : Parsed') : Bool :=
  p.modules.all q.modules.contains && q.modules.all p.modules.contains &&
  (p.dependencies.map (·.1) ++ q.dependencies.map (·.1)).all fun k =>
    (p.depsOf k).all (q.depsOf k).contains && (q.depsOf k).all (p.depsOf k).contains

end Pta
