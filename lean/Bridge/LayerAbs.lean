/-
  Bridge.LayerAbs — abstraction maps for layer rules (property C05): from a specification layer rule
  (`PtaSpec.LRuleSpec`) and resolved layers (`PtaSpec.Layers`) to the model's inputs (`LArch`, `LayerRuleState`,
  the fluent call chain), and the relation "the specification's layers are the resolution of the model's layers".
-/
import PtaModel
import PtaSpec
import Bridge.Abs
namespace Pta
open PtaSpec

/-- `architecture[layer]`, `[]` for an undefined layer -/
def LArch.getD (a : LArch) (n : Str) : List Filter :=
  match a.get n with
  | .ok fs => fs
  | .error _ => []

/-- the LayerRule object a specification layer rule denotes: the state of the fluent builder after the complete
    chain `LayerRule().based_on(larch).layers_that().are_named(subject).<verb>().<access…>().are_named(objects)`
    (see `layerRuleOps` and `PtaProofs/Lemmas/LayerSem.lean: runLayerRuleOps_chain_lemma`).
    subjects = filters of the subject layer, objects = concatenated filters of the object layers. -/
def compileLayerRule (larch : LArch) (r : LRuleSpec) : LayerRuleState :=
  { arch := some larch,
    rule := some
      { cfg := { subjects := some (larch.getD r.subject),
                 objects := if r.anything then none else some (r.objects.flatMap larch.getD),
                 should := r.verb == .should, shouldOnly := r.verb == .shouldOnly, shouldNot := r.verb == .shouldNot,
                 exceptPresent := !r.anything && r.exc, importDir := some r.importDir, anything := r.anything },
        next := some false } }

def verbOp : Verb → LayerRuleOp
  | .should => .should
  | .shouldOnly => .shouldOnly
  | .shouldNot => .shouldNot

def accessOp (r : LRuleSpec) : LayerRuleOp :=
  if r.anything then (if r.importDir then .accessAny else .beAccessedByAny)
  else match r.importDir, r.exc with
    | true, false => .access
    | false, false => .beAccessedBy
    | true, true => .accessExcept
    | false, true => .beAccessedByExcept

/-- the complete fluent call chain of a layer rule; `isList` says whether the object layers are passed as a list -/
def layerRuleOps (larch : LArch) (r : LRuleSpec) (isList : Bool) : List LayerRuleOp :=
  [.basedOn larch, .layersThat, .areNamed [r.subject] false, verbOp r.verb, accessOp r] ++
  (if r.anything then [] else [.areNamed r.objects isList])

/-- a layered architecture whose layers all list modules by name -/
def compileLArch (ls : Layers) : LArch := ls.map fun l => (l.1, l.2.map fun m => Filter.name (render m))

/-- `ms` is what the layer definition `fs` stands for on a graph with modules `nodes`: a name list stands for itself,
    a regex layer for the modules its pattern matches (in the graph's module order) -/
def layerRes (mt : Str → Str → Bool) (nodes : List Str) (fs : List Filter) (ms : List Name) : Bool :=
  fs == ms.map (fun m => Filter.name (render m)) ||
  match fs with
  | [.regex p] => nodes.filter (mt p) == ms.map render
  | _ => false

/-- the specification's layers `ls` are the model's layers `larch` with every regex resolved (what the harness sends as
    `lres`) -/
def resolves (mt : Str → Str → Bool) (nodes : List Str) : LArch → Layers → Bool
  | [], [] => true
  | L :: Ls, l :: ls => L.1 == l.1 && layerRes mt nodes L.2 l.2 && resolves mt nodes Ls ls
  | _, _ => false

/-- the layer of a module: the layer listing one of its ancestors (or itself) -/
def layerTag (ls : Layers) (n : Name) : Option (List Char) := (ls.find? fun l => inLayer l.2 n).map (·.1)

end Pta
