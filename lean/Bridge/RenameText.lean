/-
  Bridge.RenameText — renaming of a message LINE (property C14 for the message text, Props/C14Text.lean).
  A line is renamed through the report item it shows: parse it (`parseLine`, Bridge/Message.lean), rename every module name
  of the item component-wise (`Item.mapId (renDotted ρ)`, Bridge/Rename.lean), render the item again (`renderItem`, which
  re-sorts the objects of a `does not import` line). No string surgery on the line.
-/
import Bridge.Abs
import Bridge.Rename
import Bridge.Message
namespace Pta
open PtaSpec

/-- the line of the renamed item; a string that is not a message line is left alone -/
def renLine (ρ : Comp → Comp) (line : Str) : Str :=
  match parseLine line with
  | some x => renderItem (x.mapId (renDotted ρ))
  | none => line

/-- no path component of a module of the architecture contains `"` -/
def archNoQuote (a : Arch) : Bool := a.nodes.all fun n => n.all noQuote

/-- no path component of an identifier the rule uses contains `"` -/
def ruleNoQuote (r : RuleSpec) : Bool := (r.subjects ++ r.effObjects).all fun f => f.id.all noQuote

/-- the renaming introduces no `"` -/
def QuoteFree (ρ : Comp → Comp) : Prop := ∀ c, noQuote c = true → noQuote (ρ c) = true

end Pta
