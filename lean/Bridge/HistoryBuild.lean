/-
  Bridge.HistoryBuild — histories on ONE `Rule` object that interleave BUILDER calls with applications (properties
  C15 / C13). Bridge/History.lean only APPLIES finished objects; here the object is still being configured between
  applications, as nothing in Python prevents

      r = Rule().modules_that().are_named("a").should_not().import_anything()
      r.assert_applies(arch)        # `_convert_aliases` rewrites `r._configuration` in place
      r.are_named("b")              # acts on the REWRITTEN configuration
      r.assert_applies(arch)

  An event `REv` is one fluent call (`RuleState.step`) or one `assert_applies` on architecture `j` of the list `archs`
  (`assertAppliesText`, PtaModel/Message.lean). The state the call leaves behind is written back; a raising builder call
  leaves the object as it was (every fluent method of `Rule` raises before it assigns anything) and is recorded.

  `forget` keeps the builder calls only; `buildOnly` runs them (raising calls skipped in the same way); `refREvs` is the
  REFERENCE run in which an application never writes anything back: the object is always the one the builder calls alone
  have produced. "Applications are transparent" (Conjecture A of the task) says `runREvs = refREvs`.
-/
import PtaModel
import Bridge.Abs
import Bridge.History
namespace Pta

/-- one event on the rule object: a fluent call or `assert_applies(archs[j])` -/
inductive REv
  | call (op : RuleOp)
  | apply (j : Nat)
deriving DecidableEq, Repr

/-- what one event shows the user -/
inductive ROut
  /-- the fluent call returned -/
  | called
  /-- the fluent call raised -/
  | raised (k : ErrKind)
  /-- `assert_applies` was called: pass / `AssertionError` with its lines / another exception -/
  | applied (v : TextVerdict)
  /-- architecture index out of range: no call was made -/
  | noArch
deriving DecidableEq, Repr

/-- one fluent call on the object; a raising call leaves the object unchanged -/
def RuleState.stepStay (glob : Str → Str) (s : RuleState) (op : RuleOp) : RuleState :=
  match s.step glob op with
  | .ok s' => s'
  | .error _ => s

/-- what the fluent call shows -/
def RuleState.stepOut (glob : Str → Str) (s : RuleState) (op : RuleOp) : ROut :=
  match s.step glob op with
  | .ok _ => .called
  | .error k => .raised k

/-- one event, with the object it leaves behind -/
def stepREv (glob : Str → Str) (mt : Str → Str → Bool) (archs : List (PGraph Str)) (s : RuleState) :
    REv → RuleState × ROut
  | .call op => (s.stepStay glob op, s.stepOut glob op)
  | .apply j =>
    match archs[j]? with
    | some g => let p := assertAppliesText mt s g; (p.1, .applied p.2)
    | none => (s, .noArch)

/-- the object after a history -/
def execREvs (glob : Str → Str) (mt : Str → Str → Bool) (archs : List (PGraph Str)) :
    RuleState → List REv → RuleState
  | s, [] => s
  | s, e :: es => execREvs glob mt archs (stepREv glob mt archs s e).1 es

/-- the outcomes of a history, in order -/
def runREvs (glob : Str → Str) (mt : Str → Str → Bool) (archs : List (PGraph Str)) :
    RuleState → List REv → List ROut
  | _, [] => []
  | s, e :: es => (stepREv glob mt archs s e).2 :: runREvs glob mt archs (stepREv glob mt archs s e).1 es

/-- the builder calls of a history -/
def forget : List REv → List RuleOp
  | [] => []
  | .call op :: es => op :: forget es
  | .apply _ :: es => forget es

/-- the object the builder calls alone produce -/
def buildOnly (glob : Str → Str) : RuleState → List RuleOp → RuleState
  | s, [] => s
  | s, op :: ops => buildOnly glob (s.stepStay glob op) ops

/-- the reference run: the same events, but an application leaves the object alone (it is applied to a throw-away
    copy), so that the object is always `buildOnly` of the builder calls so far -/
def refREvs (glob : Str → Str) (mt : Str → Str → Bool) (archs : List (PGraph Str)) :
    RuleState → List REv → List ROut
  | _, [] => []
  | t, .call op :: es => t.stepOut glob op :: refREvs glob mt archs (t.stepStay glob op) es
  | t, .apply j :: es => (stepREv glob mt archs t (.apply j)).2 :: refREvs glob mt archs t es

/-- the outcome of `assert_applies(archs[j])` at the end of history `h` -/
def outcomeAfter (glob : Str → Str) (mt : Str → Str → Bool) (archs : List (PGraph Str)) (s : RuleState)
    (h : List REv) (j : Nat) : ROut :=
  (stepREv glob mt archs (execREvs glob mt archs s h) (.apply j)).2

/-- the outcome of `assert_applies(archs[j])` of the object built by the builder calls of `h` alone -/
def outcomeForgotten (glob : Str → Str) (mt : Str → Str → Bool) (archs : List (PGraph Str)) (s : RuleState)
    (h : List REv) (j : Nat) : ROut :=
  (stepREv glob mt archs (buildOnly glob s (forget h)) (.apply j)).2

/-! ### which calls can be affected by an earlier application -/

/-- the fluent calls that commute with `_convert_aliases`: they touch neither the module lists nor the `anything`
    flag (`modules_that`, `should*`, `import_modules_that`, `be_imported_by_modules_that`, the two `…_except_…`) -/
def RuleOp.safe : RuleOp → Bool
  | .modulesThat | .should | .shouldOnly | .shouldNot => true
  | .importThat | .beImportedByThat | .importExcept | .beImportedByExcept => true
  | _ => false

/-- an application REWRITES the object iff it is an `anything` rule used with `should_not` at that time -/
def RuleState.rewriting (s : RuleState) : Bool := s.cfg.anything && s.cfg.shouldNot

/-- no application of the history rewrites the object -/
def noRewrite (glob : Str → Str) (mt : Str → Str → Bool) (archs : List (PGraph Str)) :
    RuleState → List REv → Bool
  | _, [] => true
  | s, .call op :: es => noRewrite glob mt archs (s.stepStay glob op) es
  | s, .apply j :: es =>
    (!s.rewriting || (archs[j]?).isNone) && noRewrite glob mt archs (stepREv glob mt archs s (.apply j)).1 es

/-- `import_anything` / `be_imported_by_anything` -/
def RuleOp.setsAnything : RuleOp → Bool
  | .importAnything | .beImportedByAnything => true
  | _ => false

/-- the synchronisation condition on a history, `s` being the object of the history and `t` the object of the builder
    calls alone. A safe call is always allowed. Any other call (one that sets modules or the `anything` flag) must be made
    at a time when `s` and `t` agree on the `anything` flag (no alias conversion is "pending" in `t` that has already
    happened in `s`) — except that `import_anything` / `be_imported_by_anything` may also be re-issued when no removed rule
    subject is remembered (`modules_removed_by_alias_conversion` empty in both), which brings the flags back in sync. -/
def syncAtUnsafe (glob : Str → Str) (mt : Str → Str → Bool) (archs : List (PGraph Str)) :
    RuleState → RuleState → List REv → Bool
  | _, _, [] => true
  | s, t, .call op :: es =>
    (op.safe || s.cfg.anything == t.cfg.anything ||
      (op.setsAnything && s.cfg.dropped.isEmpty && t.cfg.dropped.isEmpty)) &&
      syncAtUnsafe glob mt archs (s.stepStay glob op) (t.stepStay glob op) es
  | s, t, .apply j :: es => syncAtUnsafe glob mt archs (stepREv glob mt archs s (.apply j)).1 t es

/-- purely syntactic: after the first application only safe calls are made -/
def safeAfterApply : List REv → Bool
  | [] => true
  | .call _ :: es => safeAfterApply es
  | .apply _ :: es => es.all fun e => match e with | .call op => op.safe | .apply _ => true

end Pta
