/-
  Bridge.Quotient — the quotient ARCHITECTURE under a level limit (property C09, second sentence):
  the specification-side object whose graph the flattened `NetworkxGraph(…, level_limit)` is.
  Nodes are the truncated names (without repetitions), imports are the truncated import pairs whose two ends
  stay distinct.
-/
import Bridge.Abs
namespace Pta
open PtaSpec

/-- remove repetitions (keeps the last occurrence of each name) -/
def dedupNames : List Name → List Name
  | [] => []
  | x :: xs => if xs.contains x then dedupNames xs else x :: dedupNames xs

/-- remove repeated pairs -/
def dedupPairs : List (Name × Name) → List (Name × Name)
  | [] => []
  | x :: xs => if xs.contains x then dedupPairs xs else x :: dedupPairs xs

/-- the architecture obtained by truncating every module name to the level limit -/
def truncArch (lim : Option Nat) (a : Arch) : Arch :=
  { nodes := dedupNames (a.nodes.map (trunc lim)),
    imports := dedupPairs ((a.imports.map fun e => (trunc lim e.1, trunc lim e.2)).filter fun e => e.1 != e.2) }

/-- a filter lies at or above level `k`: a named module has at most `k+1` components, the parent of an
    `are_sub_modules_of` filter has at most `k` (so that its strict descendants still exist after flattening) -/
def filterAbove (k : Nat) : SFilter → Bool
  | .named x => decide (x.length ≤ k + 1)
  | .subOf x => decide (x.length ≤ k)

/-- every identifier of the rule lies at or above level `k` -/
def ruleAbove (k : Nat) (r : RuleSpec) : Bool := (r.subjects ++ r.effObjects).all (filterAbove k)

end Pta
