/-
  Bridge.OrderDefs — vocabulary for the order-independence theorems of property C15 (Props/C15.lean).
-/
import Bridge.Abs
import Bridge.Diagram
namespace Pta

/- `LayerMap.consistent` (no identifier is listed by two entries that carry different layer names) now lives in
   `PtaModel/Layer.lean`: the repaired `LayerMapping.__init__` checks it. -/

/-- the layer mapping with EVERY regex filter expanded over the modules (the mapping a rule really uses,
    `updateLayerMap`, expands only the regexes that occur in that rule, so it lists a subset of these identifiers) -/
def fullLayerMap (mt : Str → Str → Bool) (mods : List Str) (a : LArch) : LayerMap :=
  a.map fun l => (l.1, l.2.flatMap fun f =>
    match f with
    | .regex p => mods.filter (mt p)
    | f => [f.id])

/-- the layers of `a`, regexes expanded over `mods`, do not overlap -/
def layersDisjoint (mt : Str → Str → Bool) (mods : List Str) (a : LArch) : Bool := (fullLayerMap mt mods a).consistent

/-- outcomes of two scans agree: the same error, or graphs with the same nodes, hierarchy edges and import edges -/
def SameScan (x y : Except ErrKind (PGraph Str)) : Prop :=
  match x, y with
  | .ok g, .ok g' => GraphEquiv g g'
  | .error e, .error e' => e = e'
  | _, _ => False

/-- side conditions under which `buildGraph` depends on its inputs only as sets: every importer is a listed module and
    every import carries the parent modules of its importee (as `absImport` / `ImportConverter` build them) -/
def importsClosed (mods : List Str) (imps : List ImportRec) : Bool :=
  imps.all fun i => mods.contains i.importer && i.importeeParents == parentModules i.importee

def DVerdict.items : DVerdict → List Item
  | .fail is => is
  | _ => []

/-- the aggregation step of `PumlParser.parse` (alias unification, grouping, module list), given the per-line results
    `lineModules` / `lineDependency`, AFTER the alias check (`pumlUnify` below is check + aggregation) -/
def pumlAggregate (modules : List PModule) (rawDeps : List (Str × Str)) : Parsed' :=
  let aliases := modules.filterMap fun m => m.alias.map fun a => (a, m.name)
  let unify (x : Str) : Str := match (aliases.filter (·.1 == x)).getLast? with | some p => p.2 | none => x
  let grouped := rawDeps.foldl (fun acc d => addDep acc d.1 d.2) []
  let unified := grouped.foldl (fun acc kv => kv.2.foldl (fun acc v => addDep acc (unify kv.1) (unify v)) acc) []
  let all := dedup (modules.map (·.name) ++ unified.map (·.1) ++ unified.flatMap (·.2))
  ⟨all, unified⟩

-- `aliasesConsistent` (no alias is declared twice with different names) is part of the model now: PtaModel/Puml.lean

/-- the whole of `PumlParser._unify` on the per-line results: the alias check of `_get_modules_by_alias`, then the
    aggregation; `pumlParse` is `pumlBody` followed by this (`C15.pumlParse_aggregate`) -/
def pumlUnify (modules : List PModule) (rawDeps : List (Str × Str)) : Except ErrKind Parsed' :=
  if aliasesConsistent modules then .ok (pumlAggregate modules rawDeps) else .error .pumlParsingError

/-- the diagram says: `k` depends on `v` -/
def Parsed'.hasDep (p : Parsed') (k v : Str) : Bool := p.dependencies.any fun e => e.1 == k && e.2.contains v

/-- two parse outcomes agree up to order: both are the parsing error, or both succeed with the same module SET and the
    same dependency RELATION -/
def SameDiagram (x y : Except ErrKind Parsed') : Prop :=
  match x, y with
  | .ok p, .ok q => (∀ m, m ∈ p.modules ↔ m ∈ q.modules) ∧
      (∀ k v, p.hasDep k v = q.hasDep k v)
  | .error e, .error e' => e = .pumlParsingError ∧ e' = .pumlParsingError
  | _, _ => False

/-- Bool / Option valued views of a parse outcome, so that `decide` can inspect concrete instances -/
def isParsingError : Except ErrKind Parsed' → Bool
  | .error .pumlParsingError => true
  | _ => false
def okModules : Except ErrKind Parsed' → Option (List Str)
  | .ok p => some p.modules
  | .error _ => none

/-- a diagram file given by its raw lines: noise, start tag, the lines joined by newlines, end tag, noise -/
def linesText (noise1 : Str) (lines : List Str) (noise2 : Str) : Str :=
  noise1 ++ "@startuml".toList ++ '\n' :: joinWith ['\n'] lines ++ '\n' :: "@enduml".toList ++ noise2

end Pta
