/-
  Bridge.OrderDefs — vocabulary for the order-independence theorems of property C15 (Props/C15.lean).
-/
import Bridge.Abs
import Bridge.Diagram
namespace Pta

/-- no identifier is listed by two entries that carry different layer names -/
def LayerMap.consistent (m : LayerMap) : Bool :=
  m.all fun l1 => m.all fun l2 => l1.1 == l2.1 || !(l1.2.any fun id => l2.2.contains id)

/-- the layer mapping with EVERY regex filter expanded over the modules (the mapping a rule really uses,
    `updateLayerMap`, expands only the regexes that occur in that rule, so it lists a subset of these identifiers) -/
def fullLayerMap (mt : Str → Str → Bool) (mods : List Str) (a : LArch) : LayerMap :=
  a.map fun l => (l.1, l.2.flatMap fun f =>
    match f with
    | .regex p => mods.filter (mt p)
    | f => [f.id])

/-- the layers of `a`, regexes expanded over `mods`, do not overlap -/
def layersDisjoint (mt : Str → Str → Bool) (mods : List Str) (a : LArch) : Bool := (fullLayerMap mt mods a).consistent

/-- outcomes of two scans agree: the same error, or graphs with the same nodes, hierarchy edges and import edges -/
def SameScan (x y : Except ErrKind (PGraph Str)) : Prop :=
  match x, y with
  | .ok g, .ok g' => GraphEquiv g g'
  | .error e, .error e' => e = e'
  | _, _ => False

/-- side conditions under which `buildGraph` depends on its inputs only as sets: every importer is a listed module and
    every import carries the parent modules of its importee (as `absImport` / `ImportConverter` build them) -/
def importsClosed (mods : List Str) (imps : List ImportRec) : Bool :=
  imps.all fun i => mods.contains i.importer && i.importeeParents == parentModules i.importee

def DVerdict.items : DVerdict → List Item
  | .fail is => is
  | _ => []

/-- the aggregation step of `PumlParser.parse` (alias unification, grouping, module list), given the per-line results
    `lineModules` / `lineDependency`; `pumlParse` is `pumlBody` followed by this (`C15.pumlParse_aggregate`) -/
def pumlAggregate (modules : List PModule) (rawDeps : List (Str × Str)) : Parsed' :=
  let aliases := modules.filterMap fun m => m.alias.map fun a => (a, m.name)
  let unify (x : Str) : Str := match (aliases.filter (·.1 == x)).getLast? with | some p => p.2 | none => x
  let grouped := rawDeps.foldl (fun acc d => addDep acc d.1 d.2) []
  let unified := grouped.foldl (fun acc kv => kv.2.foldl (fun acc v => addDep acc (unify kv.1) (unify v)) acc) []
  let all := dedup (modules.map (·.name) ++ unified.map (·.1) ++ unified.flatMap (·.2))
  ⟨all, unified⟩

/-- no alias is declared twice with different names -/
def aliasesConsistent (modules : List PModule) : Bool :=
  modules.all fun m1 => modules.all fun m2 =>
    match m1.alias, m2.alias with
    | some a1, some a2 => a1 != a2 || m1.name == m2.name
    | _, _ => true

/-- the diagram says: `k` depends on `v` -/
def Parsed'.hasDep (p : Parsed') (k v : Str) : Bool := p.dependencies.any fun e => e.1 == k && e.2.contains v

end Pta
