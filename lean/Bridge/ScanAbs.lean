/-
  Bridge.ScanAbs — abstraction of the scan model's inputs (`Entry`, `ImportStmt`) to the specification's
  (`SEntry`, `SStmt`), as the driver's `handleScan` does it, plus the vocabulary of properties C02 / C04.
-/
import PtaModel
import PtaSpec
import Bridge.Abs
namespace Pta
open PtaSpec

/-- model statement ↦ specification statement: dotted names are split into components -/
def toSStmt : ImportStmt → SStmt
  | .imp names => .imp (names.map splitDots)
  | .impFrom m names lvl => .impFrom (m.map splitDots) names lvl

/-- a directory entry as the specification sees it; `excl` is `FileFilter.is_excluded` on path strings -/
def toSEntry (excl : Str → Bool) (base : Str) (e : Entry) : SEntry :=
  let name := match e.rel.getLast? with | some n => n | none => []
  { rel := e.rel, isDir := e.isDir, isPy := !e.isDir && isPyFile name, stem := dropSuffix name,
    excludedHere := excl (pathStr base e.rel), stmts := e.stmts.map toSStmt }

/-- the raw string of the absolute-import prefix (`_get_absolute_import_prefix`): empty when there is none -/
def renderPrefix : Option Name → Str
  | none => []
  | some p => render p

/-- a statement the CPython parser can produce: well-formed names, and a relative `from` import lists at least
    one name (the grammar requires it; the model's `mapM` over an empty alias list would not raise) -/
def stmtOK : SStmt → Bool
  | .imp names => names.all nameWF
  | .impFrom m names 0 => (match m with | some p => nameWF p | none => true) && names.all compWF
  | .impFrom m names (_ + 1) =>
    (match m with | some p => nameWF p | none => true) && names.all compWF && !names.isEmpty

/-- specification entries of a model tree under the exclusion predicate of the scan options -/
def sentriesOf (mt : Str → Str → Bool) (base : Str) (entries : List Entry) (o : ScanOptions) : List SEntry :=
  entries.map (toSEntry (isExcluded mt o.exclusions) base)

/-- the specification's `own` list: names of the surviving entries -/
def ownNames (root : Comp) (sentries : List SEntry) (mp : List Comp) : List Name :=
  (sentries.filter (survives sentries mp)).map (entryName root)

/-- the files the walk must find: the surviving non-directories with their statements -/
def expectedFiles (mt : Str → Str → Bool) (base root : Str) (mp : List Str) (entries : List Entry)
    (o : ScanOptions) : List (Str × List ImportStmt) :=
  (entries.filter fun e =>
      !e.isDir && survives (sentriesOf mt base entries o) mp (toSEntry (isExcluded mt o.exclusions) base e)).map
    fun e => (render (entryName root (toSEntry (isExcluded mt o.exclusions) base e)), e.stmts)

/-- a decidable form of `ScanHyps` (below) for concrete trees -/
def scanCheck (mt : Str → Str → Bool) (base root : Str) (mp : List Str) (entries : List Entry)
    (o : ScanOptions) : Bool :=
  let own := ownNames root (sentriesOf mt base entries o) mp
  let parsed := scanParsed mt base root mp entries o
  o.excludeExternal && o.levelLimit.isNone && o.externalExclusions.isEmpty &&
  nameWF (root :: mp) && own.all nameWF &&
  (own.all fun n => (properPrefixes n).all fun p => !desc (root :: mp) p || own.contains p) &&
  (entries.all fun e => e.stmts.all fun st => stmtOK (toSStmt st)) &&
  (parsed.allModules.all fun s => (own.map render).contains s) &&
  (own.all fun n => parsed.allModules.contains (render n)) &&
  (parsed.files.all fun f => (expectedFiles mt base root mp entries o).contains f) &&
  ((expectedFiles mt base root mp entries o).all fun f => parsed.files.contains f)

/-- what property C02 takes from the directory walk (property C04) and from the parser, for one scan with the default
    options: external libraries excluded, no level limit, no external exclusions -/
structure ScanHyps (mt : Str → Str → Bool) (base root : Str) (mp : List Str) (entries : List Entry)
    (o : ScanOptions) : Prop where
  /-- default options -/
  excl : o.excludeExternal = true
  lim : o.levelLimit = none
  ext : o.externalExclusions.isEmpty = true
  /-- the root directory's name and the components of `module_path` are non-empty and dot-free -/
  rootWF : nameWF (root :: mp) = true
  /-- names of surviving entries are well-formed -/
  ownWF : ∀ n ∈ ownNames root (sentriesOf mt base entries o) mp, nameWF n = true
  /-- the directories between `module_path` and a surviving entry survive (C04: a directory tree) -/
  closed : ∀ n ∈ ownNames root (sentriesOf mt base entries o) mp, ∀ p ∈ properPrefixes n,
    desc (root :: mp) p = true → p ∈ ownNames root (sentriesOf mt base entries o) mp
  /-- the import statements are ones the CPython parser can produce -/
  stmts : ∀ e ∈ entries, ∀ st ∈ e.stmts, stmtOK (toSStmt st) = true
  /-- C04: the walk finds exactly the surviving entries … -/
  mods : ∀ s, s ∈ (scanParsed mt base root mp entries o).allModules ↔
    ∃ n ∈ ownNames root (sentriesOf mt base entries o) mp, s = render n
  /-- … and its files are exactly the surviving files, each with its statements -/
  files : ∀ f, f ∈ (scanParsed mt base root mp entries o).files ↔
    ∃ e ∈ entries, e.isDir = false ∧
      survives (sentriesOf mt base entries o) mp (toSEntry (isExcluded mt o.exclusions) base e) = true ∧
      f = (render (entryName root (toSEntry (isExcluded mt o.exclusions) base e)), e.stmts)

end Pta
