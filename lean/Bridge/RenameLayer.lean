/-
  Bridge.RenameLayer — renaming of node names lifted to the vocabulary of LAYER rules (layered architectures, layer
  mappings, layer verdicts with their tagged report items) and of DIAGRAM rules (parser results, diagram verdicts).
  Used by the layer / diagram part of property C14 (PtaProofs/Props/C14.lean, PtaProofs/Lemmas/RenameLayer.lean,
  PtaProofs/Lemmas/RenameDiagram.lean).
-/
import Bridge.Abs
import Bridge.Rename
import Bridge.LayerAbs
import Bridge.Diagram
import Bridge.OrderDefs
namespace Pta
open PtaSpec

/-! ### layer rules -/

/-- the layered architecture with every listed module identifier mapped (layer NAMES are kept) -/
def LArch.mapIds (φ : Str → Str) (a : LArch) : LArch := a.map fun l => (l.1, l.2.map (Filter.mapId φ))

/-- the layer mapping with every listed identifier mapped -/
def LayerMap.mapIds (φ : Str → Str) (m : LayerMap) : LayerMap := m.map fun l => (l.1, l.2.map φ)

/-- a report item of a layer rule with its module names mapped; the LAYER TAGS are kept. A "does not import" line of a
    layer rule names layers only, so it is left alone. -/
def LItem.mapId (φ : Str → Str) : LItem → LItem
  | .imp u v b t1 t2 => .imp (φ u) (φ v) b t1 t2
  | .miss any s os b => .miss any s os b

/-- the layer verdict with every module name in the report mapped (same class, same error kind, same layer tags) -/
def LVerdict.mapId (φ : Str → Str) : LVerdict → LVerdict
  | .pass => .pass
  | .fail items => .fail (items.map (LItem.mapId φ))
  | .err k => .err k

def LayerRuleState.mapId (φ : Str → Str) (s : LayerRuleState) : LayerRuleState :=
  ⟨s.arch.map (LArch.mapIds φ), s.rule.map (RuleState.mapId φ)⟩

/-- the module identifiers a layered architecture lists by name (what its layer mapping lists for a regex-free rule) -/
def LArch.listedIds (a : LArch) : List Str := a.flatMap fun l => (l.2.filter fun f => !f.isRegex).map Filter.id

/-- all names a graph mentions: its nodes and both ends of all its edges -/
def PGraph.names (g : PGraph Str) : List Str := g.nodes ++ g.edges.flatMap fun e => [e.src, e.dst]

/-- all identifiers a rule configuration mentions as subject or object -/
def RuleConfig.ids (c : RuleConfig) : List Str :=
  ((match c.subjects with | some l => l | none => []) ++ (match c.objects with | some l => l | none => [])).map Filter.id

/-- `φ` preserves the boundary-aware strict-sub-module test `isStrictSub x y` for `x ∈ xs`, `y ∈ ys` -/
def subOK (φ : Str → Str) (xs ys : List Str) : Prop :=
  ∀ x ∈ xs, ∀ y ∈ ys, isStrictSub (φ x) (φ y) = isStrictSub x y

/-- all module names occurring in a layer report -/
def LItem.names : LItem → List Str
  | .imp u v _ _ _ => [u, v]
  | .miss _ _ _ _ => []

def LVerdict.names : LVerdict → List Str
  | .fail items => items.flatMap LItem.names
  | _ => []

/-- the layer tags of a report, line by line -/
def LItem.tags : LItem → List (Option Str)
  | .imp _ _ _ t1 t2 => [t1, t2]
  | .miss _ s os _ => s :: os

def LVerdict.tags : LVerdict → List (Option Str)
  | .fail items => items.flatMap LItem.tags
  | _ => []

/-- renaming of the modules listed by resolved specification layers -/
def renLayers (ρ : Comp → Comp) (ls : Layers) : Layers := ls.map fun l => (l.1, l.2.map (renName ρ))

/-- all listed modules of the layers are well-formed names -/
def layersWF (ls : Layers) : Bool := ls.all fun l => l.2.all nameWF

/-! ### diagram rules -/

/-- the parser result with every component name mapped -/
def Parsed'.mapNames (φ : Str → Str) (p : Parsed') : Parsed' :=
  ⟨p.modules.map φ, p.dependencies.map fun kv => (φ kv.1, kv.2.map φ)⟩

def DVerdict.mapId (φ : Str → Str) : DVerdict → DVerdict
  | .pass => .pass
  | .fail items => .fail (items.map (Item.mapId φ))
  | .err k => .err k

/-- the generated rule `modules_that().are_named(s).should_not().import_modules_that().are_named(os)` -/
def shouldNotRule (s : Str) (os : List Str) : RuleState := mkRule false false true true false [.name s] (os.map .name)

/-- the same generated "should not" rule up to the order of its (non-empty) object list -/
def SNPerm (r r' : RuleState) : Prop :=
  ∃ s os os', os.Perm os' ∧ os ≠ [] ∧ r = shouldNotRule s os ∧ r' = shouldNotRule s os'

/-- two lists related element by element -/
inductive Forall2 {α β : Type} (R : α → β → Prop) : List α → List β → Prop
  | nil : Forall2 R [] []
  | cons {a b l l'} : R a b → Forall2 R l l' → Forall2 R (a :: l) (b :: l')

/-- all component names of a parser result -/
def Parsed'.names (p : Parsed') : List Str := p.modules ++ p.dependencies.flatMap fun kv => kv.1 :: kv.2

/-- renaming of a specification diagram -/
def renDiagram (ρ : Comp → Comp) (d : Diagram) : Diagram :=
  ⟨d.components.map (renName ρ), d.arrows.map fun e => (renName ρ e.1, renName ρ e.2)⟩

def specDiagramWF (d : Diagram) : Bool := d.components.all nameWF && d.arrows.all fun e => nameWF e.1 && nameWF e.2

end Pta
