/-
  Bridge.ScanMono — vocabulary of the file-level monotonicity theorems (property C12 on scanned trees,
  PtaProofs/Props/C12Scan.lean): a directory tree with one more import statement in one file, trees that differ by
  ADDED statements only, adding a finite set of import edges to a graph, and the order "same modules, same hierarchy,
  more imports" on graphs.
-/
import Bridge.Abs
import Bridge.ScanAbs
import Bridge.ScanTree
namespace Pta
open PtaSpec

/-- the file entry `e` with the statement `st` inserted at position `k` of its statement list (`k = 0`: first
    statement; `k ≥ |stmts|`: appended). The statement list is the list of ALL `Import` / `ImportFrom` nodes of the
    file at any depth, so an insertion inside a nested block is an insertion somewhere into this list. -/
def Entry.insertStmt (e : Entry) (k : Nat) (st : ImportStmt) : Entry :=
  { e with stmts := e.stmts.take k ++ st :: e.stmts.drop k }

/-- the tree `entries` with the statement `st` inserted at position `k` into the statement list of the `i`-th entry
    (unchanged when there is no `i`-th entry) -/
def addStmtAt : List Entry → Nat → Nat → ImportStmt → List Entry
  | [], _, _, _ => []
  | e :: es, 0, k, st => e.insertStmt k st :: es
  | e :: es, i + 1, k, st => e :: addStmtAt es i k st

/-- `e'` is `e` with possibly more import statements: same path, same kind, every statement of `e` is one of `e'` -/
structure Entry.MoreStmts (e e' : Entry) : Prop where
  rel : e.rel = e'.rel
  isDir : e.isDir = e'.isDir
  stmts : ∀ st ∈ e.stmts, st ∈ e'.stmts

/-- `entries'` is `entries` with import statements ADDED: entry by entry the same paths and kinds, and every statement
    of the old tree is still there (any number of statements may have been added, to any files, anywhere) -/
inductive MoreStmts : List Entry → List Entry → Prop
  | nil : MoreStmts [] []
  | cons {e e' : Entry} {es es' : List Entry} : e.MoreStmts e' → MoreStmts es es' → MoreStmts (e :: es) (e' :: es')

/-- the statement of module `importer` has no target: a relative import whose level reaches above the root directory
    (`level ≥ |importer|`; the importer `root.a.m` has three components, `from ... import x` has level 3), or the
    (unparseable) `from import x` with neither dots nor a module. The model raises a lookup error for exactly these
    (`RelativeImport._calculate_importee`: IndexError). -/
def aboveRoot (importer : Name) : SStmt → Bool
  | .imp _ => false
  | .impFrom m _ 0 => m.isNone
  | .impFrom _ _ (l + 1) => decide (importer.length ≤ l + 1)

/-- adding the import edges `ps` (in this order) to a graph: `addImportEdge` iterated -/
def addImportEdges (g : PGraph Str) (ps : List (Str × Str)) : PGraph Str :=
  ps.foldl (fun g p => addImportEdge g p.1 p.2) g

/-- `g'` has the modules and the hierarchy of `g` and at least its imports -/
structure GraphLe (g g' : PGraph Str) : Prop where
  nodes : ∀ s, s ∈ g.nodes ↔ s ∈ g'.nodes
  hier : ∀ s x, x ∈ g.hierChildren s ↔ x ∈ g'.hierChildren s
  succs : ∀ s x, x ∈ g.importSuccs s → x ∈ g'.importSuccs s
  preds : ∀ s x, x ∈ g.importPreds s → x ∈ g'.importPreds s

end Pta
