/-
  Bridge.ScanAst — abstraction of a file's AST node list (`AstNode`, raw dotted strings) to the specification's
  statement tree (`SNode`, component lists), as the driver's `handleScan` does it.
-/
import PtaModel
import PtaSpec
import Bridge.Abs
import Bridge.ScanAbs
namespace Pta
open PtaSpec

def toSKind : AstKind → SKind
  | .imp names => .imp (names.map splitDots)
  | .impFrom m names lvl => .impFrom (m.map splitDots) names lvl
  | .other _ => .other

/-- model node ↦ specification node: same position, same field; the class name of a non-import node is dropped -/
def toSNode (n : AstNode) : SNode := { path := n.path, field := n.field, kind := toSKind n.kind }

/-- the model's node list is a tree in the specification's sense -/
def astOK (nodes : List AstNode) : Bool := treeOK (nodes.map toSNode)

/-- a directory entry as the specification sees it when a file comes with its statement tree: the statements are
    all import nodes of the tree (`PtaSpec.allImports`) — no walk involved -/
def toSEntryAst (excl : Str → Bool) (base : Str) (e : Entry) : SEntry :=
  { toSEntry excl base e with stmts := allImports (e.tree.map toSNode) }

/-- the whole tree as the specification sees it: the root directory and every entry, files with their trees -/
def toSEntriesAst (excl : Str → Bool) (base : Str) (entries : List Entry) : List SEntry :=
  (rootEntry :: entries).map (toSEntryAst excl base)

end Pta
