/-
  Bridge.MessageAgg — vocabulary for the theorems about the aggregated diagram message (PtaModel/DiagramText.lean):
  views of a text verdict, the per-rule messages and the lines of the aggregated message as lists, the rules a diagram
  file generates. Used by Props/C07Text.lean and Props/C15Text.lean.
-/
import PtaModel
import PtaModel.DiagramText
import Bridge.Abs
import Bridge.Diagram
import Bridge.Message
namespace Pta

/-- the message lines of a text verdict (none unless it is a failure) -/
def TextVerdict.lines : TextVerdict → List Str
  | .fail ls => ls
  | _ => []

def TextVerdict.isFail : TextVerdict → Bool
  | .fail _ => true
  | _ => false

def TextVerdict.errKind : TextVerdict → Option ErrKind
  | .err k => some k
  | _ => none

/-- `e.args[0]` of the `AssertionError` a failing rule raises -/
def TextVerdict.msg? : TextVerdict → Option Str
  | .fail ls => some (messageText ls)
  | _ => none

def TextVerdict.cls : TextVerdict → VClass
  | .pass => .pass
  | .fail _ => .fail
  | .err k => .err k

def AggTextVerdict.cls : AggTextVerdict → VClass
  | .pass => .pass
  | .fail _ => .fail
  | .err k => .err k

/-- the text of the aggregated `AssertionError` (empty unless it is a failure) -/
def AggTextVerdict.text : AggTextVerdict → Str
  | .fail t => t
  | _ => []

/-- outcome of one rule on a graph, with the message text -/
def ruleText (mt : Str → Str → Bool) (g : PGraph Str) (r : RuleState) : TextVerdict := (assertAppliesText mt r g).2

/-- what `MultipleRuleApplier` does with the outcomes of its rules, in order -/
def aggOf (vs : List TextVerdict) : AggTextVerdict :=
  match vs.findSome? TextVerdict.errKind with
  | some k => .err k
  | none =>
    let msgs := vs.filterMap TextVerdict.msg?
    if !msgs.isEmpty then .fail (joinWith ['\n'] msgs) else .pass

/-- the messages of the failing rules, in rule order (the list `error_messages`) -/
def aggMessages (mt : Str → Str → Bool) (g : PGraph Str) (rules : List RuleState) : List Str :=
  (rules.filter fun r => (ruleText mt g r).isFail).map fun r => messageText (ruleText mt g r).lines

/-- the lines of the messages of the failing rules, in rule order -/
def aggLines (mt : Str → Str → Bool) (g : PGraph Str) (rules : List RuleState) : List Str :=
  (rules.filter fun r => (ruleText mt g r).isFail).flatMap fun r => (ruleText mt g r).lines

/-- the rules `DiagramRule.assert_applies` generates from a file (none if the file does not parse) -/
def diagramRulesOf (content : Str) (base : Option Str) (shouldOnly : Bool) : List RuleState :=
  match pumlParse content with
  | .error _ => []
  | .ok p => diagramRules shouldOnly (prefixParsed p base)

end Pta
