/-
  Bridge.ReportQueries — vocabulary for the statements about `does not import` / `is not imported by` lines of a report
  (Props/C03.lean, audit finding F10): the query the library asks for one (subject, object) pair of the rule, the query it
  asks for one subject of an `except` rule, and the filter a reported module denotes.
-/
import PtaModel
namespace Pta

/-- the filter a reported `Module` / `ModuleGroup` stands for (inverse of `Filter.toMod` on name and parent filters) -/
def Mod.toFilter (m : Mod) : Filter := if m.group then .parent m.id else .name m.id

/-- the imports that realise the pair (rule subject `s`, rule object `o`): `get_dependency_between_modules` after the
    `ModuleRequirement` swap (`dir = true`: the subject is the importer) -/
def pairQuery (g : PGraph Str) (dir : Bool) (s o : Filter) : Except ErrKind (List (Str × Str)) :=
  if dir then depBetween g s o else depBetween g o s

/-- the imports between the subject `s` and modules other than the rule objects `objs`
    (`any_dependency_to_module_other_than` / `any_other_dependency_to_module_than`) -/
def otherQuery (g : PGraph Str) (dir : Bool) (s : Filter) (objs : List Filter) : Except ErrKind (List (Str × Str)) :=
  if dir then otherFrom g s (dedup objs) else otherTo g (dedup objs) s

/-- "is a `does not import` line of kind `any` for subject `s`" -/
def Item.isMissFor (any : Bool) (s : Mod) : Item → Bool
  | .miss a s' _ _ => a == any && s' == s
  | .imp _ _ _ => false

end Pta
